/-
  Pod batch labels.

  Source (openkruise/rollouts):
    pkg/controller/batchrelease/labelpatch/patcher.go
        PatchPodBatchLabel, patchPodBatchLabel, calculatePlannedStepIncrements,
        calculateBatchReplicas
    pkg/controller/batchrelease/labelpatch/filter.go
        FilterPodsForUnorderedUpdate, FilterPodsForOrderedUpdate,
        sortPodsByOrdinal, getPodOrdinal
    pkg/util/pod_utils.go                       IsConsistentWithRevision
    pkg/controller/batchrelease/context/context.go   batchLabelSatisfied
    strconv.Atoi, strings.HasSuffix, strings.LastIndex, sort.Slice (modelled)

  Numbers are unbounded `Int`/`Nat` (int / int32 wrap-around is outside the model).
  Every place where the Go code indexes a slice is a partial operation here whose
  failure is the explicit outcome `.panic`.
-/
import RV.Model.Arith
namespace RV.LabelPatch
open RV.Arith

/-! ## Pods -/

/-- What `metav1.GetControllerOf(pod)` followed by `owner.Kind == "ReplicaSet"` sees. -/
inductive Owner where
  /-- no controller owner reference -/
  | none
  /-- controller owner of kind ReplicaSet, with its name and UID -/
  | rs (name uid : String)
  /-- controller owner of any other kind -/
  | other
  deriving Repr, DecidableEq, Inhabited

/-- A pod as the label patcher reads it.  A label is `none` when the key is absent. -/
structure Pod where
  name : String
  /-- `DeletionTimestamp` is set -/
  terminating : Bool
  /-- the pod is in `ctx.Pods` but no longer in the API server: `Patch` returns an error -/
  missing : Bool
  /-- label `pod-template-hash` -/
  tmplHash : Option String
  /-- label `controller-revision-hash` -/
  ctrlHash : Option String
  owner : Owner
  /-- label `rollouts.kruise.io/rollout-id` -/
  rolloutId : Option String
  /-- label `rollouts.kruise.io/rollout-batch-id` -/
  batchId : Option String
  /-- label `rollouts.kruise.io/no-need-update` -/
  noNeed : Option String
  deriving Repr, DecidableEq, Inhabited

/-- Go map read `labels[k]`: an absent key reads as `""`. -/
def lbl (v : Option String) : String := v.getD ""

/-- `strings.HasSuffix(s, suf)` -/
def hasSuffix (s suf : String) : Bool := suf.toList.isSuffixOf s.toList

/-- `util.IsConsistentWithRevision(labels, revision)` on the two labels it reads. -/
def consistent (tmplHash ctrlHash : Option String) (revision : String) : Bool :=
  (lbl tmplHash != "" && hasSuffix revision (lbl tmplHash)) ||
  (lbl ctrlHash != "" && hasSuffix revision (lbl ctrlHash))

/-! ## strconv.Atoi -/

def maxInt64 : Nat := 9223372036854775807

/-- a non-empty run of ASCII digits, read in base 10 (no underscores, no other characters) -/
def atoiDigits (ds : List Char) : Option Nat :=
  if ds.isEmpty || !ds.all Char.isDigit then none else some (Nat.ofDigitChars 10 ds 0)

/-- `strconv.Atoi(s)`: value and "err != nil".  A syntax error yields `0`; a range error
    yields the clamped value (that is what `ParseInt` returns next to `ErrRange`). -/
def atoiFull (s : String) : Int × Bool :=
  match s.toList with
  | '-' :: ds =>
    match atoiDigits ds with
    | none => (0, true)
    | some n => if n ≤ maxInt64 + 1 then (-(n : Int), false) else (-((maxInt64 : Int) + 1), true)
  | '+' :: ds =>
    match atoiDigits ds with
    | none => (0, true)
    | some n => if n ≤ maxInt64 then ((n : Int), false) else ((maxInt64 : Int), true)
  | ds =>
    match atoiDigits ds with
    | none => (0, true)
    | some n => if n ≤ maxInt64 then ((n : Int), false) else ((maxInt64 : Int), true)

/-- `v, err := strconv.Atoi(s)` with `err != nil ⇒ none`. -/
def atoi (s : String) : Option Int :=
  let r := atoiFull s
  if r.2 then none else some r.1

/-- `fmt.Sprintf("%d", n)` for a non-negative `n`. -/
def itoa (n : Nat) : String := toString n

/-! ## The plan -/

structure Cfg where
  /-- `ctx.RolloutID` -/
  rolloutId : String
  /-- `ctx.UpdateRevision` -/
  updateRevision : String
  /-- `r.batches[i].CanaryReplicas` -/
  batches : List IntOrPct
  /-- `ctx.Replicas` -/
  replicas : Int
  /-- `ctx.CurrentBatch` -/
  currentBatch : Int
  /-- `ctx.PlannedUpdatedReplicas` (filters only) -/
  plannedUpdated : Int := 0
  /-- `ctx.DesiredUpdatedReplicas` (unordered filter only) -/
  desiredUpdated : Int := 0
  /-- `ctx.DesiredPartition` (ordered filter only) -/
  desiredPartition : IntOrPct := .int 0
  deriving Repr, Inhabited

/-- `xs[i] = v` on a Go slice: `none` = index out of range. -/
def setAt (xs : List Int) (i : Nat) (v : Int) : Option (List Int) :=
  if i < xs.length then some (xs.set i v) else none

/-- `res[i] = calculateBatchReplicas(batches, replicas, i)` -/
def incrStep1 (batches : List IntOrPct) (replicas : Int) (res : List Int) (i : Nat) : Option (List Int) := do
  let b ← batches[i]?
  setAt res i (calcBatchReplicas replicas b)

/-- `res[i] -= res[i-1]` -/
def incrStep2 (res : List Int) (i : Nat) : Option (List Int) := do
  let a ← res[i]?
  let b ← res[i - 1]?
  setAt res i (a - b)

/-- `calculatePlannedStepIncrements(batches, replicas, currentBatch)`; `none` = index out of
    range (`currentBatch ≥ len(batches)`).
    ```
    res = make([]int, len(batches))
    for i := 0; i <= currentBatch; i++ { res[i] = calculateBatchReplicas(batches, replicas, i) }
    for i := currentBatch; i > 0; i-- { res[i] -= res[i-1] }
    ``` -/
def plannedIncrements (batches : List IntOrPct) (replicas currentBatch : Int) : Option (List Int) := do
  let res0 := List.replicate batches.length (0 : Int)
  -- i = 0, 1, …, currentBatch
  let res1 ← (List.range (currentBatch + 1).toNat).foldlM (incrStep1 batches replicas) res0
  -- i = currentBatch, …, 1
  ((List.range currentBatch.toNat).reverse.map (· + 1)).foldlM incrStep2 res1

/-! ## patchPodBatchLabel -/

/-- ReplicaSets in the API server: name ↦ `util.ComputeHash` of the pod template with the
    `pod-template-hash` label removed.  The hash function itself is opaque to the model. -/
structure Env where
  rsHash : List (String × String)
  deriving Repr, Inhabited

/-- One `Patch` call.  `batch = some b` : the patch sets rollout-id to `ctx.RolloutID` and
    batch-id to `"b"`; `hash = some h` : it sets `controller-revision-hash` to `h`.
    `idx` is the position of the pod in the list handed to `patchPodBatchLabel`. -/
structure Patch where
  idx : Nat
  batch : Option Nat
  hash : Option String
  deriving Repr, DecidableEq, Inhabited

/-- an entry of `updatedButUnpatchedPods`: the pod (by position; `missing` is all the loops
    read of it), with `podsToPatchControllerRevision[pod]` -/
structure Cand where
  idx : Nat
  missing : Bool
  hash : Option String
  deriving Repr, DecidableEq, Inhabited

/-- the state of the first loop -/
structure ScanSt where
  /-- `plannedUpdatedReplicasForBatches` -/
  planned : List Int
  /-- `updatedButUnpatchedPods`, **last appended first** (the second loop takes from the end) -/
  stack : List Cand
  /-- `revisionHashCache` : owner UID ↦ hash -/
  cache : List (String × String)
  /-- `podsToPatchControllerRevision` in insertion order (`hash = some _` in every entry) -/
  todo : List Cand
  deriving Repr, Inhabited

inductive ScanRes where
  | panic
  /-- `r.Get` of the owning ReplicaSet failed: `return err` before any patch -/
  | err
  | ok (st : ScanSt)
  deriving Repr, Inhabited

/-- The `if labels[controller-revision-hash] == ""` block: the effective
    `controller-revision-hash`, the cache afterwards and the hash recorded in
    `podsToPatchControllerRevision` (if any).  `none` = `r.Get` failed. -/
def resolve (env : Env) (cache : List (String × String)) (pod : Pod) :
    Option (Option String × List (String × String) × Option String) :=
  if lbl pod.ctrlHash != "" then some (pod.ctrlHash, cache, none) else
  match pod.owner with
  | .rs name uid =>
    match cache.lookup uid with
    | some h => some (some h, cache, some h)
    | none =>
      match env.rsHash.lookup name with
      | none => none
      | some h => some (some h, (uid, h) :: cache, some h)
  | _ => some (pod.ctrlHash, cache, none)

/-- `plannedUpdatedReplicasForBatches[k]--` : `none` = index out of range. -/
def decAt (xs : List Int) (k : Int) : Option (List Int) :=
  if k < 0 then none else
  match xs[k.toNat]? with
  | none => none
  | some v => some (xs.set k.toNat (v - 1))

/-- `podsToPatchControllerRevision[pod] = hash` when the look-up computed a hash -/
def pushTodo (todo : List Cand) (idx : Nat) (pod : Pod) : Option String → List Cand
  | some h => todo ++ [⟨idx, pod.missing, some h⟩]
  | none => todo

/-- body of the first loop of `patchPodBatchLabel` for the pod at position `idx` -/
def scanPod (env : Env) (cfg : Cfg) (st : ScanSt) (idx : Nat) (pod : Pod) : ScanRes :=
  if pod.terminating then .ok st else
  match resolve env st.cache pod with
  | none => .err
  | some (eff, cache', hp) =>
    let st := { st with cache := cache', todo := pushTodo st.todo idx pod hp }
    -- we don't patch label for the active old revision pod
    if !consistent pod.tmplHash eff cfg.updateRevision then .ok st else
    if lbl pod.rolloutId != cfg.rolloutId then
      .ok { st with stack := ⟨idx, pod.missing, hp⟩ :: st.stack } else
    match atoi (lbl pod.batchId) with
    | none => .ok st
    | some podBatchID =>
      -- fixes/C12-1.patch: a batch-id outside the plan is skipped, not used as an index
      if podBatchID < 1 || podBatchID > st.planned.length then .ok st else
      match decAt st.planned (podBatchID - 1) with
      | none => .panic
      | some planned' => .ok { st with planned := planned' }

/-- the first loop -/
def scan (env : Env) (cfg : Cfg) : ScanSt → Nat → List Pod → ScanRes
  | st, _, [] => .ok st
  | st, idx, pod :: rest =>
    match scanPod env cfg st idx pod with
    | .ok st' => scan env cfg st' (idx + 1) rest
    | r => r

inductive LoopExit where
  /-- the `for ; planned[i] > 0; planned[i]--` loop ran to its end -/
  | next
  /-- `len(updatedButUnpatchedPods) == 0` : `i = -1; break` -/
  | exhausted
  /-- `r.Patch` returned an error -/
  | err
  deriving Repr, DecidableEq, Inhabited

/-- inner loop for batch number `batchNo = i+1` with `budget = max 0 planned[i]` iterations left -/
def patchInner (batchNo : Nat) : Nat → List Cand → List Patch → List Patch × List Cand × LoopExit
  | 0, stack, acc => (acc, stack, .next)
  | _ + 1, [], acc => (acc, [], .exhausted)
  | n + 1, c :: rest, acc =>
    if c.missing then (acc, c :: rest, .err)
    else patchInner batchNo n rest (acc ++ [⟨c.idx, some batchNo, c.hash⟩])

/-- outer loop `for i := len-1; i >= 0; i--` over `planned` reversed (head = highest batch) -/
def patchOuter : List Int → List Cand → List Patch → List Patch × Bool
  | [], _, acc => (acc, false)
  | b :: bs, stack, acc =>
    match patchInner (bs.length + 1) b.toNat stack acc with
    | (acc', stack', .next) => patchOuter bs stack' acc'
    | (acc', _, .exhausted) => (acc', false)
    | (acc', _, .err) => (acc', true)

/-- third loop: `for pod, hash := range podsToPatchControllerRevision` (entries patched in the
    second loop were deleted from the map).  Go's map order is unspecified; the model takes
    insertion order. -/
def patchHashes : List Cand → List Patch → List Patch × Bool
  | [], acc => (acc, false)
  | c :: rest, acc =>
    if acc.any (fun p => p.idx == c.idx && p.batch.isSome) then patchHashes rest acc else
    if c.missing then (acc, true) else patchHashes rest (acc ++ [⟨c.idx, none, c.hash⟩])

inductive Outcome where
  | panic
  /-- returned (`err` = with an error) after issuing `patches` in this order -/
  | done (err : Bool) (patches : List Patch)
  deriving Repr, DecidableEq, Inhabited

/-- `(*realPatcher).patchPodBatchLabel(pods, ctx)` -/
def patchPodBatchLabel (env : Env) (cfg : Cfg) (pods : List Pod) : Outcome :=
  match plannedIncrements cfg.batches cfg.replicas cfg.currentBatch with
  | none => .panic
  | some planned =>
    match scan env cfg ⟨planned, [], [], []⟩ 0 pods with
    | .panic => .panic
    | .err => .done true []
    | .ok st =>
      match patchOuter st.planned.reverse st.stack [] with
      | (ps, true) => .done true ps
      | (ps, false) =>
        let (ps', e) := patchHashes st.todo ps
        .done e ps'

/-- effect of one patch on the pod it addresses -/
def applyPatch (rolloutId : String) (p : Patch) (pod : Pod) : Pod :=
  let pod := match p.batch with
    | some b => { pod with rolloutId := some rolloutId, batchId := some (itoa b) }
    | none => pod
  match p.hash with
  | some h => { pod with ctrlHash := some h }
  | none => pod

/-- the pods after the patches were applied one after the other -/
def applyPatches (rolloutId : String) (ps : List Patch) (pods : List Pod) : List Pod :=
  ps.foldl (fun pods p => pods.modify p.idx (applyPatch rolloutId p)) pods

/-! ## The resolved view of the pods (used to *state* the properties)

The first loop decides revision consistency on the pod's labels **after** it has filled in
`controller-revision-hash` from the owning ReplicaSet (cached per owner UID).  `resolvePods`
is that part of the loop alone: every pod with its effective `controller-revision-hash`. -/

/-- a pod together with the `controller-revision-hash` the first loop uses for it, and the
    hash it records for patching (`podsToPatchControllerRevision[pod]`) -/
structure RPod where
  pod : Pod
  eff : Option String
  hp : Option String
  deriving Repr, DecidableEq, Inhabited

/-- the ReplicaSet look-ups of the first loop, in order; `none` = some `r.Get` failed.
    Terminating pods are skipped by the loop before any look-up. -/
def resolvePods (env : Env) : List (String × String) → List Pod → Option (List RPod)
  | _, [] => some []
  | cache, p :: ps =>
    if p.terminating then (resolvePods env cache ps).map (⟨p, p.ctrlHash, none⟩ :: ·) else
    match resolve env cache p with
    | none => none
    | some (eff, cache', hp) => (resolvePods env cache' ps).map (⟨p, eff, hp⟩ :: ·)

/-! ## Filters -/

/-- `FilterPodsForUnorderedUpdate(pods, ctx)` -/
def filterUnordered (cfg : Cfg) (pods : List Pod) : List Pod :=
  let terminating := pods.filter (·.terminating)
  let live := pods.filter fun p =>
    !p.terminating && consistent p.tmplHash p.ctrlHash cfg.updateRevision
  let isLow := fun (p : Pod) => lbl p.noNeed == cfg.rolloutId && lbl p.rolloutId != cfg.rolloutId
  let low := live.filter isLow
  let high := live.filter (fun p => !isLow p)
  let noNeedUpdate : Int := low.length
  let needUpdate := cfg.desiredUpdated - noNeedUpdate
  if needUpdate ≤ 0 then pods else
  let diff := cfg.plannedUpdated - needUpdate
  if diff ≤ 0 then high ++ terminating else
  let lastIndex := min diff low.length
  high ++ low.take lastIndex.toNat ++ terminating

/-- `strings.LastIndex(name, "-")` -/
def lastDash (cs : List Char) : Option Nat :=
  match cs.reverse.findIdx? (· == '-') with
  | none => none
  | some k => some (cs.length - 1 - k)

/-- `strconv.Atoi(name[strings.LastIndex(name, "-"):])` (value only) as `sortPodsByOrdinal`
    reads it — the slice *includes* the dash; `none` = slice bounds out of range `[-1:]`. -/
def sortKey (name : String) : Option Int :=
  match lastDash name.toList with
  | none => none
  | some i => some (atoiFull (String.ofList (name.toList.drop i))).1

/-- `getPodOrdinal(pod)` : `strconv.Atoi(name[strings.LastIndex(name, "-")+1:])`, value only -/
def podOrdinal (name : String) : Int :=
  let i := match lastDash name.toList with
    | none => 0
    | some i => i + 1
  (atoiFull (String.ofList (name.toList.drop i))).1

/-- insertion of `x` behind every element that is not greater (`less(x, y) = key y > key x`) -/
def insertByKey (x : Pod × Int) : List (Pod × Int) → List (Pod × Int)
  | [] => [x]
  | y :: ys => if y.2 > x.2 then x :: y :: ys else y :: insertByKey x ys

/-- `sortPodsByOrdinal(pods)` : `sort.Slice` with `less(i,j) = key j > key i`; modelled as a
    stable sort.  With fewer than two pods `less` is never called.  `none` = panic. -/
def sortPods (pods : List Pod) : Option (List Pod) :=
  if pods.length < 2 then some pods else
  match pods.mapM (fun p => (sortKey p.name).map (fun k => (p, k))) with
  | none => none
  | some keyed => some ((keyed.foldl (fun acc x => insertByKey x acc) []).map (·.1))

/-- `FilterPodsForOrderedUpdate(pods, ctx)`; `none` = panic. -/
def filterOrdered (cfg : Cfg) (pods : List Pod) : Option (List Pod) :=
  match sortPods pods with
  | none => none
  | some pods =>
    let partition := scaledV cfg.desiredPartition cfg.replicas true
    let terminating := pods.filter (·.terminating)
    let live := pods.filter fun p =>
      !p.terminating && consistent p.tmplHash p.ctrlHash cfg.updateRevision
    let high := live.filter (fun p => podOrdinal p.name ≥ partition)
    let low := live.filter (fun p => !(podOrdinal p.name ≥ partition))
    let needUpdate := cfg.replicas - partition
    if needUpdate ≤ 0 then some pods else
    let diff := cfg.plannedUpdated - needUpdate
    if diff ≤ 0 then some (high ++ terminating) else
    let lastIndex := min diff low.length
    some (high ++ low.take lastIndex.toNat ++ terminating)

inductive FilterKind where
  | none | unordered | ordered
  deriving Repr, DecidableEq, Inhabited

/-- `ctx.FilterFunc(pods, ctx)`; `none` = panic -/
def applyFilter (k : FilterKind) (cfg : Cfg) (pods : List Pod) : Option (List Pod) :=
  match k with
  | .none => some pods
  | .unordered => some (filterUnordered cfg pods)
  | .ordered => filterOrdered cfg pods

/-- `(*realPatcher).PatchPodBatchLabel(ctx)`.  Result: the list handed to
    `patchPodBatchLabel` (the positions in the patches refer to it) and the outcome. -/
def patchTop (env : Env) (k : FilterKind) (cfg : Cfg) (pods : List Pod) : List Pod × Outcome :=
  if cfg.rolloutId == "" || pods.isEmpty then (pods, .done false []) else
  match applyFilter k cfg pods with
  | none => (pods, .panic)
  | some fp => (fp, patchPodBatchLabel env cfg fp)

/-- `batchLabelSatisfied(pods, rolloutID, targetCount)` -/
def batchLabelSatisfied (pods : List Pod) (rolloutId : String) (target : Int) : Bool :=
  if rolloutId == "" || pods.isEmpty then true else
  let patched := pods.countP fun p => !p.terminating && lbl p.rolloutId == rolloutId
  decide ((patched : Int) ≥ target)

end RV.LabelPatch
