/-
  The blue-green control planes of the BatchRelease controller (Deployment and CloneSet)
  and the HPA helper: one `Initialize` / `UpgradeBatch` / `Finalize` call of a freshly built
  control plane (the executor builds a new one in every reconcile) against an abstract
  object store, with API faults.

  Source:
    pkg/controller/batchrelease/control/bluegreenstyle/control_plane.go     Initialize, UpgradeBatch, Finalize
    pkg/controller/batchrelease/control/bluegreenstyle/deployment/control.go
        BuildController, Initialize, patchStableRSMinReadySeconds, patchDeployment, CalculateBatchContext,
        UpgradeBatch, Finalize, restored, waitAllUpdatedAndReady
    pkg/controller/batchrelease/control/bluegreenstyle/cloneset/control.go
        BuildController, Initialize, CalculateBatchContext, UpgradeBatch, Finalize, restored
    pkg/controller/batchrelease/control/bluegreenstyle/hpa/hpa.go
        DisableHPA, RestoreHPA, lookupHPAForWorkload, findHPA, scaleTargetRefOf, addSuffix, removeSuffix
    pkg/controller/batchrelease/control/util.go
        IsControlledByBatchRelease, ValidateReadyForBlueGreenRelease, GetOriginalSetting, InitOriginalSetting
    pkg/util/workloads_utils.go     DeploymentMaxUnavailable, resolveFenceposts
    pkg/util/controller_finder.go   GetDeploymentStableRs
    pkg/util/patch/patch_utils.go   DeploymentPatch (strategic merge), ClonesetPatch (merge)

  Abstractions: the workload's name, namespace, pod template and revisions are fixed; the
  annotation `rollouts.kruise.io/original-deployment-strategy` is kept parsed (`Saved`); the
  control-info annotation is kept as the UID it names (`Ctl`); an HPA is kept as what `findHPA`
  reads of its `scaleTargetRef`; numbers are unbounded `Int`.
-/
import RV.Model.Arith
import RV.Model.BatchCtx
namespace RV.CtlBlueGreen
open RV.Arith IntOrPct
open RV.BatchCtx (normSurge)

/-- `v1beta1.MaxReadySeconds` -/
def maxReady : Int := 2147483646
/-- `v1beta1.MaxProgressSeconds` -/
def maxProgress : Int := 2147483647

inductive Kind where
  | deployment | cloneSet
  deriving Repr, DecidableEq, Inhabited

/-- `spec.strategy.type` (Deployment) / `spec.updateStrategy.type` (CloneSet) as the code compares it:
    empty, the type blue-green needs (`RollingUpdate` resp. `ReCreate`), or anything else. -/
inductive SType where
  | empty | expected | other
  deriving Repr, DecidableEq, Inhabited

/-- `control.OriginalDeploymentStrategy` -/
structure Setting where
  maxUnavailable : Option IntOrPct
  maxSurge : Option IntOrPct
  minReadySeconds : Int
  progressDeadlineSeconds : Option Int
  deriving Repr, DecidableEq, Inhabited

/-- the annotation `rollouts.kruise.io/original-deployment-strategy`: absent or empty, not JSON, or parsed -/
inductive Saved where
  | none | bad | some (s : Setting)
  deriving Repr, DecidableEq, Inhabited

/-- Deployment `spec.strategy.rollingUpdate` / CloneSet `spec.updateStrategy.{maxSurge,maxUnavailable}` -/
structure RU where
  maxSurge : Option IntOrPct
  maxUnavailable : Option IntOrPct
  deriving Repr, DecidableEq, Inhabited

structure Status where
  replicas : Int
  ready : Int
  updated : Int
  available : Int
  updatedReady : Int
  deriving Repr, DecidableEq, Inhabited

/-- the annotation `batchrelease.rollouts.kruise.io/control-info`: absent/empty, a non-empty value that
    is not an owner reference, or the reference of the BatchRelease with UID `u` -/
inductive Ctl where
  | none | garbage | uid (u : Nat)
  deriving Repr, DecidableEq, Inhabited

structure Workload where
  replicas : Option Int               -- `*spec.replicas`; `none` = nil pointer
  deleting : Bool
  paused : Bool
  minReadySeconds : Int
  progressDeadlineSeconds : Option Int  -- Deployment only
  stype : SType
  ru : Option RU                       -- Deployment: `none` = `rollingUpdate` absent; CloneSet: always `some`
  partition : Option IntOrPct          -- CloneSet only
  saved : Saved
  ctl : Ctl
  stableLabel : Bool                   -- Deployment only: label `rollouts.kruise.io/stable-revision`
  status : Status
  deriving Repr, DecidableEq, Inhabited

/-- a ReplicaSet owned by the Deployment (the list is ordered by creation time, oldest first) -/
structure RS where
  zero : Bool          -- `spec.replicas == 0`
  mrs : Int            -- `spec.minReadySeconds`
  deriving Repr, DecidableEq, Inhabited

/-- `scaleTargetRef.apiVersion`: absent (the field is optional), the workload's, another -/
inductive AV where
  | absent | same | other
  deriving Repr, DecidableEq, Inhabited

/-- a HorizontalPodAutoscaler of the namespace as `findHPA` reads it -/
structure HPA where
  av : AV
  kindSame : Bool
  /-- `none`: names another workload; `some k`: the workload's name followed by `k` copies of `-DisableByRollout` -/
  name : Option Nat
  deriving Repr, DecidableEq, Inhabited

/-- the object store (the two HPA lists are what a List of `autoscaling/v2` resp. `autoscaling/v1` returns, in name order) -/
structure World where
  wl : Option Workload
  rss : List RS
  hpaV2 : List HPA
  hpaV1 : List HPA
  deriving Repr, DecidableEq, Inhabited

/-- the fields of the BatchRelease the three calls read -/
structure BR where
  uid : Nat
  batches : List IntOrPct
  currentBatch : Int
  partitioned : Bool            -- `spec.releasePlan.batchPartition != nil`
  deriving Repr, DecidableEq, Inhabited

/-- API faults of one call: the `write`-th (0-based) mutating call fails (the call returns at its first
    failed write), the Get of the workload fails, the List of HPAs of a version fails. -/
structure Fault where
  write : Option Nat
  get : Bool
  listV2 : Bool
  listV1 : Bool
  deriving Repr, DecidableEq, Inhabited

def noFault : Fault := { write := none, get := false, listV2 := false, listV1 := false }

inductive Res where
  | ok | retry | badRequest | notFound | err
  deriving Repr, DecidableEq, Inhabited

inductive Out (α : Type) where
  | val (a : α)
  | panic
  deriving Repr

structure CallOut where
  world : World
  res : Res
  writes : Nat                  -- successful mutating calls
  observed : Option Int         -- `newStatus.ObservedWorkloadReplicas` when `Initialize` recorded it
  deriving Repr, DecidableEq

/-- may the write with index `n` (= number of writes already done) succeed? -/
def canWrite (f : Fault) (n : Nat) : Bool :=
  match f.write with
  | none => true
  | some k => decide (n < k)

/-! ### hpa.go -/

/-- a lookup that can fail with an API error -/
inductive Lk (α : Type) where
  | val (a : α)
  | err
  deriving Repr

/-- the match condition of `findHPA` (`scaleTargetRefOf` reads an absent `apiVersion` as `""`, which never equals
    the workload's group/version) -/
def hpaMatches (h : HPA) : Bool := h.av = .same && h.kindSame && h.name.isSome

/-- `findHPA` over the items of one version: the number of suffixes of the first matching item -/
def findIn : List HPA → Option Nat
  | [] => none
  | h :: t => if hpaMatches h then h.name else findIn t

/-- the merge patch of `scaleTargetRef.name` on the first matching item -/
def setFirst (k : Nat) : List HPA → List HPA
  | [] => []
  | h :: t => if hpaMatches h then { h with name := some k } :: t else h :: setFirst k t

inductive Ver where
  | v2 | v1
  deriving Repr, DecidableEq

/-- one `findHPA(cli, object, version)`: a failed List is an error (only "this API version is not served" would
    count as "no HPA"; the fault model injects other errors) -/
def findVer (l : List HPA) (listFails : Bool) : Lk (Option Nat) :=
  if listFails then .err else .val (findIn l)

/-- `lookupHPAForWorkload`: `v2` first (an error there ends the lookup), then `v1` -/
def findHPA (w : World) (f : Fault) : Lk (Option (Ver × Nat)) :=
  match findVer w.hpaV2 f.listV2 with
  | .err => .err
  | .val (some k) => .val (some (.v2, k))
  | .val none =>
    match findVer w.hpaV1 f.listV1 with
    | .err => .err
    | .val (some k) => .val (some (.v1, k))
    | .val none => .val none

def setHPA (w : World) (v : Ver) (k : Nat) : World :=
  match v with
  | .v2 => { w with hpaV2 := setFirst k w.hpaV2 }
  | .v1 => { w with hpaV1 := setFirst k w.hpaV1 }

/-- `DisableHPA`: world, success, writes done -/
def disableHPA (w : World) (f : Fault) (n : Nat) : World × Bool × Nat :=
  match findHPA w f with
  | .err => (w, false, n)
  | .val none => (w, true, n)
  | .val (some (v, k)) =>
    if k ≠ 0 then (w, true, n)                 -- already carries the suffix
    else if canWrite f n then (setHPA w v 1, true, n + 1)
    else (w, false, n)

/-- `RestoreHPA` (`removeSuffix` strips every copy of the suffix) -/
def restoreHPA (w : World) (f : Fault) (n : Nat) : World × Bool × Nat :=
  match findHPA w f with
  | .err => (w, false, n)
  | .val none => (w, true, n)
  | .val (some (v, k)) =>
    if k = 0 then (w, true, n)
    else if canWrite f n then (setHPA w v 0, true, n + 1)
    else (w, false, n)

/-! ### control/util.go -/

/-- `IsControlledByBatchRelease` (no owner reference names a BatchRelease) -/
def controlled (br : BR) (wl : Workload) : Bool := wl.ctl = .uid br.uid

def emptySetting : Setting :=
  { maxUnavailable := none, maxSurge := none, minReadySeconds := 0, progressDeadlineSeconds := none }

/-- `GetOriginalSetting`; `none` = the annotation does not parse -/
def getSetting : Saved → Option Setting
  | .none => some emptySetting
  | .bad => none
  | .some s => some s

def ruSurge (ru : Option RU) : Option IntOrPct := ru.bind (·.maxSurge)
def ruUnavailable (ru : Option RU) : Option IntOrPct := ru.bind (·.maxUnavailable)

/-- `nothingSaved` of `InitOriginalSetting`: `minReadySeconds` has no "unset" value, it is taken from the object only
    when neither `maxSurge` nor `maxUnavailable` has been saved -/
def nothingSaved (s : Setting) : Bool := s.maxSurge.isNone && s.maxUnavailable.isNone

/-- `InitOriginalSetting` -/
def initSetting (kind : Kind) (s : Setting) (wl : Workload) : Setting :=
  match kind with
  | .deployment =>
    { maxSurge := match s.maxSurge with
        | some v => some v
        | none => some ((ruSurge wl.ru).getD (pct 25)),
      maxUnavailable := match s.maxUnavailable with
        | some v => some v
        | none => some ((ruUnavailable wl.ru).getD (pct 25)),
      progressDeadlineSeconds := match s.progressDeadlineSeconds with
        | some v => some v
        | none => some (wl.progressDeadlineSeconds.getD 600),
      minReadySeconds := if s.minReadySeconds = 0 ∧ nothingSaved s then wl.minReadySeconds else s.minReadySeconds }
  | .cloneSet =>
    { maxSurge := match s.maxSurge with
        | some v => some v
        | none => some ((ruSurge wl.ru).getD (pct 0)),
      maxUnavailable := match s.maxUnavailable with
        | some v => some v
        | none => some ((ruUnavailable wl.ru).getD (pct 20)),
      progressDeadlineSeconds := s.progressDeadlineSeconds,
      minReadySeconds := if s.minReadySeconds = 0 ∧ nothingSaved s then wl.minReadySeconds else s.minReadySeconds }

/-- `ValidateReadyForBlueGreenRelease` returns nil -/
def validate (kind : Kind) (wl : Workload) : Bool :=
  match kind with
  | .deployment =>
    wl.ctl ≠ .none && wl.stype ≠ .other && wl.ru.isSome &&
    decide (wl.minReadySeconds = maxReady) && wl.progressDeadlineSeconds = some maxProgress
  | .cloneSet =>
    wl.ctl ≠ .none && wl.stype ≠ .other && decide (wl.minReadySeconds = maxReady)

/-! ### the patches -/

/-- the patch of `patchDeployment` / CloneSet `Initialize` -/
def initPatch (kind : Kind) (br : BR) (s : Setting) (wl : Workload) : Workload :=
  match kind with
  | .deployment =>
    { wl with saved := .some s, ctl := .uid br.uid, stype := .expected,
              ru := some { maxSurge := some (int 1), maxUnavailable := some (int 0) },
              minReadySeconds := maxReady, progressDeadlineSeconds := some maxProgress }
  | .cloneSet =>
    { wl with saved := .some s, ctl := .uid br.uid, paused := false,
              ru := some { maxSurge := some (int 1), maxUnavailable := some (int 0) },
              minReadySeconds := maxReady }

/-- the patch of `UpgradeBatch` -/
def upgradePatch (kind : Kind) (e : IntOrPct) (wl : Workload) : Workload :=
  match kind with
  | .deployment =>
    { wl with paused := false, stype := .expected,
              ru := some { maxSurge := some e, maxUnavailable := some (int 0) } }
  | .cloneSet =>
    { wl with partition := none,
              ru := some { maxSurge := some e, maxUnavailable := ruUnavailable wl.ru } }

/-- the restoring patch of `Finalize`.  The Deployment control keeps the saved-settings annotation (it is removed by a
    second patch once the wait has passed and the HPA is restored); the CloneSet control removes it here. -/
def finalizePatch (kind : Kind) (s : Setting) (wl : Workload) : Workload :=
  match kind with
  | .deployment =>
    { wl with paused := false, minReadySeconds := s.minReadySeconds,
              progressDeadlineSeconds := s.progressDeadlineSeconds,
              ru := some { maxSurge := s.maxSurge, maxUnavailable := s.maxUnavailable },
              ctl := .none, stableLabel := false }
  | .cloneSet =>
    { wl with minReadySeconds := s.minReadySeconds,
              ru := some { maxSurge := s.maxSurge, maxUnavailable := s.maxUnavailable },
              saved := .none, ctl := .none }

/-- the last patch of the Deployment `Finalize`: "all done: only now forget the original setting" -/
def forget (w : World) : World :=
  { w with wl := w.wl.map (fun wl => { wl with saved := .none }) }

/-! ### deployment/control.go -/

/-- `GetDeploymentStableRs` + the merge patch of `patchStableRSMinReadySeconds`:
    the oldest owned ReplicaSet with `replicas != 0` gets `minReadySeconds = MaxReadySeconds` -/
def patchFirstRS : List RS → List RS
  | [] => []
  | r :: t => if r.zero then r :: patchFirstRS t else { r with mrs := maxReady } :: t

def hasStableRS (l : List RS) : Bool := l.any (fun r => !r.zero)

/-- `patchStableRSMinReadySeconds`: world, success, writes done -/
def patchStableRS (w : World) (f : Fault) (n : Nat) : World × Bool × Nat :=
  if hasStableRS w.rss then
    if canWrite f n then ({ w with rss := patchFirstRS w.rss }, true, n + 1) else (w, false, n)
  else (w, true, n)

/-- the second step of `Initialize`: only the Deployment control patches a stable ReplicaSet -/
def stableRSStep (kind : Kind) (w : World) (f : Fault) (n : Nat) : World × Bool × Nat :=
  match kind with
  | .deployment => patchStableRS w f n
  | .cloneSet => (w, true, n)

/-- `util.DeploymentMaxUnavailable` -/
def deployMaxUnavailable (d : Workload) : Out Int :=
  if d.stype ≠ .expected then .val 0 else
  match d.replicas with
  | none => .panic
  | some R =>
    if R = 0 then .val 0 else
    match d.ru with
    | none => .panic                                   -- `strategy.RollingUpdate.MaxSurge` on a nil pointer
    | some ru =>
      match resolveFenceposts ru.maxSurge ru.maxUnavailable R with
      | none => .val 0
      | some (_, u) => .val (if u > R then R else u)

/-- `waitAllUpdatedAndReady` returns nil -/
def waitAllUpdatedAndReady (d : Workload) : Out Bool :=
  if d.paused then .val false
  else if d.status.ready ≠ d.status.updated then .val false
  else
    match deployMaxUnavailable d with
    | .panic => .panic
    | .val mu => .val (!decide (mu + d.status.available < d.status.replicas))

/-- `util.GetEmptyObjectWithKey(rc.object)` before any response was decoded into it -/
def emptyDeployment : Workload :=
  { replicas := none, deleting := false, paused := false, minReadySeconds := 0, progressDeadlineSeconds := none,
    stype := .empty, ru := none, partition := none, saved := .none, ctl := .none, stableLabel := false,
    status := { replicas := 0, ready := 0, updated := 0, available := 0, updatedReady := 0 } }

/-- `restored()` (the object exists here) -/
def restored (wl : Workload) : Bool := wl.deleting || wl.saved = .none

/-- the current surge `CalculateBatchContext` reports (`1` is the initial value and counts as `0`) -/
def curSurge (wl : Workload) : IntOrPct :=
  match ruSurge wl.ru with
  | some s => normSurge s
  | none => int 0

/-! ### the three calls of the control plane -/

/-- `realBatchControlPlane.Initialize` -/
def cpInitialize (kind : Kind) (w : World) (br : BR) (f : Fault) : Out CallOut :=
  if f.get then .val ⟨w, .err, 0, none⟩ else
  match w.wl with
  | none => .val ⟨w, .notFound, 0, none⟩
  | some wl =>
    match wl.replicas with
    | none => .panic                                   -- `ParseWorkload` → `GetReplicas`
    | some R =>
      if controlled br wl then .val ⟨w, .ok, 0, some R⟩ else
      match disableHPA w f 0 with
      | (w1, false, n) => .val ⟨w1, .err, n, none⟩
      | (w1, true, n) =>
        match stableRSStep kind w1 f n with
        | (w2, false, n2) => .val ⟨w2, .err, n2, none⟩
        | (w2, true, n2) =>
          match getSetting wl.saved with
          | none => .val ⟨w2, .badRequest, n2, none⟩
          | some s =>
            if canWrite f n2 then
              .val ⟨{ w2 with wl := some (initPatch kind br (initSetting kind s wl) wl) }, .ok, n2 + 1, some R⟩
            else .val ⟨w2, .err, n2, none⟩

/-- `release.Spec.ReleasePlan.Batches[currentBatch]` -/
def entryOf (br : BR) : Option IntOrPct :=
  if br.currentBatch < 0 then none else br.batches[br.currentBatch.toNat]?

/-- `realBatchControlPlane.UpgradeBatch` -/
def cpUpgradeBatch (kind : Kind) (w : World) (br : BR) (f : Fault) : Out CallOut :=
  if f.get then .val ⟨w, .err, 0, none⟩ else
  match w.wl with
  | none => .val ⟨w, .notFound, 0, none⟩
  | some wl =>
    match wl.replicas with
    | none => .panic
    | some R =>
      if R = 0 then .val ⟨w, .ok, 0, none⟩ else
      match entryOf br with
      | none => .panic                                 -- index out of range in `CalculateBatchContext`
      | some e =>
        if ¬ validate kind wl then .val ⟨w, .badRequest, 0, none⟩
        else if scaledV (curSurge wl) R true ≥ scaledV e R true then .val ⟨w, .ok, 0, none⟩
        else if canWrite f 0 then .val ⟨{ w with wl := some (upgradePatch kind e wl) }, .ok, 1, none⟩
        else .val ⟨w, .err, 0, none⟩

/-- the tail of both `Finalize`s: `RestoreHPA` -/
def finishHPA (w : World) (f : Fault) (n : Nat) : CallOut :=
  match restoreHPA w f n with
  | (w', true, n') => ⟨w', .ok, n', none⟩
  | (w', false, n') => ⟨w', .err, n', none⟩

/-- the wait of `Finalize`: the Deployment control evaluates `waitAllUpdatedAndReady` on `d` (the object the patch
    response was decoded into, or still empty); the CloneSet control compares the status of the object it read
    when it was built -/
def waitStep (kind : Kind) (wl d : Workload) : Out Bool :=
  match kind with
  | .deployment => waitAllUpdatedAndReady d
  | .cloneSet => .val (decide (wl.status.ready = wl.status.updatedReady))

/-- the tail of both `Finalize`s once the settings are restored (world `w1`, `n` writes done): wait, then `RestoreHPA` -/
def finishWait (kind : Kind) (wl d : Workload) (w1 : World) (f : Fault) (n : Nat) : Out CallOut :=
  match waitStep kind wl d with
  | .panic => .panic
  | .val false => .val ⟨w1, .retry, n, none⟩
  | .val true => .val (finishHPA w1 f n)

/-- after a restoring patch: the Deployment control, once `RestoreHPA` has succeeded, removes the saved-settings
    annotation with a second patch; the CloneSet control is done -/
def finishForget (kind : Kind) (f : Fault) (o : CallOut) : CallOut :=
  match kind with
  | .cloneSet => o
  | .deployment =>
    if o.res = .ok then
      if canWrite f o.writes then ⟨forget o.world, .ok, o.writes + 1, none⟩ else ⟨o.world, .err, o.writes, none⟩
    else o

/-- `realBatchControlPlane.Finalize` -/
def cpFinalize (kind : Kind) (w : World) (br : BR) (f : Fault) : Out CallOut :=
  if f.get then .val ⟨w, .err, 0, none⟩ else
  match w.wl with
  | none => .val ⟨w, .ok, 0, none⟩                    -- `client.IgnoreNotFound`
  | some wl =>
    match wl.replicas with
    | none => .panic
    | some _ =>
      if br.partitioned then .val ⟨w, .ok, 0, none⟩ else   -- "continuous release is not supported yet"
      if restored wl then
        -- no patch; the Deployment's `d` is still the empty object
        finishWait kind wl emptyDeployment w f 0
      else
        match getSetting wl.saved with
        | none => .val ⟨w, .err, 0, none⟩
        | some s =>
          if ¬ canWrite f 0 then .val ⟨w, .err, 0, none⟩ else
          -- the Deployment's `d` now holds the patched object as the API server returned it
          match finishWait kind wl (finalizePatch kind s wl) { w with wl := some (finalizePatch kind s wl) } f 1 with
          | .panic => .panic
          | .val o => .val (finishForget kind f o)

inductive Op where
  | init | upgrade | fin
  deriving Repr, DecidableEq, Inhabited

def call (kind : Kind) (op : Op) (w : World) (br : BR) (f : Fault) : Out CallOut :=
  match op with
  | .init => cpInitialize kind w br f
  | .upgrade => cpUpgradeBatch kind w br f
  | .fin => cpFinalize kind w br f

end RV.CtlBlueGreen
