/-
  The closed loop extended by the user event **rollback**: the pod template is reverted to the revision all stable pods
  still run (the CloneSet's current revision) while a release is under way.

  `RV.ClosedLoop.releaseWl rev` with `rev = currentRevision` followed by `envWl` never shows the Rollout controller a rollback:
  the simulated CloneSet controller of `RV.ClosedLoop` observes the new generation and reports every pod updated in one atomic
  round, so `Workload.IsInRollback` (consistent status ∧ update revision = current revision ∧ updated ≠ replicas) is never
  true when a reconcile looks.  A real CloneSet controller observes the reverted template at once — update revision = current
  revision, `updatedReplicas` = the pods that never left it — and replaces the pods of the abandoned revision only as far as
  the partition (100 %, set by the workload webhook) allows, i.e. not at all.  `rollbackWl` is that observation.

  Source: `harness/suite_closedloop.go` (`clSim.rollback`); pkg/util/controller_finder.go getKruiseCloneSet (`IsInRollback`).
-/
import RV.Model.ClosedLoop
namespace RV.ClosedLoop

/-- the user reverts the pod template to the current (stable) revision and the CloneSet controller has observed it: held back
    by the webhook (partition 100 %, in-progress annotation), update revision = current revision, the pods of the abandoned
    revision (`w.updated` of them) are no longer "updated" -/
def rollbackWl (w : CWl) : CWl :=
  { w with generation := w.generation + 1, observedGeneration := w.generation + 1, inProgressAnno := true,
           partition := some (.pct 100), paused := false, updateRevision := w.currentRevision,
           updated := w.replicas - w.updated, updatedReady := w.replicas - w.updated }

/-- the labels of the extended loop -/
inductive LabelX where
  | base (l : Label)
  | rollback
  deriving Repr, DecidableEq, Inhabited

/-- the extended transition function: a rollback is possible while the CloneSet is between two revisions -/
def stepX (s : CS) : LabelX → Option CS
  | .base l => step s l
  | .rollback => some { s with wl := s.wl.map fun w => if w.updateRevision = w.currentRevision then w else rollbackWl w }

def runX (s : CS) : List LabelX → Option CS
  | [] => some s
  | l :: ls => match stepX s l with
    | none => none
    | some s' => runX s' ls

end RV.ClosedLoop
