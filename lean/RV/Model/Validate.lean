/-
  Rollout validating webhook (v1beta1 and v1alpha1), transcribed function by
  function.

  Source:
    pkg/webhook/rollout/validating/rollout_create_update_handler.go
        Handle, validateRolloutUpdate, validateRollout, validateRolloutConflict,
        validateRolloutSpec, validateRolloutSpecObjectRef, validateRolloutSpecStrategy,
        validateRolloutSpecCanaryStrategy, validateRolloutSpecBlueGreenStrategy,
        validateRolloutSpecCanaryTraffic, validateRolloutSpecCanarySteps,
        IsPercentageCanaryReplicasType, IsSameWorkloadRefGVKName,
        GetContextFromv1beta1Rollout
    pkg/webhook/rollout/validating/validate_v1alphal_rollout.go   (the v1alpha1 variants)
    api/v1beta1/rollout_types.go   GetRollingStyle, IsRealPartition, GetSteps, GetTrafficRouting
    pkg/util/workloads_utils.go    IsSupportedWorkload (feature filter on = default)
    k8s.io/apimachinery schema.FromAPIVersionAndKind / ParseGroupVersion (group part)

  Conventions:
  * a Go pointer / optional block is an `Option`; a Go slice whose nil-ness the
    code observes (`== nil`, `reflect.DeepEqual`) is an `Option (List _)`
    (`none` = nil, `some []` = empty non-nil, what JSON `[]` decodes to);
  * every function that dereferences a pointer returns `Option _` where `none`
    is the explicit *panic* outcome (never a defaulted value);
  * errors are an enum (`Err`); the texts are not modelled.  A `field.ErrorList`
    is a `List Err`; "denied" = the list is non-empty.
  * integers are unbounded (`int32` wrap-around is outside the model).
-/
import RV.Model.Arith
namespace RV.Validate
open RV.Arith

/-- `ObjectRef` / `WorkloadRef` / `CustomNetworkRef`: three strings. -/
structure Ref where
  apiVersion : String
  kind : String
  name : String
  deriving DecidableEq, Repr, Inhabited

/-- error classes (one per `field.Invalid/Forbidden/InternalError` call site, same sites of the
    two API versions merged) -/
inductive Err where
  | refRequired | refKind | refKindBG
  | stratEmpty | stratBoth | canaryNil | styleAnno
  | stepsEmpty | replicasNil | stepBothNil | replicasBad
  | partLimit | partLimitWeight | weightBad
  | trafficBG | trafficCanary | nonDecr | weightDecr
  | trMany | trGrace | trService | trUnset | trIngress | trGateway
  | conflict | internal | decode
  | immutRef | immutTR | immutStyle | immutSteps
  deriving DecidableEq, Repr, Inhabited

/-- `validateContext.style`: `""`, `"Canary"`, `"Partition"`, `"BlueGreen"` -/
inductive Style where
  | none | canary | partition | blueGreen
  deriving DecidableEq, Repr, Inhabited

/-- one `CanaryStep` (fields of both API versions; `traffic` is v1beta1, `weight` is v1alpha1) -/
structure Step where
  replicas : Option IntOrPct := none
  /-- v1beta1 `traffic *string`, read through `intstr.FromString`: `pct n` or `bad` -/
  traffic : Option IntOrPct := none
  /-- v1alpha1 `weight *int32` -/
  weight : Option Int := none
  /-- `matches`: `none` = nil slice, `some n` = a slice of `n` entries -/
  mts : Option Nat := none
  deriving DecidableEq, Repr, Inhabited

structure Ingress where
  classType : String := ""
  name : String
  deriving DecidableEq, Repr, Inhabited

/-- `TrafficRoutingRef` -/
structure TR where
  service : String
  grace : Int := 0
  ingress : Option Ingress := none
  /-- `gateway` block present; inside it `httpRouteName *string` -/
  gateway : Option (Option String) := none
  customRefs : Option (List Ref) := none
  deriving DecidableEq, Repr, Inhabited

/-- a `CanaryStrategy` / `BlueGreenStrategy` block -/
structure Strat where
  steps : List Step := []
  trs : Option (List TR) := none
  /-- `enableExtraWorkloadForCanary` (canary block of v1beta1 only) -/
  extra : Bool := false
  deriving DecidableEq, Repr, Inhabited

/-- a v1beta1 Rollout as far as validation reads it -/
structure RolloutB where
  ns : String
  name : String
  ref : Ref
  canary : Option Strat := none
  blueGreen : Option Strat := none
  deriving DecidableEq, Repr, Inhabited

/-- a v1alpha1 Rollout as far as validation reads it -/
structure RolloutA where
  ns : String
  name : String
  /-- value of annotation `rollouts.kruise.io/rolling-style` (`""` when absent) -/
  anno : String := ""
  ref : Option Ref
  canary : Option Strat := none
  deriving DecidableEq, Repr, Inhabited

/-- a Rollout in the API server (what `Client.List` / `Client.Get` see) -/
structure Stored where
  ns : String
  name : String
  ref : Option Ref
  phase : String
  deriving DecidableEq, Repr, Inhabited

inductive Outcome where
  | allowed
  | denied (code : Nat) (errs : List Err)
  | panic
  deriving DecidableEq, Repr, Inhabited

/-! ## shared helpers -/

/-- group part of an apiVersion (`schema.ParseGroupVersion`: no `/` → group `""`, one `/` → the
    text before it; on a parse error (two or more `/`) `FromAPIVersionAndKind` keeps only the kind,
    i.e. group `""`).  Written over `toList` so that the kernel can evaluate it on literals. -/
def groupOf (apiVersion : String) : String :=
  let cs := apiVersion.toList
  if (cs.filter (· == '/')).length = 1 then String.ofList (cs.takeWhile (· != '/')) else ""

/-- `strings.ToLower` on ASCII (the generator only produces ASCII annotation values) -/
def lower (s : String) : String := String.ofList (s.toList.map Char.toLower)

/-- `util.IsSupportedWorkload` with the workload-type filter on: group and kind only. -/
def isSupportedWorkload (r : Ref) : Bool :=
  let g := groupOf r.apiVersion
  (g == "apps" && (r.kind == "ReplicaSet" || r.kind == "Deployment" || r.kind == "StatefulSet")) ||
  (g == "apps.kruise.io" && (r.kind == "CloneSet" || r.kind == "StatefulSet" || r.kind == "DaemonSet"))

/-- `blueGreenSupportWorkloadGVKs`: group and kind only. -/
def isBlueGreenWorkload (r : Ref) : Bool :=
  let g := groupOf r.apiVersion
  (g == "apps" && r.kind == "Deployment") || (g == "apps.kruise.io" && r.kind == "CloneSet")

/-- `targetRef.APIVersion == apps.SchemeGroupVersion.String() && targetRef.Kind == "Deployment"` -/
def isNativeDeployment (r : Ref) : Bool := r.apiVersion == "apps/v1" && r.kind == "Deployment"

/-- `IsPercentageCanaryReplicasType`: nil or of string type -/
def isPctType : Option IntOrPct → Bool
  | none => true
  | some (.int _) => false
  | some _ => true

/-- `intstr.GetScaledValueFromIntOrPercent(x, 100, true)`; a nil pointer gives `(0, error)`. -/
def scaled100 : Option IntOrPct → Int × Bool
  | none => (0, true)
  | some v => scaled v 100 true

/-- `intstr.GetScaledValueFromIntOrPercent(&intstr.FromString(*s.Traffic), 100, true)`: the value is
    always of string type, so an integer cannot occur (kept as the error case). -/
def trafficVal : IntOrPct → Int × Bool
  | .pct p => scaled (.pct p) 100 true
  | _ => (0, true)

/-- first error of a sequential loop with early `return` -/
def firstErr {α ε} (f : α → Option ε) : List α → Option ε
  | [] => none
  | a :: as => match f a with
    | some e => some e
    | none => firstErr f as

/-- `validateRolloutSpecCanaryTraffic` (identical in both API versions): errors accumulate. -/
def validateTraffic (t : TR) : List Err :=
  (if t.grace < 0 then [Err.trGrace] else []) ++
  (if t.service.length = 0 then [Err.trService] else []) ++
  (if t.gateway.isNone ∧ t.ingress.isNone ∧ t.customRefs.isNone then [Err.trUnset] else []) ++
  (match t.ingress with
    | some i => if i.name = "" then [Err.trIngress] else []
    | none => []) ++
  (match t.gateway with
    | some g => (match g with
      | none => [Err.trGateway]
      | some n => if n = "" then [Err.trGateway] else [])
    | none => [])

/-- `len(x.TrafficRoutings) > 1` then the loop over all entries -/
def validateTrafficList (trs : Option (List TR)) : List Err :=
  let l := trs.getD []   -- len / range of a nil slice = of an empty one
  (if l.length > 1 then [Err.trMany] else []) ++ l.flatMap validateTraffic

/-! ## v1beta1 -/

/-- `RolloutStrategy.GetRollingStyle`; dereferences `r.Canary` when `BlueGreen` is nil. -/
def rollingStyle (canary blueGreen : Option Strat) : Option Style :=
  match blueGreen with
  | some _ => some .blueGreen
  | none => match canary with
    | none => none   -- PANIC: r.Canary.EnableExtraWorkloadForCanary on nil
    | some c => if c.extra then some .canary else some .partition

/-- `v1beta1.IsRealPartition` -/
def isRealPartition (r : RolloutB) : Option Bool :=
  if r.blueGreen.isNone ∧ r.canary.isNone then some false else do
  let est ← rollingStyle r.canary r.blueGreen
  if est = .blueGreen then return false
  if isNativeDeployment r.ref ∧ est = .canary then return false
  return true

/-- `GetContextFromv1beta1Rollout` -/
def contextB (r : RolloutB) : Option Style :=
  if r.canary.isNone ∧ r.blueGreen.isNone then some .none else do
  let style ← rollingStyle r.canary r.blueGreen
  let real ← isRealPartition r
  return if real then .partition else style

/-- `validateRolloutSpecObjectRef` (the pointer is the address of a struct field, never nil) -/
def validateObjectRefB (style : Style) (ref : Ref) : List Err :=
  if ¬ isSupportedWorkload ref then [.refKind]
  else if style = .blueGreen then
    if isBlueGreenWorkload ref then [] else [.refKindBG]
  else []

/-- the `switch c.style` on the traffic value inside the first loop of `validateRolloutSpecCanarySteps` -/
def checkTrafficB (style : Style) (t : IntOrPct) : Option Err :=
  let (w, e) := trafficVal t
  match style with
  | .blueGreen => if e ∨ w < 0 ∨ w > 100 then some .trafficBG else none
  | _ => if e ∨ w ≤ 0 ∨ w > 100 then some .trafficCanary else none

/-- body of the first loop of `validateRolloutSpecCanarySteps` for one step -/
def checkStepB (style : Style) (limit : Int) (s : Step) : Option Err :=
  match s.replicas with
  | none => some .replicasNil
  | some r =>
    let (v, e) := scaled r 100 true
    if e ∨ v ≤ 0 ∨ (v > 100 ∧ isPctType (some r)) then some .replicasBad
    else if s.traffic.isNone ∧ (s.mts.getD 0) = 0 then none
    else if style = .partition ∧ isPctType (some r) ∧ v > limit then some .partLimit
    else match s.traffic with
      | none => none
      | some t => checkTrafficB style t

/-- `lastOfType map[bool]int`: latest value seen among the integer (`false`) / percentage (`true`) steps -/
abbrev Last := Bool → Option Int

def Last.empty : Last := fun _ => none
def Last.set (l : Last) (t : Bool) (v : Int) : Last := fun b => if b = t then some v else l b

/-- second loop of `validateRolloutSpecCanarySteps`: every step against the latest previous
    step of the same type (integer / percentage) -/
def checkNonDecrB (last : Last) : List Step → Option Err
  | [] => none
  | c :: rest =>
    let t := isPctType c.replicas
    let v := (scaled100 c.replicas).1
    match last t with
    | some pv => if v < pv then some .nonDecr else checkNonDecrB (last.set t v) rest
    | none => checkNonDecrB (last.set t v) rest

/-- `validateRolloutSpecCanarySteps` -/
def validateStepsB (style : Style) (limit : Int) (steps : List Step) : List Err :=
  if steps.length = 0 then [.stepsEmpty] else
  match firstErr (checkStepB style limit) steps with
  | some e => [e]
  | none => match checkNonDecrB Last.empty steps with
    | some e => [e]
    | none => []

/-- `validateRolloutSpecCanaryStrategy` = `validateRolloutSpecBlueGreenStrategy` -/
def validateStratB (style : Style) (limit : Int) (s : Strat) : List Err :=
  validateStepsB style limit s.steps ++ validateTrafficList s.trs

/-- `validateRolloutSpecStrategy` -/
def validateStrategyB (style : Style) (limit : Int) (r : RolloutB) : List Err :=
  match r.canary, r.blueGreen with
  | none, none => [.stratEmpty]
  | some _, some _ => [.stratBoth]
  | _, some bg => validateStratB style limit bg
  | some c, none => validateStratB style limit c

/-- `IsSameWorkloadRefGVKName` / `IsSameV1alpha1WorkloadRefGVKName` (`isSameGroupKindName`):
    nil-safe; same API group, kind and name -/
def sameRef (a b : Option Ref) : Bool :=
  match a, b with
  | some x, some y => groupOf x.apiVersion = groupOf y.apiVersion ∧ x.kind = y.kind ∧ x.name = y.name
  | _, _ => false

/-- `validateRolloutConflict` (both versions): list the namespace, skip the same name,
    first Rollout with the same workload reference is a conflict. -/
def validateConflict (store : List Stored) (ns name : String) (ref : Option Ref) : List Err :=
  match (store.filter (fun r => r.ns = ns)).find? (fun r => ¬ (r.name = name ∨ ¬ sameRef r.ref ref)) with
  | some _ => [.conflict]
  | none => []

/-- `validateRollout` : spec errors then conflict errors -/
def validateB (store : List Stored) (limit : Int) (r : RolloutB) : Option (List Err) :=
  match contextB r with
  | none => none
  | some style =>
    some (validateObjectRefB style r.ref ++ validateStrategyB style limit r ++
      validateConflict store r.ns r.name (some r.ref))

/-- `GetSteps` / `GetTrafficRouting` (switch on `GetRollingStyle`) -/
def stratOf (canary blueGreen : Option Strat) : Option Strat :=
  match rollingStyle canary blueGreen with
  | none => none   -- PANIC inside GetRollingStyle
  | some .blueGreen => blueGreen   -- BlueGreen != nil here
  | some _ => canary

def immutablePhase (phase : String) : Bool := phase = "Progressing" ∨ phase = "Terminating"

/-- `validateRolloutUpdate` -/
def validateUpdateB (store : List Stored) (limit : Int) (old new : RolloutB) : Option (List Err) :=
  match store.find? (fun r => r.ns = new.ns ∧ r.name = new.name) with
  | none => some [.internal]
  | some latest =>
    match validateB store limit new with
    | none => none
    | some errs =>
      if errs ≠ [] then some errs
      else if ¬ immutablePhase latest.phase then some []
      else if old.ref ≠ new.ref then some [.immutRef]
      else if old.blueGreen.isNone ∧ old.canary.isNone then some [.immutStyle]   -- IsEmptyRelease
      else
        match stratOf old.canary old.blueGreen, stratOf new.canary new.blueGreen with
        | some os, some nw =>
          if os.trs ≠ nw.trs then some [.immutTR]
          else
            match rollingStyle old.canary old.blueGreen, rollingStyle new.canary new.blueGreen with
            | some ost, some nst =>
              if ost ≠ nst then some [.immutStyle]
              else if os.steps.length ≠ nw.steps.length then some [.immutSteps]
              else some []
            | _, _ => none
        | _, _ => none

/-! ## v1alpha1 -/

/-- `GetContextFromv1alpha1Rollout`; inner `none` = nil context -/
def contextA (r : RolloutA) : Option (Option Style) :=
  match r.canary with
  | none => some none
  | some _ =>
    let a := lower r.anno
    if a = "" ∨ a = "canary" then
      match r.ref with
      | none => some (some .partition)   -- `targetRef != nil &&` guard
      | some ref => if isNativeDeployment ref then some (some .canary) else some (some .partition)
    else some (some .partition)

/-- `validateV1alpha1RolloutSpecObjectRef` -/
def validateObjectRefA (ref : Option Ref) : List Err :=
  match ref with
  | none => [.refRequired]
  | some r => if ¬ isSupportedWorkload r then [.refKind] else []

/-- `validateV1alpha1RolloutRollingStyle` -/
def validateRollingStyleA (anno : String) : List Err :=
  let a := lower anno
  if a = "" ∨ a = "canary" ∨ a = "partition" then [] else [.styleAnno]

/-- body of the first loop of `validateV1alpha1RolloutSpecCanarySteps`;
    outer `none` = panic (`c.style` on a nil context, `*s.Weight` on nil) -/
def checkStepA (c : Option Style) (limit : Int) (s : Step) : Option (Option Err) :=
  if s.weight.isNone ∧ s.replicas.isNone then some (some .stepBothNil) else
  match s.replicas with
  | some r =>
    let (v, e) := scaled r 100 true
    if e ∨ v ≤ 0 ∨ (v > 100 ∧ isPctType (some r)) then some (some .replicasBad) else
    match c with
    | none => none   -- PANIC c.style
    | some style =>
      if style = .partition ∧ isPctType (some r) ∧ v > limit ∧ (s.mts.isSome ∨ s.weight.isSome)
      then some (some .partLimit)
      else match s.weight with
        | some w => if w ≤ 0 ∨ w > 100 then some (some .weightBad) else some none
        | none => some none
  | none =>
    match c with
    | none => none   -- PANIC c.style
    | some style =>
      match s.weight with
      | none => none   -- PANIC *s.Weight
      | some w =>
        if style = .partition ∧ w > limit then some (some .partLimitWeight)
        else if w ≤ 0 ∨ w > 100 then some (some .weightBad)
        else some none

/-- sequential loop with early return over a body that may panic -/
def firstErrP {α ε} (f : α → Option (Option ε)) : List α → Option (Option ε)
  | [] => some none
  | a :: as => match f a with
    | none => none
    | some (some e) => some (some e)
    | some none => firstErrP f as

/-- value compared by the second loop: the scaled replicas, replaced by `*Weight` when replicas is nil -/
def cmpValA (s : Step) : Option Int :=
  match s.replicas with
  | some r => some (scaled r 100 true).1
  | none => s.weight   -- PANIC when nil

/-- `isTraffic && curr.Weight != nil && prev.Weight != nil && *curr.Weight < *prev.Weight`
    (no previous step at `i = 0`) -/
def weightDecrA (isTraffic : Bool) (prev : Option Step) (c : Step) : Bool :=
  match prev with
  | some p => (match c.weight, p.weight with
    | some cw, some pw => isTraffic && decide (cw < pw)
    | _, _ => false)
  | none => false

/-- second loop of `validateV1alpha1RolloutSpecCanarySteps`: weights of neighbouring steps, then
    every step against the latest previous step of the same type -/
def checkNonDecrA (isTraffic : Bool) (prev : Option Step) (last : Last) : List Step → Option (Option Err)
  | [] => some none
  | c :: rest =>
    if weightDecrA isTraffic prev c then some (some .weightDecr)
    else
      match cmpValA c with
      | none => none   -- PANIC *curr.Weight
      | some v =>
        match last (isPctType c.replicas) with
        | some pv =>
          if v < pv then some (some .nonDecr)
          else checkNonDecrA isTraffic (some c) (last.set (isPctType c.replicas) v) rest
        | none => checkNonDecrA isTraffic (some c) (last.set (isPctType c.replicas) v) rest

/-- `validateV1alpha1RolloutSpecCanarySteps` -/
def validateStepsA (c : Option Style) (limit : Int) (steps : List Step) (isTraffic : Bool) :
    Option (List Err) :=
  if steps.length = 0 then some [.stepsEmpty] else
  match firstErrP (checkStepA c limit) steps with
  | none => none
  | some (some e) => some [e]
  | some none => match checkNonDecrA isTraffic none Last.empty steps with
    | none => none
    | some (some e) => some [e]
    | some none => some []

/-- `validateV1alpha1RolloutSpecStrategy` / `…CanaryStrategy` -/
def validateStrategyA (c : Option Style) (limit : Int) (canary : Option Strat) : Option (List Err) :=
  match canary with
  | none => some [.canaryNil]
  | some cn =>
    match validateStepsA c limit cn.steps ((cn.trs.getD []).length > 0) with
    | none => none
    | some se => some (se ++ validateTrafficList cn.trs)

/-- `validateV1alpha1Rollout` -/
def validateA (store : List Stored) (limit : Int) (r : RolloutA) : Option (List Err) :=
  match contextA r with
  | none => none
  | some c =>
    match validateStrategyA c limit r.canary with
    | none => none
    | some se =>
      some (validateObjectRefA r.ref ++ validateRollingStyleA r.anno ++ se ++
        validateConflict store r.ns r.name r.ref)

/-- `validateV1alpha1RolloutUpdate` -/
def validateUpdateA (store : List Stored) (limit : Int) (old new : RolloutA) : Option (List Err) :=
  match store.find? (fun r => r.ns = new.ns ∧ r.name = new.name) with
  | none => some [.internal]
  | some latest =>
    match validateA store limit new with
    | none => none
    | some errs =>
      if errs ≠ [] then some errs
      else if ¬ immutablePhase latest.phase then some []
      else if old.ref ≠ new.ref then some [.immutRef]
      else
        match old.canary with
        | none => some [.immutStyle]   -- `oldObj.Spec.Strategy.Canary == nil` guard
        | some oc =>
          match new.canary with
          | none => none   -- PANIC newObj.Spec.Strategy.Canary.TrafficRoutings (unreachable: validateA passed)
          | some nc =>
            if oc.trs ≠ nc.trs then some [.immutTR]
            else if lower old.anno ≠ lower new.anno then some [.immutStyle]
            else if oc.steps.length ≠ nc.steps.length then some [.immutSteps]
            else some []

/-! ## Handle -/

inductive Op where
  | create | update | other
  deriving DecidableEq, Repr, Inhabited

def respond (r : Option (List Err)) (k : Unit → Outcome) : Outcome :=
  match r with
  | none => .panic
  | some [] => k ()
  | some errs => .denied 422 errs

/-- `Handle`, v1beta1 branch.  `old = none`: `OldObject` is empty (`DecodeRaw` fails, 400). -/
def handleB (store : List Stored) (limit : Int) (op : Op) (obj : RolloutB) (old : Option RolloutB) : Outcome :=
  match op with
  | .other => .allowed
  | .create => respond (validateB store limit obj) fun _ => .allowed
  | .update =>
    respond (validateB store limit obj) fun _ =>
      match old with
      | none => .denied 400 [.decode]
      | some o => respond (validateUpdateB store limit o obj) fun _ => .allowed

/-- `Handle`, v1alpha1 branch -/
def handleA (store : List Stored) (limit : Int) (op : Op) (obj : RolloutA) (old : Option RolloutA) : Outcome :=
  match op with
  | .other => .allowed
  | .create => respond (validateA store limit obj) fun _ => .allowed
  | .update =>
    respond (validateA store limit obj) fun _ =>
      match old with
      | none => .denied 400 [.decode]
      | some o => respond (validateUpdateA store limit o obj) fun _ => .allowed

end RV.Validate
