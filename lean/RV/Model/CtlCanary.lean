/-
  The canary-style **Deployment** control plane of the BatchRelease controller: one call of
  `Initialize` / `UpgradeBatch` / `EnsureBatchPodsReadyAndLabeled` / `Finalize` against a world of
  Deployments, with an API-fault index, and runs (sequences) of such calls.

  Source:
    pkg/controller/batchrelease/control/canarystyle/control_plane.go      Initialize, UpgradeBatch,
                                                   EnsureBatchPodsReadyAndLabeled, Finalize
    pkg/controller/batchrelease/control/canarystyle/deployment/control.go BuildStableController,
                                                   BuildCanaryController, CalculateBatchContext, getLatestTemplate
    pkg/controller/batchrelease/control/canarystyle/deployment/stable.go  Initialize, Finalize, waitAllUpdatedAndReady
    pkg/controller/batchrelease/control/canarystyle/deployment/canary.go  Create, create, Delete, UpgradeBatch,
                                                   listDeployment, filterCanaryDeployment
    pkg/controller/batchrelease/control/util.go    IsControlledByBatchRelease, CalculateBatchReplicas, ShouldWaitResume
    pkg/util/workloads_utils.go                    UpdateFinalizer, FilterActiveDeployment, EqualIgnoreSpecifyMetadata,
                                                   DeploymentMaxUnavailable, IsStable
    pkg/util/parse_utils.go                        ParseWorkload / GetReplicas (dereferences spec.replicas)
    pkg/util/expectation/resource_expectations.go  SatisfiedExpectations / Expect / DeleteExpectations

  Every API call (Get / List / Create / Update / Patch) is a `tick`: with fault index `k` the k-th
  counted call and every later one fail ("the process dies after its k-th call"); reads are counted
  or not (`Cfg.reads`).  The API server is modelled as far as the plane can see it: names are unique,
  a created object gets a fresh name, the newest creationTimestamp and generation 1; a write that
  changes the spec bumps metadata.generation; an object in deletion disappears with its last
  finalizer.

  Scope: no pods in the namespace (pod listing / batch labels are the `labelpatch` suite, C12).
-/
import RV.Model.BatchCtx
namespace RV.CtlCanary
open RV.Arith IntOrPct

/-! ## maps (Go `map[string]string`, nil = empty) as association lists -/

abbrev KV := List (String × String)

def kvGet (m : KV) (k : String) : Option String := (m.find? (fun e => e.1 == k)).map (·.2)
/-- `delete(m, k)` for every `k ∈ ks` -/
def kvEraseAll (m : KV) (ks : List String) : KV := m.filter (fun e => !ks.contains e.1)
/-- `m[k] = v` -/
def kvSet (m : KV) (k v : String) : KV := m.filter (fun e => !(e.1 == k)) ++ [(k, v)]
/-- `for k, v := range p { m[k] = v }` -/
def kvSetAll (m : KV) (p : KV) : KV := p.foldl (fun acc e => kvSet acc e.1 e.2) m
def kvKeys (m : KV) : List String := m.map (·.1)
/-- map equality (`apiequality.Semantic.DeepEqual` on two string maps; nil equals empty) -/
def kvEq (a b : KV) : Bool := (kvKeys a ++ kvKeys b).all (fun k => kvGet a k == kvGet b k)

/-! ## objects -/

/-- the controller owner reference of a Deployment relative to this BatchRelease
    (`thisNonCtrl`: a reference to this BatchRelease that is not a controller reference) -/
inductive Owner where
  | none | this | other | thisNonCtrl
  deriving Repr, DecidableEq, Inhabited

/-- the `rollouts.kruise.io/batch-release-control-info` annotation: absent or empty / names this
    BatchRelease / anything else (another uid, or not JSON) -/
inductive Ctrl where
  | none | this | other
  deriving Repr, DecidableEq, Inhabited

/-- a pod template: everything but its metadata labels / annotations is the opaque `rev` -/
structure Template where
  rev : Nat
  labels : KV
  annos : KV
  deriving Repr, DecidableEq, Inhabited

inductive StrategyType where
  | rolling | other
  deriving Repr, DecidableEq, Inhabited

structure Strategy where
  type : StrategyType
  /-- `spec.strategy.rollingUpdate` (maxSurge, maxUnavailable); `none` = nil pointer -/
  rolling : Option (Option IntOrPct × Option IntOrPct)
  deriving Repr, DecidableEq, Inhabited

structure Dep where
  name : Nat
  owner : Owner
  ctrl : Ctrl
  /-- label `rollouts.kruise.io/canary-deployment` (name of the stable Deployment) -/
  canaryOf : Option Nat
  template : Template
  /-- `spec.replicas` (nil pointer possible) -/
  replicas : Option Int
  paused : Bool
  /-- carries `finalizer.rollouts.kruise.io/batch-release` -/
  finalizer : Bool
  otherFinalizer : Bool
  /-- deletionTimestamp set -/
  deleting : Bool
  created : Int
  generation : Int
  observedGeneration : Int
  statusReplicas : Int
  updatedReplicas : Int
  availableReplicas : Int
  strategy : Strategy
  deriving Repr, DecidableEq, Inhabited

/-- the Deployments of the namespace, in the order the API lists them -/
structure World where
  deps : List Dep
  deriving Repr, DecidableEq, Inhabited

namespace World
def find (w : World) (id : Nat) : Option Dep := w.deps.find? (fun d => d.name == id)
/-- a write to the object named `id` -/
def modify (w : World) (id : Nat) (f : Dep → Dep) : World :=
  { deps := w.deps.map (fun d => if d.name = id then f d else d) }
def add (w : World) (d : Dep) : World := { deps := w.deps ++ [d] }
def maxName (w : World) : Nat := w.deps.foldl (fun m d => max m d.name) 0
def maxCreated (w : World) : Int := w.deps.foldl (fun m d => max m d.created) 0
/-- removing the batch-release finalizer of `id`: an object in deletion whose last finalizer goes is removed -/
def dropFinalizer (w : World) (id : Nat) : World :=
  { deps := w.deps.filterMap (fun d =>
      if d.name = id then
        (if d.deleting ∧ ¬ d.otherFinalizer then none else some { d with finalizer := false })
      else some d) }
end World

/-! ## the BatchRelease as the plane reads it, and the per-call environment -/

structure BR where
  /-- `spec.workloadRef.name` -/
  key : Nat
  batches : List IntOrPct
  /-- `status.canaryStatus.currentBatch` -/
  currentBatch : Int
  /-- `spec.releasePlan.batchPartition` -/
  partition : Option Int
  /-- `spec.releasePlan.rolloutID != ""` -/
  rolloutID : Bool
  failureThreshold : Option IntOrPct
  /-- `finalizingPolicy == WaitResume` -/
  waitResume : Bool
  /-- `spec.releasePlan.patchPodTemplateMetadata` (labels, annotations) -/
  patch : Option (KV × KV)
  deriving Repr, DecidableEq, Inhabited

structure Cfg where
  /-- the `k`-th counted call (0-based) and every later one fail -/
  failAt : Option Nat
  /-- are reads (Get / List) counted, i.e. can they fail? -/
  reads : Bool
  /-- `expectations.ExpectationTimeout` has elapsed for an unsatisfied expectation -/
  timedOut : Bool
  deriving Repr, DecidableEq, Inhabited

/-- the in-memory creation expectation of this BatchRelease -/
inductive Exp where
  | none | pending
  deriving Repr, DecidableEq, Inhabited

/-- Go `error` classes the plane distinguishes, plus a crash -/
inductive Res where
  | ok | err | notFound | panic
  deriving Repr, DecidableEq, Inhabited

/-- the plane object during one call: the world, the call counter, the expectation store and the
    two caches `rc.stableObject` / `rc.canaryObject` -/
structure S where
  w : World
  n : Nat
  exp : Exp
  stable : Option Dep
  canary : Option Dep
  deriving Repr, DecidableEq, Inhabited

/-- one API call: (does it fail?, counter after) -/
def Cfg.tick (c : Cfg) (isWrite : Bool) (n : Nat) : Bool × Nat :=
  if isWrite || c.reads then
    ((match c.failAt with
      | some k => decide (k ≤ n)
      | none => false), n + 1)
  else (false, n)

/-- result of a function returning `(T, error)` -/
inductive Out (α : Type) where
  | ok (a : α)
  | fail (r : Res)
  deriving Repr

/-! ## deployment/control.go, stable.go, canary.go -/

/-- `realController.BuildStableController` -/
def buildStable (c : Cfg) (br : BR) (s : S) : S × Out Dep :=
  match s.stable with
  | some d => (s, .ok d)
  | none =>
    let t := c.tick false s.n
    let s := { s with n := t.2 }
    if t.1 then (s, .fail .err) else
    match s.w.find br.key with
    | none => (s, .fail .notFound)
    | some d =>
      match d.replicas with
      | none => (s, .fail .panic)          -- ParseWorkload → GetReplicas: `*o.Spec.Replicas`
      | some _ => ({ s with stable := some d }, .ok d)

/-- `control.IsControlledByBatchRelease` -/
def isControlledBy (d : Dep) : Bool := d.owner = .this || d.ctrl = .this

/-- `realStableController.Initialize` -/
def stableInitialize (c : Cfg) (br : BR) (s : S) (st : Dep) : S × Res :=
  if isControlledBy st then (s, .ok) else
  let t := c.tick true s.n
  let s := { s with n := t.2 }
  if t.1 then (s, .err) else
  ({ s with w := s.w.modify br.key (fun x => { x with ctrl := .this }) }, .ok)

/-- `realCanaryController.listDeployment` -/
def listOwned (c : Cfg) (s : S) : S × Option (List Dep) :=
  let t := c.tick false s.n
  let s := { s with n := t.2 }
  if t.1 then (s, none) else (s, some (s.w.deps.filter (fun d => d.owner = .this)))

/-- the label / annotation keys `filterCanaryDeployment` ignores -/
def ignoreLabels (br : BR) : List String :=
  (match br.patch with
   | some p => kvKeys p.1
   | none => []) ++ ["pod-template-hash"]
def ignoreAnnos (br : BR) : List String :=
  match br.patch with
  | some p => kvKeys p.2
  | none => []

/-- `util.EqualIgnoreSpecifyMetadata` with the ignore lists of this BatchRelease -/
def eqIgnore (br : BR) (t1 t2 : Template) : Bool :=
  t1.rev == t2.rev &&
  kvEq (kvEraseAll t1.labels (ignoreLabels br)) (kvEraseAll t2.labels (ignoreLabels br)) &&
  kvEq (kvEraseAll t1.annos (ignoreAnnos br)) (kvEraseAll t2.annos (ignoreAnnos br))

/-- insert into a list that is sorted newest first -/
def insertNewest (d : Dep) : List Dep → List Dep
  | [] => [d]
  | x :: xs => if d.created ≥ x.created then d :: x :: xs else x :: insertNewest d xs

/-- newest first (`sort.Slice … CreationTimestamp.After`; creation times are distinct, so every sorting
    algorithm gives the same list) -/
def newestFirst (ds : List Dep) : List Dep := ds.foldr insertNewest []

/-- `filterCanaryDeployment` -/
def filterCanary (br : BR) (ds : List Dep) (tpl : Option Template) : Option Dep :=
  match newestFirst ds with
  | [] => none
  | d :: rest =>
    match tpl with
    | none => some d
    | some t => (d :: rest).find? (fun x => eqIgnore br t x.template)

/-- `util.FilterActiveDeployment` -/
def filterActive (ds : List Dep) : List Dep := ds.filter (fun d => !d.deleting)

/-- the end of `BuildCanaryController`: filter, NotFound if nothing is left, `ParseWorkload` -/
def pickCanary (br : BR) (s : S) (ds : List Dep) (tpl : Option Template) : S × Out Dep :=
  match filterCanary br ds tpl with
  | none => (s, .fail .notFound)
  | some d =>
    match d.replicas with
    | none => (s, .fail .panic)      -- ParseWorkload(canaryObject)
    | some _ => ({ s with canary := some d }, .ok d)

/-- `realController.BuildCanaryController` -/
def buildCanary (c : Cfg) (br : BR) (s : S) : S × Out Dep :=
  match s.canary with
  | some d => (s, .ok d)
  | none =>
    match listOwned c s with
    | (s, none) => (s, .fail .err)
    | (s, some ds) =>
      -- getLatestTemplate: NotFound is ignored, the template is nil then
      match buildStable c br s with
      | (s, .fail .panic) => (s, .fail .panic)
      | (s, .fail .err) => (s, .fail .err)
      | (s, r) =>
        let tpl : Option Template := match r with
          | .ok st => some st.template
          | .fail _ => none
        pickCanary br s (filterActive ds) tpl

/-- the pod template `create` gives the canary: `none` = assignment to an entry of a nil map -/
def patchedTemplate (br : BR) (t : Template) : Option Template :=
  match br.patch with
  | none => some t
  | some p =>
    if t.labels.isEmpty ∧ ¬ p.1.isEmpty then none
    else some { t with labels := kvSetAll t.labels p.1, annos := kvSetAll t.annos p.2 }

/-- the object `create` submits, with what the API server fills in -/
def newCanary (br : BR) (st : Dep) (w : World) : Option Dep :=
  (patchedTemplate br st.template).map fun tp =>
    { name := w.maxName + 1, owner := .this, ctrl := .this, canaryOf := some st.name, template := tp,
      replicas := some 0, paused := false, finalizer := true, otherFinalizer := false, deleting := false,
      created := w.maxCreated + 1, generation := 1, observedGeneration := 0,
      statusReplicas := 0, updatedReplicas := 0, availableReplicas := 0, strategy := st.strategy }

/-- `realCanaryController.Create` + `create` -/
def canaryCreate (c : Cfg) (br : BR) (s : S) : S × Res :=
  match s.canary with
  | some _ => (s, .ok)                       -- don't re-create if exists
  | none =>
    -- SatisfiedExpectations
    if s.exp = .pending ∧ ¬ c.timedOut then (s, .err) else
    let s := { s with exp := .none }          -- satisfied, or timed out and deleted
    let t := c.tick false s.n
    let s := { s with n := t.2 }
    if t.1 then (s, .err) else
    match s.w.find br.key with
    | none => (s, .notFound)
    | some st =>
      match newCanary br st s.w with
      | none => (s, .panic)
      | some cd =>
        let t := c.tick true s.n
        let s := { s with n := t.2 }
        if t.1 then (s, .err) else
        -- "created canary deployment succeeded, but waiting informer synced"
        ({ s with w := s.w.add cd, exp := .pending }, .err)

/-- `batches[currentBatch]` -/
def batchEntry (br : BR) : Option IntOrPct :=
  if br.currentBatch < 0 then none else br.batches[br.currentBatch.toNat]?

/-- `realCanaryController.UpgradeBatch` -/
def canaryUpgrade (c : Cfg) (s : S) (cd : Dep) (cur desired : Int) : S × Res :=
  if cur ≥ desired then (s, .ok) else
  let t := c.tick true s.n
  let s := { s with n := t.2 }
  if t.1 then (s, .err) else
  ({ s with w := s.w.modify cd.name (fun x => { x with replicas := some desired, generation := x.generation + 1 }) }, .ok)

/-- `util.UpdateFinalizer(…, Remove, CanaryDeploymentFinalizer)` -/
def removeFinalizer (c : Cfg) (s : S) (id : Nat) : S × Res :=
  let t := c.tick false s.n
  let s := { s with n := t.2 }
  if t.1 then (s, .err) else
  match s.w.find id with
  | none => (s, .notFound)
  | some d =>
    if ¬ d.finalizer then (s, .ok) else
    let t := c.tick true s.n
    let s := { s with n := t.2 }
    if t.1 then (s, .err) else
    ({ s with w := s.w.dropFinalizer id }, .ok)

/-- the loop of `realCanaryController.Delete` over the listed Deployments -/
def deleteLoop (c : Cfg) : List Dep → S → S × Res
  | [], s => (s, .ok)
  | d :: ds, s =>
    if ¬ d.finalizer then deleteLoop c ds s else
    match removeFinalizer c s d.name with
    | (s, .ok) => deleteLoop c ds s
    | (s, .notFound) => deleteLoop c ds s        -- `err != nil && !errors.IsNotFound(err)`
    | (s, r) => (s, r)

/-- `realCanaryController.Delete` -/
def canaryDelete (c : Cfg) (s : S) : S × Res :=
  match listOwned c s with
  | (s, none) => (s, .err)
  | (s, some ds) => deleteLoop c ds s

/-- `util.DeploymentMaxUnavailable`; `none` = nil dereference -/
def maxUnavailable (d : Dep) : Option Int :=
  if d.strategy.type ≠ .rolling then some 0 else
  match d.replicas with
  | none => none
  | some r =>
    if r = 0 then some 0 else
    match d.strategy.rolling with
    | none => none
    | some (ms, mu) =>
      match resolveFenceposts ms mu r with
      | none => some 0
      | some (_, u) => some (if u > r then r else u)

/-- `waitAllUpdatedAndReady` -/
def waitAllUpdatedAndReady (d : Dep) : Res :=
  if d.paused then .err
  else if d.statusReplicas ≠ d.updatedReplicas then .err
  else match maxUnavailable d with
    | none => .panic
    | some mu => if mu + d.availableReplicas < d.statusReplicas then .err else .ok

/-- what the patch of `realStableController.Finalize` does to the object (the API server bumps the
    generation when `spec.paused` changes) -/
def releaseStable (pause : Bool) (x : Dep) : Dep :=
  { x with ctrl := .none, paused := pause, generation := if x.paused = pause then x.generation else x.generation + 1 }

/-- `realStableController.Finalize` -/
def stableFinalize (c : Cfg) (br : BR) (s : S) : S × Res :=
  match s.stable with
  | none => (s, .ok)                          -- no need to process deleted object
  | some _ =>
    let pause := br.partition.isSome
    let t := c.tick true s.n
    let s := { s with n := t.2 }
    if t.1 then (s, .err) else
    let s := { s with w := s.w.modify br.key (releaseStable pause) }
    if br.waitResume then
      match s.w.find br.key with
      | none => (s, .notFound)                -- unreachable: the object was read in this call
      | some d => (s, waitAllUpdatedAndReady d)
    else (s, .ok)

/-! ## canarystyle/control_plane.go -/

/-- what `Initialize` records in the new status -/
structure InitStatus where
  observedReplicas : Int
  updateRevision : Template
  deriving Repr, DecidableEq

/-- the end of `Initialize`: `canary.Create`, then "record revision and replicas" -/
def initTail (c : Cfg) (br : BR) (s : S) (st : Dep) : S × Res × Option InitStatus :=
  match canaryCreate c br s with
  | (s, .ok) =>
    match s.canary, st.replicas with
    | some cd, some r => (s, .ok, some { observedReplicas := r, updateRevision := cd.template })
    | _, _ => (s, .panic, none)          -- unreachable: Create returns nil only with a canary object
  | (s, r) => (s, r, none)

/-- `realCanaryController.Initialize` -/
def planeInitialize (c : Cfg) (br : BR) (s : S) : S × Res × Option InitStatus :=
  match buildStable c br s with
  | (s, .fail r) => (s, r, none)
  | (s, .ok st) =>
    match stableInitialize c br s st with
    | (s, .ok) =>
      match buildCanary c br s with
      | (s, .fail .err) => (s, .err, none)
      | (s, .fail .panic) => (s, .panic, none)
      | (s, _) => initTail c br s st       -- found, or NotFound (ignored)
    | (s, r) => (s, r, none)

/-- the common prefix of `UpgradeBatch` and `EnsureBatchPodsReadyAndLabeled`:
    `ok (canary, stable replicas, desired)`; `fail ok` = "stable has no replicas, nothing to do" -/
def batchPrefix (c : Cfg) (br : BR) (s : S) : S × Out (Dep × Int × Int) :=
  match buildStable c br s with
  | (s, .fail r) => (s, .fail r)
  | (s, .ok st) =>
    match st.replicas with
    | none => (s, .fail .panic)
    | some R =>
      if R = 0 then (s, .fail .ok) else
      match buildCanary c br s with
      | (s, .fail r) => (s, .fail r)
      | (s, .ok cd) =>
        if ¬ (cd.observedGeneration ≥ cd.generation) then (s, .fail .err) else   -- "wait canary workload reconcile"
        -- CalculateBatchContext
        let t := if br.rolloutID then c.tick false s.n else (false, s.n)          -- ListOwnedPods
        let s := { s with n := t.2 }
        if t.1 then (s, .fail .err) else
        match batchEntry br with
        | none => (s, .fail .panic)
        | some e => (s, .ok (cd, R, calcBatchReplicas R e))

/-- `realCanaryController.UpgradeBatch` (control plane) -/
def planeUpgradeBatch (c : Cfg) (br : BR) (s : S) : S × Res :=
  match batchPrefix c br s with
  | (s, .fail r) => (s, r)
  | (s, .ok (cd, _, desired)) =>
    match cd.replicas with
    | none => (s, .panic)
    | some cur => canaryUpgrade c s cd cur desired

/-- `realCanaryController.EnsureBatchPodsReadyAndLabeled` (no pods: nothing to label) -/
def planeEnsureReady (c : Cfg) (br : BR) (s : S) : S × Res :=
  match batchPrefix c br s with
  | (s, .fail r) => (s, r)
  | (s, .ok (cd, R, desired)) =>
    let ctx : RV.BatchCtx.Ctx :=
      { replicas := R, updated := cd.statusReplicas, updatedReady := cd.availableReplicas, planned := 0,
        desired := desired, knobCur := int 0, knobDes := int 0, failureThreshold := br.failureThreshold }
    (s, if RV.BatchCtx.isBatchReady ctx none = .ok then .ok else .err)

/-- `Finalize` after the stable controller was built: `stable.Finalize`, `BuildCanaryController`, `canary.Delete` -/
def finTail (c : Cfg) (br : BR) (s : S) : S × Res :=
  match stableFinalize c br s with
  | (s, .ok) =>
    match buildCanary c br s with
    | (s, .fail .err) => (s, .err)
    | (s, .fail .panic) => (s, .panic)
    | (s, _) => canaryDelete c s                -- found, or NotFound (ignored)
  | (s, r) => (s, r)

/-- `realCanaryController.Finalize` (control plane) -/
def planeFinalize (c : Cfg) (br : BR) (s : S) : S × Res :=
  match buildStable c br s with
  | (s, .fail .err) => (s, .err)
  | (s, .fail .panic) => (s, .panic)
  | (s, _) => finTail c br s                    -- found, or NotFound (ignored)

/-! ## calls and runs -/

inductive Op where
  | init | upgrade | ensure | fin
  deriving Repr, DecidableEq, Inhabited

/-- what may happen between two calls -/
inductive Event where
  | none
  /-- the informer observed the creation, or the process restarted: the expectation is gone -/
  | clearExp
  /-- the Deployment controller caught up with every Deployment -/
  | observe
  /-- the user changed the pod template of the stable Deployment -/
  | newTemplate
  deriving Repr, DecidableEq, Inhabited

structure Step where
  ev : Event
  op : Op
  cfg : Cfg
  currentBatch : Int
  deriving Repr, DecidableEq, Inhabited

structure StepOut where
  res : Res
  w : World
  exp : Exp
  calls : Nat
  status : Option InitStatus
  deriving Repr, DecidableEq

def observed (d : Dep) : Dep :=
  let r := match d.replicas with
    | some r => r
    | none => 0
  { d with observedGeneration := d.generation, statusReplicas := r, updatedReplicas := r, availableReplicas := r }

def applyEvent (br : BR) (ev : Event) (w : World) (exp : Exp) : World × Exp :=
  match ev with
  | .none => (w, exp)
  | .clearExp => (w, .none)
  | .observe => ({ deps := w.deps.map observed }, exp)
  | .newTemplate =>
    (w.modify br.key (fun d => { d with template := { d.template with rev := d.template.rev + 1 }, generation := d.generation + 1 }), exp)

/-- one call of the plane, a new plane object per call (as `Executor.getReleaseController` builds it) -/
def call (br : BR) (op : Op) (c : Cfg) (w : World) (exp : Exp) : StepOut :=
  let s0 : S := { w := w, n := 0, exp := exp, stable := none, canary := none }
  match op with
  | .init =>
    let r := planeInitialize c br s0
    { res := r.2.1, w := r.1.w, exp := r.1.exp, calls := r.1.n, status := r.2.2 }
  | .upgrade =>
    let r := planeUpgradeBatch c br s0
    { res := r.2, w := r.1.w, exp := r.1.exp, calls := r.1.n, status := none }
  | .ensure =>
    let r := planeEnsureReady c br s0
    { res := r.2, w := r.1.w, exp := r.1.exp, calls := r.1.n, status := none }
  | .fin =>
    let r := planeFinalize c br s0
    { res := r.2, w := r.1.w, exp := r.1.exp, calls := r.1.n, status := none }

def step (br : BR) (w : World) (exp : Exp) (st : Step) : StepOut :=
  let e := applyEvent br st.ev w exp
  call { br with currentBatch := st.currentBatch } st.op st.cfg e.1 e.2

/-- a run: every call starts from the world and expectation the previous one left -/
def run (br : BR) (w : World) (exp : Exp) : List Step → List StepOut
  | [] => []
  | st :: rest =>
    let o := step br w exp st
    o :: run br o.w o.exp rest

/-! ## >>> additive section (slice `executorx`): `SyncWorkloadInformation` of the canary-style plane

  Source: pkg/controller/batchrelease/control/canarystyle/control_plane.go  realCanaryController.SyncWorkloadInformation
          pkg/util/workloads_utils.go                                       IsStable, IsPromoted, IsScaling, IsRevisionNotEqual

  The plane detects **no rollback event** and ends in `WorkloadUnknownState` where the other planes say `WorkloadNormalState`;
  the info it returns is a fresh `WorkloadInfo` that carries the canary's counters, the stable Deployment's replicas only with
  the scaling event and its update revision only with the template-changed event. -/

inductive SyncEvent where
  | normal | gone | stillReconciling | replicasChanged | podTemplateChanged | unknown
  deriving Repr, DecidableEq, Inhabited

/-- the `util.WorkloadInfo` the canary-style plane hands to `syncStatusBeforeExecuting` -/
structure SyncInfo where
  /-- `Replicas` (set with the scaling event only) -/
  replicas : Int
  /-- `Status.UpdateRevision` = hash of this template (set with the template-changed event only) -/
  updateRevision : Option Template
  /-- `Status.UpdatedReplicas` = the canary Deployment's `status.replicas` -/
  updated : Int
  /-- `Status.UpdatedReadyReplicas` = the canary Deployment's `status.availableReplicas` -/
  updatedReady : Int
  deriving Repr, DecidableEq, Inhabited

/-- `realCanaryController.SyncWorkloadInformation`.  `deleting` = the BatchRelease carries a deletionTimestamp;
    `observedReplicas` / `observedUpdate` = `newStatus.ObservedWorkloadReplicas` / `newStatus.UpdateRevision`;
    `hash` = `util.ComputeHash` of a pod template.  Result: plane state, error class of the call (`ok` = nil error,
    `notFound` = the stable Deployment is gone), event, info. -/
def planeSyncInfo (c : Cfg) (br : BR) (deleting : Bool) (observedReplicas : Int) (observedUpdate : String)
    (hash : Template → String) (s : S) : S × Res × SyncEvent × Option SyncInfo :=
  if deleting then (s, .ok, .normal, none) else     -- ignore the sync if the release plan is deleted
  match buildStable c br s with
  | (s, .fail .notFound) => (s, .notFound, .gone, none)
  | (s, .fail r) => (s, r, .unknown, none)
  | (s, .ok st) =>
    match buildCanary c br s with
    | (s, .fail .err) => (s, .err, .unknown, none)
    | (s, .fail .panic) => (s, .panic, .unknown, none)
    | (s, r) =>                                      -- found, or NotFound (ignored: `canaryInfo` stays nil)
      let info : SyncInfo := match r with
        | .ok cd => { replicas := 0, updateRevision := none, updated := cd.statusReplicas, updatedReady := cd.availableReplicas }
        | .fail _ => { replicas := 0, updateRevision := none, updated := 0, updatedReady := 0 }
      match st.replicas with
      | none => (s, .panic, .unknown, none)          -- unreachable: `buildStable` parsed the object
      | some R =>
        if ¬ (st.observedGeneration ≥ st.generation) then (s, .ok, .stillReconciling, some info)
        else if st.statusReplicas = st.updatedReplicas then (s, .ok, .normal, some info)      -- IsPromoted
        else if observedReplicas ≠ -1 ∧ R ≠ observedReplicas then
          (s, .ok, .replicasChanged, some { info with replicas := R })
        else if observedUpdate ≠ "" ∧ hash st.template ≠ observedUpdate then
          (s, .ok, .podTemplateChanged, some { info with updateRevision := some st.template })
        else (s, .ok, .unknown, some info)

/-! ## <<< end of the additive section (slice `executorx`) -/

end RV.CtlCanary
