/-
  API version conversion  v1alpha1 (spoke)  <->  v1beta1 (hub)
  for Rollout and BatchRelease.

  Source (transcribed literally, same order of assignments):
    api/v1alpha1/conversion.go
        (*Rollout).ConvertTo / ConvertFrom, (*BatchRelease).ConvertTo / ConvertFrom,
        ConversionToV1beta1TrafficRoutingRef / …Strategy,
        ConversionToV1alpha1TrafficRoutingRef / …Strategy
    api/v1beta1/rollout_types.go
        (*RolloutStrategy).GetRollingStyle / IsCanaryStragegy / IsEmptyRelease
    k8s.io/apimachinery/pkg/util/intstr  GetScaledValueFromIntOrPercent (for "<n>%" with total 100)
    strconv.Atoi, fmt.Sprintf("%d"), strings.EqualFold / ToLower (ASCII part, see below)

  Conventions
  * every Go pointer / optional block is an `Option`; a dereference of `none`
    is the explicit outcome `.panic` (never a defaulted value);
  * Go slices are `List`s (nil ≡ empty: both vanish under `omitempty` JSON and the
    code only ranges over them); `for … { dst = append(dst, f x) }` is `List.map f`;
  * sub-trees the conversion copies wholesale are opaque `String`s (their canonical
    JSON): ObjectMeta minus annotations, the annotations other than the two keys the
    conversion reads/writes, header / path / query matches, RequestHeaderModifier,
    BlueGreenStrategy, BlueGreenStatus, timestamps;
  * `map[string]string` copies (`for k, v := range m { dst[k] = v }` into a fresh
    map) are the identity on the sorted key/value list;
  * `dst` of every conversion is a fresh zero object (what the conversion webhook passes).
  * `strings.EqualFold(x, K)` for the three constants K ∈ {Partition, Canary, BlueGreen}
    equals ASCII-case-insensitive equality, because no letter of K has a non-ASCII
    simple-fold partner (only `k`/`s` do).  `strings.ToLower` is modelled on ASCII only.
-/
namespace RV.Conversion

/-! ## outcome of a Go function that may dereference nil -/

inductive Outcome (α : Type) where
  | ok (a : α)
  | panic
  deriving Repr, DecidableEq

def Outcome.isOk {α} : Outcome α → Bool
  | .ok _ => true
  | .panic => false

def Outcome.bind {α β} (x : Outcome α) (f : α → Outcome β) : Outcome β :=
  match x with
  | .ok a => f a
  | .panic => .panic

/-! ## strings: `%d`, `strconv.Atoi`, percent parsing, case folding -/

/-- `fmt.Sprintf("%d", i)` as a character list. -/
def showInt (i : Int) : List Char :=
  if i < 0 then '-' :: Nat.toDigits 10 i.natAbs else Nat.toDigits 10 i.natAbs

/-- `fmt.Sprintf("%d", w) + "%"` -/
def fmtPercent (w : Int) : String := String.ofList (showInt w ++ ['%'])

def digitVal? (c : Char) : Option Nat :=
  if '0' ≤ c ∧ c ≤ '9' then some (c.toNat - 48) else none

/-- decimal digits, most significant first; `none` on any non-digit -/
def parseDigits : List Char → Nat → Option Nat
  | [], acc => some acc
  | c :: cs, acc =>
    match digitVal? c with
    | none => none
    | some d => parseDigits cs (acc * 10 + d)

def parseNat (l : List Char) : Option Nat :=
  if l.isEmpty then none else parseDigits l 0

def int64Min : Int := -9223372036854775808
def int64Max : Int := 9223372036854775807

/-- `strconv.Atoi` (64-bit): `[+-]?[0-9]+`, range error outside int64. -/
def goAtoi (l : List Char) : Option Int :=
  let r : Option Int :=
    match l with
    | '-' :: ds => match parseNat ds with
      | some n => some (-(Int.ofNat n))
      | none => none
    | '+' :: ds => match parseNat ds with
      | some n => some (Int.ofNat n)
      | none => none
    | ds => match parseNat ds with
      | some n => some (Int.ofNat n)
      | none => none
  match r with
  | none => none
  | some v => if int64Min ≤ v ∧ v ≤ int64Max then some v else none

/-- `intstr.GetScaledValueFromIntOrPercent(&intstr.FromString(t), 100, true)` followed by
    `int32(weight)`: `0` unless `t` is `"<int>%"`; then `⌈v·100/100⌉ = v`
    (float64 is exact for |v| < 2^53/100; larger magnitudes are outside the model)
    truncated to int32. -/
def goTrafficWeight (t : String) : Int32 :=
  match t.toList.reverse with
  | '%' :: r =>
    match goAtoi r.reverse with
    | some v => Int32.ofInt v
    | none => 0
  | _ => 0

def lowerAscii (s : String) : String := String.ofList (s.toList.map Char.toLower)

/-- `strings.EqualFold(s, k)` for `k` one of the three style constants. -/
def eqFold (s k : String) : Bool := s.toList.map Char.toLower == k.toList.map Char.toLower

def stylePartition : String := "Partition"
def styleCanary : String := "Canary"
def styleBlueGreen : String := "BlueGreen"

/-! ## shared leaf types (identical field sets in both API versions; the
    conversion nevertheless rebuilds them field by field, and so does the model) -/

/-- `intstr.IntOrString` -/
inductive IOS where
  | int (n : Int)
  | str (s : String)
  deriving Repr, DecidableEq

/-- metav1.ObjectMeta -/
structure Meta where
  /-- everything except annotations (opaque) -/
  rest : String
  /-- annotations["rollouts.kruise.io/rolling-style"] -/
  annStyle : Option String
  /-- annotations["rollouts.kruise.io/trafficrouting"] -/
  annTR : Option String
  /-- all other annotations (opaque) -/
  annOthers : String
  deriving Repr, DecidableEq

/-- Go map lookup `m[k]` (absent ↦ "") -/
def annGet (v : Option String) : String :=
  match v with
  | some s => s
  | none => ""

/-- v1alpha1.WorkloadRef / CustomNetworkRef, v1beta1.ObjectRef -/
structure Ref where
  apiVersion : String
  kind : String
  name : String
  deriving Repr, DecidableEq

structure Ingress where
  classType : String
  name : String
  deriving Repr, DecidableEq

structure Gateway where
  httpRouteName : Option String
  deriving Repr, DecidableEq

structure TRRef where
  service : String
  gracePeriodSeconds : Int
  ingress : Option Ingress
  gateway : Option Gateway
  customNetworkRefs : List Ref
  deriving Repr, DecidableEq

structure Patch where
  annotations : List (String × String)
  labels : List (String × String)
  deriving Repr, DecidableEq

structure Pause where
  duration : Option Int
  deriving Repr, DecidableEq

structure Condition where
  type : String
  status : String
  lastUpdateTime : String
  lastTransitionTime : String
  reason : String
  message : String
  deriving Repr, DecidableEq

/-- v1alpha1.CanaryStatus / v1beta1.CanaryStatus (CommonStatus inlined) -/
structure CanaryStatus where
  observedWorkloadGeneration : Int
  observedRolloutID : String
  rolloutHash : String
  stableRevision : String
  canaryRevision : String
  podTemplateHash : String
  canaryReplicas : Int
  canaryReadyReplicas : Int
  nextStepIndex : Int
  currentStepIndex : Int
  currentStepState : String
  message : String
  lastUpdateTime : Option String
  finalisingStep : String
  deriving Repr, DecidableEq

structure ReleasePlan where
  batches : List IOS
  batchPartition : Option Int
  rolloutID : String
  failureThreshold : Option IOS
  finalizingPolicy : String
  patch : Option Patch
  rollingStyle : String
  enableExtraWorkloadForCanary : Bool
  deriving Repr, DecidableEq

structure BRCanaryStatus where
  currentBatchState : String
  currentBatch : Int
  batchReadyTime : Option String
  updatedReplicas : Int
  updatedReadyReplicas : Int
  noNeedUpdateReplicas : Option Int
  deriving Repr, DecidableEq

/-! ## v1alpha1 -/
namespace A

structure Match where
  headers : List String
  deriving Repr, DecidableEq

structure TRStrategy where
  weight : Option Int32
  requestHeaderModifier : Option String
  mts : List Match
  deriving Repr, DecidableEq

structure Step where
  tr : TRStrategy
  replicas : Option IOS
  pause : Pause
  deriving Repr, DecidableEq

structure Canary where
  steps : List Step
  trafficRoutings : List TRRef
  failureThreshold : Option IOS
  patch : Option Patch
  disableGenerateCanaryService : Bool
  deriving Repr, DecidableEq

structure Strategy where
  paused : Bool
  canary : Option Canary
  deriving Repr, DecidableEq

structure Spec where
  /-- spec.objectRef.workloadRef -/
  workloadRef : Option Ref
  strategy : Strategy
  /-- spec.rolloutID (DeprecatedRolloutID) -/
  rolloutID : String
  disabled : Bool
  deriving Repr, DecidableEq

structure Status where
  observedGeneration : Int
  canaryStatus : Option CanaryStatus
  conditions : List Condition
  phase : String
  message : String
  deriving Repr, DecidableEq

structure Rollout where
  md : Meta
  spec : Spec
  status : Status
  deriving Repr, DecidableEq

def Spec.zero : Spec :=
  { workloadRef := none, strategy := { paused := false, canary := none }, rolloutID := "", disabled := false }

def Status.zero : Status :=
  { observedGeneration := 0, canaryStatus := none, conditions := [], phase := "", message := "" }

structure BRSpec where
  /-- spec.targetReference.workloadRef -/
  workloadRef : Option Ref
  plan : ReleasePlan
  deriving Repr, DecidableEq

structure BRStatus where
  conditions : List Condition
  canaryStatus : BRCanaryStatus
  stableRevision : String
  updateRevision : String
  observedGeneration : Int
  observedRolloutID : String
  observedWorkloadReplicas : Int
  collisionCount : Option Int
  observedReleasePlanHash : String
  phase : String
  deriving Repr, DecidableEq

structure BatchRelease where
  md : Meta
  spec : BRSpec
  status : BRStatus
  deriving Repr, DecidableEq

end A

/-! ## v1beta1 -/
namespace B

structure Match where
  path : Option String
  headers : List String
  queryParams : List String
  deriving Repr, DecidableEq

structure TRStrategy where
  traffic : Option String
  requestHeaderModifier : Option String
  mts : List Match
  deriving Repr, DecidableEq

structure Step where
  tr : TRStrategy
  replicas : Option IOS
  pause : Pause
  deriving Repr, DecidableEq

structure Canary where
  steps : List Step
  trafficRoutings : List TRRef
  failureThreshold : Option IOS
  patch : Option Patch
  enableExtraWorkloadForCanary : Bool
  trafficRoutingRef : String
  disableGenerateCanaryService : Bool
  deriving Repr, DecidableEq

structure Strategy where
  paused : Bool
  canary : Option Canary
  /-- BlueGreenStrategy (opaque: the conversion only tests it for nil) -/
  blueGreen : Option String
  deriving Repr, DecidableEq

structure Spec where
  workloadRef : Ref
  strategy : Strategy
  disabled : Bool
  deriving Repr, DecidableEq

structure Status where
  observedGeneration : Int
  canaryStatus : Option CanaryStatus
  /-- BlueGreenStatus (opaque) -/
  blueGreenStatus : Option String
  conditions : List Condition
  phase : String
  message : String
  /-- status.currentStepIndex / currentStepState (v1beta1 only, for `kubectl get`) -/
  currentStepIndex : Int
  currentStepState : String
  deriving Repr, DecidableEq

structure Rollout where
  md : Meta
  spec : Spec
  status : Status
  deriving Repr, DecidableEq

structure BRSpec where
  workloadRef : Ref
  plan : ReleasePlan
  deriving Repr, DecidableEq

structure BRStatus where
  conditions : List Condition
  canaryStatus : BRCanaryStatus
  stableRevision : String
  updateRevision : String
  observedGeneration : Int
  observedRolloutID : String
  observedWorkloadReplicas : Int
  collisionCount : Option Int
  observedReleasePlanHash : String
  phase : String
  /-- v1beta1 only -/
  message : String
  deriving Repr, DecidableEq

structure BatchRelease where
  md : Meta
  spec : BRSpec
  status : BRStatus
  deriving Repr, DecidableEq

inductive Style where
  | blueGreen | canary | partition
  deriving Repr, DecidableEq

/-- `(*RolloutStrategy).GetRollingStyle` -/
def Strategy.getRollingStyle (r : Strategy) : Outcome Style :=
  if r.blueGreen.isSome then .ok .blueGreen
  else
    match r.canary with
    | none => .panic                       -- r.Canary.EnableExtraWorkloadForCanary
    | some c => if c.enableExtraWorkloadForCanary then .ok .canary else .ok .partition

/-- `(*RolloutStrategy).IsCanaryStragegy` -/
def Strategy.isCanaryStrategy (r : Strategy) : Outcome Bool :=
  (r.getRollingStyle).bind fun s => .ok (s == .canary || s == .partition)

/-- `(*RolloutStrategy).IsEmptyRelease` -/
def Strategy.isEmptyRelease (r : Strategy) : Bool :=
  r.blueGreen.isNone && r.canary.isNone

end B

/-! ## shared pieces of the conversion (rebuilt field by field, as the code does) -/

def refCopy (r : Ref) : Ref := { apiVersion := r.apiVersion, kind := r.kind, name := r.name }

/-- `ConversionToV1beta1TrafficRoutingRef` and `ConversionToV1alpha1TrafficRoutingRef`
    (same shape in both directions) -/
def trRefConv (src : TRRef) : TRRef :=
  { service := src.service
    gracePeriodSeconds := src.gracePeriodSeconds
    ingress := match src.ingress with
      | some i => some { classType := i.classType, name := i.name }
      | none => none
    gateway := match src.gateway with
      | some g => some { httpRouteName := g.httpRouteName }
      | none => none
    customNetworkRefs := src.customNetworkRefs.map refCopy }

/-- `if p != nil { dst = &PatchPodTemplateMetadata{fresh maps}; copy every entry }` -/
def patchConv (p : Option Patch) : Option Patch :=
  match p with
  | some p => some { annotations := p.annotations, labels := p.labels }
  | none => none

def condConv (c : Condition) : Condition :=
  { type := c.type, status := c.status, lastUpdateTime := c.lastUpdateTime,
    lastTransitionTime := c.lastTransitionTime, reason := c.reason, message := c.message }

def canaryStatusConv (s : CanaryStatus) : CanaryStatus :=
  { observedWorkloadGeneration := s.observedWorkloadGeneration
    observedRolloutID := s.observedRolloutID
    rolloutHash := s.rolloutHash
    stableRevision := s.stableRevision
    canaryRevision := s.canaryRevision
    podTemplateHash := s.podTemplateHash
    canaryReplicas := s.canaryReplicas
    canaryReadyReplicas := s.canaryReadyReplicas
    nextStepIndex := s.nextStepIndex
    currentStepIndex := s.currentStepIndex
    currentStepState := s.currentStepState
    message := s.message
    lastUpdateTime := s.lastUpdateTime
    finalisingStep := s.finalisingStep }

def brCanaryStatusConv (s : BRCanaryStatus) : BRCanaryStatus :=
  { currentBatchState := s.currentBatchState
    currentBatch := s.currentBatch
    batchReadyTime := s.batchReadyTime
    updatedReplicas := s.updatedReplicas
    updatedReadyReplicas := s.updatedReadyReplicas
    noNeedUpdateReplicas := s.noNeedUpdateReplicas }

/-! ## Rollout: v1alpha1 → v1beta1 -/

/-- `ConversionToV1beta1TrafficRoutingStrategy` -/
def trStrategyTo (src : A.TRStrategy) : B.TRStrategy :=
  { traffic := match src.weight with
      | some w => some (fmtPercent w.toInt)
      | none => none
    requestHeaderModifier := src.requestHeaderModifier
    mts := src.mts.map fun m => { path := none, headers := m.headers, queryParams := [] } }

/-- body of the `for _, step := range srcSpec.Strategy.Canary.Steps` loop in `ConvertTo` -/
def stepTo (step : A.Step) : B.Step :=
  let o : B.Step :=
    { tr := trStrategyTo step.tr, replicas := step.replicas, pause := { duration := step.pause.duration } }
  match step.replicas, step.tr.weight with
  | none, some w => { o with replicas := some (.str (fmtPercent w.toInt)) }
  | _, _ => o

/-- status part of `(*Rollout).ConvertTo` -/
def statusTo (s : A.Status) : B.Status :=
  { observedGeneration := s.observedGeneration
    phase := s.phase
    message := s.message
    conditions := s.conditions.map condConv
    canaryStatus := match s.canaryStatus with
      | none => none
      | some cs => some (canaryStatusConv cs)
    blueGreenStatus := none
    currentStepIndex := 0
    currentStepState := "" }

/-- the `if srcSpec.Strategy.Canary != nil { … }` block of `(*Rollout).ConvertTo` -/
def canaryTo (md : Meta) (c : A.Canary) : B.Canary :=
  { failureThreshold := c.failureThreshold
    disableGenerateCanaryService := c.disableGenerateCanaryService
    steps := c.steps.map stepTo
    trafficRoutings := c.trafficRoutings.map trRefConv
    patch := patchConv c.patch
    enableExtraWorkloadForCanary := !(eqFold (annGet md.annStyle) stylePartition)
    trafficRoutingRef := if annGet md.annTR != "" then annGet md.annTR else "" }

/-- the zero `v1beta1.ObjectRef` -/
def zeroRef : Ref := { apiVersion := "", kind := "", name := "" }

/-- `(*Rollout).ConvertTo` (dst = `*v1beta1.Rollout`) -/
def rolloutTo (src : A.Rollout) : Outcome B.Rollout :=
  .ok { md := src.md
        spec := { workloadRef := match src.spec.workloadRef with
                    | some w => refCopy w          -- if srcSpec.ObjectRef.WorkloadRef != nil
                    | none => zeroRef
                  disabled := src.spec.disabled
                  strategy := { paused := src.spec.strategy.paused
                                canary := match src.spec.strategy.canary with
                                  | some c => some (canaryTo src.md c)   -- if srcSpec.Strategy.Canary != nil
                                  | none => none
                                blueGreen := none } }
        status := statusTo src.status }

/-! ## Rollout: v1beta1 → v1alpha1 -/

/-- `ConversionToV1alpha1TrafficRoutingStrategy` -/
def trStrategyFrom (src : B.TRStrategy) : A.TRStrategy :=
  { weight := match src.traffic with
      | some t => some (goTrafficWeight t)
      | none => none
    requestHeaderModifier := src.requestHeaderModifier
    mts := src.mts.map fun m => { headers := m.headers } }

def stepFrom (step : B.Step) : A.Step :=
  { tr := trStrategyFrom step.tr, replicas := step.replicas, pause := { duration := step.pause.duration } }

def statusFrom (s : B.Status) : A.Status :=
  { observedGeneration := s.observedGeneration
    phase := s.phase
    message := s.message
    conditions := s.conditions.map condConv
    canaryStatus := match s.canaryStatus with
      | none => none
      | some cs => some (canaryStatusConv cs) }

/-- the `if srcV1beta1.Spec.Strategy.Canary != nil { … }` block of `(*Rollout).ConvertFrom`: spec part -/
def canaryFrom (c : B.Canary) : A.Canary :=
  { failureThreshold := c.failureThreshold
    disableGenerateCanaryService := c.disableGenerateCanaryService
    steps := c.steps.map stepFrom
    trafficRoutings := c.trafficRoutings.map trRefConv
    patch := patchConv c.patch }

/-- … and its annotation part (`dst.Annotations[RolloutStyleAnnotation] = …` etc.) -/
def mdFrom (md : Meta) (c : B.Canary) : Meta :=
  let md1 : Meta :=
    if c.enableExtraWorkloadForCanary then { md with annStyle := some (lowerAscii styleCanary) }
    else { md with annStyle := some (lowerAscii stylePartition) }
  if c.trafficRoutingRef != "" then { md1 with annTR := some c.trafficRoutingRef } else md1

/-- `!IsEmptyRelease() && !IsCanaryStragegy()` (short-circuit: `IsCanaryStragegy`, which
    dereferences `Canary`, is only evaluated for a non-empty strategy) -/
def blueGreenOnly (r : B.Strategy) : Outcome Bool :=
  if !r.isEmptyRelease then (r.isCanaryStrategy).bind fun b => .ok (!b) else .ok false

/-- `(*Rollout).ConvertFrom` (src = `*v1beta1.Rollout`, dst fresh) -/
def rolloutFrom (src : B.Rollout) : Outcome A.Rollout :=
  (blueGreenOnly src.spec.strategy).bind fun bg =>
  if bg then
    -- only v1beta1 supports bluegreen strategy: ObjectMeta only
    .ok { md := src.md, spec := A.Spec.zero, status := A.Status.zero }
  else
    .ok { md := match src.spec.strategy.canary with
            | some c => mdFrom src.md c            -- if srcV1beta1.Spec.Strategy.Canary != nil
            | none => src.md
          spec := { workloadRef := some (refCopy src.spec.workloadRef)
                    strategy := { paused := src.spec.strategy.paused
                                  canary := match src.spec.strategy.canary with
                                    | some c => some (canaryFrom c)
                                    | none => none }
                    rolloutID := ""
                    disabled := src.spec.disabled }
          status := statusFrom src.status }

/-! ## BatchRelease -/

/-- spec.releasePlan part of `(*BatchRelease).ConvertTo` -/
def planTo (ann : Option String) (p : ReleasePlan) : ReleasePlan :=
  let s0 : String := p.rollingStyle          -- RollingStyle: RollingStyleType(srcSpec.ReleasePlan.RollingStyle)
  let s1 := if eqFold (annGet ann) stylePartition then stylePartition else s0
  let s2 := if eqFold (annGet ann) styleCanary then styleCanary else s1
  let s3 := if eqFold (annGet ann) styleBlueGreen then styleBlueGreen else s2
  { batchPartition := p.batchPartition
    rolloutID := p.rolloutID
    failureThreshold := p.failureThreshold
    finalizingPolicy := p.finalizingPolicy
    batches := p.batches.map fun b => b
    patch := patchConv p.patch
    rollingStyle := s3
    enableExtraWorkloadForCanary := p.enableExtraWorkloadForCanary }

def brStatusTo (s : A.BRStatus) : B.BRStatus :=
  { stableRevision := s.stableRevision
    updateRevision := s.updateRevision
    observedGeneration := s.observedGeneration
    observedRolloutID := s.observedRolloutID
    observedWorkloadReplicas := s.observedWorkloadReplicas
    observedReleasePlanHash := s.observedReleasePlanHash
    collisionCount := s.collisionCount
    phase := s.phase
    conditions := s.conditions.map condConv
    canaryStatus := brCanaryStatusConv s.canaryStatus
    message := "" }

/-- `(*BatchRelease).ConvertTo` -/
def brTo (src : A.BatchRelease) : Outcome B.BatchRelease :=
  .ok { md := src.md
        spec := { workloadRef := match src.spec.workloadRef with
                    | some w => refCopy w          -- if srcSpec.TargetRef.WorkloadRef != nil
                    | none => zeroRef
                  plan := planTo src.md.annStyle src.spec.plan }
        status := brStatusTo src.status }

/-- spec.releasePlan part of `(*BatchRelease).ConvertFrom` -/
def planFrom (p : ReleasePlan) : ReleasePlan :=
  { batchPartition := p.batchPartition
    rolloutID := p.rolloutID
    failureThreshold := p.failureThreshold
    finalizingPolicy := p.finalizingPolicy
    batches := p.batches.map fun b => b
    patch := patchConv p.patch
    rollingStyle := p.rollingStyle
    enableExtraWorkloadForCanary := p.enableExtraWorkloadForCanary }

def brStatusFrom (s : B.BRStatus) : A.BRStatus :=
  { stableRevision := s.stableRevision
    updateRevision := s.updateRevision
    observedGeneration := s.observedGeneration
    observedRolloutID := s.observedRolloutID
    observedWorkloadReplicas := s.observedWorkloadReplicas
    observedReleasePlanHash := s.observedReleasePlanHash
    collisionCount := s.collisionCount
    phase := s.phase
    conditions := s.conditions.map condConv
    canaryStatus := brCanaryStatusConv s.canaryStatus }

/-- `(*BatchRelease).ConvertFrom` -/
def brFrom (src : B.BatchRelease) : Outcome A.BatchRelease :=
  .ok { md := { src.md with annStyle := some (lowerAscii src.spec.plan.rollingStyle) }
        spec := { workloadRef := some (refCopy src.spec.workloadRef), plan := planFrom src.spec.plan }
        status := brStatusFrom src.status }

/-! ## source facts: the leaf fields of both type trees the model knows about.
    The harness recomputes these lists from the Go types by reflection on every
    run (op `fields`); a new field in /repo makes the lists differ, which is
    reported as a broken correspondence ("the model must grow"). -/

def fieldsARollout : List String :=
  ["metadata",
   "spec.disabled", "spec.objectRef.workloadRef.apiVersion", "spec.objectRef.workloadRef.kind",
   "spec.objectRef.workloadRef.name", "spec.rolloutID",
   "spec.strategy.canary.disableGenerateCanaryService", "spec.strategy.canary.failureThreshold",
   "spec.strategy.canary.patchPodTemplateMetadata.annotations",
   "spec.strategy.canary.patchPodTemplateMetadata.labels",
   "spec.strategy.canary.steps[].matches[].headers[]", "spec.strategy.canary.steps[].pause.duration",
   "spec.strategy.canary.steps[].replicas", "spec.strategy.canary.steps[].requestHeaderModifier",
   "spec.strategy.canary.steps[].weight",
   "spec.strategy.canary.trafficRoutings[].customNetworkRefs[].apiVersion",
   "spec.strategy.canary.trafficRoutings[].customNetworkRefs[].kind",
   "spec.strategy.canary.trafficRoutings[].customNetworkRefs[].name",
   "spec.strategy.canary.trafficRoutings[].gateway.httpRouteName",
   "spec.strategy.canary.trafficRoutings[].gracePeriodSeconds",
   "spec.strategy.canary.trafficRoutings[].ingress.classType",
   "spec.strategy.canary.trafficRoutings[].ingress.name",
   "spec.strategy.canary.trafficRoutings[].service",
   "spec.strategy.paused",
   "status.canaryStatus.canaryReadyReplicas", "status.canaryStatus.canaryReplicas",
   "status.canaryStatus.canaryRevision", "status.canaryStatus.currentStepIndex",
   "status.canaryStatus.currentStepState", "status.canaryStatus.finalisingStep",
   "status.canaryStatus.lastUpdateTime", "status.canaryStatus.message",
   "status.canaryStatus.nextStepIndex", "status.canaryStatus.observedRolloutID",
   "status.canaryStatus.observedWorkloadGeneration", "status.canaryStatus.podTemplateHash",
   "status.canaryStatus.rolloutHash", "status.canaryStatus.stableRevision",
   "status.conditions[].lastTransitionTime", "status.conditions[].lastUpdateTime",
   "status.conditions[].message", "status.conditions[].reason", "status.conditions[].status",
   "status.conditions[].type",
   "status.message", "status.observedGeneration", "status.phase"]

def fieldsBRollout : List String :=
  ["metadata",
   "spec.disabled",
   "spec.strategy.blueGreen",
   "spec.strategy.canary.disableGenerateCanaryService",
   "spec.strategy.canary.enableExtraWorkloadForCanary", "spec.strategy.canary.failureThreshold",
   "spec.strategy.canary.patchPodTemplateMetadata.annotations",
   "spec.strategy.canary.patchPodTemplateMetadata.labels",
   "spec.strategy.canary.steps[].matches[].headers[]", "spec.strategy.canary.steps[].matches[].path",
   "spec.strategy.canary.steps[].matches[].queryParams[]",
   "spec.strategy.canary.steps[].pause.duration",
   "spec.strategy.canary.steps[].replicas", "spec.strategy.canary.steps[].requestHeaderModifier",
   "spec.strategy.canary.steps[].traffic",
   "spec.strategy.canary.trafficRoutingRef",
   "spec.strategy.canary.trafficRoutings[].customNetworkRefs[].apiVersion",
   "spec.strategy.canary.trafficRoutings[].customNetworkRefs[].kind",
   "spec.strategy.canary.trafficRoutings[].customNetworkRefs[].name",
   "spec.strategy.canary.trafficRoutings[].gateway.httpRouteName",
   "spec.strategy.canary.trafficRoutings[].gracePeriodSeconds",
   "spec.strategy.canary.trafficRoutings[].ingress.classType",
   "spec.strategy.canary.trafficRoutings[].ingress.name",
   "spec.strategy.canary.trafficRoutings[].service",
   "spec.strategy.paused",
   "spec.workloadRef.apiVersion", "spec.workloadRef.kind", "spec.workloadRef.name",
   "status.blueGreenStatus",
   "status.canaryStatus.canaryReadyReplicas", "status.canaryStatus.canaryReplicas",
   "status.canaryStatus.canaryRevision", "status.canaryStatus.currentStepIndex",
   "status.canaryStatus.currentStepState", "status.canaryStatus.finalisingStep",
   "status.canaryStatus.lastUpdateTime", "status.canaryStatus.message",
   "status.canaryStatus.nextStepIndex", "status.canaryStatus.observedRolloutID",
   "status.canaryStatus.observedWorkloadGeneration", "status.canaryStatus.podTemplateHash",
   "status.canaryStatus.rolloutHash", "status.canaryStatus.stableRevision",
   "status.conditions[].lastTransitionTime", "status.conditions[].lastUpdateTime",
   "status.conditions[].message", "status.conditions[].reason", "status.conditions[].status",
   "status.conditions[].type",
   "status.currentStepIndex", "status.currentStepState",
   "status.message", "status.observedGeneration", "status.phase"]

def fieldsPlan : List String :=
  ["spec.releasePlan.batchPartition", "spec.releasePlan.batches[].canaryReplicas",
   "spec.releasePlan.enableExtraWorkloadForCanary", "spec.releasePlan.failureThreshold",
   "spec.releasePlan.finalizingPolicy",
   "spec.releasePlan.patchPodTemplateMetadata.annotations",
   "spec.releasePlan.patchPodTemplateMetadata.labels",
   "spec.releasePlan.rollingStyle", "spec.releasePlan.rolloutID"]

def fieldsBRStatus : List String :=
  ["status.canaryStatus.batchReadyTime", "status.canaryStatus.batchState",
   "status.canaryStatus.currentBatch", "status.canaryStatus.noNeedUpdateReplicas",
   "status.canaryStatus.updatedReadyReplicas", "status.canaryStatus.updatedReplicas",
   "status.collisionCount",
   "status.conditions[].lastTransitionTime", "status.conditions[].lastUpdateTime",
   "status.conditions[].message", "status.conditions[].reason", "status.conditions[].status",
   "status.conditions[].type"]

def fieldsBRStatusTail : List String :=
  ["status.observedGeneration", "status.observedReleasePlanHash", "status.observedRolloutID",
   "status.observedWorkloadReplicas", "status.phase", "status.stableRevision", "status.updateRevision"]

def fieldsABatchRelease : List String :=
  ["metadata"] ++ fieldsPlan ++
  ["spec.targetReference.workloadRef.apiVersion", "spec.targetReference.workloadRef.kind",
   "spec.targetReference.workloadRef.name"] ++ fieldsBRStatus ++ fieldsBRStatusTail

def fieldsBBatchRelease : List String :=
  ["metadata"] ++ fieldsPlan ++
  ["spec.workloadRef.apiVersion", "spec.workloadRef.kind", "spec.workloadRef.name"] ++
  fieldsBRStatus ++ ["status.message"] ++ fieldsBRStatusTail

end RV.Conversion
