/-
  The concrete control planes of the BatchRelease executor as instances of `RV.ExecutorX.Plane`:
  thin adapters over the existing plane models (nothing of a plane is re-modelled here).

    csPlane            (RV.ExecutorX)   partition-style CloneSet        — the functions of RV.Executor
    pdepPlane          RV.CtlPDeploy    partition-style Deployment
    stsPlane           RV.CtlSts        StatefulSet-like (native / Advanced / unstructured) and Advanced DaemonSet
    bgPlane kind       RV.CtlBlueGreen  blue-green Deployment / CloneSet (+ HPA, ReplicaSets)
    canaryPlane        RV.CtlCanary     canary-style Deployment (stable + canary Deployments, creation expectation)

  What an adapter adds to a plane model is only what that model does not carry because its suite does not need it:
  the status fields `SyncWorkloadInformation` reads (`Obs`), and `EnsureBatchPodsReadyAndLabeled` where the plane model
  has none (it is `CalculateBatchContext` → `IsBatchReady` of `RV.BatchCtx`, validated per kind by suite `batchctx`).

  Source: pkg/controller/batchrelease/control/{partitionstyle,bluegreenstyle,canarystyle}/control_plane.go
          (Initialize / UpgradeBatch / EnsureBatchPodsReadyAndLabeled / Finalize / SyncWorkloadInformation),
          the per-kind `BuildController` / `getWorkloadInfo` / `CalculateBatchContext`, pkg/util/parse_utils.go ParseWorkload.
-/
import RV.Model.ExecutorX
import RV.Model.CtlPDeploy
import RV.Model.CtlSts
import RV.Model.CtlBlueGreen
import RV.Model.CtlCanary
namespace RV.ExecutorX
open RV.Arith IntOrPct RV.BatchCtx RV.Executor

/-- the status fields of the workload object `ParseWorkload` / `getWorkloadInfo` read that a plane model does not carry.
    Which of them a plane reads is said at its adapter; the others are ignored by it. -/
structure Obs where
  generation : Int
  observedGeneration : Int
  statusReplicas : Int
  updated : Int
  updatedReady : Int
  updateRevision : String
  stableRevision : String
  deriving Repr, DecidableEq, Inhabited

def mkInfo (replicas generation observedGeneration statusReplicas updated updatedReady : Int)
    (updateRevision stableRevision : String) : Info :=
  { replicas := replicas, generation := generation, observedGeneration := observedGeneration,
    statusReplicas := statusReplicas, updated := updated, updatedReady := updatedReady,
    updateRevision := updateRevision, currentRevision := stableRevision,
    partition := none, paused := false, owner := .none }

/-- `SyncWorkloadInformation` of the partition-style and blue-green planes (the same code): nothing is read when the release
    is being deleted; otherwise `BuildController` (`i` = the parsed `WorkloadInfo`, `none` = NotFound, `panic` = `ParseWorkload`
    crashed) and the event chain of `RV.Executor.syncInfo`. -/
def syncVia (br : BR) (ns : Status) (i : Unit → Out (Option Info)) : Out (Event × Option Info) :=
  if br.deleting then .val (.normal, none) else
  match i () with
  | .panic => .panic
  | .val oi => .val (RV.Executor.syncInfo br ns oi)

/-- `release.Spec.ReleasePlan.Batches[release.Status.CanaryStatus.CurrentBatch]` -/
def entryOf (br : BR) : Option IntOrPct :=
  if br.status.currentBatch < 0 then none else br.batches[br.status.currentBatch.toNat]?

def resOfBool (b : Bool) : CallResult := if b then .ok else .err

/-! ## partition-style Deployment (`RV.CtlPDeploy`)

  `Obs`: generation, observedGeneration, statusReplicas, updated, updatedReady (= the `updatedReadyReplicas` of the
  extra-status annotation, read only when the annotation is present).  Update revision = hash of the pod template
  (`"t<tmpl>"`), stable revision = the stable-revision label. -/

structure PDepW where
  dep : Option CtlPDeploy.Dep
  obs : Obs
  deriving Repr, DecidableEq, Inhabited

/-- `util.ComputeHash(&spec.template)` of template number `n` -/
def tmplRev (n : Nat) : String := s!"t{n}"

def pdepInfo (w : PDepW) : Out (Option Info) :=
  match w.dep with
  | none => .val none
  | some d =>
    match d.replicas with
    | none => .panic          -- `ParseWorkload` → `GetReplicas`: `*o.Spec.Replicas`
    | some r =>
      .val (some (mkInfo r w.obs.generation w.obs.observedGeneration w.obs.statusReplicas w.obs.updated
        (if d.extraStatus then w.obs.updatedReady else 0) (tmplRev d.tmpl) d.stableRev))

def pdepRel (br : BR) (ns : Status) : CtlPDeploy.Rel :=
  { batches := br.batches, rollbackAnno := br.rollbackAnno, updated := ns.updated }

/-- `CalculateBatchContext` + `IsBatchReady` of the partition-style Deployment control -/
def pdepReady (br : BR) (w : PDepW) : Out Bool :=
  match pdepInfo w with
  | .panic => .panic
  | .val none => .val false
  | .val (some i) =>
    if i.replicas = 0 then .val true else
    match w.dep with
    | none => .val false
    | some d =>
      match calcCtx { kind := .depPartition, replicas := i.replicas, entry := entryOf br, noNeedUpdate := br.status.noNeedUpdate,
                      knobCur := (CtlPDeploy.getStrategy d).partition, updated := i.updated, updatedReady := i.updatedReady,
                      failureThreshold := br.failureThreshold } with
      | .panic => .panic
      | .ok c => .val (isBatchReady c none = .ok)

def pdepPlane : Plane PDepW where
  syncInfo := fun br ns w => syncVia br ns (fun _ => pdepInfo w)
  init := fun br ns w =>
    match CtlPDeploy.planeInitialize (pdepRel br ns) w.dep .none with
    | .panic => .panic
    | .val o =>
      match o.res, o.obs, w.dep with
      | .ok, some ob, some d =>
        .val ({ w with dep := o.dep },
              { ns with stableRevision := ob.stableRevision, updateRevision := tmplRev d.tmpl,
                        observedReplicas := ob.observedReplicas,
                        noNeedUpdate := match ob.noNeedUpdate with
                          | some k => some k
                          | none => ns.noNeedUpdate }, .ok)
      | _, _, _ => .val ({ w with dep := o.dep }, ns, .err)
  upgrade := fun br ns w =>
    match CtlPDeploy.planeUpgradeBatch (pdepRel br ns) br.status.currentBatch w.dep .none with
    | .panic => .panic
    | .val o => .val ({ w with dep := o.dep }, resOfBool (o.res = .ok))
  ensure := fun br _ w =>
    match pdepReady br w with
    | .panic => .panic
    | .val b => .val (resOfBool b)
  fin := fun br w =>
    match CtlPDeploy.planeFinalize br.partition.isNone w.dep .none with
    | .panic => .panic
    | .val o => .val ({ w with dep := o.dep }, resOfBool (o.res = .ok))

/-! ## StatefulSet-like workloads and the Advanced DaemonSet (`RV.CtlSts`)

  `Obs`: generation, observedGeneration, statusReplicas, stableRevision (`status.currentRevision`; a DaemonSet has none).
  `status.updateRevision` / `updatedReplicas` and the pods behind `updatedReadyReplicas` are the model's `Cluster`. -/

structure StsW where
  wl : Option CtlSts.Wl
  cl : CtlSts.Cluster
  obs : Obs
  deriving Repr, DecidableEq, Inhabited

def stsInfo (w : StsW) : Out (Option Info) :=
  match CtlSts.build w.wl .none with
  | .panic => .panic
  | .notFound | .err => .val none
  | .ok wl r =>
    let c := CtlSts.countersOf wl r w.cl
    -- a DaemonSet's `Status.Replicas` is `status.desiredNumberScheduled`, which is also its `Replicas`
    .val (some (mkInfo r w.obs.generation w.obs.observedGeneration
      (if wl.kind = .daemonSet then r else w.obs.statusReplicas) c.updated c.updatedReady
      w.cl.status.updateRevision (if wl.kind = .daemonSet then "" else w.obs.stableRevision)))

def stsRel (br : BR) (updated : Int) (nn : Option Int) : CtlSts.Rel :=
  { batches := br.batches, rollbackAnno := br.rollbackAnno, updated := updated, noNeedUpdate := nn,
    failureThreshold := br.failureThreshold }

def stsPlane : Plane StsW where
  syncInfo := fun br ns w => syncVia br ns (fun _ => stsInfo w)
  init := fun br ns w =>
    match CtlSts.planeInitialize (stsRel br ns.updated ns.noNeedUpdate) w.wl .none, stsInfo w with
    | .panic, _ => .panic
    | _, .panic => .panic
    | .val o, .val i =>
      match o.res, o.obs, i with
      | .ok, some ob, some i =>
        .val ({ w with wl := o.wl },
              { ns with stableRevision := i.currentRevision, updateRevision := i.updateRevision,
                        observedReplicas := ob.observedReplicas, noNeedUpdate := ob.noNeedUpdate }, .ok)
      | _, _, _ => .val ({ w with wl := o.wl }, ns, .err)
  upgrade := fun br _ w =>
    match CtlSts.planeUpgradeBatch (stsRel br br.status.updated br.status.noNeedUpdate) br.status.currentBatch w.wl .none with
    | .panic => .panic
    | .val o => .val ({ w with wl := o.wl }, resOfBool (o.res = .ok))
  ensure := fun br _ w =>
    match CtlSts.planeVerdict (stsRel br br.status.updated br.status.noNeedUpdate) br.status.currentBatch w.wl w.cl .none with
    | .panic => .panic
    | .val v => .val (resOfBool (v.verdict = .is .ok))
  fin := fun br w =>
    match CtlSts.planeFinalize br.partition.isNone w.wl .none with
    | .panic => .panic
    | .val o => .val ({ w with wl := o.wl }, resOfBool (o.res = .ok))

/-! ## blue-green Deployment / CloneSet (`RV.CtlBlueGreen`)

  `Obs`: generation, observedGeneration; CloneSet: updateRevision, stableRevision (`status.updateRevision` / `currentRevision`);
  Deployment: updatedReady = `status.readyReplicas` of the ReplicaSet of the current pod template — the newest ReplicaSet of
  the world when there is one (`getUpdatedReadyReplicas`); its stable revision is the stable-revision label. -/

structure BGW where
  w : CtlBlueGreen.World
  obs : Obs
  deriving Repr, DecidableEq, Inhabited

/-- the value the harness gives the stable-revision label of a Deployment that carries it -/
def bgStableLabel : String := "stable-hash"

/-- `util.ComputeHash(&spec.template)` of the (fixed) pod template of the blue-green Deployment -/
def bgTplRev : String := "bgtpl"

/-- the BatchRelease as the blue-green model reads it (this BatchRelease has UID 0) -/
def bgBR (br : BR) : CtlBlueGreen.BR :=
  { uid := 0, batches := br.batches, currentBatch := br.status.currentBatch, partitioned := br.partition.isSome }

def bgInfo (kind : CtlBlueGreen.Kind) (w : BGW) : Out (Option Info) :=
  match w.w.wl with
  | none => .val none
  | some wl =>
    match wl.replicas with
    | none => .panic
    | some r =>
      let ur := match kind with
        | .cloneSet => wl.status.updatedReady
        | .deployment => if w.w.rss.isEmpty then 0 else w.obs.updatedReady
      let sr := match kind with
        | .cloneSet => w.obs.stableRevision
        | .deployment => if wl.stableLabel then bgStableLabel else ""
      let upd := match kind with
        | .cloneSet => w.obs.updateRevision
        | .deployment => bgTplRev
      .val (some (mkInfo r w.obs.generation w.obs.observedGeneration wl.status.replicas wl.status.updated ur upd sr))

def bgKindOf : CtlBlueGreen.Kind → RV.BatchCtx.Kind
  | .deployment => .depBlueGreen
  | .cloneSet => .csBlueGreen

/-- `CalculateBatchContext` + `IsBatchReady` of the blue-green controls (neither sets `FailureThreshold`) -/
def bgReady (kind : CtlBlueGreen.Kind) (br : BR) (w : BGW) : Out Bool :=
  match bgInfo kind w with
  | .panic => .panic
  | .val none => .val false
  | .val (some i) =>
    if i.replicas = 0 then .val true else
    match w.w.wl with
    | none => .val false
    | some wl =>
      match calcCtx { kind := bgKindOf kind, replicas := i.replicas, entry := entryOf br, noNeedUpdate := none,
                      knobCur := (CtlBlueGreen.ruSurge wl.ru).getD (int 0), updated := i.updated, updatedReady := i.updatedReady,
                      failureThreshold := none } with
      | .panic => .panic
      | .ok c => .val (isBatchReady c none = .ok)

def bgPlane (kind : CtlBlueGreen.Kind) : Plane BGW where
  syncInfo := fun br ns w => syncVia br ns (fun _ => bgInfo kind w)
  init := fun br ns w =>
    match CtlBlueGreen.cpInitialize kind w.w (bgBR br) CtlBlueGreen.noFault, bgInfo kind w with
    | .panic, _ => .panic
    | _, .panic => .panic
    | .val o, .val i =>
      match o.res, o.observed, i with
      | .ok, some R, some i =>
        .val ({ w with w := o.world },
              { ns with stableRevision := i.currentRevision, updateRevision := i.updateRevision, observedReplicas := R }, .ok)
      | _, _, _ => .val ({ w with w := o.world }, ns, .err)
  upgrade := fun br _ w =>
    match CtlBlueGreen.cpUpgradeBatch kind w.w (bgBR br) CtlBlueGreen.noFault with
    | .panic => .panic
    | .val o => .val ({ w with w := o.world }, resOfBool (o.res = .ok))
  ensure := fun br _ w =>
    match bgReady kind br w with
    | .panic => .panic
    | .val b => .val (resOfBool b)
  fin := fun br w =>
    match CtlBlueGreen.cpFinalize kind w.w (bgBR br) CtlBlueGreen.noFault with
    | .panic => .panic
    | .val o => .val ({ w with w := o.world }, resOfBool (o.res = .ok))

/-! ## canary-style Deployment (`RV.CtlCanary`)

  The world is the model's list of Deployments plus what only this plane reads besides the workload objects: the in-memory
  creation expectation of this BatchRelease (`exp`, `timedOut`) and two release-plan fields that no other plane looks at
  (`finalizingPolicy = WaitResume`, `patchPodTemplateMetadata`). -/

structure CanaryW where
  w : CtlCanary.World
  exp : CtlCanary.Exp
  timedOut : Bool
  waitResume : Bool
  patch : Option (CtlCanary.KV × CtlCanary.KV)
  deriving Repr, DecidableEq, Inhabited

/-- insertion into a list sorted by key -/
def kvInsert (e : String × String) : List (String × String) → List (String × String)
  | [] => [e]
  | x :: xs => if e.1 < x.1 then e :: x :: xs else x :: kvInsert e xs

def kvSorted (m : CtlCanary.KV) : List (String × String) := m.foldr kvInsert []

def kvStr (m : CtlCanary.KV) : String := ",".intercalate ((kvSorted m).map fun e => e.1 ++ "=" ++ e.2)

/-- `util.ComputeHash(&spec.template)` as a token: equal tokens ⇔ equal templates (maps compared as maps) -/
def tplToken (t : CtlCanary.Template) : String := s!"r{t.rev}|{kvStr t.labels}|{kvStr t.annos}"

def canaryBR (br : BR) (w : CanaryW) : CtlCanary.BR :=
  { key := 0, batches := br.batches, currentBatch := br.status.currentBatch, partition := br.partition, rolloutID := false,
    failureThreshold := br.failureThreshold, waitResume := w.waitResume, patch := w.patch }

def canaryCfg (w : CanaryW) : CtlCanary.Cfg := { failAt := none, reads := false, timedOut := w.timedOut }

def canaryS (w : CanaryW) : CtlCanary.S := { w := w.w, n := 0, exp := w.exp, stable := none, canary := none }

def canaryAfter (w : CanaryW) (s : CtlCanary.S) : CanaryW := { w with w := s.w, exp := s.exp }

def canaryRes : CtlCanary.Res → Out CallResult
  | .ok => .val .ok
  | .panic => .panic
  | _ => .val .err

def canaryEvent : CtlCanary.SyncEvent → Event
  | .normal | .unknown => .normal
  | .gone => .gone
  | .stillReconciling => .stillReconciling
  | .replicasChanged => .replicasChanged
  | .podTemplateChanged => .podTemplateChanged

def canaryInfo (i : CtlCanary.SyncInfo) : Info :=
  mkInfo i.replicas 0 0 0 i.updated i.updatedReady
    (match i.updateRevision with
     | some t => tplToken t
     | none => "") ""

def canaryPlane : Plane CanaryW where
  syncInfo := fun br ns w =>
    let r := CtlCanary.planeSyncInfo (canaryCfg w) (canaryBR br w) br.deleting ns.observedReplicas ns.updateRevision tplToken (canaryS w)
    match r.2.1 with
    | .panic => .panic
    | _ => .val (canaryEvent r.2.2.1, r.2.2.2.map canaryInfo)
  init := fun br ns w =>
    let r := CtlCanary.planeInitialize (canaryCfg w) (canaryBR br w) (canaryS w)
    match r.2.1, r.2.2 with
    | .panic, _ => .panic
    | .ok, some st =>
      .val (canaryAfter w r.1,
            { ns with observedReplicas := st.observedReplicas, stableRevision := "", updateRevision := tplToken st.updateRevision }, .ok)
    | _, _ => .val (canaryAfter w r.1, ns, .err)
  upgrade := fun br _ w =>
    let r := CtlCanary.planeUpgradeBatch (canaryCfg w) (canaryBR br w) (canaryS w)
    match canaryRes r.2 with
    | .panic => .panic
    | .val c => .val (canaryAfter w r.1, c)
  ensure := fun br _ w => canaryRes (CtlCanary.planeEnsureReady (canaryCfg w) (canaryBR br w) (canaryS w)).2
  fin := fun br w =>
    let r := CtlCanary.planeFinalize (canaryCfg w) (canaryBR br w) (canaryS w)
    match canaryRes r.2 with
    | .panic => .panic
    | .val c => .val (canaryAfter w r.1, c)

end RV.ExecutorX
