/-
  The partition-style **Deployment** control plane of the BatchRelease controller,
  together with the Deployment branch of the workload webhook it round-trips through.

  Source:
    pkg/controller/batchrelease/control/partitionstyle/control_plane.go
        realBatchControlPlane.Initialize, UpgradeBatch, Finalize, markNoNeedUpdatePodsIfNeeds
    pkg/controller/batchrelease/control/partitionstyle/deployment/control.go
        realController.BuildController, Initialize, UpgradeBatch, Finalize, CalculateBatchContext
    pkg/controller/deployment/util/deployment_util.go   IsUnderRolloutControl, NewRSReplicasLimit
    pkg/util/workloads_utils.go                         GetDeploymentStrategy
    pkg/util/parse_utils.go                             ParseWorkload / GetReplicas (nil dereference)
    pkg/util/patch/patch_utils.go                       DeploymentPatch (strategic merge patch bodies)
    api/v1alpha1/deployment_types.go                    SetDefaultDeploymentStrategy   (RV.Webhook)
    pkg/webhook/workload/mutating/workload_update_handler.go  handleDeployment          (RV.Webhook)

  Scope of the model: rollout-id empty (no pod listing / pod label patching; that is C12's
  subject), one API fault per call (the read of the Deployment fails, or the write fails).
  The effect of a patch is the strategic-merge semantics of the API machinery on the modelled
  fields (`spec.strategy` merges key by key: a patch without `rollingUpdate` keeps the block).
-/
import RV.Model.Arith
import RV.Model.Webhook
namespace RV.CtlPDeploy
open RV.Arith IntOrPct RV.Webhook

/-- annotation `batchrelease.rollouts.kruise.io/control-info`: absent / names this BatchRelease /
    any other non-empty value -/
inductive Owner where
  | none | this | other
  deriving Repr, DecidableEq, Inhabited

/-- the Deployment as the control plane and the webhook see it -/
structure Dep where
  /-- `spec.replicas` (`none`: nil pointer) -/
  replicas : Option Int
  /-- `spec.paused` -/
  paused : Bool
  /-- `spec.strategy.type` -/
  stratType : String
  /-- `spec.strategy.rollingUpdate` -/
  stratRU : Option RU
  /-- annotation `rollouts.kruise.io/deployment-strategy` -/
  stratAnno : StratAnno
  control : Owner
  /-- label `rollouts.kruise.io/controlled-by-advanced-deployment-controller` present -/
  ctrlLabel : Bool
  /-- label `rollouts.kruise.io/stable-revision` ("" = absent) -/
  stableRev : String
  /-- annotation `rollouts.kruise.io/deployment-extra-status` present -/
  extraStatus : Bool
  /-- annotation `rollouts.kruise.io/in-progressing` present -/
  inProgress : Bool
  /-- pod template identity -/
  tmpl : Nat
  /-- everything else of the object (0 on input; the harness reports 1 when anything unmodelled changed) -/
  rest : Nat
  deriving Repr, DecidableEq, Inhabited

/-- the BatchRelease fields the three calls read (rollout-id is empty) -/
structure Rel where
  batches : List IntOrPct
  /-- annotation `rollouts.kruise.io/rollback-in-batch` non-empty -/
  rollbackAnno : Bool
  /-- `status.canaryStatus.updatedReplicas` -/
  updated : Int
  deriving Repr, DecidableEq, Inhabited

inductive Fault where
  | none | get | write
  deriving Repr, DecidableEq, Inhabited

inductive Res where
  | ok | err
  deriving Repr, DecidableEq, Inhabited

inductive Out (α : Type) where
  | val (a : α)
  | panic
  deriving Repr, DecidableEq

/-- what `Initialize` records into the new status -/
structure InitObs where
  observedReplicas : Int
  stableRevision : String
  noNeedUpdate : Option Int
  deriving Repr, DecidableEq, Inhabited

/-- outcome of one call: result, the Deployment afterwards, number of mutating API calls issued -/
structure StepOut where
  res : Res
  dep : Option Dep
  writes : Nat
  obs : Option InitObs
  deriving Repr, DecidableEq, Inhabited

/-- `util.GetDeploymentStrategy` -/
def getStrategy (d : Dep) : DepStrategy :=
  match d.stratAnno with
  | .valid s => s
  | _ => DepStrategy.zero

/-- `deploymentutil.IsUnderRolloutControl` -/
def isUnderRolloutControl (d : Dep) : Bool :=
  if d.control = .none then false
  else if d.stratType != "Recreate" then false
  else d.paused

/-- `realController.BuildController` (+ `getWorkloadInfo` → `util.ParseWorkload` → `GetReplicas`) -/
inductive Build where
  | ok (d : Dep) (replicas : Int)
  | notFound
  | err
  | panic
  deriving Repr

def build (d : Option Dep) (f : Fault) : Build :=
  if f = .get then .err else
  match d with
  | none => .notFound
  | some d =>
    match d.replicas with
    | none => .panic          -- `*o.Spec.Replicas`
    | some r => .ok d r

/-- strategic merge of `spec.strategy.rollingUpdate`: keys present in the patch win, others stay -/
def mergeRU (cur patch : Option RU) : Option RU :=
  match patch with
  | none => cur
  | some p =>
    match cur with
    | none => some p
    | some c =>
      some { maxUnavailable := match p.maxUnavailable with
                               | some x => some x
                               | none => c.maxUnavailable,
             maxSurge := match p.maxSurge with
                         | some x => some x
                         | none => c.maxSurge }

/-- `realController.Initialize`: `none` = returns without a write, `some d'` = the object the patch produces -/
def ctrlInitialize (d : Dep) : Option Dep :=
  if isUnderRolloutControl d then none   -- No need initialize again.
  else
    let strategy := getStrategy d
    let rollingUpdate := match d.stratRU with
      | some r => some r
      | none => strategy.ru
    let strategy := setDefaultDeploymentStrategy
      { paused := false, partition := int 0, rollingStyle := "Partition", ru := rollingUpdate }
    some { d with ctrlLabel := true, stratAnno := .valid strategy, control := .this,
                  paused := true, stratType := "Recreate" }

/-- `markNoNeedUpdatePodsIfNeeds` with an empty rollout-id -/
def noNeedUpdate (rel : Rel) : Option Int :=
  if rel.rollbackAnno then some rel.updated else none

/-- a call that issues at most one write: `w = none` → ok without write -/
def commit (d : Dep) (w : Option Dep) (f : Fault) (obs : Option InitObs) : StepOut :=
  match w with
  | none => { res := .ok, dep := some d, writes := 0, obs := obs }
  | some d' =>
    if f = .write then { res := .err, dep := some d, writes := 1, obs := none }
    else { res := .ok, dep := some d', writes := 1, obs := obs }

/-- `realBatchControlPlane.Initialize` -/
def planeInitialize (rel : Rel) (d : Option Dep) (f : Fault) : Out StepOut :=
  match build d f with
  | .panic => .panic
  | .err | .notFound => .val { res := .err, dep := d, writes := 0, obs := none }
  | .ok d r =>
    .val (commit d (ctrlInitialize d) f
      (some { observedReplicas := r, stableRevision := d.stableRev, noNeedUpdate := noNeedUpdate rel }))

/-- `realController.UpgradeBatch` for desired partition `e` -/
def ctrlUpgradeBatch (d : Dep) (r : Int) (e : IntOrPct) : Option Dep :=
  if !isUnderRolloutControl d then none   -- ridden out of our control
  else
    let strategy := getStrategy d
    if newRSReplicasLimit strategy.partition r ≥ newRSReplicasLimit e r then none   -- Satisfied
    else some { d with stratAnno := .valid { strategy with partition := e } }

/-- `realBatchControlPlane.UpgradeBatch`; `batch` = `status.canaryStatus.currentBatch` -/
def planeUpgradeBatch (rel : Rel) (batch : Int) (d : Option Dep) (f : Fault) : Out StepOut :=
  match build d f with
  | .panic => .panic
  | .err | .notFound => .val { res := .err, dep := d, writes := 0, obs := none }
  | .ok d r =>
    if r = 0 then .val { res := .ok, dep := some d, writes := 0, obs := none } else
    -- CalculateBatchContext: `Batches[currentBatch]`
    if batch < 0 then .panic else
    match rel.batches[batch.toNat]? with
    | none => .panic
    | some e => .val (commit d (ctrlUpgradeBatch d r e) f none)

/-- `realController.Finalize`; `bpNil` = `release.Spec.ReleasePlan.BatchPartition == nil` -/
def ctrlFinalize (d : Dep) (bpNil : Bool) : Option Dep :=
  let isUnderRolloutControl := d.control != .none && d.paused
  if !isUnderRolloutControl then none   -- No need to finalize again.
  else
    let d1 :=
      if bpNil then
        let strategy := getStrategy d
        let d := { d with paused := false }
        let d := if d.stratType == "Recreate" then
                   { d with stratType := "RollingUpdate", stratRU := mergeRU d.stratRU strategy.ru }
                 else d
        { d with stratAnno := .absent, extraStatus := false, stableRev := "", ctrlLabel := false }
      else d
    some { d1 with control := .none }

/-- `realBatchControlPlane.Finalize` -/
def planeFinalize (bpNil : Bool) (d : Option Dep) (f : Fault) : Out StepOut :=
  match build d f with
  | .panic => .panic
  | .notFound => .val { res := .ok, dep := d, writes := 0, obs := none }   -- client.IgnoreNotFound
  | .err => .val { res := .err, dep := d, writes := 0, obs := none }
  | .ok d _ => .val (commit d (ctrlFinalize d bpNil) f none)

/-! ### the webhook step -/

/-- a user's update of the Deployment -/
structure Edit where
  tmpl : Option Nat
  /-- the user (re-)submits `spec.strategy` = (type, rollingUpdate) -/
  strat : Option (String × Option RU)
  paused : Option Bool
  replicas : Option Int
  deriving Repr, DecidableEq, Inhabited

def Edit.none : Edit := { tmpl := .none, strat := .none, paused := .none, replicas := .none }

/-- what else is in the cluster when the webhook runs -/
structure World where
  /-- a Rollout (canary strategy, no traffic routing) references the Deployment -/
  matched : Bool
  /-- template of the one active ReplicaSet of the Deployment -/
  rsTmpl : Option Nat
  deriving Repr, DecidableEq, Inhabited

def applyEdit (d : Dep) (e : Edit) : Dep :=
  let d := match e.tmpl with
    | some t => { d with tmpl := t }
    | none => d
  let d := match e.strat with
    | some (t, ru) => { d with stratType := t, stratRU := ru }
    | none => d
  let d := match e.paused with
    | some p => { d with paused := p }
    | none => d
  match e.replicas with
  | some r => { d with replicas := some r }
  | none => d

def toObj (d : Dep) : Obj :=
  { group := "apps", kind := "Deployment", name := "wl", workloadType := "", replicas := d.replicas,
    rolloutId := "", tmplPresent := true, tmpl := { body := d.tmpl, hash := "" },
    inProgress := if d.inProgress then .rollout "ro" else .absent,
    paused := d.paused, stratType := d.stratType, stratRU := d.stratRU, stratAnno := d.stratAnno,
    hasOrigStrategy := false, stableRev := d.stableRev, csPartition := none, statusReplicas := 0,
    statusUpdated := 0, us := .absent, rest := 0 }

/-- the fields `handleDeployment` may write, copied back -/
def ofObj (d : Dep) (o : Obj) : Dep :=
  { d with paused := o.paused, stratType := o.stratType, stratRU := o.stratRU, stratAnno := o.stratAnno,
           stableRev := o.stableRev, inProgress := o.inProgress != .absent }

def worldRollouts (w : World) : List Rollout :=
  if w.matched then
    [{ name := "ro", deleting := false, phaseDisabled := false, refApiVersion := "apps/v1",
       refKind := "Deployment", refName := "wl", emptyRelease := false, hasTraffic := false }]
  else []

def worldRSs (w : World) : List RS :=
  match w.rsTmpl with
  | some t => [{ deleting := false, replicas := some 3, ctrl := .same, selected := true, tmplBody := t,
                 hashLabel := "h-stable", revision := some 1, created := 0 }]
  | none => []

/-- a user's update admitted through `WorkloadHandler.handleDeployment` (old = the stored object) -/
def submit (w : World) (d : Dep) (e : Edit) : Out Dep :=
  let new := applyEdit d e
  match handleDeployment (toObj new) (toObj d) (worldRollouts w) (worldRSs w) with
  | .panic => .panic
  | .ok _ o => .val (ofObj new o)

/-! ### walks -/

inductive Call where
  | initialize | upgradeBatch | finalize | submit
  deriving Repr, DecidableEq, Inhabited

structure Step where
  call : Call
  fault : Fault
  batch : Int
  bpNil : Bool
  edit : Edit
  deriving Repr, DecidableEq, Inhabited

structure Cfg where
  rel : Rel
  world : World
  deriving Repr, Inhabited

/-- one step of a walk -/
def step (c : Cfg) (d : Option Dep) (s : Step) : Out StepOut :=
  match s.call with
  | .initialize => planeInitialize c.rel d s.fault
  | .upgradeBatch => planeUpgradeBatch c.rel s.batch d s.fault
  | .finalize => planeFinalize s.bpNil d s.fault
  | .submit =>
    match d with
    | none => .val { res := .err, dep := none, writes := 0, obs := none }
    | some d =>
      match submit c.world d s.edit with
      | .panic => .panic
      | .val d' => .val { res := .ok, dep := some d', writes := 0, obs := none }

/-- the per-step outcomes of a walk; a panic ends it -/
def run (c : Cfg) (d : Option Dep) : List Step → List (Out StepOut)
  | [] => []
  | s :: ss =>
    match step c d s with
    | .panic => [.panic]
    | .val o => .val o :: run c o.dep ss

/-- the Deployment at the end of a walk (`none`: some step panicked) -/
def runD (c : Cfg) (d : Option Dep) : List Step → Option (Option Dep)
  | [] => some d
  | s :: ss =>
    match step c d s with
    | .panic => none
    | .val o => runD c o.dep ss

end RV.CtlPDeploy
