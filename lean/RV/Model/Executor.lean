/-
  One reconcile of the BatchRelease controller over a CloneSet released in partition
  style (the kind-specific knob decisions of the other kinds are `RV.BatchCtx`).

  Source:
    pkg/controller/batchrelease/batchrelease_controller.go   Reconcile, handleFinalizer, updateStatus
    pkg/controller/batchrelease/batchrelease_executor.go     Do, executeBatchReleasePlan, progressBatches,
                                                             moveToNextBatch, isPartitioned
    pkg/controller/batchrelease/batchrelease_status.go       syncStatusBeforeExecuting and its predicates/signals
    pkg/controller/batchrelease/control/partitionstyle/control_plane.go
    pkg/controller/batchrelease/control/partitionstyle/cloneset/control.go

  Scope of the model: rollout-id empty (no pod label patching), supported workload GVK.
-/
import RV.Model.BatchCtx
namespace RV.Executor
open RV.Arith IntOrPct RV.BatchCtx

inductive Phase where
  | empty | preparing | progressing | finalizing | completed | other
  deriving Repr, DecidableEq, Inhabited

inductive BState where
  | empty | upgrading | verifying | ready | other
  deriving Repr, DecidableEq, Inhabited

/-- observed plan hash relative to the hash of the current spec -/
inductive HashObs where
  | empty | same | differs
  deriving Repr, DecidableEq, Inhabited

structure Status where
  phase : Phase
  currentBatch : Int
  batchState : BState
  hasReadyTime : Bool
  hash : HashObs
  rolloutIDSame : Bool          -- status.observedRolloutID == spec.rolloutID
  observedReplicas : Int
  updateRevision : String
  stableRevision : String
  noNeedUpdate : Option Int
  updated : Int
  updatedReady : Int
  deriving Repr, DecidableEq, Inhabited

structure BR where
  batches : List IntOrPct
  partition : Option Int
  failureThreshold : Option IntOrPct
  deleting : Bool
  hasFinalizer : Bool
  rollbackAnno : Bool
  status : Status
  deriving Repr, DecidableEq, Inhabited

inductive Owner where
  | none | this | other
  deriving Repr, DecidableEq, Inhabited

/-- the CloneSet as the control sees it -/
structure Workload where
  replicas : Int
  generation : Int
  observedGeneration : Int
  statusReplicas : Int
  updated : Int
  updatedReady : Int
  updateRevision : String
  currentRevision : String
  partition : Option IntOrPct
  paused : Bool
  owner : Owner
  deriving Repr, DecidableEq, Inhabited

inductive Event where
  | normal | gone | stillReconciling | replicasChanged | rollbackInBatch | podTemplateChanged
  deriving Repr, DecidableEq

/-- `resetStatus` -/
def resetStatus (_s : Status) : Status :=
  { phase := .preparing, currentBatch := 0, batchState := .empty, hasReadyTime := false, hash := .empty,
    rolloutIDSame := _s.rolloutIDSame, observedReplicas := -1, updateRevision := "", stableRevision := "",
    noNeedUpdate := none, updated := 0, updatedReady := 0 }

/-- `getInitializedStatus` -/
def initializedStatus (s : Status) : Status := if s.phase = .empty then resetStatus s else s

/-- `realBatchControlPlane.SyncWorkloadInformation` (partition style): event and whether workload info is available -/
def syncInfo (br : BR) (ns : Status) (wl : Option Workload) : Event × Option Workload :=
  if br.deleting then (.normal, none) else
  match wl with
  | none => (.gone, none)
  | some w =>
    if ¬ (w.observedGeneration ≥ w.generation) then (.stillReconciling, some w)
    else if w.statusReplicas = w.updated then (.normal, some w)
    else if ns.observedReplicas ≠ -1 ∧ w.replicas ≠ ns.observedReplicas then (.replicasChanged, some w)
    else if ns.updateRevision ≠ "" ∧ w.updateRevision = w.currentRevision ∧ ns.stableRevision = w.updateRevision ∧
            ns.stableRevision ≠ ns.updateRevision then (.rollbackInBatch, some w)
    else if ns.updateRevision ≠ "" ∧ w.updateRevision ≠ ns.updateRevision then (.podTemplateChanged, some w)
    else (.normal, some w)

def isPlanFinalizing (br : BR) : Bool :=
  br.deleting || br.status.phase = .finalizing || br.partition.isNone

def isPlanChanged (br : BR) : Bool := br.status.hash ≠ .same && br.status.phase = .progressing

def isPlanUnhealthy (br : BR) : Bool :=
  decide (br.status.currentBatch ≥ br.batches.length) && br.status.phase = .progressing

/-- `signalRecalculate` -/
def signalRecalculate (br : BR) (ns : Status) : Status :=
  let cb : Int := match br.partition with
    | some p => if br.status.rolloutIDSame then min p ((br.batches.length : Int) - 1) else 0
    | none => 0
  { ns with hasReadyTime := false, currentBatch := cb, rolloutIDSame := true, batchState := .upgrading, hash := .same }

structure SyncOut where
  status : Status
  stop : Bool
  deriving Repr

/-- the ordered special-case chain of `syncStatusBeforeExecuting`: new status and `needStopThisRound` -/
def syncDecide (br : BR) (ns : Status) (ev : Event) (info : Option Workload) : Status × Bool :=
  let phaseNotInitial := br.status.phase ≠ .empty   -- phase != "Initial" && phase != ""
  if br.status.phase = .completed then (ns, true)
  else if isPlanFinalizing br then ({ ns with phase := .finalizing }, false)
  else if isPlanChanged br then (signalRecalculate br ns, false)
  else if isPlanUnhealthy br then (resetStatus ns, false)
  else if ev = .gone ∧ phaseNotInitial then ({ ns with phase := .finalizing }, false)
  else if ev = .replicasChanged ∧ br.status.phase = .progressing then
    match info with
    | some w => ({ ns with hasReadyTime := false, batchState := .upgrading, observedReplicas := w.replicas }, false)
    | none => (ns, false)
  else if ev = .podTemplateChanged ∧ br.status.phase = .progressing then
    -- a newer revision supersedes the one being released: stop, this round and every following one (the observed
    -- update revision is not advanced), until the owner deletes or re-creates the BatchRelease
    (ns, true)
  else if ev = .stillReconciling then (ns, true)
  else if (ev = .rollbackInBatch ∨ br.rollbackAnno) ∧ br.status.noNeedUpdate.isNone ∧ br.status.phase = .progressing then
    match info with
    | some w =>
      if w.currentRevision = w.updateRevision ∧ br.rollbackAnno then
        ({ ns with phase := .preparing, hasReadyTime := false, batchState := .upgrading, updateRevision := w.updateRevision }, false)
      else (ns, true)
    | none => (ns, true)   -- unreachable: info is nil only when deleting or gone
  else (ns, false)

/-- `refreshStatus` -/
def refreshStatus (ns : Status) (info : Option Workload) : Status :=
  let ns2 := match info with
    | some w => { ns with updated := w.updated, updatedReady := w.updatedReady }
    | none => ns
  { ns2 with hash := if ns2.hash = .empty then .same else ns2.hash, rolloutIDSame := true }

/-- `syncStatusBeforeExecuting` (the only error `SyncWorkloadInformation` returns here is NotFound) -/
def syncStatus (br : BR) (ns : Status) (wl : Option Workload) : SyncOut :=
  let ei := syncInfo br ns wl
  let d := syncDecide br ns ei.1 ei.2
  let ns3 := refreshStatus d.1 ei.2
  { status := ns3, stop := d.2 || decide (ns3 ≠ br.status) }

/-- a write to the CloneSet -/
structure WlWrite where
  workload : Workload
  deriving Repr

inductive CallResult where
  | ok | err
  deriving Repr, DecidableEq

/-- `partitionstyle.Initialize` on a CloneSet: the workload after, new status, result -/
def initializeWl (br : BR) (ns : Status) (wl : Option Workload) : Option Workload × Status × CallResult :=
  match wl with
  | none => (none, ns, .err)
  | some w =>
    let w' := if w.owner = .this then w else { w with owner := .this, paused := false, partition := some (pct 100) }
    let ns1 := { ns with stableRevision := w.currentRevision, updateRevision := w.updateRevision, observedReplicas := w.replicas }
    -- markNoNeedUpdatePodsIfNeeds with empty rollout-id
    let ns2 := if br.rollbackAnno then { ns1 with noNeedUpdate := some ns.updated } else ns1
    (some w', ns2, .ok)

def obsOf (br : BR) (_ns : Status) (w : Workload) : Obs :=
  { kind := .cloneSet, replicas := w.replicas,
    -- the control plane holds a copy of the release as read, i.e. the persisted status
    entry := if br.status.currentBatch < 0 then none else br.batches[br.status.currentBatch.toNat]?,
    noNeedUpdate := br.status.noNeedUpdate,   -- the control plane reads release.Status (a copy of the old status)
    knobCur := w.partition.getD (int 0), updated := w.updated, updatedReady := w.updatedReady,
    failureThreshold := br.failureThreshold }

inductive Out (α : Type) where
  | val (a : α)
  | panic
  deriving Repr

/-- `partitionstyle.UpgradeBatch` -/
def upgradeBatch (br : BR) (ns : Status) (wl : Option Workload) : Out (Option Workload × CallResult) :=
  match wl with
  | none => .val (none, .err)
  | some w =>
    if w.replicas = 0 then .val (some w, .ok) else
    match calcCtx (obsOf br ns w) with
    | .panic => .panic
    | .ok c =>
      match upgrade .cloneSet c with
      | none => .val (some w, .ok)
      | some k => .val (some { w with partition := some k }, .ok)

/-- `partitionstyle.EnsureBatchPodsReadyAndLabeled` -/
def ensureReady (br : BR) (ns : Status) (wl : Option Workload) : Out CallResult :=
  match wl with
  | none => .val .err
  | some w =>
    if w.replicas = 0 then .val .ok else
    match calcCtx (obsOf br ns w) with
    | .panic => .panic
    | .ok c => .val (if isBatchReady c none = .ok then .ok else .err)

/-- `partitionstyle.Finalize` on a CloneSet -/
def finalize (br : BR) (wl : Option Workload) : Option Workload × CallResult :=
  match wl with
  | none => (none, .ok)     -- IgnoreNotFound
  | some w =>
    let w1 := { w with owner := .none }
    let w2 := if br.partition.isNone then { w1 with partition := none, paused := false } else w1
    (some w2, .ok)

def isPartitioned (br : BR) : Bool :=
  match br.partition with
  | some p => decide (p ≤ br.status.currentBatch)
  | none => false

/-- `moveToNextBatch` -/
def moveToNextBatch (br : BR) (ns : Status) : Status :=
  let cb := match br.partition with
    | none => ns.currentBatch + 1
    | some p => if p > ns.currentBatch then ns.currentBatch + 1 else ns.currentBatch
  { ns with currentBatch := cb, batchState := .upgrading }

structure StepOut where
  br : Option BR          -- `none`: the object is gone (finalizer removed while deleting)
  wl : Option Workload
  requeue : Bool
  err : Bool
  deriving Repr

abbrev ExecOut := Out (Status × Option Workload × Bool × Bool)   -- new status, workload after, requeue, error

/-- unknown phases restart from Preparing (`default:` + `fallthrough`) -/
def normPhase (ns : Status) : Status :=
  if ns.phase = .empty ∨ ns.phase = .other then { ns with phase := .preparing } else ns

/-- unknown batch states restart from Upgrading -/
def normState (ns : Status) : Status :=
  if ns.batchState = .empty ∨ ns.batchState = .other then { ns with batchState := .upgrading } else ns

def execPreparing (br : BR) (ns : Status) (wl : Option Workload) : ExecOut :=
  let r := initializeWl br ns wl
  if r.2.2 = .ok then .val ({ r.2.1 with phase := .progressing }, r.1, true, false)
  else .val (r.2.1, r.1, false, true)

/-- `progressBatches` -/
def execProgressing (br : BR) (ns0 : Status) (wl : Option Workload) : ExecOut :=
  let ns := normState ns0
  match ns.batchState with
  | .upgrading =>
    match upgradeBatch br ns wl with
    | .panic => .panic
    | .val (wl', .ok) => .val ({ ns with batchState := .verifying }, wl', true, false)
    | .val (wl', .err) => .val (ns, wl', false, true)
  | .verifying =>
    match ensureReady br ns wl with
    | .panic => .panic
    | .val .ok => .val ({ ns with batchState := .ready, hasReadyTime := true }, wl, true, false)
    | .val .err => .val ({ ns with batchState := .upgrading }, wl, false, true)
  | .ready =>
    match ensureReady br ns wl with
    | .panic => .panic
    | .val .err => .val ({ ns with batchState := .upgrading, hasReadyTime := false }, wl, false, true)
    | .val .ok =>
      if ¬ isPartitioned br then .val (moveToNextBatch br ns, wl, true, false)
      else .val (ns, wl, false, false)
  | _ => .val (ns, wl, false, false)

def execFinalizing (br : BR) (ns : Status) (wl : Option Workload) : ExecOut :=
  let r := finalize br wl
  if r.2 = .ok then .val ({ ns with phase := .completed }, r.1, false, false)
  else .val (ns, r.1, false, true)

/-- `executeBatchReleasePlan` -/
def execute (br : BR) (ns0 : Status) (wl : Option Workload) : ExecOut :=
  let ns := normPhase ns0
  match ns.phase with
  | .preparing => execPreparing br ns wl
  | .progressing => execProgressing br ns wl
  | .finalizing => execFinalizing br ns wl
  | _ => .val (ns, wl, false, false)

/-- `handleFinalizer`'s second half: the finalizer is present after it ran -/
def withFinalizer (br : BR) : BR := { br with hasFinalizer := true }

/-- `Executor.Do` followed by `updateStatus` -/
def reconcileBody (br : BR) (wl : Option Workload) : Out StepOut :=
  let s := syncStatus br (initializedStatus br.status) wl
  if s.stop then
    .val { br := some { br with status := s.status }, wl := wl, requeue := decide (s.status ≠ br.status), err := false }
  else
    match execute br s.status wl with
    | .panic => .panic
    | .val (ns', wl', rq, er) => .val { br := some { br with status := ns' }, wl := wl', requeue := rq, err := er }

/-- `BatchReleaseReconciler.Reconcile` for an existing BatchRelease. -/
def reconcile (br : BR) (wl : Option Workload) : Out StepOut :=
  -- handleFinalizer: remove the finalizer (the object goes away) only when deleting ∧ Completed
  if br.deleting ∧ br.status.phase = .completed ∧ br.hasFinalizer then
    .val { br := none, wl := wl, requeue := false, err := false }
  else reconcileBody (withFinalizer br) wl

end RV.Executor
