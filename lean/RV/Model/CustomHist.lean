/-
  Extension of the model of the custom (Lua) network provider (`RV/Model/Custom.lean`) to
  *histories*: provider calls interleaved with events by others, and provider calls that die
  part-way because the API server starts refusing writes.

  * `ensureRoutesF` / `finaliseF` are `EnsureRoutes` / `Finalise` of
      /repo/pkg/trafficrouting/network/customNetworkProvider/custom_network_provider.go
    transcribed once more, this time with every `r.Update(...)` made explicit and run under a
    *write budget* (`none` = no fault; `some k` = the next `k` Updates succeed, every later one
    returns an error — `LogClient.FailAt = k` in the harness).  `RV.Props.C15` proves that with the
    budget `none` they are the functions `ensureRoutes` / `finalise` of `RV/Model/Custom.lean`.
  * `Event` are the things that happen to the referenced objects between and during provider calls,
    `runEv` / `run` the effect on the `World`, `usersEv` / `users` the bookkeeping of what the *user*
    last wrote for every ref (it is a function of the events only — the provider never enters it).
  Core Lean only (linked into the driver).
-/
import RV.Model.Custom
namespace RV.Custom

/-! ## API faults: a write budget -/

/-- one `Update` under the budget: `none` = the call returns an error (and writes nothing). -/
def spend : Option Nat → Option (Option Nat)
  | none => some none
  | some 0 => none
  | some (k + 1) => some (some k)

/-- `storeObject` with the information whether `Update` is issued (`false`: the early `return nil`). -/
def storeObjectW (c : Codec) (o : Obj) : Obj × Bool :=
  let anns := o.annotations.getD []
  let oStr := origOf o
  let cStr := c.enc (dataOf o)
  if oStr = cStr then (o, false)
  else ({ o with annotations := some (setKey origKey cStr (eraseKey origKey anns)) }, true)

/-- EnsureRoutes, second loop body: store unless the annotation key is bound. -/
def storeIfAbsentW (c : Codec) (o : Obj) : Obj × Bool :=
  match lookup origKey (o.annotations.getD []) with
  | some _ => (o, false)
  | none => storeObjectW c o

def refOf (p : Option Script × Obj) : Ref := ⟨p.1, some p.2⟩

/-- EnsureRoutes, second loop, under a budget.  Result: the objects as the API server holds them
    afterwards and the remaining budget; `none` = an `Update` failed (`return false, err`): the
    objects before it are stored, this one and the later ones are untouched. -/
def storeLoop (c : Codec) : Option Nat → List (Option Script × Obj) →
    List (Option Script × Obj) × Option (Option Nat)
  | b, [] => ([], some b)
  | b, p :: r =>
    match (if (storeIfAbsentW c p.2).2 then spend b else some b) with
    | none => (p :: r, none)
    | some b1 => ((p.1, (storeIfAbsentW c p.2).1) :: (storeLoop c b1 r).1, (storeLoop c b1 r).2)

/-- EnsureRoutes, fourth loop (`compareAndUpdateObject` per ref), under a budget.  `none` = an
    `Update` failed: the refs before it are updated, this one and the later ones are untouched. -/
def applyLoop : Option Nat → List Data → List (Option Script × Obj) → List Ref × Option Bool
  | b, d :: ds, p :: r =>
    match (if (compareAndUpdate d p.2).2 then spend b else some b) with
    | none => ((p :: r).map refOf, none)
    | some b1 =>
      (⟨p.1, some (compareAndUpdate d p.2).1⟩ :: (applyLoop b1 ds r).1,
       (applyLoop b1 ds r).2.map fun done => !(compareAndUpdate d p.2).2 && done)
  | _, _, _ => ([], some true)

/-- `EnsureRoutes` with write budget `b`. -/
def ensureRoutesF (c : Codec) (b : Option Nat) (s : Strategy) (st : List Ref) : List Ref × Res :=
  match getAll st with
  | none => (st, .err)
  | some objs =>
    match (storeLoop c b objs).2 with
    | none => ((storeLoop c b objs).1.map refOf, .err)
    | some b1 =>
      match planAll c s (storeLoop c b objs).1 with
      | none => ((storeLoop c b objs).1.map refOf, .err)
      | some ds =>
        match (applyLoop b1 ds (storeLoop c b objs).1).2 with
        | none => ((applyLoop b1 ds (storeLoop c b objs).1).1, .err)
        | some done => ((applyLoop b1 ds (storeLoop c b objs).1).1, .ok done)

/-- the loop of `Finalise` under a budget: refs afterwards, `modified`, "some Update failed".
    (A failed restore is recorded in `errList` and the loop goes on with the next ref.) -/
def finaliseLoop (c : Codec) : Option Nat → List Ref → List Ref × Bool × Bool
  | _, [] => ([], false, false)
  | b, r :: rs =>
    match r.obj with
    | none => (r :: (finaliseLoop c b rs).1, (finaliseLoop c b rs).2)
    | some o =>
      if (restoreObject c o).2 then
        match spend b with
        | none => (r :: (finaliseLoop c b rs).1, (finaliseLoop c b rs).2.1, true)
        | some b1 =>
          ({ r with obj := some (restoreObject c o).1 } :: (finaliseLoop c b1 rs).1, true, (finaliseLoop c b1 rs).2.2)
      else ({ r with obj := some (restoreObject c o).1 } :: (finaliseLoop c b rs).1, (finaliseLoop c b rs).2)

/-- `Finalise` with write budget `b` (`errList.ToAggregate() ≠ nil` ↦ `.err`). -/
def finaliseF (c : Codec) (b : Option Nat) (st : List Ref) : List Ref × Res :=
  ((finaliseLoop c b st).1, if (finaliseLoop c b st).2.2 then .err else .ok (finaliseLoop c b st).2.1)

/-! ## positions in a list (out of range = nothing happens) -/

def getAt {α} : Nat → List α → Option α
  | _, [] => none
  | 0, x :: _ => some x
  | n + 1, _ :: xs => getAt n xs

def modifyAt {α} (f : α → α) : Nat → List α → List α
  | _, [] => []
  | 0, x :: xs => f x :: xs
  | n + 1, x :: xs => x :: modifyAt f n xs

def removeAt {α} : Nat → List α → List α
  | _, [] => []
  | 0, _ :: xs => xs
  | n + 1, x :: xs => x :: removeAt n xs

/-! ## histories -/

/-- the referenced objects: `active` = the current `customNetworkRefs` (in order), `parked` = objects
    that were referenced earlier, were removed from the list and still exist as the provider left them. -/
structure World where
  active : List Ref
  parked : List Ref

def World.empty : World := ⟨[], []⟩

inductive Event where
  /-- the provider's `EnsureRoutes` for step `s`; the API server fails from the `b`-th write on -/
  | step (b : Option Nat) (s : Strategy)
  /-- the provider's `Finalise`, same fault model -/
  | fin (b : Option Nat)
  /-- the user deletes and re-creates / `kubectl replace`s the object of ref `i` from a manifest `o` -/
  | userWrite (i : Nat) (o : Obj)
  /-- the object of ref `i` is deleted -/
  | delete (i : Nat)
  /-- a ref to an object `o` (with script `f`) is appended to `customNetworkRefs` -/
  | addRef (f : Option Script) (o : Obj)
  /-- ref `i` is removed from `customNetworkRefs`; its object stays as it is -/
  | removeRef (i : Nat)
  /-- the `j`-th removed ref is appended to `customNetworkRefs` again -/
  | readd (j : Nat)

def runEv (c : Codec) : Event → World → World × Option Res
  | .step b s, w => ({ w with active := (ensureRoutesF c b s w.active).1 }, some (ensureRoutesF c b s w.active).2)
  | .fin b, w => ({ w with active := (finaliseF c b w.active).1 }, some (finaliseF c b w.active).2)
  | .userWrite i o, w => ({ w with active := modifyAt (fun r => { r with obj := some o }) i w.active }, none)
  | .delete i, w => ({ w with active := modifyAt (fun r => { r with obj := none }) i w.active }, none)
  | .addRef f o, w => ({ w with active := w.active ++ [⟨f, some o⟩] }, none)
  | .removeRef i, w =>
    match getAt i w.active with
    | none => (w, none)
    | some r => ({ active := removeAt i w.active, parked := w.parked ++ [r] }, none)
  | .readd j, w =>
    match getAt j w.parked with
    | none => (w, none)
    | some r => ({ active := w.active ++ [r], parked := removeAt j w.parked }, none)

def run (c : Codec) : List Event → World → World
  | [], w => w
  | e :: es, w => run c es (runEv c e w).1

/-- what the user last wrote for every ref (and the ref's script), in the order of `World`. -/
structure Users where
  active : List (Option Script × Obj)
  parked : List (Option Script × Obj)

def Users.empty : Users := ⟨[], []⟩

def usersEv : Event → Users → Users
  | .userWrite i o, u => { u with active := modifyAt (fun p => (p.1, o)) i u.active }
  | .addRef f o, u => { u with active := u.active ++ [(f, o)] }
  | .removeRef i, u =>
    match getAt i u.active with
    | none => u
    | some p => { active := removeAt i u.active, parked := u.parked ++ [p] }
  | .readd j, u =>
    match getAt j u.parked with
    | none => u
    | some p => { active := u.active ++ [p], parked := removeAt j u.parked }
  | _, u => u

def users : List Event → Users → Users
  | [], u => u
  | e :: es, u => users es (usersEv e u)

end RV.Custom
