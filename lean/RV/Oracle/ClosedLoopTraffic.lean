/-
  Traffic clauses of the closed loop (`RV.ClosedLoop`): decidable invariants over the joint state (Rollout, CloneSet,
  BatchRelease, **network objects**, grace memory), evaluated by the driver on every state the *implementation* reaches in
  the closed-loop walks (suite `closedloop`) and proved for every reachable state of the model (`RV.Props.ClosedLoopTraffic`).

  C03  `routeOK`         a weight on the gateway is the weight of a step whose pods were reported ready (ghost `TGhost`)
       `routedExact`     a step reported as routed has exactly its weight on the gateway, both Services in place
       `firstPinOK`      first step with traffic: the stable Service is pinned in every state from which a BatchRelease
                         reconcile can expose pods
  C04  `noVoidOK`        `RV.Oracle.Cluster.noVoid` on the joint state
  C05  `terminalCleanOK` `RV.Oracle.Cluster.terminalClean` on the joint state
  C10  `rollbackRoutesFirst`  while a rollback / supersession is pending and the canary route carries weight, no reconcile
                         lowers the partition, resumes or deletes the BatchRelease
  `trInv`                the inductive invariant behind them (forward histories)
-/
import RV.Oracle.ClosedLoop
import RV.Oracle.ClosedLoopLive
namespace RV.Oracle.ClosedLoopTraffic
open RV.Arith RV.Traffic RV.RolloutSM RV.ClosedLoop RV.Oracle.ClosedLoop

/-! ### vocabulary -/

/-- the network objects are as the user configured them: no canary Ingress, no canary Service, stable Service not pinned -/
def netClean (n : Net) : Bool := n.canaryIng.isNone && n.canarySvc.isNone && n.stableSel.isNone

/-- the CloneSet is back under its native controller: no partition, not paused, no control annotation -/
def released (w : CWl) : Bool := w.partition.isNone && !w.paused && w.owner == .none

/-- step `j` of the plan (1-based, as `currentStepIndex`) -/
def stepAt (ro : Rollout) (j : Int) : Option Step := if j < 1 then none else ro.steps[(j - 1).toNat]?

/-- the traffic weight step `j` configures -/
def weightOf (ro : Rollout) (j : Int) : Option Nat := (stepAt ro j).bind (·.weight)

/-- step `j` replaces every pod of a workload of size `R` (`releaseAllStablePods` of `BeforeStepUpgrade`); index 0 —
    nothing handed to the BatchRelease yet — is not full -/
def fullAt (ro : Rollout) (R : Int) (j : Int) : Bool :=
  match stepAt ro j with
  | some st => decide (scaledV st.replicas R true ≥ R)
  | none => false

/-- the highest step the BatchRelease may have been told to release: the current step once `BeforeStepUpgrade` is left
    (or once the batch partition of the BatchRelease has been raised to it: the write precedes the status update), the
    previous one before -/
def effIdx (s : CS) (sub : Sub) : Int :=
  if sub.state = .init then
    (match s.br with
     | some b => (match b.partition with
        | some p => if sub.curIdx ≤ p + 1 then sub.curIdx else sub.curIdx - 1
        | none => sub.curIdx - 1)
     | none => sub.curIdx - 1)
  else sub.curIdx

/-- the partition in force keeps at least one pod on the old revision -/
def keepsOne (w : CWl) : Bool :=
  match w.partition with
  | some k => decide (1 ≤ scaledV k w.replicas true)
  | none => false

/-- pods of the stable revision exist and cannot all be replaced under the partition in force -/
def stableAlive (sub : Sub) (w : CWl) : Bool :=
  keepsOne w && decide (w.updated < w.replicas) && w.currentRevision == sub.stableRev && w.currentRevision != w.updateRevision

/-- an admitted release that no BatchRelease has touched yet (the partition 100 % is part of `fwdInv`) -/
def pendingWl (w : CWl) : Bool := decide (w.updated < w.replicas) && w.currentRevision != w.updateRevision

/-! ### the network part of the invariant -/

/-- T3: a pinned stable Service names the rollout's stable revision, and no step handed to the BatchRelease so far is full -/
def pinOK (s : CS) (sub : Sub) (w : CWl) : Bool :=
  match s.net.stableSel with
  | some r => r == sub.stableRev && r != "" && !fullAt s.ro w.replicas (effIdx s sub) && s.ro.hasTraffic && !s.ro.disableGen
  | none => true

/-- T4: the canary Service selects the revision being released -/
def svcOK (s : CS) (w : CWl) : Bool :=
  match s.net.canarySvc with
  | some r => r == w.updateRevision && s.ro.hasTraffic && !s.ro.disableGen
  | none => true

/-- T5: a canary route implies the canary Service (unless the Services are not generated) -/
def ingOK (s : CS) : Bool :=
  match s.net.canaryIng with
  | some _ => s.ro.hasTraffic && (s.ro.disableGen || s.net.canarySvc.isSome)
  | none => true

/-- T6: the recorded pod-template hash is the revision being released -/
def hashOK (sub : Sub) (w : CWl) : Bool := sub.podHash == "" || sub.podHash == w.updateRevision

/-- the stable Service and the stable Ingress exist (checked by `InitializeTrafficRouting` before the rollout starts rolling) -/
def baseOK (s : CS) : Bool := !s.ro.hasTraffic || (s.net.stableExists && s.net.stableIngress)

/-- the network facts while rolling (`rolling = true`: pods of the stable revision stay alive as long as no full step was
    handed over — needed before the Service can be pinned) and while the clean-up runs (`false`: only while pinned) -/
def netCore (s : CS) (sub : Sub) (w : CWl) (rolling : Bool) : Bool :=
  (if rolling then fullAt s.ro w.replicas (effIdx s sub) || stableAlive sub w else s.net.stableSel.isNone || stableAlive sub w) &&
  pinOK s sub w && svcOK s w && ingOK s && hashOK sub w && baseOK s

/-- T8: once a step's pods were reported ready (or the first step is behind) the BatchRelease exists -/
def brSome (s : CS) (sub : Sub) : Bool :=
  !(RV.Oracle.RolloutSM.podsReady sub.state || decide (2 ≤ sub.curIdx)) || s.br.isSome

/-- the first step configures traffic (and does not replace every pod): the condition of `PatchStableService` in
    `BeforeStepUpgrade` -/
def firstStepPins (ro : Rollout) (R : Int) : Bool :=
  ro.hasTraffic && !ro.disableGen && (weightOf ro 1).isSome && !fullAt ro R 1

/-- T7 / **C03 (last sentence)**: on the first step, once `BeforeStepUpgrade` is left or a BatchRelease exists, the stable
    Service is pinned -/
def firstPin (s : CS) (sub : Sub) (w : CWl) : Bool :=
  !(firstStepPins s.ro w.replicas && decide (sub.curIdx = 1) && (sub.state != .init || s.br.isSome)) ||
  s.net.stableSel.getD "" == sub.stableRev

/-- T9: `StepTrafficRouting` is only entered on steps that do not replace every pod (the full-replica bypass) -/
def trState (s : CS) (sub : Sub) (w : CWl) : Bool :=
  sub.state != .trafficRouting || !fullAt s.ro w.replicas sub.curIdx

/-- the clean-up cursor has not reached `ResumeWorkload` -/
def beforeResume (f : FinStep) : Bool :=
  f == .empty || f == .restoreStableService || f == .routeTrafficToStable || f == .removeCanaryService

/-- the BatchRelease and the workload along the clean-up cursor (success order: stable Service, gateway, canary Service,
    resume, release): untouched before `ResumeWorkload`; at `ResumeWorkload` resumed and, once Completed, the workload is
    released; at `ReleaseWorkloadControl` Completed or gone, workload released -/
def finBr (s : CS) (sub : Sub) (w : CWl) : Bool :=
  match sub.finStep with
  | .empty | .restoreStableService | .routeTrafficToStable | .removeCanaryService =>
    (match s.br with | some b => linkOK s.ro sub b | none => false)
  | .resumeWorkload =>
    (match s.br with
     | some b => linkOK s.ro sub b || (!b.deleting && b.partition.isNone && (b.st.phase != .completed || released w))
     | none => false)
  | .releaseWorkloadControl =>
    (match s.br with
     | some b => b.partition.isNone && b.st.phase == .completed && released w
     | none => released w)
  | .end_ => s.br.isNone && released w
  | _ => false

/-- the phase-dependent part of the traffic invariant -/
def trPhase (s : CS) (w : CWl) : Bool :=
  match s.ro.phase, s.ro.reason with
  | .healthy, _ => netClean s.net && (if w.inProgressAnno then pendingWl w else released w)
  | .progressing, .initializing => netClean s.net && pendingWl w
  | .progressing, .inRolling =>
    (match s.ro.sub with
     | some sub => netCore s sub w true && brSome s sub && firstPin s sub w && trState s sub w
     | none => false)
  | .progressing, .finalising =>
    (match s.ro.sub with
     | some sub => netCore s sub w false && finBr s sub w && sub.canaryRev == w.updateRevision &&
         decide (sub.curIdx ≤ s.ro.steps.length)
     | none => false)
  | .progressing, .completed => netClean s.net && released w
  | _, _ => false

/-- **the traffic invariant of a forward rollout** (label set of `fwdInv`): the forward invariant, at least one replica,
    and the phase-dependent network / BatchRelease / workload facts -/
def trInv (s : CS) : Bool :=
  fwdInv s &&
  (match s.wl with
   | some w => decide (0 < w.replicas) && trPhase s w
   | none => false)

/-- diagnostics: which part of `trInv` fails -/
def trInvWhy (s : CS) : String :=
  if !fwdInv s then "fwdInv" else
  match s.wl with
  | none => "nowl"
  | some w =>
    if !decide (0 < w.replicas) then "replicas" else
    match s.ro.phase, s.ro.reason with
    | .healthy, _ => if !netClean s.net then "healthy:net" else if w.inProgressAnno then (if pendingWl w then "ok" else "healthy:pending") else (if released w then "ok" else "healthy:released")
    | .progressing, .initializing => if !netClean s.net then "init:net" else if pendingWl w then "ok" else "init:pending"
    | .progressing, .inRolling =>
      (match s.ro.sub with
       | some sub =>
         if !(fullAt s.ro w.replicas (effIdx s sub) || stableAlive sub w) then "roll:alive" else
         if !pinOK s sub w then "roll:pin" else if !svcOK s w then "roll:svc" else if !ingOK s then "roll:ing" else
         if !hashOK sub w then "roll:hash" else if !baseOK s then "roll:base" else
         if !brSome s sub then "roll:brSome" else if !firstPin s sub w then "roll:firstPin" else if !trState s sub w then "roll:trState" else "ok"
       | none => "roll:nosub")
    | .progressing, .finalising =>
      (match s.ro.sub with
       | some sub =>
         if !(s.net.stableSel.isNone || stableAlive sub w) then "fin:alive" else
         if !pinOK s sub w then "fin:pin" else if !svcOK s w then "fin:svc" else if !ingOK s then "fin:ing" else
         if !hashOK sub w then "fin:hash" else if !baseOK s then "fin:base" else if !finBr s sub w then "fin:finBr" else if !(sub.canaryRev == w.updateRevision) then "fin:rev" else if !decide (sub.curIdx ≤ s.ro.steps.length) then "fin:idx" else "ok"
       | none => "fin:nosub")
    | .progressing, .completed => if !netClean s.net then "completed:net" else if released w then "ok" else "completed:released"
    | _, _ => "phase"

/-! ### C04 / C05 on the joint state -/

/-- **C04** — `RV.Oracle.Cluster.noVoid` on the joint state: a canary route with weight implies the canary Service exists
    and selects the revision being released; a pinned stable Service implies pods of that revision exist -/
def noVoidOK (s : CS) : Bool :=
  s.gone || (match s.wl with | some w => RV.Oracle.Cluster.noVoid (roWorld s) (wlx w) | none => true)

/-- **C05** — `RV.Oracle.Cluster.terminalClean` on the joint state: a terminal rollout (Healthy / Disabled with nothing in
    progress, or gone) has left no BatchRelease, no canary Service, no canary Ingress, the stable Service un-pinned and the
    workload released -/
def terminalCleanOK (s : CS) : Bool :=
  RV.Oracle.Cluster.terminalClean (!s.gone) (if s.gone then { roWorld s with ro := default } else roWorld s) (s.wl.map wlx)

/-- the state is terminal in the sense of `terminalClean` -/
def isTerminal (s : CS) : Bool :=
  s.gone || ((s.ro.phase == .healthy || s.ro.phase == .disabled) &&
    (match s.wl with | some w => !w.inProgressAnno | none => true))

/-! ### C03: the weight on the gateway follows the pods -/

/-- the ghost of `RV.Oracle.ClosedLoop` plus the step indices of this release whose pods were *observed* reported ready -/
structure TGhost where
  g : Ghost
  seen : List Int
  deriving Repr, DecidableEq, Inhabited

def TGhost.fresh : TGhost := { g := Ghost.fresh 0, seen := [] }

/-- how a transition updates the ghost: a new rolling phase starts with nothing seen; the step the ghost speaks about is
    recorded as soon as its `upgraded` flag is set; outside rolling (clean-up) the record is kept -/
def tstep (t : TGhost) (s : CS) (l : Label) (s' : CS) : TGhost :=
  let g' := gstep t.g s l s'
  match rollingSub s' with
  | none => { g := g', seen := t.seen }
  | some _ =>
    let base := if (rollingSub s).isNone then [] else t.seen
    { g := g', seen := if g'.upgraded && !base.contains g'.idx then g'.idx :: base else base }

/-- **C03** — a canary route that carries weight carries the weight of a step of this release whose pods had been reported
    ready by the BatchRelease -/
def routeOK (t : TGhost) (s : CS) : Bool :=
  s.gone ||
  (match s.net.canaryIng with
   | some w => w == 0 || t.seen.any (fun j => weightOf s.ro j == some w)
   | none => true)

/-- every recorded step is one the ghost was raised for: at most the current step, and the current one only with the flag -/
def seenOK (t : TGhost) (s : CS) : Bool :=
  match rollingSub s with
  | some sub => t.seen.all (fun j => decide (1 ≤ j ∧ j ≤ sub.curIdx)) && (!t.g.upgraded || t.seen.contains sub.curIdx) &&
      (t.g.upgraded || !t.seen.contains sub.curIdx)
  | none => true

/-- the ghost invariant of C03 on forward histories: `gateInv`, the record is sound, and `routeOK` -/
def routeInv (t : TGhost) (s : CS) : Bool := gateInv t.g s && seenOK t s && routeOK t s

/-- **C03 (second sentence)** on one Rollout reconcile: when the reconcile moves a step that configures a weight from
    `StepTrafficRouting` on (the step is reported as routed), the canary Ingress carries exactly the step's weight, the canary
    Service selects the released revision and the stable Service is pinned to the stable revision -/
def routedExact (pre post : CS) : Bool :=
  match rollingSub pre, rollingSub post with
  | some s, some s' =>
    if s.state = .trafficRouting ∧ s'.curIdx = s.curIdx ∧ postRouting s'.state ∧ pre.ro.hasTraffic then
      (match weightOf pre.ro s.curIdx with
       | some w =>
         post.net.canaryIng == (if w = 0 ∧ pre.net.canaryIng.isNone then none else some w) &&
         (pre.ro.disableGen || (post.net.canarySvc == some s'.podHash && post.net.stableSel == some s'.stableRev))
       | none => true)
    else true
  | _, _ => true

/-- pods the partition in force allows on the new revision (0 without workload; everything without partition) -/
def expoOf (s : CS) : Int :=
  match s.wl with
  | some w => (match w.partition with | some k => exposure k w.replicas | none => w.replicas)
  | none => 0

/-- **C03 (last sentence)** — the first step configures traffic: from no state in which the stable Service is not pinned can a
    BatchRelease reconcile raise the CloneSet's exposure (evaluated with the model's `br` step on the given state) -/
def firstPinOK (s : CS) : Bool :=
  match rollingSub s, s.wl with
  | some sub, some w =>
    if firstStepPins s.ro w.replicas ∧ sub.curIdx = 1 ∧ sub.canaryRev = w.updateRevision ∧ sub.stableRev ≠ "" then
      (match step s .br with
       | some s' => decide (expoOf s' ≤ expoOf s) || s.net.stableSel == some sub.stableRev
       | none => true)
    else true
  | _, _ => true

/-! ### C10: rollback and supersession put traffic back on stable first -/

/-- a rollback or a newer revision is pending: the workload's update revision is no longer the one this rollout releases
    (still InRolling: not yet noticed or being reset) while not every pod runs it yet, or the rollout is cancelling -/
def rbPending (s : CS) : Bool :=
  !s.gone && s.ro.phase == .progressing &&
  (s.ro.reason == .cancelling ||
   (s.ro.reason == .inRolling &&
    (match s.ro.sub, s.wl with
     | some sub, some w => sub.canaryRev != "" && sub.canaryRev != w.updateRevision && w.updated != w.statusReplicas
     | _, _ => false)))

/-- the canary route carries weight -/
def routeLive (n : Net) : Bool := match n.canaryIng with | some w => decide (0 < w) | none => false

/-- the BatchRelease was deleted / resumed, or the workload's partition was lowered or removed, by this transition -/
def handedBack (pre post : CS) : Bool :=
  (match pre.br, post.br with
   | some b, some b' => (!b.deleting && b'.deleting) || (b.partition.isSome && b'.partition.isNone)
   | some _, none => true
   | none, _ => false) ||
  decide (expoOf pre < expoOf post)

/-- **C10** — while a rollback / supersession is pending and the canary route still carries weight, no reconcile hands the
    workload back (judged on the state the reconcile leaves: it may restore the route and go on in the same reconcile) -/
def rollbackRoutesFirst (pre post : CS) : Bool :=
  !(rbPending pre && routeLive pre.net && handedBack pre post) || !routeLive post.net

/-! ### supersession: the reset of a superseded release (label set `legalS`) -/

/-- the network facts while the Rollout controller resets a superseded release: the canary Service (if any) selects a
    revision the rollout recorded, a route implies the Service, and the reset cursor has passed the gateway stage only with
    the route withdrawn; the BatchRelease is deleted only after that -/
def resetNet (s : CS) : Bool :=
  match s.ro.sub with
  | some sub =>
    ingOK s && baseOK s &&
    (!(sub.finStep == .releaseWorkloadControl || sub.finStep == .removeCanaryService) || s.net.canaryIng.isNone) &&
    (match s.br with | some b => !b.deleting || s.net.canaryIng.isNone | none => true)
  | none => false

/-! ### what the driver evaluates -/

/-- history-free oracles on a state the implementation reached; `fwd`: the history so far is inside the label set of the
    forward theorems -/
def stateOraclesT (s : CS) (fwd : Bool) : List (String × Bool) :=
  let inv := !fwd || trInv s
  [("C04.loop_no_void", noVoidOK s), ("C05.loop_terminal_clean", terminalCleanOK s),
   ("C03.loop_first_step_pins", firstPinOK s),
   ("C03.loop_tr_inv", inv), ("C04.loop_tr_inv", inv), ("C05.loop_tr_inv", inv)]

/-- oracles on one transition of the implementation (`lab`: ro / br / fault) -/
def stepOraclesT (pre : CS) (lab : String) (post : CS) : List (String × Bool) :=
  (if lab == "ro" || lab == "br" || lab == "fault" then
     [("C10.loop_rollback_routes_first", rollbackRoutesFirst pre post)] else []) ++
  (if lab == "ro" then [("C03.loop_routed_exact", routedExact pre post)] else [])

/-- fold the ghost over a recorded walk: `routeOK` in every state (the gate part is judged by `RV.Oracle.ClosedLoop.traceOK`) -/
def traceRouteOK : TGhost → CS → List (Label × CS) → Bool
  | _, _, [] => true
  | t, s, (l, s') :: rest =>
    let t' := tstep t s l s'
    routeOK t' s' && traceRouteOK t' s' rest

def traceRouteFirstBad : TGhost → CS → List (Label × CS) → Nat → Option (Nat × TGhost)
  | _, _, [], _ => none
  | t, s, (l, s') :: rest, i =>
    let t' := tstep t s l s'
    if !routeOK t' s' then some (i, t') else traceRouteFirstBad t' s' rest (i + 1)

end RV.Oracle.ClosedLoopTraffic
