/-
  C14 — decidable property predicates (core Lean only).  The same functions appear in
  the theorem statements of `RV/Props/C14.lean` and are evaluated by the driver on the
  *implementation's* outputs.
-/
import RV.Model.Ingress
namespace RV.Oracle.C14
open RV.Ingress

/-- the path points at the stable Service -/
def pointsAtStable (cfg : Cfg) (p : Path) : Bool :=
  match p.backend.service with
  | some svc => svc.name == cfg.stableSvc
  | none => false

/-- the same path with the Service name replaced by the canary Service (port, path,
    pathType untouched) -/
def retargetPath (cfg : Cfg) (p : Path) : Path :=
  { p with backend := { p.backend with
      service := p.backend.service.map (fun svc => { svc with name := cfg.canarySvc }) } }

/-- what the canary Ingress must contain: per stable rule, in order, exactly its paths that
    point at the stable Service, re-targeted; rules that contribute no path are left out -/
def expectedRules (cfg : Cfg) (stable : List Rule) : List Rule :=
  stable.filterMap fun r =>
    match r.http with
    | none => none
    | some paths =>
      let cps := (paths.filter (pointsAtStable cfg)).map (retargetPath cfg)
      if cps.isEmpty then none else some { host := r.host, http := some cps }

/-- clause (i) -/
def pathsOk (cfg : Cfg) (stable canary : List Rule) : Bool :=
  canary == expectedRules cfg stable

/-- the step as the script sees it -/
def luaStepOf (s : Strategy) : LuaStep :=
  { weight := toString (match s.traffic.map weightOf with | none => (-1 : Int) | some w => w),
    mts := s.mts, rhm := s.rhm }

/-- the step `EnsureRoutes` applies when it creates the canary Ingress: weight 0, nothing else -/
def initStep : LuaStep := { weight := toString (0 : Int), mts := none, rhm := none }

/-- the annotations a canary Ingress gets when `step` is the first step ever entered:
    creation from the stable annotations, then `step` -/
def freshAnn (cls : Class) (stableAnn : AnnMap) (step : LuaStep) : Option AnnMap :=
  match script cls stableAnn initStep with
  | none => none
  | some a0 => script cls a0 step

/-- clause (ii): the observed canary annotations are those of entering `step` first -/
def annAsFresh (cls : Class) (stableAnn : AnnMap) (step : LuaStep) (observed : AnnMap) : Bool :=
  match freshAnn cls stableAnn step with
  | none => false
  | some e => eqvB observed e

/-- clause (iii): every write targets the canary Ingress -/
def writesOk (cfg : Cfg) (ws : List Write) : Bool :=
  ws.all (fun w => w.target == cfg.canaryName)

/-- clause (iii), finalise: afterwards the canary Ingress is gone, or — when somebody put a
    finalizer on it — marked for deletion -/
def finalisedOk (c : Option CanaryObj) : Bool :=
  match c with
  | none => true
  | some c => c.deleting && c.fin

end RV.Oracle.C14
