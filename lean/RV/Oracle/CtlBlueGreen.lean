/-
  Decidable oracles about one call of a blue-green control plane (old world → new world),
  shared by the theorems (`RV.Props.CtlBlueGreen`) and the driver (C01 / C05 / C06 / C09 / C11 keys `bg_*`).
-/
import RV.Model.CtlBlueGreen
namespace RV.Oracle.CtlBlueGreen
open RV.Arith IntOrPct RV.CtlBlueGreen

/-- ghost of a release: the user's settings of the workload before the first `Initialize` -/
structure Orig where
  setting : Setting
  stype : SType
  deriving Repr, DecidableEq, Inhabited

/-- the user's settings as `InitOriginalSetting` reads them from a workload without saved annotation
    (absent fields appear with the API defaults the code assumes) -/
def effSetting (kind : Kind) (wl : Workload) : Setting := initSetting kind emptySetting wl

/-- a saved setting as `Initialize` writes it: every field it restores is present -/
def complete (kind : Kind) (s : Setting) : Bool :=
  s.maxSurge.isSome && s.maxUnavailable.isSome &&
  (match kind with
   | .deployment => s.progressDeadlineSeconds.isSome
   | .cloneSet => s.progressDeadlineSeconds.isNone)

/-! ### known-finding guards (input regions) -/

/-- F5 `origRecreate`: a Deployment whose strategy type was not `RollingUpdate` — `Initialize` overwrites the type and nothing saves it -/
def gOrigType (kind : Kind) (o : Orig) : Bool := kind = .deployment && o.stype ≠ .expected

/-- F2 `savedMinReadyZero`: `Initialize` by a BatchRelease that does not control the workload yet finds a saved
    setting with `minReadySeconds = 0` (the value `0` doubles as "unset") on a workload whose field is not `0` -/
def gSavedZero (br : BR) (wl : Workload) : Bool :=
  match wl.saved with
  | .some s => decide (s.minReadySeconds = 0) && decide (wl.minReadySeconds ≠ 0) && !controlled br wl
  | _ => false

/-- F4 `hpaListFault`: a List of HPAs fails in this call (`findHPA` logs it and reports "no HPA") -/
def gListFault (f : Fault) : Bool := f.listV2 || f.listV1

/-- F3 `hpaNoApiVersion`: some HPA of the namespace has a `scaleTargetRef` without `apiVersion` -/
def gNoApiVersion (w : World) : Bool :=
  w.hpaV2.any (fun h => h.av = .absent) || w.hpaV1.any (fun h => h.av = .absent)

/-- the Deployment `Finalize` would patch and then fail its wait -/
def waitFailsAfterPatch (wl : Workload) : Bool :=
  match getSetting wl.saved with
  | none => false
  | some s =>
    match waitAllUpdatedAndReady (finalizePatch .deployment s wl) with
    | .val false => true
    | _ => false

/-- F1 `deployFinalizeRetry`: Deployment `Finalize` on an object that is already restored (no saved annotation:
    a second attempt, or a workload that was never initialised) evaluates its wait on an empty object -/
def gFinalizeRetry (kind : Kind) (op : Op) (w : World) (br : BR) : Bool :=
  kind = .deployment && op = .fin && !br.partitioned &&
  (match w.wl with
   | none => false
   | some wl => restored wl || waitFailsAfterPatch wl)

/-! ### C05: the saved original and its restoration -/

/-- invariant of a release with original settings `o`: the saved annotation, when present, is `o`; when absent the
    workload itself still has `o` and carries no control-info -/
def inv (kind : Kind) (o : Orig) (w : World) : Bool :=
  complete kind o.setting &&
  (match w.wl with
   | none => true
   | some wl =>
     (match wl.saved with
      | .none => effSetting kind wl == o.setting && wl.ctl == .none
      | .some s => s == o.setting
      | .bad => false) &&
     (gOrigType kind o || wl.stype == o.stype))

/-- the HPA `findHPAForWorkload` associates with the workload targets it again -/
def hpaRestored (w : World) : Bool :=
  match findHPA w noFault with
  | .val (some (_, k)) => k == 0
  | _ => true

/-- the end state C05 asks for -/
def restoredOK (kind : Kind) (o : Orig) (w : World) : Bool :=
  (match w.wl with
   | none => true
   | some wl =>
     wl.saved == .none && wl.ctl == .none && effSetting kind wl == o.setting && wl.stype == o.stype &&
     (kind != .deployment || (!wl.paused && !wl.stableLabel))) &&
  hpaRestored w

/-- **C05** `finalize_restores_original`, one step: a `Finalize` that reports success (batchPartition cleared)
    from a world satisfying the invariant leaves the workload with the original settings, no saved / control
    annotation, and the HPA re-enabled. -/
def finalizeRestores (kind : Kind) (o : Orig) (w : World) (br : BR) (out : CallOut) : Bool :=
  if inv kind o w ∧ ¬ br.partitioned ∧ out.res = .ok then restoredOK kind o out.world else true

/-- **C05** inductive step: every call, whatever its faults, preserves the invariant. -/
def invPreserved (kind : Kind) (o : Orig) (w : World) (out : CallOut) : Bool :=
  if inv kind o w then inv kind o out.world else true

/-- **C05** round trip, first half: `Initialize` of a workload without saved annotation records exactly the
    workload's effective settings. -/
def initSavesOriginal (kind : Kind) (w : World) (br : BR) (out : CallOut) : Bool :=
  match w.wl, out.world.wl with
  | some wl, some wl' =>
    if wl.saved = .none ∧ ¬ controlled br wl ∧ out.res = .ok then
      wl'.saved == .some (effSetting kind wl) && controlled br wl'
    else true
  | _, _ => true

/-! ### C06: saved settings survive, attempts converge -/

/-- **C06** `InitOriginalSetting` never overwrites what an earlier `Initialize` saved. -/
def initKeepsSaved (w : World) (out : CallOut) : Bool :=
  match w.wl, out.world.wl with
  | some wl, some wl' =>
    match wl.saved with
    | .some s =>
      (match wl'.saved with
       | .some s' =>
         (s.maxSurge.isNone || s'.maxSurge == s.maxSurge) &&
         (s.maxUnavailable.isNone || s'.maxUnavailable == s.maxUnavailable) &&
         (s.progressDeadlineSeconds.isNone || s'.progressDeadlineSeconds == s.progressDeadlineSeconds) &&
         s'.minReadySeconds == s.minReadySeconds
       | _ => false)
    | _ => true
  | _, _ => true

/-- the wait condition of `Finalize` on the workload as it really is -/
def readyNow (kind : Kind) (wl : Workload) : Bool :=
  match kind with
  | .deployment =>
    (match waitAllUpdatedAndReady wl with
     | .val b => b
     | .panic => false)
  | .cloneSet => wl.status.ready == wl.status.updatedReady

/-- **C06 / C11** a `Finalize` that reports success has seen every pod updated and ready — on every attempt. -/
def finalizeDoneMeansReady (kind : Kind) (w : World) (br : BR) (out : CallOut) : Bool :=
  match w.wl, out.world.wl with
  | some _, some wl' => if ¬ br.partitioned ∧ out.res = .ok then readyNow kind wl' else true
  | _, _ => true

/-- a call that fails (or finds nothing to do) before its first write leaves the world as it was;
    the number of writes it reports is the number of changes -/
def noWriteNoChange (w : World) (out : CallOut) : Bool :=
  if out.writes = 0 then out.world == w else true

/-- **C06** convergence: repeating a call after a faulty attempt ends where an undisturbed call ends. -/
def retryConverges (second direct : CallOut) : Bool :=
  second.world == direct.world && second.res == direct.res

/-! ### C01: exposure of the new revision -/

def clampSurge (s : IntOrPct) (R : Int) : Int := max 0 (min R (scaledV s R true))

/-- the blue-green hold: new pods never become available (`minReadySeconds = MaxReadySeconds`) and no old pod may be
    taken down (`maxUnavailable = 0`), so only the surge lets pods of the new revision exist -/
def held (wl : Workload) : Bool :=
  decide (wl.minReadySeconds = maxReady) && ruUnavailable wl.ru == some (int 0) && wl.stype != .other

/-- pods of the new revision the workload's own controller may run in this state (environment model):
    none while paused; while held at most `min(R, ⌈maxSurge⌉)` (CloneSet: and at most what the partition leaves);
    otherwise the native rolling update is free to replace every pod. -/
def exposureBG (kind : Kind) (wl : Workload) : Int :=
  match wl.replicas with
  | none => 0
  | some R =>
    if wl.paused then 0 else
    let cap := if held wl then
        clampSurge ((ruSurge wl.ru).getD (match kind with | .deployment => pct 25 | .cloneSet => int 0)) R
      else max 0 R
    match kind with
    | .deployment => cap
    | .cloneSet => min (max 0 (exposure (wl.partition.getD (int 0)) R)) cap

/-- the workload as the admission webhook prepares it for a release: Deployment paused, CloneSet partition `100%` -/
def prepared (kind : Kind) (wl : Workload) : Bool :=
  match kind with
  | .deployment => wl.paused
  | .cloneSet => wl.partition == some (pct 100)

/-- replicas the current batch plans (`0` when there is no such batch) -/
def plannedOfBR (br : BR) (R : Int) : Int :=
  match entryOf br with
  | some e => calcBatchReplicas R e
  | none => 0

def exposureW (kind : Kind) (w : World) : Int :=
  match w.wl with
  | some wl => exposureBG kind wl
  | none => 0

/-- **C01** `upgrade_within_step`: after `UpgradeBatch` the new revision is exposed at most as far as before or as
    far as the current batch plans. -/
def upgradeWithinStep (kind : Kind) (w : World) (br : BR) (out : CallOut) : Bool :=
  match w.wl with
  | some wl =>
    match wl.replicas with
    | some R => decide (exposureW kind out.world ≤ max (exposureBG kind wl) (plannedOfBR br R))
    | none => true
  | none => true

/-- **C01** the knob never moves back: on a held workload whose surge is set, `UpgradeBatch` does not lower the exposure. -/
def upgradeMonotone (kind : Kind) (w : World) (out : CallOut) : Bool :=
  match w.wl with
  | some wl =>
    if held wl ∧ (ruSurge wl.ru).isSome then decide (exposureBG kind wl ≤ exposureW kind out.world) else true
  | none => true

/-- **C01** `Initialize` exposes nothing of the new revision on a prepared workload, and at most one pod otherwise. -/
def initExposure (kind : Kind) (w : World) (out : CallOut) : Bool :=
  match w.wl with
  | some wl =>
    decide (exposureW kind out.world ≤ max (exposureBG kind wl) 1) &&
    (if prepared kind wl then decide (exposureW kind out.world = 0) else true)
  | none => true

/-! ### C09: panics -/

/-- inputs on which a call may panic without being a finding: a workload without `spec.replicas` (the API
    servers default the field) and a current batch outside the plan (the executor checks it before) -/
def panicAllowed (_kind : Kind) (op : Op) (w : World) (br : BR) (_f : Fault) : Bool :=
  (match w.wl with
   | some wl => wl.replicas.isNone
   | none => false) ||
  (op = .upgrade && (entryOf br).isNone)

/-! ### what the driver evaluates -/

def guardTags (kind : Kind) (op : Op) (w : World) (br : BR) (f : Fault) (o : Option Orig) : List String :=
  (if gFinalizeRetry kind op w br then ["guard:deployFinalizeRetry"] else []) ++
  (if op = .init && (match w.wl with | some wl => gSavedZero br wl | none => false) then ["guard:savedMinReadyZero"] else []) ++
  (if op ≠ .upgrade ∧ gNoApiVersion w then ["guard:hpaNoApiVersion"] else []) ++
  (if op ≠ .upgrade ∧ gListFault f then ["guard:hpaListFault"] else []) ++
  (match o with
   | some o => if gOrigType kind o then ["guard:origRecreate"] else []
   | none => [])

def stepOracles (kind : Kind) (op : Op) (w : World) (br : BR) (_f : Fault) (o : Option Orig) (out : CallOut) :
    List (String × Bool) :=
  [("C06.bg_no_write_no_change", noWriteNoChange w out)] ++
  (match o with
   | some o =>
     [("C05.bg_inv_preserved", invPreserved kind o w out)] ++
     (if op = .fin then [("C05.bg_finalize_restores_original", finalizeRestores kind o w br out)] else [])
   | none => []) ++
  (match op with
   | .init =>
     [("C05.bg_init_saves_original", initSavesOriginal kind w br out),
      ("C06.bg_init_keeps_saved", initKeepsSaved w out),
      ("C01.bg_init_exposure", initExposure kind w out)]
   | .upgrade =>
     [("C01.bg_upgrade_within_step", upgradeWithinStep kind w br out),
      ("C01.bg_upgrade_monotone", upgradeMonotone kind w out)]
   | .fin =>
     [("C06.bg_finalize_done_means_ready", finalizeDoneMeansReady kind w br out),
      ("C11.bg_finalize_done_means_ready", finalizeDoneMeansReady kind w br out)])

def retryOracles (_kind : Kind) (_op : Op) (_w : World) (_br : BR) (_f : Fault) (_first second direct : CallOut) :
    List (String × Bool) :=
  [("C06.bg_retry_converges", retryConverges second direct)]

end RV.Oracle.CtlBlueGreen
