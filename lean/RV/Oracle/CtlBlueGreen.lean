/-
  Decidable oracles about one call of a blue-green control plane (old world → new world),
  shared by the theorems (`RV.Props.CtlBlueGreen`) and the driver (keys `C01.bg_*`, `C05.bg_*`,
  `C06.bg_*`, `C09.bg_*`, `C11.bg_*`).
-/
import RV.Model.CtlBlueGreen
namespace RV.Oracle.CtlBlueGreen
open RV.Arith IntOrPct RV.CtlBlueGreen

/-- ghost of a release: the user's settings of the workload before the first `Initialize` -/
structure Orig where
  setting : Setting
  stype : SType
  deriving Repr, DecidableEq, Inhabited

/-- the user's settings as `InitOriginalSetting` reads them from a workload without saved annotation
    (absent fields appear with the API defaults the code assumes) -/
def effSetting (kind : Kind) (wl : Workload) : Setting := initSetting kind emptySetting wl

/-- a saved setting as `Initialize` writes it: every field `Finalize` restores is present -/
def complete (kind : Kind) (s : Setting) : Bool :=
  s.maxSurge.isSome && s.maxUnavailable.isSome &&
  (match kind with
   | .deployment => s.progressDeadlineSeconds.isSome
   | .cloneSet => s.progressDeadlineSeconds.isNone)

/-! ### known-finding guards (input regions) -/

/-- `origRecreate`: a Deployment whose strategy type was not `RollingUpdate` — `Initialize` overwrites the
    type and nothing saves it -/
def gOrigType (kind : Kind) (o : Orig) : Bool := kind = .deployment && o.stype ≠ .expected

/-- `deployFinalizeRetry` (what is left of it after the two-phase repair): Deployment `Finalize` on an object without
    saved annotation (a workload that was never initialised, or one that is already completely finalised) skips the
    patch — the Deployment stays paused — and evaluates its wait on an empty object -/
def gRestoredDeploy (kind : Kind) (wl : Workload) : Bool := kind = .deployment && restored wl

/-- `csPartitionKept`: CloneSet `Finalize` never touches `updateStrategy.partition` -/
def gCsPartition (kind : Kind) (wl : Workload) : Bool := kind = .cloneSet && wl.partition.isSome

/-! ### C05: the saved original and its restoration -/

/-- invariant of a release with original settings `o`, on the workload: the saved annotation, when present, is
    `o`; when absent the workload itself still has `o` and carries no control-info -/
def invWl (kind : Kind) (o : Orig) (wl : Workload) : Bool :=
  (match wl.saved with
   | .none => decide (effSetting kind wl = o.setting) && decide (wl.ctl = .none)
   | .some s => decide (s = o.setting)
   | .bad => false) &&
  (gOrigType kind o || decide (wl.stype = o.stype))

def inv (kind : Kind) (o : Orig) (w : World) : Bool :=
  complete kind o.setting &&
  (match w.wl with
   | none => true
   | some wl => invWl kind o wl)

/-- the HPA `findHPAForWorkload` associates with the workload targets it again -/
def hpaRestored (w : World) : Bool :=
  match findHPA w noFault with
  | .val (some (_, k)) => decide (k = 0)
  | _ => true

/-- a `Finalize` that is meant to release the workload reported success -/
def finalizeDone (w : World) (br : BR) (out : CallOut) : Bool :=
  decide (out.res = .ok) && !br.partitioned &&
  (match w.wl with
   | some wl => !wl.deleting
   | none => false)

/-- **C05** `finalize_restores_original`, one step: a successful `Finalize` (batchPartition cleared) from a world
    satisfying the invariant leaves the workload with exactly the original minReadySeconds, maxSurge,
    maxUnavailable and progressDeadlineSeconds and without saved / control annotation. -/
def finalizeRestores (kind : Kind) (o : Orig) (w : World) (br : BR) (out : CallOut) : Bool :=
  if inv kind o w ∧ finalizeDone w br out then
    match out.world.wl with
    | some wl' => decide (wl'.saved = .none ∧ wl'.ctl = .none ∧ effSetting kind wl' = o.setting)
    | none => false
  else true

/-- **C05** … and with the original strategy type. -/
def finalizeRestoresType (kind : Kind) (o : Orig) (w : World) (br : BR) (out : CallOut) : Bool :=
  if inv kind o w ∧ finalizeDone w br out then
    match out.world.wl with
    | some wl' => decide (wl'.stype = o.stype)
    | none => false
  else true

/-- **C05** … and the HPA targets the workload again. -/
def finalizeRestoresHPA (w : World) (br : BR) (out : CallOut) : Bool :=
  if finalizeDone w br out then hpaRestored out.world else true

/-- **C05** … and the workload is handed back to its own controller: Deployment un-paused and without the
    stable-revision label, CloneSet without partition. -/
def finalizeReleases (kind : Kind) (w : World) (br : BR) (out : CallOut) : Bool :=
  if finalizeDone w br out then
    match out.world.wl with
    | some wl' =>
      (match kind with
       | .deployment => !wl'.paused && !wl'.stableLabel
       | .cloneSet => wl'.partition.isNone)
    | none => false
  else true

/-- **C05** the restoring patch of the Deployment `Finalize` hands the Deployment back: whenever the call changes a
    Deployment that carries a saved annotation, the result is un-paused, without stable-revision label and without
    control-info (whether or not the call then has to wait). -/
def finalizePatchReleases (kind : Kind) (w : World) (out : CallOut) : Bool :=
  match w.wl, out.world.wl with
  | some wl, some wl' =>
    if kind = .deployment ∧ restored wl = false ∧ wl' ≠ wl then
      !wl'.paused && !wl'.stableLabel && decide (wl'.ctl = .none)
    else true
  | _, _ => true

/-- **C05** inductive step: every call, whatever its faults, preserves the invariant. -/
def invPreserved (kind : Kind) (o : Orig) (w : World) (out : CallOut) : Bool :=
  if inv kind o w then inv kind o out.world else true

/-- **C05** round trip, first half: `Initialize` of a workload without saved annotation records exactly the
    workload's effective settings and takes control. -/
def initSavesOriginal (kind : Kind) (w : World) (br : BR) (out : CallOut) : Bool :=
  match w.wl, out.world.wl with
  | some wl, some wl' =>
    if wl.saved = .none ∧ ¬ controlled br wl ∧ out.res = .ok then
      decide (wl'.saved = .some (effSetting kind wl)) && controlled br wl'
    else true
  | _, _ => true

/-! ### C06: saved settings survive, attempts converge -/

/-- **C06** `InitOriginalSetting` never overwrites what an earlier `Initialize` saved (an annotation that holds neither
    `maxSurge` nor `maxUnavailable` — `Initialize` always writes both — counts as "nothing saved": its `minReadySeconds`
    of `0` may be filled in). -/
def initKeepsSaved (w : World) (out : CallOut) : Bool :=
  match w.wl, out.world.wl with
  | some wl, some wl' =>
    match wl.saved with
    | .some s =>
      (match wl'.saved with
       | .some s' =>
         (s.maxSurge.isNone || decide (s'.maxSurge = s.maxSurge)) &&
         (s.maxUnavailable.isNone || decide (s'.maxUnavailable = s.maxUnavailable)) &&
         (s.progressDeadlineSeconds.isNone || decide (s'.progressDeadlineSeconds = s.progressDeadlineSeconds)) &&
         (decide (s'.minReadySeconds = s.minReadySeconds) || (nothingSaved s && decide (s.minReadySeconds = 0)))
       | _ => false)
    | _ => true
  | _, _ => true

/-- the wait condition of `Finalize` on the workload as it really is -/
def readyNow (kind : Kind) (wl : Workload) : Bool :=
  match kind with
  | .deployment =>
    (match waitAllUpdatedAndReady wl with
     | .val b => b
     | .panic => false)
  | .cloneSet => decide (wl.status.ready = wl.status.updatedReady)

/-- **C05** the retry completes: an undisturbed `Finalize` (batchPartition cleared) from a world that satisfies the
    invariant, on a workload whose pods are all updated and ready with respect to the original settings, reports
    success. -/
def finalizeCompletes (kind : Kind) (o : Orig) (w : World) (br : BR) (f : Fault) (out : CallOut) : Bool :=
  match w.wl with
  | some wl =>
    if inv kind o w ∧ f = noFault ∧ br.partitioned = false ∧ wl.replicas.isSome ∧
       readyNow kind (finalizePatch kind o.setting wl) then decide (out.res = .ok)
    else true
  | none => true

/-- **C06 / C11** a `Finalize` that reports success has seen every pod updated and ready — on every attempt. -/
def finalizeDoneMeansReady (kind : Kind) (w : World) (br : BR) (out : CallOut) : Bool :=
  if finalizeDone w br out then
    match out.world.wl with
    | some wl' => readyNow kind wl'
    | none => false
  else true

/-- **C06** a call that reports no successful write left the world as it was -/
def noWriteNoChange (w : World) (out : CallOut) : Bool :=
  if out.writes = 0 then decide (out.world = w) else true

/-- **C06** convergence: repeating a call after a faulty attempt ends where an undisturbed call ends. -/
def retryConverges (second direct : CallOut) : Bool :=
  decide (second.world = direct.world) && decide (second.res = direct.res)

/-- **C06** no step is executed twice with additional effect: repeating a call that was not disturbed changes
    nothing and reports the same; after a success it writes nothing (except that `UpgradeBatch` re-issues its
    patch for a batch of exactly `1`, which the code reads back as "initial value") -/
def idempotent (op : Op) (br : BR) (direct again : CallOut) : Bool :=
  decide (again.world = direct.world) && decide (again.res = direct.res) &&
  (decide (direct.res ≠ .ok) || decide (again.writes = 0) || (op = .upgrade && entryOf br = some (int 1)))

/-! ### C01: exposure of the new revision -/

def clampSurge (s : IntOrPct) (R : Int) : Int := max 0 (min R (scaledV s R true))

/-- the blue-green hold: new pods never become available (`minReadySeconds = MaxReadySeconds`) and no old pod may be
    taken down (`maxUnavailable = 0`), so only the surge lets pods of the new revision exist -/
def held (wl : Workload) : Bool :=
  decide (wl.minReadySeconds = maxReady) && decide (ruUnavailable wl.ru = some (int 0)) && decide (wl.stype ≠ .other)

def defaultSurge : Kind → IntOrPct
  | .deployment => pct 25
  | .cloneSet => int 0

/-- pods of the new revision the workload's own controller may run in this state (environment model):
    none while paused; while held at most `min(R, ⌈maxSurge⌉)` (CloneSet: and at most what the partition leaves);
    otherwise the native rolling update is free to replace every pod. -/
def exposureBG (kind : Kind) (wl : Workload) : Int :=
  match wl.replicas with
  | none => 0
  | some R =>
    if wl.paused then 0 else
    let cap := if held wl then clampSurge ((ruSurge wl.ru).getD (defaultSurge kind)) R else max 0 R
    match kind with
    | .deployment => cap
    | .cloneSet => min (max 0 (exposure (wl.partition.getD (int 0)) R)) cap

/-- the workload as the admission webhook prepares it for a release: Deployment paused, CloneSet partition `100%` -/
def prepared (kind : Kind) (wl : Workload) : Bool :=
  match kind with
  | .deployment => wl.paused
  | .cloneSet => decide (wl.partition = some (pct 100))

/-- replicas the current batch plans (`0` when there is no such batch) -/
def plannedOfBR (br : BR) (R : Int) : Int :=
  match entryOf br with
  | some e => calcBatchReplicas R e
  | none => 0

def exposureW (kind : Kind) (w : World) : Int :=
  match w.wl with
  | some wl => exposureBG kind wl
  | none => 0

/-- **C01** `upgrade_within_step`: after `UpgradeBatch` the new revision is exposed at most as far as before or as
    far as the current batch plans (for a CloneSet: provided the hold `Initialize` installed is still in place —
    `UpgradeBatch` does not re-assert `maxUnavailable = 0` there). -/
def upgradeWithinStep (kind : Kind) (w : World) (br : BR) (out : CallOut) : Bool :=
  match w.wl with
  | some wl =>
    match wl.replicas with
    | some R =>
      if kind = .cloneSet ∧ ¬ held wl then true
      else decide (exposureW kind out.world ≤ max (exposureBG kind wl) (plannedOfBR br R))
    | none => true
  | none => true

/-- **C01** the knob never moves back: on a held workload whose surge is set, `UpgradeBatch` does not lower the exposure. -/
def upgradeMonotone (kind : Kind) (w : World) (out : CallOut) : Bool :=
  match w.wl with
  | some wl =>
    if held wl ∧ (ruSurge wl.ru).isSome then decide (exposureBG kind wl ≤ exposureW kind out.world) else true
  | none => true

/-- **C01** `UpgradeBatch` raises the surge only on a workload whose blue-green hold is in place afterwards: new pods
    never become available (`minReadySeconds = MaxReadySeconds`, update type not foreign) and — Deployment, where the
    patch sets it — `maxUnavailable = 0`. -/
def upgradeKeepsHold (kind : Kind) (out : CallOut) : Bool :=
  if out.writes = 0 then true
  else
    match out.world.wl with
    | some wl' =>
      (match kind with
       | .deployment => held wl'
       | .cloneSet => decide (wl'.minReadySeconds = maxReady) && decide (wl'.stype ≠ .other))
    | none => false

/-- **C01** `Initialize` exposes nothing of the new revision on a prepared workload, and never more than one pod
    beyond what was exposed (a paused CloneSet of a foreign update type is outside: `Initialize` un-pauses it). -/
def initExposure (kind : Kind) (w : World) (out : CallOut) : Bool :=
  match w.wl with
  | some wl =>
    (if kind = .cloneSet ∧ wl.paused ∧ wl.stype = .other then true
     else decide (exposureW kind out.world ≤ max (exposureBG kind wl) 1)) &&
    (if prepared kind wl then decide (exposureW kind out.world = 0) else true)
  | none => true

/-- **C01** a successful `Initialize` that takes control installs the complete blue-green hold — `minReadySeconds =
    MaxReadySeconds`, `maxUnavailable = 0` — with a surge that `CalculateBatchContext` reads as "nothing exposed yet"
    (so that the first batch is always an upgrade from `0`). -/
def initInstallsHold (w : World) (br : BR) (out : CallOut) : Bool :=
  match w.wl, out.world.wl with
  | some wl, some wl' =>
    if ¬ controlled br wl ∧ out.res = .ok then
      decide (wl'.minReadySeconds = maxReady) && decide (ruUnavailable wl'.ru = some (int 0)) &&
      decide (curSurge wl' = int 0) && controlled br wl'
    else true
  | _, _ => true

/-- the HPA `findHPAForWorkload` associates with the workload is disabled (its target name carries the suffix) -/
def hpaDisabled (w : World) : Bool :=
  match findHPA w noFault with
  | .val (some (_, k)) => decide (k ≠ 0)
  | _ => true

/-- **C01** a successful `Initialize` leaves the workload's HPA disabled, so that it cannot scale the workload (and
    with it every percentage step) during the release. -/
def initDisablesHPA (w : World) (br : BR) (out : CallOut) : Bool :=
  match w.wl with
  | some wl => if ¬ controlled br wl ∧ out.res = .ok then hpaDisabled out.world else true
  | none => true

/-! ### C09: panics -/

/-- inputs on which a call may panic without being a finding: a workload without `spec.replicas` (the API
    servers default the field) and a current batch outside the plan (the executor checks it before) -/
def panicAllowed (op : Op) (w : World) (br : BR) : Bool :=
  (match w.wl with
   | some wl => wl.replicas.isNone
   | none => false) ||
  (op = .upgrade && (entryOf br).isNone)

/-! ### histories (used by the theorems over whole releases) -/

/-- one event in the life of a release: a call of the control plane (any of the three, with any BatchRelease
    fields — UID, plan, current batch, partition — and any API fault), or the workload's own controller / the
    user's scaling changing the status resp. the replica count -/
inductive Ev where
  | call (op : Op) (br : BR) (f : Fault)
  | status (st : Status)
  | scale (r : Int)
  deriving Repr


/-- the world after an event; `none` = the controller process panicked -/
def applyEv (kind : Kind) (w : World) : Ev → Option World
  | .call op br f =>
    match call kind op w br f with
    | .val o => some o.world
    | .panic => none
  | .status st => some { w with wl := w.wl.map (fun wl => { wl with status := st }) }
  | .scale r => some { w with wl := w.wl.map (fun wl => { wl with replicas := some r }) }


def run (kind : Kind) (w : World) : List Ev → Option World
  | [] => some w
  | e :: t =>
    match applyEv kind w e with
    | some w' => run kind w' t
    | none => none


/-- the ghost of a release that starts on workload `wl` -/
def origOf (kind : Kind) (wl : Workload) : Orig := { setting := effSetting kind wl, stype := wl.stype }


/-- invariant: the exposure is within the bound `B`, the blue-green hold is complete whenever `minReadySeconds` is
    the blue-green value, and a CloneSet is not of a foreign update type -/
def expInv (kind : Kind) (B : Int) (w : World) : Bool :=
  match w.wl with
  | none => true
  | some wl =>
    decide (exposureBG kind wl ≤ B) &&
    (!decide (wl.minReadySeconds = maxReady) || decide (ruUnavailable wl.ru = some (int 0))) &&
    (kind != .cloneSet || decide (wl.stype ≠ .other))


/-- the events of the progressing phase: `Initialize`, `UpgradeBatch` for a batch that plans at most `B` pods of the
    current replica count, and status changes -/
def progressEv (B : Int) (w : World) : Ev → Bool
  | .call .init _ _ => true
  | .call .upgrade br _ =>
    (match w.wl with
     | some wl => (match wl.replicas with
        | some R => decide (plannedOfBR br R ≤ B)
        | none => true)
     | none => true)
  | .call .fin _ _ => false
  | .status _ => true
  | .scale _ => false


def progressRun (kind : Kind) (B : Int) (w : World) : List Ev → Bool
  | [] => true
  | e :: t =>
    progressEv B w e &&
    (match applyEv kind w e with
     | some w' => progressRun kind B w' t
     | none => true)


/-! ### what the driver evaluates -/

def guardTags (kind : Kind) (op : Op) (w : World) (br : BR) (o : Option Orig) : List String :=
  (match w.wl with
   | some wl =>
     (if op = .fin && !br.partitioned && !wl.deleting && gRestoredDeploy kind wl then ["guard:deployFinalizeRetry"] else []) ++
     (if op = .fin && !br.partitioned && gCsPartition kind wl then ["guard:csPartitionKept"] else [])
   | none => []) ++
  (match o with
   | some o => if gOrigType kind o then ["guard:origRecreate"] else []
   | none => [])

def stepOracles (kind : Kind) (op : Op) (w : World) (br : BR) (f : Fault) (o : Option Orig) (out : CallOut) :
    List (String × Bool) :=
  [("C06.bg_no_write_no_change", noWriteNoChange w out)] ++
  (match o with
   | some o =>
     [("C05.bg_inv_preserved", invPreserved kind o w out)] ++
     (if op = .fin then
        [("C05.bg_finalize_restores_original", finalizeRestores kind o w br out),
         ("C05.bg_finalize_restores_type", finalizeRestoresType kind o w br out),
         ("C05.bg_finalize_completes", finalizeCompletes kind o w br f out)]
      else [])
   | none => []) ++
  (match op with
   | .init =>
     [("C05.bg_init_saves_original", initSavesOriginal kind w br out),
      ("C06.bg_init_keeps_saved", initKeepsSaved w out),
      ("C01.bg_init_exposure", initExposure kind w out),
      ("C01.bg_init_installs_hold", initInstallsHold w br out),
      ("C01.bg_init_disables_hpa", initDisablesHPA w br out)]
   | .upgrade =>
     [("C01.bg_upgrade_within_step", upgradeWithinStep kind w br out),
      ("C01.bg_upgrade_monotone", upgradeMonotone kind w out),
      ("C01.bg_upgrade_keeps_hold", upgradeKeepsHold kind out)]
   | .fin =>
     [("C05.bg_finalize_restores_hpa", finalizeRestoresHPA w br out),
      ("C05.bg_finalize_releases_workload", finalizeReleases kind w br out),
      ("C05.bg_finalize_patch_releases", finalizePatchReleases kind w out),
      ("C06.bg_finalize_done_means_ready", finalizeDoneMeansReady kind w br out),
      ("C11.bg_finalize_done_means_ready", finalizeDoneMeansReady kind w br out)])

def retryOracles (op : Op) (br : BR) (second direct again : CallOut) : List (String × Bool) :=
  [("C06.bg_retry_converges", retryConverges second direct),
   ("C06.bg_idempotent", idempotent op br direct again)]

end RV.Oracle.CtlBlueGreen
