/-
  C20 — the decidable predicates of the property.  Used in the theorem statements
  (RV/Props/C20.lean) *and* evaluated by the driver on the implementation's outputs.
-/
import RV.Model.Conversion
namespace RV.Oracle.C20
open RV.Conversion

/-! ## (iii) totality -/

/-- the conversion returned normally (no nil dereference) -/
def total {α} (o : Outcome α) : Bool := o.isOk

/-! ## (i) what a v1alpha1 object *means*

`meaning` is a normal form inside the v1alpha1 type itself: two v1alpha1 objects have
the same meaning iff their normal forms are equal.  Everything the property lists —
workload reference, steps, replicas, weights, header matches, pauses, traffic routing
references, style, status cursor — and in fact every other field is kept verbatim;
only the following identifications are made. -/

def emptyRef : Ref := { apiVersion := "", kind := "", name := "" }

/-- an absent `workloadRef` names the same workload as an all-empty one: none -/
def normRef (r : Option Ref) : Option Ref :=
  match r with
  | some r => some r
  | none => some emptyRef

/-- v1alpha1 step: `replicas` absent means "as many percent of the pods as `weight`"
    (validate_v1alphal_rollout.go requires one of the two; ConvertTo materialises it). -/
def normStep (s : A.Step) : A.Step :=
  match s.replicas, s.tr.weight with
  | none, some w => { s with replicas := some (.str (fmtPercent w.toInt)) }
  | _, _ => s

/-- the Rollout style annotation is read as "partition (case-insensitive) or not" -/
def normRolloutStyle (v : Option String) : Option String :=
  if eqFold (annGet v) stylePartition then some (lowerAscii stylePartition) else some (lowerAscii styleCanary)

/-- **meaning of a v1alpha1 Rollout.**  Not part of the meaning: `spec.rolloutID`
    (DeprecatedRolloutID — deprecated, v1beta1 has no such field; see `rolloutID_not_carried`). -/
def meaningRollout (a : A.Rollout) : A.Rollout :=
  { md := match a.spec.strategy.canary with
      | some _ => { a.md with annStyle := normRolloutStyle a.md.annStyle }
      | none => a.md
    spec := { workloadRef := normRef a.spec.workloadRef
              strategy := { paused := a.spec.strategy.paused
                            canary := match a.spec.strategy.canary with
                              | some c => some { c with steps := c.steps.map normStep }
                              | none => none }
              rolloutID := ""
              disabled := a.spec.disabled }
    status := a.status }

/-- the style named by a string, if it is one of the three (case-insensitive) -/
def styleNamed (s : String) : Option String :=
  if eqFold s styleBlueGreen then some styleBlueGreen
  else if eqFold s styleCanary then some styleCanary
  else if eqFold s stylePartition then some stylePartition
  else none

/-- style names are case-insensitive in v1alpha1 (its carrier is the lower-cased annotation) -/
def canonStyle (s : String) : String :=
  match styleNamed s with
  | some k => k
  | none => s

/-- the rolling style a v1alpha1 BatchRelease asks for: the annotation
    `rollouts.kruise.io/rolling-style` if it names a style, otherwise
    `spec.releasePlan.rollingStyle`. -/
def brStyle (a : A.BatchRelease) : String :=
  match styleNamed (annGet a.md.annStyle) with
  | some k => k
  | none => canonStyle a.spec.plan.rollingStyle

/-- **meaning of a v1alpha1 BatchRelease** -/
def meaningBR (a : A.BatchRelease) : A.BatchRelease :=
  { md := { a.md with annStyle := some (lowerAscii (brStyle a)) }
    spec := { workloadRef := normRef a.spec.workloadRef
              plan := { a.spec.plan with rollingStyle := brStyle a } }
    status := a.status }

/-- clause (i) on an observed read-back `back = ConvertFrom (ConvertTo a)` -/
def meaningHoldsRollout (a : A.Rollout) (back : Outcome A.Rollout) : Bool :=
  match back with
  | .ok a' => meaningRollout a' == meaningRollout a
  | .panic => false

def meaningHoldsBR (a : A.BatchRelease) (back : Outcome A.BatchRelease) : Bool :=
  match back with
  | .ok a' => meaningBR a' == meaningBR a
  | .panic => false

/-! ## (ii) which v1beta1 objects v1alpha1 can express -/

/-- a `traffic` string v1alpha1's `weight *int32` can express: exactly `"<int32>%"` in `%d` form -/
def trafficExpressible (t : String) : Bool := fmtPercent (goTrafficWeight t).toInt == t

def stepExpressible (s : B.Step) : Bool :=
  (match s.tr.traffic with
   | none => true
   | some t => trafficExpressible t) &&
  -- v1alpha1 matches have headers only
  s.tr.mts.all (fun m => m.path.isNone && m.queryParams.isEmpty) &&
  -- a v1beta1 step always states replicas (the v1beta1 webhook demands it); a v1alpha1 step
  -- with a weight and no replicas *means* replicas = weight%, so "traffic without replicas"
  -- has no v1alpha1 counterpart
  (s.replicas.isSome || s.tr.traffic.isNone)

/-- **v1alpha1-expressible canary-strategy v1beta1 Rollout**: canary strategy (no blueGreen
    strategy/status); per step see `stepExpressible`; the v1beta1-only status columns
    `status.currentStepIndex/State` unset; and the `trafficrouting` annotation (v1alpha1's
    carrier of `trafficRoutingRef`) not contradicting an empty `trafficRoutingRef`. -/
def expressibleRollout (b : B.Rollout) : Bool :=
  b.spec.strategy.blueGreen.isNone &&
  (match b.spec.strategy.canary with
   | none => false
   | some c => c.steps.all stepExpressible &&
               (c.trafficRoutingRef != "" || annGet b.md.annTR == "")) &&
  b.status.blueGreenStatus.isNone && b.status.currentStepIndex == 0 && b.status.currentStepState == ""

/-- what the round trip v1beta1 → v1alpha1 → v1beta1 is allowed to change: it (re)writes the
    two annotations through which v1alpha1 carries style and trafficRoutingRef. Nothing else. -/
def stampRollout (b : B.Rollout) : B.Rollout :=
  match b.spec.strategy.canary with
  | none => b
  | some c =>
    { b with md :=
      { b.md with
        annStyle := some (if c.enableExtraWorkloadForCanary then lowerAscii styleCanary else lowerAscii stylePartition)
        annTR := if c.trafficRoutingRef != "" then some c.trafficRoutingRef else b.md.annTR } }

/-- **v1alpha1-expressible v1beta1 BatchRelease**: the style is not a mere case variant of one
    of the three names (v1alpha1 carries it lower-cased in an annotation), and the
    v1beta1-only `status.message` is unset. -/
def expressibleBR (b : B.BatchRelease) : Bool :=
  canonStyle b.spec.plan.rollingStyle == b.spec.plan.rollingStyle && b.status.message == ""

def stampBR (b : B.BatchRelease) : B.BatchRelease :=
  { b with md := { b.md with annStyle := some (lowerAscii b.spec.plan.rollingStyle) } }

/-- clause (ii) on an observed `back = ConvertTo (ConvertFrom b)` -/
def rmwHoldsRollout (b : B.Rollout) (back : Outcome B.Rollout) : Bool :=
  !expressibleRollout b || back == .ok (stampRollout b)

def rmwHoldsBR (b : B.BatchRelease) (back : Outcome B.BatchRelease) : Bool :=
  !expressibleBR b || back == .ok (stampBR b)

end RV.Oracle.C20
