/-
  Decidable oracles about one BatchRelease reconcile (old state → new state),
  shared by the theorems (C01.3, C11, C18) and the driver.
-/
import RV.Model.Executor
namespace RV.Oracle.Executor
open RV.Arith RV.BatchCtx RV.Executor

/-- the readiness verdict for the batch the *persisted* status points at -/
def batchReadyNow (br : BR) (wl : Option Workload) : Bool :=
  match wl with
  | none => false
  | some w =>
    if w.replicas = 0 then true else
    match calcCtx (obsOf br br.status w) with
    | .panic => false
    | .ok c => isBatchReady c none = .ok

/-- did this reconcile stop after the sync step (status persisted, nothing executed)? -/
def stopped (br : BR) (wl : Option Workload) : Bool :=
  (syncStatus (withFinalizer br) (initializedStatus br.status) wl).stop

/-- C11.i at the executor level: whenever the executor acts and leaves the batch state `Ready`,
    the readiness check passed on the workload as observed in this reconcile. -/
def readyOnlyIfReady (br : BR) (wl : Option Workload) (br' : BR) : Bool :=
  if ¬ stopped br wl ∧ br.status.phase = .progressing ∧
     br'.status.phase = .progressing ∧ br'.status.batchState = .ready then
    batchReadyNow br wl
  else true

/-- C11.ii / C01.3: `currentBatch` rises only by one, only from `Ready`, only while below
    the batch partition; otherwise it changes only through recalculation / restart. -/
def batchAdvanceGuarded (br : BR) (wl : Option Workload) (br' : BR) : Bool :=
  if br'.status.currentBatch > br.status.currentBatch ∧ br.status.phase = .progressing ∧ br.status.hash = .same ∧
     ¬ isPlanUnhealthy br then
    decide (br'.status.currentBatch = br.status.currentBatch + 1) && br.status.batchState = .ready &&
    (match br.partition with
     | some p => decide (p > br.status.currentBatch)
     | none => false) &&
    batchReadyNow br wl
  else true

/-- C11.ii: after any reconcile of a healthy progressing release the current batch does not exceed the partition
    unless it already did before (the executor never works beyond its partition). -/
def withinPartition (br : BR) (br' : BR) : Bool :=
  match br.partition with
  | some p =>
    if br'.status.phase = .progressing ∧ br.status.currentBatch ≤ p ∧ 0 ≤ p then decide (br'.status.currentBatch ≤ p) else true
  | none => true

/-- C11.iii / C18: phase `Completed` is entered only from `Finalizing`, and then the workload
    has been released from this BatchRelease's control (or is gone). -/
def completedMeansReleased (br : BR) (br' : BR) (wl' : Option Workload) : Bool :=
  if br'.status.phase = .completed ∧ br.status.phase ≠ .completed then
    br.status.phase = .finalizing &&
    (match wl' with
     | none => true
     | some w => w.owner ≠ .this)
  else true

/-- C18: the BatchRelease disappears (own finalizer removed while deleting) only in phase Completed. -/
def goneOnlyWhenCompleted (br : BR) (br' : Option BR) : Bool :=
  match br' with
  | none => br.deleting && br.status.phase = .completed
  | some b => if br.hasFinalizer ∧ ¬ b.hasFinalizer then false else true

/-- C06: phase or batch-state changes decided before acting are persisted without acting:
    if the status the sync step computes differs from the persisted one, the workload is not written. -/
def noActBeforePersist (br : BR) (wl wl' : Option Workload) : Bool :=
  if stopped br wl then wl' = wl else true

/-- C11.iv: a failing readiness check in Verifying/Ready falls back to Upgrading. -/
def fallsBack (br : BR) (wl : Option Workload) (br' : BR) : Bool :=
  if ¬ stopped br wl ∧ br.status.phase = .progressing ∧ (br.status.batchState = .verifying ∨ br.status.batchState = .ready) ∧
     wl.isSome ∧ ¬ batchReadyNow br wl ∧ (0 ≤ br.status.currentBatch ∧ br.status.currentBatch < br.batches.length) then
    br'.status.batchState = .upgrading && (br.status.batchState != .ready || !br'.status.hasReadyTime)
  else true

/-- C11.iv: a plan change observed while `Progressing` (the persisted plan hash differs from the spec's)
    is acknowledged (new hash observed) only together with the fall-back to `Upgrading` with no ready
    time — a status never says "Ready, plan observed" for a plan whose pods were not checked. -/
def planChangeFallsBack (br : BR) (br' : BR) : Bool :=
  if br.status.phase = .progressing ∧ br.status.hash ≠ .same ∧ ¬ isPlanFinalizing br then
    br'.status.batchState = .upgrading && !br'.status.hasReadyTime && br'.status.hash = .same
  else true

/-- C07: the executor settles — with the batch's pods in place, `Verifying` becomes `Ready`, and a `Ready`
    batch whose partition asks for no more is left exactly as it is (no write, no state flip). -/
def executorSettles (br : BR) (wl : Option Workload) (br' : BR) (wl' : Option Workload) : Bool :=
  if ¬ stopped br wl ∧ br.status.phase = .progressing ∧ batchReadyNow br wl then
    (if br.status.batchState = .verifying then
       br'.status.batchState = .ready && br'.status.hasReadyTime && decide (br'.status.currentBatch = br.status.currentBatch) && wl' == wl
     else if br.status.batchState = .ready ∧ isPartitioned br then
       br'.status == br.status && wl' == wl
     else true)
  else true

/-- The executor may panic only on a plan without batches / a negative current batch
    (not reachable from a Rollout the validating webhook accepts: steps are non-empty). -/
def panicAllowed (br : BR) : Bool :=
  br.batches.isEmpty || decide (br.status.currentBatch < 0)

def stepOracles (br : BR) (wl : Option Workload) (br' : Option BR) (wl' : Option Workload) : List (String × Bool) :=
  let common := [("C18.br_gone_only_when_completed", goneOnlyWhenCompleted br br'),
                 ("C06.no_act_before_persist", noActBeforePersist br wl wl'),
                 -- C01: the workload is never written from a status (batch index) that is not persisted yet
                 ("C01.no_act_before_persist", noActBeforePersist br wl wl'),
                 ("C11.no_act_before_persist", noActBeforePersist br wl wl')]
  match br' with
  | none => common
  | some b =>
    common ++
    [("C11.ready_only_if_ready", readyOnlyIfReady br wl b),
     ("C11.batch_advance_guarded", batchAdvanceGuarded br wl b),
     ("C01.batch_advance_guarded", batchAdvanceGuarded br wl b),
     ("C11.within_partition", withinPartition br b),
     ("C01.within_partition", withinPartition br b),
     ("C11.completed_means_released", completedMeansReleased br b wl'),
     ("C18.br_completed_means_released", completedMeansReleased br b wl'),
     ("C11.falls_back", fallsBack br wl b),
     ("C11.plan_change_falls_back", planChangeFallsBack br b),
     ("C07.executor_settles", executorSettles br wl b wl')]

end RV.Oracle.Executor
