/-
  Decidable predicates of the wake-up property (C07.ii), shared by the theorems in
  `RV/Props/WakeupThms.lean` and by the driver, which evaluates them on what the REAL
  handlers enqueued and on the states at which the event-driven closed loop went quiet.
-/
import RV.Model.Wakeup
namespace RV.Oracle.Wakeup
open RV.Wakeup

/-! ### handler level -/

/-- the Rollouts / BatchReleases of namespace `ns` whose workloadRef names (kind, group, name) -/
def owners (xs : List Obj) (ns name : String) (g : GVK) : List Obj :=
  xs.filter (fun r => r.ns == ns && refMatches r.ref g name)

/-- frame (Rollout controller): a workload event only produces requests for Rollouts of the object's namespace that name it -/
def roFrame (rs : List Obj) (o : Wl) (keys : List Key) : Bool :=
  if !watchedType o.ty then keys.isEmpty else
  match schemeKind o.ty with
  | none => keys.isEmpty
  | some g => keys.all fun k => (owners rs o.ns o.name g).any fun r => r.key == k

/-- a workload event reaches a Rollout that names the workload (when the cache can be listed) -/
def roOwnerWoken (rs : List Obj) (listErr : Bool) (o : Wl) (keys : List Key) : Bool :=
  if !watchedType o.ty then true else
  match schemeKind o.ty with
  | none => true
  | some g => listErr || (owners rs o.ns o.name g).isEmpty || !keys.isEmpty

/-- every BatchRelease Update event reaches the Rollout of the same name; Create / Delete reach nobody -/
def roBrEvent (t : String) (b : BrMeta) (keys : List Key) : Bool :=
  if t = "update" then keys == [⟨b.ns, b.name⟩] else keys.isEmpty

/-- the control annotation names a BatchRelease -/
def controlledBy (c : Control) : Option String :=
  match c with
  | .ref a k n => if a = brAPIVersion ∧ k = "BatchRelease" ∧ n ≠ "" then some n else none
  | _ => none

/-- frame (BatchRelease controller): a workload event only produces a request for the BatchRelease named in the
    control annotation or for one of the namespace that names the workload -/
def brFrame (brs : List Obj) (o : Wl) (keys : List Key) : Bool :=
  match switchKind o.ty with
  | none => keys.isEmpty
  | some g => keys.all fun k =>
      k.ns == o.ns && (controlledBy o.control == some k.name || (owners brs o.ns o.name g).any fun r => r.key == k)

/-- what `workloadEventHandler.Update` must react to: the object was really rewritten and its generation or parsed status differ -/
def wlProgressed (old new : Wl) : Bool :=
  decide (new.rv ≠ old.rv) && (decide (old.generation ≠ new.generation) || parseStatus old.ty old.status != parseStatus new.ty new.status)

/-- workload progress reaches the BatchRelease named in the control annotation written by `Initialize` -/
def wlProgressWakes (old new : Wl) (keys : List Key) : Bool :=
  match switchKind new.ty, controlledBy new.control with
  | some _, some n => !wlProgressed old new || keys.contains ⟨new.ns, n⟩
  | _, _ => true

/-- a spec / annotation / deletion change of a BatchRelease passes the predicate; (status-only writes need not) -/
def brSpecChangeWakes (old new : BrMeta) (keys : List Key) : Bool :=
  if old.generation ≠ new.generation ∨ new.deleting ∨ old.annos ≠ new.annos then keys == [⟨new.ns, new.name⟩] else true

/-- a status-only write does not pass the predicate (the executor must therefore requeue itself) -/
def brStatusOnlySilent (old new : BrMeta) (keys : List Key) : Bool :=
  if old.generation = new.generation ∧ ¬ new.deleting ∧ old.annos = new.annos then keys.isEmpty else true

/-- the pod's top-level workload as the handler resolves it -/
def podTop (store : List StoreObj) (getErr : Bool) (p : Pod) : OwnerOut :=
  ownerWorkload store getErr p.ns (store.length + 2) p.owner p.inProgress .absent

/-- what `podEventHandler.Update` must react to -/
def podChanged (old new : Pod) : Bool :=
  decide (old.rv ≠ new.rv) && (!isEqualRevision old new || podReady old != podReady new)

/-- a readiness / revision change of a pod reaches the BatchRelease controlling the pod's top-level workload -/
def podWakes (store : List StoreObj) (getErr : Bool) (old new : Pod) (keys : List Key) : Bool :=
  match new.owner, podTop store getErr new with
  | some _, .obj _ c =>
    (match controlledBy c with
     | some n => !podChanged old new || keys.contains ⟨new.ns, n⟩
     | none => true)
  | _, _ => true

/-- frame for pods: requests only for BatchReleases of the pod's namespace -/
def podFrame (p : Pod) (keys : List Key) : Bool := keys.all fun k => k.ns == p.ns

/-! ### state level: what a quiet reconciler is waiting for -/

inductive RoWait where
  | userUnpause        -- spec.strategy.paused: a Rollout spec update
  | userApprove        -- manual pause: `kubectl-kruise rollout approve`, a Rollout status update
  | userEnable         -- spec.disabled: a Rollout spec update
  | brReport           -- StepUpgrade: the BatchRelease controller reports the batch, a BatchRelease status update
  | workloadChange     -- the workload appears / is rolled back by the user: a workload event
  | newRelease         -- terminal Healthy: the next release is a workload update admitted by the webhook
  | terminated         -- the Rollout is deleted and its clean-up is complete
  deriving Repr, DecidableEq

open RV.RolloutSM in
/-- the continuous-release test of `doProgressingInRolling` -/
def continuousRelease (os : Sub) (wl : WL) : Bool :=
  os.canaryRev != "" && wl.canaryRev != os.canaryRev && !wl.inRollback

open RV.RolloutSM in
/-- the earlier branches of `doProgressingInRolling` do not apply: not paused, no rollback observed, no continuous release -/
def rollingNormally (ro : Rollout) (os : Sub) (wl : WL) : Bool :=
  !ro.paused && !continuousRelease os wl && !(wl.inRollback && wl.canaryRev != os.canaryRev)

open RV.RolloutSM in
/-- the waiting class of a Rollout world (`none`: the reconciler has work to do) -/
def roAwaits (w : World) : Option RoWait :=
  match w.ro.phase with
  | .initial => if w.wl.isNone then some .workloadChange else none
  | .healthy =>
    match w.wl with
    | some wl => if wl.inProgressAnno then none else some .newRelease
    | none => none
  | .disabled => if w.ro.disabled then some .userEnable else none
  | .terminating => if w.ro.term = .completed then some .terminated else none
  | .progressing =>
    match w.ro.reason, w.ro.sub, w.wl with
    | .paused, _, _ => if w.ro.paused then some .userUnpause else none
    | .inRolling, some s, some wl =>
      if w.ro.style = .blueGreen ∧ continuousRelease s wl then some .workloadChange
      else if ¬ rollingNormally w.ro s wl then none     -- pause / rollback / continuous release are dispatched first: no resting there
      else match s.state with
        | .upgrade => some .brReport
        | .paused =>
          (match w.ro.steps[(s.curIdx - 1).toNat]? with
           | some st => if st.pause = .manual then some .userApprove else none
           | none => none)
        | _ => none
    | _, _, _ => none
  | _ => none

open RV.RolloutSM in
/-- states the controllers never write: an unknown Progressing reason / step state, phase Terminating on a live object -/
def roIllFormed (w : World) : Bool :=
  (w.ro.phase = .progressing && w.ro.reason = .other) ||
  (w.ro.phase = .progressing && w.ro.reason = .inRolling && (match w.ro.sub with | some s => s.state = .other | none => false)) ||
  (w.ro.phase = .terminating && !w.ro.deleting)

/-- the events each class waits for -/
def RoWait.awaited : RoWait → List AEvent
  | .userUnpause | .userApprove | .userEnable => [.roUpdated]
  | .brReport => [.brStatusUpdated false, .brStatusUpdated true]
  | .workloadChange => [.wlSpecUpdated, .wlStatusUpdated]
  | .newRelease => [.wlSpecUpdated]
  | .terminated => []

/-- is the class waiting for the user or the environment (and not for the other controller) -/
def RoWait.external : RoWait → Bool
  | .brReport => false
  | _ => true

inductive BrWait where
  | completed          -- terminal: the plan has been executed / cancelled
  | specChange         -- batch Ready and partitioned: the Rollout raises the partition, a generation change
  | workloadChange     -- the workload controller has not observed the last write: a workload status change
  | rollbackSignal     -- rollback in batches: the annotation on the BatchRelease or the workload's revisions change
  | superseded         -- the workload's pod template is no longer the revision being released: the executor stops on every
                       -- round until its owner (the Rollout controller) deletes / rewrites the BatchRelease, or the template changes again
  deriving Repr, DecidableEq

open RV.Executor in
def brAwaits (br : BR) (wl : Option Workload) : Option BrWait :=
  let ns := initializedStatus br.status
  let ev := (syncInfo br ns wl).1
  if br.status.phase = .completed then (if br.deleting ∧ br.hasFinalizer then none else some .completed)
  else if ev = .podTemplateChanged ∧ br.status.phase = .progressing then some .superseded
  else if ev = .stillReconciling then some .workloadChange
  else if (ev = .rollbackInBatch ∨ br.rollbackAnno) ∧ br.status.noNeedUpdate.isNone ∧ br.status.phase = .progressing then some .rollbackSignal
  else if br.status.phase = .progressing ∧ br.status.batchState = .ready ∧ isPartitioned br then some .specChange
  else none

def BrWait.awaited : BrWait → List AEvent
  | .completed => []
  | .specChange => [.brSpecUpdated]
  | .workloadChange => [.wlStatusUpdated]
  | .rollbackSignal => [.brSpecUpdated, .wlStatusUpdated, .wlSpecUpdated]
  | .superseded => [.brDeleteRequested, .brSpecUpdated, .wlSpecUpdated, .wlStatusUpdated]

def BrWait.external : BrWait → Bool
  | .completed | .workloadChange => true
  | .specChange | .rollbackSignal | .superseded => false

open RV.RolloutSM in
/-- **the per-step oracle (Rollout)**: a reconcile that is not woken again — no requeue, no error (rate-limited retry), no event of
    its own making that the handlers map back to it — must have started in a waiting class (it changed nothing, so it rests there) -/
def roStepOk (w : World) (woken gone : Bool) : Bool :=
  woken || gone || (roAwaits w).isSome || roIllFormed w

open RV.Executor in
/-- **the per-step oracle (BatchRelease)**: a reconcile that is not woken again must leave a state that is a waiting class -/
def brStepOk (post : Option BR) (wl' : Option Workload) (woken : Bool) : Bool :=
  woken || (match post with | none => true | some b => (brAwaits b wl').isSome)

/-- the whole system is idle (no pending request, no timer): acceptable only when the Rollout waits for the user or the
    environment — or for a BatchRelease report while the BatchRelease waits for the environment -/
def idleOk (ro : Option RoWait) (brExists : Bool) (br : Option BrWait) : Bool :=
  match ro with
  | none => false
  | some c =>
    if c.external then (!brExists || br.isSome)
    else brExists && (match br with | some b => b.external && b != .completed | none => false)

end RV.Oracle.Wakeup
