/-
  C06 — one API call of a controller action fails.  Judged on the implementation alone (the one-step models have no
  fault parameter): the harness runs the same action from the same state once undisturbed and once with the k-th API
  call (a read or a write) failing, and reports whether the failure was returned and what was written.
-/
namespace RV.Oracle.Fault

/-- `a` is a subsequence of `b` -/
def isSubseq : List String → List String → Bool
  | [], _ => true
  | _ :: _, [] => false
  | x :: xs, y :: ys => if x == y then isSubseq xs ys else isSubseq (x :: xs) ys

/-- a controller action in which an API call failed (`hit`) reports the failure (an error is returned, so the request
    is retried / the admission is refused): it never goes on as if the call had succeeded -/
def faultReported (hit : Bool) (err : Bool) : Bool := !hit || err

/-- … and what it wrote before and after the failed call is part of what the undisturbed action writes from the
    same state, in the same order: a failed call never makes the controller take a *different* action -/
def faultWritesWithin (hit : Bool) (writes baseWrites : List String) : Bool := !hit || isSubseq writes baseWrites

theorem isSubseq_refl : ∀ l : List String, isSubseq l l = true
  | [] => rfl
  | x :: xs => by simp [isSubseq, isSubseq_refl xs]

theorem isSubseq_nil (l : List String) : isSubseq [] l = true := by cases l <;> rfl

end RV.Oracle.Fault
