/-
  Decidable oracles about the partition-style StatefulSet-like / DaemonSet control planes, shared by the
  theorems (RV/Props/CtlStsThms.lean) and by the driver, which evaluates them on the snapshots the
  *real* code produced.  Attached to C08 (the webhook holds back), C01 (exposure), C05 (release / the
  user's configuration survives), C06 (idempotence / fault safety), C07 (the write suffices for readiness),
  C11 (the readiness verdict means live, ready pods of the update revision; section "the pods behind the verdict").
-/
import RV.Model.CtlSts
import RV.Oracle.Batch
namespace RV.Oracle.CtlSts
open RV.Arith IntOrPct RV.Webhook RV.CtlSts RV.BatchCtx RV.Oracle.Batch

/-! ### what a partition means -/

/-- how many pods the workload controller may move to the new revision: all but the `partition` it keeps
    (ordered StatefulSet: ordinals below the partition; unordered / DaemonSet: that many pods), clamped to the
    size; an absent / non-integer partition keeps none.  `paused` is not taken into account (an upper bound). -/
def exposureW (w : Wl) : Int :=
  match replicasOf w with
  | some r => exposure (int (currentPartition w.us)) r
  | none => 0

/-- the partition is the webhook's hold value -/
def held (w : Wl) : Bool := currentPartition w.us == maxInt16

/-- `math.MaxInt16` holds back every pod only of a workload that is not larger -/
def sizeOK (r : Int) : Bool := decide (0 ≤ r ∧ r ≤ maxInt16)

/-- a no-need-update count the control plane can have recorded: between 0 and the size -/
def nnOK (r : Int) (nn : Option Int) : Bool :=
  match nn with
  | none => true
  | some k => decide (0 ≤ k ∧ k ≤ r)

def usType : US → String
  | .present t _ => t
  | _ => ""

/-- the effective update strategy type: absent = the default `RollingUpdate` -/
def effType (us : US) : String := if usType us == "" then "RollingUpdate" else usType us

def usPaused : US → Option Bool
  | .present _ (.present _ pa _) => pa
  | _ => none

def partV : US → PartV
  | .present _ (.present p _ _) => p
  | _ => .absent

/-! ### C08 — the webhook -/

/-- `IsStatefulSetRollingUpdate`, as a specification of the submitted object -/
def stsRolling : US → Bool
  | .absent => true
  | .malformed => false
  | .present t _ => t == "" || t == "RollingUpdate"

/-- a release change of an eligible workload referenced by an active Rollout:
    the template changes; StatefulSet-like: replicas ≠ 0, update strategy RollingUpdate, both objects carry a
    template; DaemonSet: always -/
def relevant (world : World) (d new : Wl) : Bool :=
  world.matched && d.tmpl != new.tmpl &&
  (match new.kind with
   | .daemonSet => true
   | _ => new.replicas != some 0 && stsRolling new.us && d.tmplPresent && new.tmplPresent)

/-- Observation III.3 #15: an Advanced DaemonSet without `updateStrategy.rollingUpdate` makes the handler panic -/
def dsNoRU (w : Wl) : Bool := w.kind == .daemonSet && !hasRU w.us

/-- apart from the partition, the marker and — when no usable block existed — the block itself, the admitted
    object is the submitted one: type (absent → RollingUpdate), `paused` and `unorderedUpdate` survive -/
def holdFrame (new d' : Wl) : Bool :=
  { d' with us := new.us, inProgress := new.inProgress } == new &&
  usPaused d'.us == usPaused new.us && isUnordered d'.kind d'.us == isUnordered new.kind new.us &&
  (match new.us with
   | .present t _ => usType d'.us == t
   | _ => usType d'.us == "RollingUpdate")

/-- **C08 `submit_holds_back`**: a relevant change is admitted only held back (partition `MaxInt16`: no pod can move
    while the size is at most that) *and* marked in-progress, otherwise unchanged (`holdFrame`); it is rejected only for
    a DaemonSet without `rollingUpdate`; any other update is admitted exactly as submitted; and no admitted object is
    newly marked without being held. -/
def submitHoldsBack (world : World) (d : Option Wl) (s : Step) (o : StepOut) : Bool :=
  match d with
  | none => o.res == .err && o.wl == none
  | some d =>
    let new := applyEdit d s.edit
    match o.res, o.wl with
    | .ok, some d' =>
      (if relevant world d new then
         held d' && d'.inProgress && holdFrame new d' && !dsNoRU new &&
         (match replicasOf d' with
          | some r => if sizeOK r then decide (exposureW d' ≤ 0) else true
          | none => true)
       else d' == new) &&
      (if d'.inProgress && !new.inProgress then held d' else true)
    | .rejected, some d' => d' == d && dsNoRU new && relevant world d new
    | _, _ => false

/-! ### C01 -/

/-- only `spec.updateStrategy` and the control-info differ -/
def sameButKnobs (d d' : Wl) : Bool := { d' with us := d.us, control := d.control } == d

/-- **C01 `initialize_exposes_nothing`**: a successful `Initialize` either finds the workload already claimed by this
    BatchRelease and leaves it as it is, or claims it with partition `MaxInt16` (DaemonSet: its size), `paused` not true,
    nothing else changed — no pod may move (for sizes up to `MaxInt16`) until `UpgradeBatch` says so. -/
def initExposesNothing (d : Option Wl) (o : StepOut) : Bool :=
  if o.res = .ok then
    match d, o.wl with
    | some d, some d' =>
      if d.control = .this then d' == d
      else
        d'.control == .this && sameButKnobs d d' && usPaused d'.us != some true &&
        (match replicasOf d with
         | some r => currentPartition d'.us == initPartition d r &&
                     (if sizeOK r then decide (exposureW d' ≤ 0) else true)
         | none => false) &&
        effType d'.us == effType d.us && isUnordered d'.kind d'.us == isUnordered d.kind d.us
    | _, _ => false
  else true

/-- the plan entry `UpgradeBatch` works on -/
def entryOf (rel : Rel) (batch : Int) : Option IntOrPct :=
  if batch < 0 then none else rel.batches[batch.toNat]?

/-- only the partition differs (a block is created when there was none) -/
def sameButPartition (d d' : Wl) : Bool :=
  { d' with us := d.us } == d && effType d'.us == effType d.us && usPaused d'.us == usPaused (normUS d.kind d.us) &&
  isUnordered d'.kind d'.us == isUnordered d.kind d.us

/-- **C01 `upgradeBatch_within_step`**: after `UpgradeBatch` for batch `i` (any outcome) the workload is unchanged, or
    only its partition moved, to exactly what `CalculateBatchContext` asks for step `i`
    (ordered: `replicas − planned`; with no-need-update pods, unordered and DaemonSet as coded: `RV.BatchCtx.desKnob`);
    for valid sizes the pods it lets move are at most the larger of what could already move and what step `i` allows. -/
def upgradeWithinStep (rel : Rel) (batch : Int) (d : Option Wl) (o : StepOut) : Bool :=
  match d, o.wl with
  | some d, some d' =>
    d' == d ||
    (match replicasOf d, entryOf rel batch with
     | some r, some e =>
       sameButPartition d d' && partV d'.us == .int (desiredPartition d r e rel.noNeedUpdate) &&
       decide (desiredPartition d r e rel.noNeedUpdate < currentPartition d.us) &&
       (if decide (0 ≤ r) && nnOK r rel.noNeedUpdate then
          decide (exposureW d' ≤ max (exposureW d) (allowed r e rel.noNeedUpdate))
        else true)
     | _, _ => false)
  | none, none => true
  | _, _ => false

/-- **C01.2 / C11**: `UpgradeBatch` never lowers the exposure -/
def upgradeMonotone (d : Option Wl) (o : StepOut) : Bool :=
  match d, o.wl with
  | some d, some d' => decide (exposureW d ≤ exposureW d')
  | none, none => true
  | _, _ => false

/-- ordered update with `k > 0` no-need-update pods: they already run the target revision but the ordinal
    partition does not count them -/
def orderedExtra (d : Wl) (nn : Option Int) : Int :=
  match bkind d, nn with
  | .stsOrdered, some k => if k > 0 then k else 0
  | _, _ => 0

/-- **C07 `upgradeBatch_suffices`**: an `UpgradeBatch` that returns ok leaves a partition that lets the workload
    reach the batch's `DesiredUpdatedReplicas` (for an ordered update together with the no-need-update pods, which
    already run the target revision) — so `IsBatchReady` can pass once those pods are ready. -/
def upgradeSuffices (rel : Rel) (batch : Int) (d : Option Wl) (o : StepOut) : Bool :=
  if o.res = .ok then
    match d, o.wl with
    | some d, some d' =>
      (match replicasOf d, entryOf rel batch with
       | some r, some e =>
         if r ≠ 0 ∧ 0 ≤ r ∧ nnOK r rel.noNeedUpdate = true then
           decide (desiredOf (bkind d) r e rel.noNeedUpdate ≤ exposureW d' + orderedExtra d rel.noNeedUpdate)
         else true
       | _, _ => true)
    | _, _ => true
  else true

/-- what one step of a walk allows: the size of the batch an `UpgradeBatch` works on; everything for a complete
    `Finalize` (`batchPartition = nil`: the workload is promoted) -/
def stepAllow (rel : Rel) (r : Int) (s : Step) : Int :=
  match s.call with
  | .upgradeBatch =>
    (match entryOf rel s.batch with
     | some e => max 0 (allowed r e rel.noNeedUpdate)
     | none => 0)
  | .finalize => if s.bpNil then max 0 r else 0
  | _ => 0

/-- the user neither scales nor re-submits the update strategy during the walk -/
def quiet (steps : List Step) : Bool := steps.all fun s => s.edit.replicas.isNone && s.edit.us.isNone

/-! ### C05 -/

/-- the knobs of the rollout are released: no control-info, no partition (DaemonSet: `paused: false` as well) -/
def released (w : Wl) : Bool :=
  w.control == .none && partV w.us == .absent && currentPartition w.us == 0 && hasRU w.us &&
  (w.kind != .daemonSet || usPaused w.us == some false)

/-- **C05 `finalize_releases`**: a successful `Finalize` of an existing workload removes the control-info; with
    `batchPartition = nil` it also removes the partition (every pod may move: the workload is promoted) and, for a
    DaemonSet, un-pauses; without, the update strategy is left as it is; nothing else changes. -/
def finalizeReleases (s : Step) (d : Option Wl) (o : StepOut) : Bool :=
  if o.res = .ok then
    match d, o.wl with
    | some d, some d' =>
      d'.control == .none && sameButKnobs d d' &&
      (if s.bpNil then
         released d' && effType d'.us == effType d.us && isUnordered d'.kind d'.us == isUnordered d.kind d.us &&
         (d.kind == .daemonSet || usPaused d'.us == usPaused (normUS d.kind d.us))
       else d'.us == d.us)
    | none, none => true
    | _, _ => false
  else true

/-- what the user configured and the rollout must hand back untouched: everything but the partition, `paused`,
    the control-info and the in-progress marker -/
structure View where
  kind : RV.CtlSts.Kind
  replicas : Option Int
  tmpl : Nat
  tmplPresent : Bool
  updatedReady : Int
  rest : Nat
  effType : String
  unordered : Bool
  deriving Repr, DecidableEq, Inhabited

def view (w : Wl) : View :=
  { kind := w.kind, replicas := w.replicas, tmpl := w.tmpl, tmplPresent := w.tmplPresent,
    updatedReady := w.updatedReady, rest := w.rest, effType := effType w.us, unordered := isUnordered w.kind w.us }

/-- a user edit, on the view -/
def editView (v : View) (e : Edit) : View :=
  let v := match e.tmpl with
    | some t => { v with tmpl := t, tmplPresent := true }
    | none => v
  let v := match e.replicas with
    | some r => if v.kind = .daemonSet then v else { v with replicas := some r }
    | none => v
  match e.us with
  | some u => { v with effType := effType (normUS v.kind u), unordered := isUnordered v.kind (normUS v.kind u) }
  | none => v

/-- the view after one step: only an admitted user update changes it -/
def viewStep (v : View) (s : Step) (o : StepOut) : View :=
  if s.call = .submit ∧ o.res = .ok then editView v s.edit else v

/-- the step is a successful complete `Finalize` (`batchPartition = nil`) -/
def isRelease (s : Step) (o : StepOut) : Bool := s.call == .finalize && s.bpNil && o.res == .ok

/-- **C05 round trip** over `submit ; initialize ; (upgradeBatch | initialize | submit | finalize)* ; finalize(nil)` and
    every other walk, faults included: after every step the workload still has the view its user gave it (`v` = the
    view before the walk, followed through the admitted user updates), and after every successful complete
    `Finalize` — in particular the last one — the rollout's knobs are released. -/
def walkOK (v : View) : List Step → List StepOut → Bool
  | s :: ss, o :: os =>
    (match o.wl with
     | some d' => view d' == viewStep v s o && (if isRelease s o then released d' else true)
     | none => false) && walkOK (viewStep v s o) ss os
  | _, _ => true

def roundTrip (d0 : Wl) (steps : List Step) (outs : List StepOut) : Bool := walkOK (view d0) steps outs

/-- some step of the walk is a successful complete `Finalize` -/
def hasRelease : List Step → List StepOut → Bool
  | s :: ss, o :: os => isRelease s o || hasRelease ss os
  | _, _ => false

/-- **C01 (walk bound)**: after every step the pods that may move are at most the larger of what could move
    before the walk (`bound`) and what the steps so far allow (`stepAllow`) -/
def walkBounded (rel : Rel) (r : Int) (bound : Int) : List Step → List StepOut → Bool
  | s :: ss, o :: os =>
    (match o.wl with
     | some d' => decide (exposureW d' ≤ max bound (stepAllow rel r s))
     | none => true) && walkBounded rel r (max bound (stepAllow rel r s)) ss os
  | _, _ => true

/-! ### C06 -/

/-- an error never comes with a change; a failed read is an error without a write; a failed write leaves the
    workload as it was and is an error unless there was nothing to write -/
def faultSafe (s : Step) (d : Option Wl) (o : StepOut) : Bool :=
  if s.call = .submit then true else
  (if o.res ≠ .ok then o.wl == d else true) &&
  (if s.fault = .get then o.res == .err && o.writes == 0 else true) &&
  (match d with
   | some w => if s.fault = .list ∧ needsList w = true then o.res == .err && o.writes == 0 else true
   | none => true) &&
  (if s.fault = .write then o.wl == d && (o.res != .ok || o.writes == 0) else true) &&
  o.res != .rejected

/-- **C06 (a call that returns ok has its effect)**: after `Initialize` the workload carries this BatchRelease's
    control-info; after `Finalize` it carries none and, with `batchPartition = nil`, no partition.
    (`UpgradeBatch`: `upgradeSuffices`.) -/
def okHasEffect (s : Step) (d : Option Wl) (o : StepOut) : Bool :=
  if o.res = .ok then
    match s.call, d, o.wl with
    | .initialize, some _, some d' => d'.control == .this
    | .initialize, _, _ => false
    | .finalize, some _, some d' => d'.control == .none && (!s.bpNil || released d')
    | .finalize, none, none => true
    | .finalize, _, _ => false
    | _, _, _ => true
  else true

/-- steps `k` and `k+1` repeat the same controller call -/
def sameCall (a b : Step) : Bool :=
  a.call == b.call && a.call != .submit && a.fault == .none && b.fault == .none &&
  (a.call != .upgradeBatch || a.batch == b.batch) && (a.call != .finalize || a.bpNil == b.bpNil)

/-- **C06 idempotence**: repeating a successful call returns ok and changes nothing; `Initialize` and `UpgradeBatch`
    issue no write the second time (`Finalize` re-issues its patch, which is a no-op) -/
def idempotent (a b : Step) (oa ob : StepOut) : Bool :=
  if sameCall a b ∧ oa.res = .ok then
    ob.res == .ok && ob.wl == oa.wl && (a.call == .finalize || ob.writes == 0)
  else true

/-- every step leaves the user's view alone (an admitted update changes it as the user asked), a controller call
    never touches the in-progress marker and issues at most one write, the webhook never touches the control-info -/
def frame (s : Step) (d : Option Wl) (o : StepOut) : Bool :=
  match d, o.wl with
  | some d, some d' =>
    view d' == viewStep (view d) s o &&
    (if s.call = .submit then d'.control == d.control && o.writes == 0
     else d'.inProgress == d.inProgress && decide (o.writes ≤ 1))
  | none, none => o.writes == 0
  | _, _ => false

/-! ### no crash (attached to C07 — a controller that crash-loops finishes no rollout — and to C09) -/

/-- object states an API server holds and plans the executor passes: `spec.replicas` is set (the API server defaults
    it) and, unless the workload is empty, the current batch lies inside the plan -/
def callInputOK (rel : Rel) (s : Step) (d : Option Wl) : Bool :=
  match d with
  | none => true
  | some w =>
    match replicasOf w with
    | none => false
    | some r => s.call != .upgradeBatch || r == 0 || (entryOf rel s.batch).isSome

/-- **no crash**: no call panics on such inputs (`panicked`: the call did) -/
def noCrash (rel : Rel) (s : Step) (d : Option Wl) (panicked : Bool) : Bool :=
  if callInputOK rel s d then !panicked else true

def isPanic {α : Type} : Out α → Bool
  | .panic => true
  | .val _ => false

/-- all per-step oracles -/
def stepOracles (c : Cfg) (s : Step) (d : Option Wl) (o : StepOut) : List (String × Bool) :=
  [("C06.sts_fault_safe", faultSafe s d o),
   ("C06.sts_ok_has_effect", okHasEffect s d o),
   ("C05.sts_frame", frame s d o)] ++
  (match s.call with
   | .submit => [("C08.sts_submit_holds_back", submitHoldsBack c.world d s o),
                 ("C01.sts_submit_holds_back", submitHoldsBack c.world d s o)]
   | .initialize => [("C01.sts_initialize_exposes_nothing", initExposesNothing d o),
                     ("C08.sts_initialize_exposes_nothing", initExposesNothing d o)]
   | .upgradeBatch => [("C01.sts_upgrade_within_step", upgradeWithinStep c.rel s.batch d o),
                       ("C01.sts_upgrade_monotone", upgradeMonotone d o),
                       ("C07.sts_upgrade_suffices", upgradeSuffices c.rel s.batch d o)]
   | .finalize => [("C05.sts_finalize_releases", finalizeReleases s d o),
                   -- C11 / C18: the executor reports Completed (and drops its finalizer) exactly when this call returns ok
                   ("C11.sts_finalize_ok_means_released", finalizeReleases s d o),
                   ("C18.sts_finalize_ok_means_released", finalizeReleases s d o)])

/-! ### C11 / C07 — the pods behind the readiness verdict -/

/-- the pod is one of the workload's own that is not on its way out: in its namespace, selected by it, owned by it
    (directly or through an owner it controls), neither completed nor terminating -/
def livePod (p : Pod) : Bool :=
  p.inNamespace && p.selMatch && isOwned p.owner && !isCompleted p && !p.terminating

/-- **the specification of "an updated ready pod"**: a live pod of the workload whose revision label is consistent
    with the update revision and whose `Ready` condition is `True` -/
def liveReadyUpdated (revision : String) (p : Pod) : Bool :=
  livePod p && isConsistent p revision && isPodReady p

/-- how many such pods the cluster has -/
def liveReadyUpdatedCount (revision : String) (pods : List Pod) : Int :=
  ((pods.filter (liveReadyUpdated revision)).length : Nat)

/-- how many live pods the workload has -/
def liveCount (pods : List Pod) : Int := ((pods.filter livePod).length : Nat)

/-- the number of updated ready pods the verdict may rely on: counted on the pods wherever the code lists them (every
    typed kind; an unstructured workload whose status does not report a positive number), else the number the
    workload's own controller reports in `status.updatedReadyReplicas` -/
def readyPods (w : Wl) (cl : Cluster) : Int :=
  if needsList w then liveReadyUpdatedCount cl.status.updateRevision cl.pods else w.updatedReady

/-- **C11 `sts_updated_ready_exact`**: the counters `BuildController` leaves in the workload info are the size, the
    workload controller's `updatedReplicas` (not `readyReplicas`) and exactly the number of live, ready pods of the
    update revision -/
def countersExact (w : Wl) (cl : Cluster) (c : Counters) : Bool :=
  replicasOf w == some c.replicas && c.updated == cl.status.updated && c.updatedReady == readyPods w cl

/-- **what `Ready` must mean, on the pods** (C11): an empty workload calls for nothing; otherwise the workload reports
    at least `DesiredUpdatedReplicas` updated pods, the live ready pods of the update revision are within the failure
    threshold of that number, and there is at least one when any is called for -/
def readyMeansPods (rel : Rel) (batch : Int) (w : Wl) (cl : Cluster) : Bool :=
  match replicasOf w with
  | none => false
  | some r =>
    if r = 0 then true else
    match entryOf rel batch with
    | none => false
    | some e =>
      let desired := desiredOf (bkind w) r e rel.noNeedUpdate
      decide (cl.status.updated ≥ desired) &&
      decide (allowedUnavailable rel.failureThreshold cl.status.updated + readyPods w cl ≥ desired) &&
      decide (desired > 0 → readyPods w cl > 0)

def isReady (o : VerdictOut) : Bool := o.verdict == .is .ok

/-- **C11 `sts_updated_ready_exact`** on a whole answer: the counters the check worked with (when it got that far) -/
def countersSound (d : Option Wl) (cl : Cluster) (o : VerdictOut) : Bool :=
  match d, o.counters with
  | some w, some c => countersExact w cl c
  | some _, none => o.verdict == .err
  | none, some _ => false
  | none, none => o.verdict == .err

/-- **C11 `sts_ready_means_live_ready_pods`**: the verdict is `Ready` only if the pods say so; the check issues no write -/
def verdictSound (rel : Rel) (batch : Int) (d : Option Wl) (cl : Cluster) (o : VerdictOut) : Bool :=
  o.writes == 0 &&
  (if isReady o then
     (match d with
      | some w => readyMeansPods rel batch w cl
      | none => false)
   else true)

/-- the read phase of the check is not hit by the injected fault -/
def readsOK (f : Fault) (w : Wl) : Bool := f != .get && !(f == .list && needsList w)

/-- **C07 `sts_ready_when_pods_ready`** (completeness): when the pods satisfy the batch and the reads succeed, the
    verdict is `Ready` — no spurious "not ready" keeps a finished batch waiting -/
def verdictComplete (rel : Rel) (batch : Int) (d : Option Wl) (cl : Cluster) (f : Fault) (o : VerdictOut) : Bool :=
  match d with
  | some w => if readsOK f w && readyMeansPods rel batch w cl then isReady o else true
  | none => true

/-- the cluster after pod number `i` degraded -/
def degraded (cl : Cluster) (h : Degrade) (i : Nat) : Cluster := { cl with pods := degradeAt h i cl.pods }

/-- **C11 `sts_falls_back`**: between two checks pod number `i` degrades (turns not ready, starts terminating, is
    relabelled to no revision, is deleted, fails, loses its owner).  If it was one of the updated ready pods the
    counter drops by exactly one, otherwise it stays; and the second verdict is `Ready` only if the pods that are
    left still say so — a batch whose ready pods fall below the threshold falls back. -/
def fallsBack (rel : Rel) (batch : Int) (w : Wl) (cl : Cluster) (h : Degrade) (i : Nat) (o1 o2 : VerdictOut) : Bool :=
  (match cl.pods[i]?, o1.counters, o2.counters with
   | some p, some c1, some c2 =>
     if needsList w then
       c2.updatedReady == c1.updatedReady - (if liveReadyUpdated cl.status.updateRevision p then 1 else 0)
     else c2.updatedReady == c1.updatedReady
   | _, _, _ => true) &&
  (if isReady o2 then readyMeansPods rel batch w (degraded cl h i) else true)

end RV.Oracle.CtlSts
