/-
  C15 — decidable predicates for histories with foreign events and API faults
  (model: `RV/Model/CustomHist.lean`).  Core Lean only.  The same `Bool` functions occur in the
  theorems `RV.Props.C15.hist_*` and are evaluated by the driver on the *implementation's* outputs.
-/
import RV.Model.CustomHist
import RV.Oracle.C15
namespace RV.Oracle.C15
open RV.Custom

/-- **C15.hist_orig** — the invariant, per ref: `u` is what the user last wrote, `x` the object now.
    * the object carries the provider's annotation: its value is the dump of `u`
      (a stored original is the user's last configuration — never a modified one);
    * it does not: the object *is* the user's configuration (as written, or as Finalise puts it back). -/
def origKept1 (c : Codec) (u : Obj) (x : Option Obj) : Bool :=
  match x with
  | none => true
  | some x =>
    match lookup origKey (x.annotations.getD []) with
    | some v => decide (v = c.enc (dataOf u))
    | none => decide (x = u) || decide (x = normalise u)

def origKeptOK (c : Codec) (users : List Obj) (objs : List (Option Obj)) : Bool :=
  all2 (origKept1 c) users objs

/-- **C15.hist_restore**, per ref: `u` = the user's last configuration, `b` = the object before
    Finalise, `a` = after.  A missing object stays missing; an object without the annotation is not
    touched; an object with it comes back as `normalise u`; and in both cases what is there afterwards
    is the user's configuration, without the provider's annotation. -/
def histRestore1 (u : Obj) (b a : Option Obj) : Bool :=
  match b, a with
  | none, none => true
  | some x, some y =>
    (if noOrig x then decide (y = x) else decide (y = normalise u))
      && (decide (y = u) || decide (y = normalise u)) && noOrig y
  | _, _ => false

def histRestoreOK (users : List Obj) (before after : List (Option Obj)) : Bool :=
  all3 histRestore1 users before after

/-- the `modified` result of a successful Finalise: some object carried the annotation. -/
def anyAnnotated (before : List (Option Obj)) : Bool :=
  before.any fun b => match b with
    | some x => !noOrig x
    | none => false

end RV.Oracle.C15
