/-
  Decidable oracles about one call of the traffic Manager over an arbitrary provider (C03, C04, C05, C07)
  and the decidable specs of the three real providers (C13, C14, C15), shared by the theorems of
  `RV/Props/TrafficXThms.lean` and by the driver (evaluated on the *implementation's* output).
  Core Lean only.
-/
import RV.Model.TrafficX
import RV.Oracle.C13
import RV.Oracle.C14
import RV.Oracle.C15
namespace RV.Oracle.TrafficX
open RV.TrafficX RV.Traffic

variable {S G : Type}

/-! ## generic (any provider) -/

/-- the writes the Manager itself issues (everything else in a write log is a provider write) -/
def svcWrites : List String := ["createCanarySvc", "patchCanarySvc", "patchStable", "unpinStable", "deleteCanarySvc"]

def isProviderWrite (w : String) : Bool := !svcWrites.contains w

/-- the provider was written by this call -/
def providerTouched (ws : List String) : Bool := ws.any isProviderWrite

/-- the step has something to route (`Traffic != nil || len(Matches) > 0`) -/
def isStep (ops : StratOps S) (s : S) : Bool := !(ops.noTraffic s && ops.noMatches s)

/-- both Services are as this context wants them (trivially so when no canary Service is generated) -/
def servicesInPlace (c : XCtx S) (n : XNet G) : Bool :=
  c.noGen || (n.canarySvc == some c.canaryRev && n.stableSel == some c.stableRev)

/-- **C03** `DoTrafficRouting` reports *done* for a step that has something to route only if the stable
    Service exists, the Services are in place and the provider's resources carry this step
    (`specOk` = the provider's spec judged on the state after the call). -/
def doneMeansRoutedX (c : XCtx S) (step : Bool) (specOk : Bool) (o : XOut G) : Bool :=
  if o.done && c.hasRef && step then
    o.net.stableExists && servicesInPlace c o.net && specOk
  else true

/-- **C03 / C04** a call of `DoTrafficRouting` that writes a provider resource found both Services
    already in place and the grace period elapsed, and does not touch the Services itself. -/
def servicesBeforeRoutesX (c : XCtx S) (n : XNet G) (o : XOut G) : Bool :=
  if providerTouched o.writes then
    n.stableExists && servicesInPlace c n && !(c.lastUpdate == .fresh && decide (c.doGrace > 0)) &&
    o.net.stableSel == n.stableSel && o.net.canarySvc == n.canarySvc &&
    o.writes.all isProviderWrite
  else true

/-- the phase of a write of `FinalisingTrafficRouting`: un-pin, provider, remove; anything else is out of place -/
def finPhase (w : String) : Nat :=
  if w == "unpinStable" then 0
  else if w == "deleteCanarySvc" then 2
  else if isProviderWrite w then 1
  else 3

/-- the phases never go down and no write is out of place -/
def phasesOrdered : List String → Nat → Bool
  | [], _ => true
  | w :: ws, k => decide (k ≤ finPhase w) && decide (finPhase w ≤ 2) && phasesOrdered ws (finPhase w)

/-- the stable Service no longer carries the revision selector (or is gone) -/
def unpinned (n : XNet G) : Bool := n.stableSel.getD "" == "" || !n.stableExists

/-- **C04 / C05** `FinalisingTrafficRouting`: the stable Service is un-pinned first, the provider finalised
    next, the canary Service removed last, never in another order; the canary Service is removed only by a
    call that leaves the provider clean (`cleanAfter`); *done* means un-pinned ∧ clean ∧ canary Service gone. -/
def finalisingOrderX (c : XCtx S) (cleanAfter : Bool) (o : XOut G) : Bool :=
  phasesOrdered o.writes 0 &&
  (if o.writes.contains "deleteCanarySvc" then cleanAfter else true) &&
  (if o.done && c.hasRef then cleanAfter && (c.noGen || o.net.canarySvc.isNone) && unpinned o.net else true)

/-- **C04 / C05** grace between the phases of `FinalisingTrafficRouting`: with a non-zero grace period a call
    that un-pins the stable Service does nothing else, and a call that reports a modification (`touched`:
    `LastUpdateTime` was set) does not go on to remove the canary Service — the provider has the grace period
    to pick up the restored configuration before the canary Service disappears. -/
def graceSeparatesX (c : XCtx S) (o : XOut G) : Bool :=
  c.graceSec == 0 ||
  ((!o.writes.contains "unpinStable" || o.writes == ["unpinStable"]) &&
   !(o.touched && o.writes.contains "deleteCanarySvc"))

/-- **C05** a retry-style clean-up call that reports completion (no retry, no error) has established its effect -/
def taskPostX (call : String) (c : XCtx S) (cleanAfter : Bool) (o : XOut G) : Bool :=
  if c.hasRef && !o.done && !o.err then
    match call with
    | "restoreStableService" => !c.hasRevKey || unpinned o.net
    | "restoreGateway" => cleanAfter
    | "removeCanaryService" => c.noGen || o.net.canarySvc.isNone
    | "patchStableService" => c.noGen || o.net.stableSel == selOf c.stableRev
    | _ => true
  else true

/-- **C05 (frame)** every Manager call writes only the objects it is responsible for -/
def frameX (call : String) (n : XNet G) (o : XOut G) : Bool :=
  let okWrite : String → Bool :=
    match call with
    | "patchStableService" => fun w => w == "patchStable"
    | "restoreStableService" => fun w => w == "unpinStable"
    | "restoreGateway" | "routeAllToNew" => isProviderWrite
    | "removeCanaryService" => fun w => w == "deleteCanarySvc"
    | "doTrafficRouting" => fun w => isProviderWrite w || w == "createCanarySvc" || w == "patchCanarySvc" || w == "patchStable"
    | "finalisingTrafficRouting" => fun w => isProviderWrite w || w == "unpinStable" || w == "deleteCanarySvc"
    | _ => fun _ => false
  o.writes.all okWrite && o.net.stableExists == n.stableExists &&
  (o.writes.contains "patchStable" || o.writes.contains "unpinStable" || o.net.stableSel == n.stableSel) &&
  (o.writes.contains "createCanarySvc" || o.writes.contains "patchCanarySvc" || o.writes.contains "deleteCanarySvc" ||
    o.net.canarySvc == n.canarySvc)

/-- an elapsed expectation and no expectation are observationally the same (`RV.Props.Traffic.runGrace_elapsed_none`);
    the harness reports both as "none" -/
def canonExp : Exp → Exp
  | .elapsed => .none
  | e => e

def memSame (a b : Mem) : Bool :=
  canonExp a.patchService == canonExp b.patchService && canonExp a.restoreService == canonExp b.restoreService &&
  canonExp a.restoreGateway == canonExp b.restoreGateway &&
  canonExp a.removeCanaryService == canonExp b.removeCanaryService && canonExp a.updateRoute == canonExp b.updateRoute

/-- **C07.iii** fixed point: a call made right after an undisturbed call with the same arguments that
    reported done (`prevDone`) reports done again, writes nothing and leaves the memory alone;
    `sameNet` = the abstract state after the call equals the state before. -/
def fixedPointX (prevDone : Bool) (sameNet : Bool) (m : Mem) (o : XOut G) : Bool :=
  if prevDone then o.done && !o.err && o.writes.isEmpty && sameNet && memSame o.mem m else true

/-- **C07.iii, strict form** (providers whose `EnsureRoutes` reports *verified* only when it wrote nothing:
    Gateway, Ingress): a *done* call has itself changed nothing. -/
def doneNoWriteX (sameNet : Bool) (m : Mem) (o : XOut G) : Bool :=
  if o.done && !o.err then o.writes.isEmpty && sameNet && memSame o.mem m else true

/-- **C07.iii** convergence, judged on a walk: the `streak`-th consecutive undisturbed round of the same
    call (time passing between the rounds) reports done or an error once `streak ≥ bound`. -/
def convergesX (streak bound : Nat) (o : XOut G) : Bool :=
  if streak ≥ bound then o.done || o.err else true

/-- **C05 / C06** a call in which an API read failed with an error other than NotFound never reports
    completion: it returns the error (`done = true` of the done-style calls and `retry = false` of the
    retry-style calls both require `err = false`), so the clean-up cursor cannot advance past a resource that
    could not be read, let alone restored. -/
def readFaultReportedX (readFailed : Bool) (o : XOut G) : Bool :=
  if readFailed then o.err else true

/-- **C05 / C07 / C13 (refused configuration)** — a Manager call whose network provider cannot be built
    (`newNetworkProvider` returns an error: a Gateway API ref without a canary Service of its own — the two
    Service names coincide —, an Ingress class without Lua script, no provider at all) writes no provider object
    and leaves the provider's objects as they were (`sameG`), and it never reports completion:
    `DoTrafficRouting` reports *done* only when there is nothing to route, `FinalisingTrafficRouting` only
    without a ref; `RestoreGateway` / `RouteAllTrafficToNewVersion` return the error. -/
def refusedX (call : String) (c : XCtx S) (step : Bool) (sameG : Bool) (o : XOut G) : Bool :=
  !providerTouched o.writes && sameG &&
  (match call with
   | "doTrafficRouting" => !(o.done && c.hasRef && step)
   | "finalisingTrafficRouting" => !(o.done && c.hasRef)
   | "restoreGateway" | "routeAllToNew" => !c.hasRef || (o.err && !o.done)
   | _ => true)

/-- **C03 / C09 (selector-less stable Service)** — a `DoTrafficRouting` that would have to generate the canary
    Service from a stable Service without selector returns an error and changes nothing (`sameNet`): no write,
    no new grace period. -/
def selectorlessRefusedX (sameNet : Bool) (m : Mem) (o : XOut G) : Bool :=
  o.err && !o.done && o.writes.isEmpty && !o.touched && sameNet && memSame o.mem m

/-! ## the specs of the three real providers -/

section concrete
open RV.Gateway RV.Oracle.C13

/-- the clause of C13 that governs the step, judged on the stored route alone -/
def gwClauseB (c : Conf) (s : Strat) (rules : List Rule) : Bool :=
  if s.weight == some (-1) then finaliseOk c rules rules
  else if !s.mts.isEmpty then matchOk c s.mts rules rules
  else
    match s.weight with
    | some w => weightOk c w rules rules
    | none => true

/-- **C13** the stored HTTPRoute carries the step: it is a fixed point of the builder for this step, and the
    step's clause holds of it (weight step: every rule with a stable ref has stable `100−w` / canary `w`;
    match step: the user's rules followed by well-formed narrow canary rules) -/
def gwSpecB (c : Conf) (s : Strat) (st : Option (List Rule)) : Bool :=
  match st with
  | none => false
  | some rules => buildDesired c rules s.weight s.mts == .ok rules && gwClauseB c s rules

/-- **C13** nothing of a rollout is left in the route: no canary ref, Finalise would change nothing -/
def gwCleanB (c : Conf) (st : Option (List Rule)) : Bool :=
  match st with
  | none => true
  | some rules => canaryFree c rules && buildDesired c rules (some (-1)) [] == .ok rules

/-- **C13** the route is the user's original, up to the stated normalisation -/
def gwRestoredB (c : Conf) (orig st : Option (List Rule)) : Bool :=
  match orig, st with
  | some o, some r => restoredOk c o r
  | none, none => true
  | _, _ => false

end concrete

section concrete
open RV.Ingress RV.Oracle.C14

/-- **C14** the canary Ingress carries the step: its annotations are a fixed point of the class's script for
    this step (or there is no canary Ingress and the step's weight is 0) -/
def igSpecB (cfg : Cfg) (s : Strat) (w : World) : Bool :=
  match w.canary with
  | none => s.weight == some 0
  | some c =>
    match script cfg.cls c.ing.ann (luaStepOf (igStrategy s)) with
    | none => false
    | some new => eqvB c.ing.ann new

/-- **C14** history independence: the canary annotations are those of entering the step first — they depend
    on the stable Ingress and the step alone; its rules are exactly the re-targeted stable paths -/
def igFreshB (cfg : Cfg) (s : Strat) (w : World) : Bool :=
  match w.canary, w.stable with
  | some c, some st => annAsFresh cfg.cls st.ann (luaStepOf (igStrategy s)) c.ing.ann && pathsOk cfg st.rules c.ing.rules
  | some _, none => false
  | none, _ => s.weight == some 0

/-- **C14** no canary Ingress is left (or it is marked for deletion, held by somebody's finalizer) -/
def igCleanB (w : World) : Bool := finalisedOk w.canary

end concrete

section concrete
open RV.Custom RV.Oracle.C15

/-- **C15** every referenced object carries the step: `EnsureRoutes` for this step has nothing to do -/
def cuSpecB (c : Codec) (s : Strat) (st : List Ref) : Bool :=
  let r := ensureRoutes c (cuStrategy s) st
  decide (r.2 = .ok true) && decide (r.1.map (·.obj) = st.map (·.obj))

/-- **C15** statelessness: every object is `f(original, step)` for the user's original objects `users` -/
def cuStatelessB (c : Codec) (s : Strat) (users : List (Option Script × Obj)) (st : List Ref) : Bool :=
  match freshAll (cuStrategy s) users with
  | none => false
  | some ds => statelessOK c (users.map (·.2)) ds (st.map (·.obj))

/-- **C15** no object carries the original-configuration annotation any more: Finalise has nothing to restore -/
def cuCleanB (st : List Ref) : Bool :=
  st.all fun r => match r.obj with
    | none => true
    | some o => origOf o == ""

/-- **C15** every object is the user's original (up to `normalise`) -/
def cuRestoredB (users : List Obj) (st : List Ref) : Bool := restoreOK users (st.map (·.obj))

end concrete

/-- the spec of the configured providers, judged on the provider objects -/
def specB (p : PCfg) (s : Strat) (g : CNet) : Bool :=
  (!p.custom || cuSpecB p.codec s g.1) &&
  (match p.ingress with
    | some (some cls) => igSpecB ⟨cls, p.ingName, p.stable, p.canary⟩ s g.2.1
    | _ => true) &&
  (!p.gateway || gwSpecB ⟨p.stable, p.canary⟩ s g.2.2)

/-- the configured providers are clean -/
def cleanB (p : PCfg) (g : CNet) : Bool :=
  (!p.custom || cuCleanB g.1) &&
  (match p.ingress with
    | some (some _) => igCleanB g.2.1
    | _ => true) &&
  (!p.gateway || gwCleanB ⟨p.stable, p.canary⟩ g.2.2)

/-- **composite Finalise goes on after a member failed**: how many configured members are not clean.  After a
    clean-up call in which one `Get` failed (a one-shot read fault, no write fault) at most the member that hit
    the failed read may be left unclean: the others were finalised all the same
    (`CompositeController.Finalise`: "process next first"; model: `seq_finalise_continues`). -/
def uncleanMembers (p : PCfg) (g : CNet) : Nat :=
  (if p.custom && !cuCleanB g.1 then 1 else 0) +
  (match p.ingress with
    | some (some _) => if igCleanB g.2.1 then 0 else 1
    | _ => 0) +
  (if p.gateway && !gwCleanB ⟨p.stable, p.canary⟩ g.2.2 then 1 else 0)

def finaliseContinuesB (p : PCfg) (g : CNet) : Bool := decide (uncleanMembers p g ≤ 1)

/-- **composite: no member is skipped.**  In an `EnsureRoutes` round that returned no error, every configured
    member was called: its objects afterwards (`after`) are what its own `EnsureRoutes` makes of its objects
    before (`before`).  Judged per member on the objects alone (`same` compares two states of the member). -/
def memberRanB {G₁ : Type} (P : Provider Strat G₁) (same : G₁ → G₁ → Bool) (s : Strat) (before after : G₁) : Bool :=
  same (P.ensure Api.ok before s).g after

end RV.Oracle.TrafficX
