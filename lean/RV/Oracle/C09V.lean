/-
  C09 (validation part) — the decidable property predicates.

  They are written *independently* of the model's control flow (no `scaled`,
  no error lists): each is a plain statement about the admitted object.  The
  same predicates appear in the theorems of `RV.Props.C09Validate` and are
  evaluated by the driver on the decision of the *real* handler.
-/
import RV.Model.Validate
namespace RV.Oracle.C09V
open RV.Validate RV.Arith

def accepted : Outcome → Bool
  | .allowed => true
  | _ => false

/-! ### (i) structure of an admitted spec -/

/-- a replicas entry is a positive integer or a percent in (0,100] -/
def replicasValid : IntOrPct → Bool
  | .int n => decide (0 < n)
  | .pct p => decide (0 < p ∧ p ≤ 100)
  | .bad => false

/-- v1beta1: replicas present and valid -/
def stepReplicasOKB (s : Step) : Bool :=
  match s.replicas with
  | some r => replicasValid r
  | none => false

/-- v1alpha1: replicas valid when present; otherwise a weight must be present -/
def stepReplicasOKA (s : Step) : Bool :=
  match s.replicas with
  | some r => replicasValid r
  | none => s.weight.isSome

/-- what a step asks for, as (is-percent, value): the replicas entry, or (v1alpha1) the weight
    read as a percent when replicas is absent -/
def stepKey (s : Step) : Option (Bool × Int) :=
  match s.replicas with
  | some (.int n) => some (false, n)
  | some (.pct p) => some (true, p)
  | some .bad => none
  | none => s.weight.map fun w => (true, w)

/-- neighbouring entries of the same kind (both integers / both percents) do not decrease -/
def adjNonDecr : List (Bool × Int) → Bool
  | a :: b :: rest => (a.1 != b.1 || decide (a.2 ≤ b.2)) && adjNonDecr (b :: rest)
  | _ => true

/-- **every** two entries of the same kind, in plan order, do not decrease
    (the integer sub-sequence and the percent sub-sequence are each sorted) -/
def pairNonDecr : List (Bool × Int) → Bool
  | [] => true
  | a :: rest => rest.all (fun b => a.1 != b.1 || decide (a.2 ≤ b.2)) && pairNonDecr rest

def stepsNonEmpty (steps : List Step) : Bool := !steps.isEmpty

def stepsKeyed (steps : List Step) : Bool := steps.all fun s => (stepKey s).isSome

def stepsNonDecreasing (steps : List Step) : Bool :=
  stepsKeyed steps && pairNonDecr (steps.filterMap stepKey)

def stepsAdjNonDecreasing (steps : List Step) : Bool :=
  stepsKeyed steps && adjNonDecr (steps.filterMap stepKey)

/-- v1beta1 `traffic`: absent, or a percent in [lo,100] (lo = 0 for blue-green, 1 otherwise) -/
def trafficOKB (lo : Int) (s : Step) : Bool :=
  match s.traffic with
  | none => true
  | some (.pct w) => decide (lo ≤ w ∧ w ≤ 100)
  | some _ => false

/-- v1alpha1 `weight`: absent, or in (0,100] -/
def weightOKA (s : Step) : Bool :=
  match s.weight with
  | none => true
  | some w => decide (0 < w ∧ w ≤ 100)

/-- one traffic routing entry is usable: service named, grace period not negative, some
    provider block present and, for ingress / gateway, named -/
def trOK (t : TR) : Bool :=
  t.service != "" && decide (0 ≤ t.grace) &&
  (t.ingress.isSome || t.gateway.isSome || t.customRefs.isSome) &&
  (match t.ingress with | some i => i.name != "" | none => true) &&
  (match t.gateway with | some (some n) => n != "" | some none => false | none => true)

/-- at most one traffic routing, and it is usable -/
def trafficRoutingsOK (trs : Option (List TR)) : Bool :=
  decide ((trs.getD []).length ≤ 1) && (trs.getD []).all trOK

/-- the strategy block in force: blue-green if present, else canary -/
def activeStrat (canary blueGreen : Option Strat) : Option Strat :=
  match blueGreen with
  | some b => some b
  | none => canary

/-- evaluate a clause on the strategy block in force (false when there is none) -/
def onStratB (r : RolloutB) (f : Strat → Bool) : Bool :=
  match activeStrat r.canary r.blueGreen with
  | none => false
  | some s => f s

def onStratA (r : RolloutA) (f : Strat → Bool) : Bool :=
  match r.canary with
  | none => false
  | some s => f s

/-- workload reference of a supported kind, exactly one strategy block, blue-green only for
    Deployment / CloneSet -/
def refOKB (r : RolloutB) : Bool :=
  isSupportedWorkload r.ref && (r.canary.isSome != r.blueGreen.isSome) &&
  (!r.blueGreen.isSome || isBlueGreenWorkload r.ref)

def refOKA (r : RolloutA) : Bool :=
  match r.ref with
  | some ref => isSupportedWorkload ref
  | none => false

/-- steps non-empty, every step with a valid replicas entry -/
def stepsOKB (r : RolloutB) : Bool := onStratB r fun s => stepsNonEmpty s.steps && s.steps.all stepReplicasOKB
def stepsOKA (r : RolloutA) : Bool := onStratA r fun s => stepsNonEmpty s.steps && s.steps.all stepReplicasOKA

def nonDecrOKB (r : RolloutB) : Bool := onStratB r fun s => stepsNonDecreasing s.steps
def nonDecrOKA (r : RolloutA) : Bool := onStratA r fun s => stepsNonDecreasing s.steps

def trafficRangeOKB (r : RolloutB) : Bool :=
  onStratB r fun s => s.steps.all (trafficOKB (if r.blueGreen.isSome then 0 else 1))
def trafficRangeOKA (r : RolloutA) : Bool := onStratA r fun s => s.steps.all weightOKA

def routingOKB (r : RolloutB) : Bool := onStratB r fun s => trafficRoutingsOK s.trs
def routingOKA (r : RolloutA) : Bool := onStratA r fun s => trafficRoutingsOK s.trs

/-- (i) for v1beta1 -/
def specOKB (r : RolloutB) : Bool :=
  refOKB r && stepsOKB r && nonDecrOKB r && trafficRangeOKB r && routingOKB r

/-- (i) for v1alpha1 -/
def specOKA (r : RolloutA) : Bool :=
  refOKA r && stepsOKA r && nonDecrOKA r && trafficRangeOKA r && routingOKA r

/-! ### (ii) immutability while a release is progressing -/

/-- declared rolling style of a v1beta1 strategy (`none` when there is no strategy block) -/
def declaredStyle (canary blueGreen : Option Strat) : Option Style :=
  match blueGreen with
  | some _ => some .blueGreen
  | none => canary.map fun c => if c.extra then .canary else .partition

def unchangedB (old new : RolloutB) : Bool :=
  old.ref = new.ref &&
  match activeStrat old.canary old.blueGreen, activeStrat new.canary new.blueGreen with
  | some os, some nw =>
    os.trs = nw.trs && declaredStyle old.canary old.blueGreen = declaredStyle new.canary new.blueGreen &&
    os.steps.length = nw.steps.length
  | _, _ => false

def unchangedA (old new : RolloutA) : Bool :=
  old.ref = new.ref && lower old.anno = lower new.anno &&
  match old.canary, new.canary with
  | some os, some nw => os.trs = nw.trs && os.steps.length = nw.steps.length
  | _, _ => false

/-- phase of the object as stored (what `Client.Get` returns) -/
def latestPhase (store : List Stored) (ns name : String) : Option String :=
  (store.find? fun r => r.ns = ns ∧ r.name = name).map (·.phase)

def progressing (store : List Stored) (ns name : String) : Bool :=
  match latestPhase store ns name with
  | some p => p = "Progressing" ∨ p = "Terminating"
  | none => false

/-! ### (iii) one Rollout per workload -/

/-- two references name the same workload: same API group, kind and name
    (how the controllers and the workload webhook resolve a reference) -/
def sameWorkload (a b : Ref) : Bool :=
  groupOf a.apiVersion = groupOf b.apiVersion && a.kind = b.kind && a.name = b.name

/-- no *other* Rollout of the namespace references the same workload -/
def noConflict (store : List Stored) (ns name : String) (ref : Ref) : Bool :=
  store.all fun r =>
    r.ns != ns || r.name = name ||
    match r.ref with
    | some rr => !sameWorkload rr ref
    | none => true

/-! ### (iv) totality -/

def noPanic : Outcome → Bool
  | .panic => false
  | _ => true

end RV.Oracle.C09V
