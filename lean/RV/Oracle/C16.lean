/-
  Decidable predicates of property C16 (core Lean only).  The same functions are
  used in the theorem statements (RV/Props/C16.lean) and by the driver on the
  outputs of the real code (RV/Drv/LuaJson.lean).
-/
import RV.Model.LuaJson
namespace RV.Oracle.C16
open RV.LuaJson

/-! ## (a) value conversion -/

/-- What the harness reports for one `decodeValue` + `Encode` call on the real code. -/
inductive ImplOut where
  | ok (j : J)
  | err (e : EncErr)
  /-- a recovered Go panic, or any output the model has no value for -/
  | bad
  deriving Inhabited

def ImplOut.ofModel : Except EncErr J → ImplOut
  | .ok j => .ok j
  | .error e => .err e

/-- C16.roundtrip_meaning: the value that comes back is `canon v` — `v` itself up to
    the three documented normalisations of `canon`. -/
def roundtripHolds (v : J) (out : ImplOut) : Bool :=
  match out with
  | .ok j => j.beq (canon v)
  | _ => false

/-- C16.encode_error_is_value: the encoder answered with JSON or with one of its four
    declared errors (never a panic, never something else). -/
def encodeAnswered (out : ImplOut) : Bool :=
  match out with
  | .ok _ => true
  | .err _ => true
  | .bad => false

/-! ## (b) capabilities

Hand-written, trusted classification of names a sandboxed script must not be able to
reach: anything that opens, reads, writes, renames or removes a file, starts or ends
a process, reads or writes the process environment, loads code from a file or a
shared library, searches the module path, or reaches the interpreter's internals
(the `debug` library can undo every other restriction).  Go channels are classified
too (a script could block on one forever).

Deliberately *not* classified: `load` / `loadstring` (code from a string the script
already holds), `print` / `_printregs` (write-only to the controller's stdout),
`collectgarbage`, `os.time/clock/date/difftime` (read the clock), `coroutine.*`,
`module` (creates global tables, opens nothing). -/

def pre (p s : String) : Bool := p.toList.isPrefixOf s.toList

def isCapability (s : String) : Bool :=
  -- code loading from files / the module search path
  s == "dofile" || s == "loadfile" || s == "require" ||
  s == "package" || pre "package." s ||
  -- files and standard streams
  s == "io" || pre "io." s ||
  -- processes, environment, file system
  s == "os.execute" || s == "os.exit" || s == "os.getenv" || s == "os.setenv" ||
  s == "os.remove" || s == "os.rename" || s == "os.tmpname" ||
  -- interpreter internals
  s == "debug" || pre "debug." s ||
  -- Go channels
  s == "channel" || pre "channel." s ||
  -- network libraries (none ships with gopher-lua; listed so that adding one is noticed)
  s == "socket" || pre "socket." s || s == "http" || pre "http." s || s == "net" || pre "net." s

/-- No name of the table is a capability. -/
def noCapability (names : List String) : Bool := names.all fun s => !isCapability s

/-- C16.no_capability_reachable, on one observation of the real sandbox: the script
    asked for `name` and found it present / absent. -/
def nameAllowed (name : String) (present : Bool) : Bool := !(present && isCapability name)

/-- C16.no_escape, on one hostile script: its observable outcome is the same whether
    or not the planted file exists, the planted secret is not in the outcome, and the
    file system did not change. -/
def noEscape (same leak effect : Bool) : Bool := same && !leak && !effect

/-! ## (c) runtime behaviour (observed only) -/

def returnsInTime (inTime : Bool) : Bool := inTime
def noPanic (panicked : Bool) : Bool := !panicked
def tableOrError (outcome : String) : Bool := outcome == "table" || outcome == "error"

end RV.Oracle.C16
