/-
  Decidable predicates about the blue-green closed loop (`RV.ClosedLoopBG`): state invariants and
  one-transition oracles, shared by the theorems (`RV.Props.ClosedLoopBG`) and by the driver of suite
  `closedloopbg`, which evaluates them on the states the REAL controllers reach.
-/
import RV.Model.ClosedLoopBG
import RV.Oracle.CtlBlueGreen
namespace RV.Oracle.ClosedLoopBG
open RV.Arith IntOrPct RV.Traffic RV.ClosedLoopBG
open RV.ClosedLoop (CBr Label)
open RV.CtlBlueGreen (Workload HPA maxReady)

/-- the user's own configuration of the CloneSet (what it looks like before a release and has to look like after one) -/
structure User where
  replicas : Int
  minReadySeconds : Int
  maxSurge : Option IntOrPct
  maxUnavailable : Option IntOrPct
  paused : Bool
  stype : CtlBlueGreen.SType
  hpaV2 : List HPA
  hpaV1 : List HPA
  deriving Repr, DecidableEq, Inhabited

/-- the CloneSet as the user configured it, running revision `rev` only -/
def userWl (u : User) : Workload :=
  { replicas := some u.replicas, deleting := false, paused := u.paused, minReadySeconds := u.minReadySeconds,
    progressDeadlineSeconds := none, stype := u.stype, ru := some { maxSurge := u.maxSurge, maxUnavailable := u.maxUnavailable },
    partition := none, saved := .none, ctl := .none, stableLabel := false,
    status := { replicas := u.replicas, ready := u.replicas, updated := u.replicas, available := u.replicas, updatedReady := u.replicas } }

/-! ### what a state exposes -/

/-- ready pods of the stable (current) revision: the pods that are not of the update revision — or, when the update revision
    is the current one again (a rollback), the "updated" pods -/
def stableReady (b : BW) (wl : Workload) : Int :=
  if b.updateRevision = b.currentRevision then wl.status.updatedReady else wl.status.ready - wl.status.updatedReady

/-- the BatchRelease exists and the Rollout controller has not resumed the workload yet (`batchPartition` still set) -/
def held (s : BS) : Bool :=
  match s.br with
  | some b => b.partition.isSome
  | none => false

/-- `CalculateBatchContext`'s clamp of a plan entry -/
def planned (e : IntOrPct) (R : Int) : Int :=
  let d := scaledV e R true
  if d > R then R else if d < 0 then 0 else d

/-- the most pods of the new revision the batches up to the partition allow -/
def allowedUpTo (batches : List IntOrPct) (p : Int) (R : Int) : Int :=
  ((batches.take (p + 1).toNat).map (fun e => planned e R)).foldl max 0

/-- **C01/C04 `bg_old_pods_kept`** — while the BatchRelease holds the workload (before the clean-up step that resumes it)
    blue-green takes no capacity away: at least `replicas` ready pods are not of the new revision; and the pods of the new
    revision are within what the batches up to the current step's allow. -/
def oldPodsKept (s : BS) : Bool :=
  match s.world.wl, s.br with
  | some wl, some b =>
    (match wl.replicas, b.partition with
     | some R, some p =>
       decide (R ≤ stableReady s.world wl) &&
       (decide (s.world.updateRevision = s.world.currentRevision) || decide (wl.status.updated ≤ allowedUpTo b.batches p R))
     | _, _ => true)
  | _, _ => true

/-! ### the world invariant (every history; the Rollout controller touches the CloneSet only through two annotations) -/

/-- the blue-green hold `Initialize` installs: no pod ever becomes available, no pod may be taken down -/
def holdInstalled (wl : Workload) : Bool :=
  decide (wl.minReadySeconds = maxReady) && decide (CtlBlueGreen.ruUnavailable wl.ru = some (int 0)) && (CtlBlueGreen.ruSurge wl.ru).isSome

/-- the user's settings as `InitOriginalSetting` saves them -/
def userSetting (u : User) : CtlBlueGreen.Setting := RV.Oracle.CtlBlueGreen.effSetting .cloneSet (userWl u)

/-- what is assumed of the user's configuration: the CloneSet is not paused, `minReadySeconds` is an ordinary value -/
def userOK (u : User) : Bool := !u.paused && decide (u.minReadySeconds < maxReady) && decide (0 ≤ u.replicas)

/-- configuration part (i): size, not deleting, not paused, the user's update-strategy type -/
def cfgBase (u : User) (wl : Workload) : Bool :=
  decide (wl.replicas = some u.replicas) && !wl.deleting && !wl.paused && decide (wl.stype = u.stype)

/-- configuration part (ii): either the saved-settings annotation is absent, the CloneSet has the user's settings and carries
    no control-info; or the annotation holds exactly the user's settings and the hold is installed -/
def cfgSaved (u : User) (wl : Workload) : Bool :=
  match wl.saved with
  | .none => decide (RV.Oracle.CtlBlueGreen.effSetting .cloneSet wl = userSetting u) && decide (wl.ctl = .none)
  | .some sv => decide (sv = userSetting u) && holdInstalled wl
  | .bad => false

/-- configuration part (iii): the partition is absent or the admission webhook's `100%` -/
def cfgPart (wl : Workload) : Bool := wl.partition.isNone || decide (wl.partition = some (pct 100))

def cfgInv (u : User) (wl : Workload) : Bool := cfgBase u wl && cfgSaved u wl && cfgPart wl

/-- pod part (i): all pods ready, counters consistent -/
def podBasic (wl : Workload) : Bool :=
  let st := wl.status
  decide (st.ready = st.replicas) && decide (st.updatedReady = st.updated) && decide (0 ≤ st.updated) && decide (st.updated ≤ st.ready)

/-- pod part (ii): with one revision at least `replicas` pods run it; with two, at least `replicas` pods are not of the
    update revision -/
def podKept (u : User) (b : BW) (wl : Workload) : Bool :=
  if b.updateRevision = b.currentRevision then decide (u.replicas ≤ wl.status.updated)
  else decide (u.replicas ≤ wl.status.ready - wl.status.updated)

/-- pod part (iii): while the webhook's partition is in place no pod of a second revision exists -/
def podPart (b : BW) (wl : Workload) : Bool :=
  wl.partition.isNone || decide (b.updateRevision = b.currentRevision) || decide (wl.status.updated = 0)

def podInv (u : User) (b : BW) (wl : Workload) : Bool := podBasic wl && podKept u b wl && podPart b wl

def worldInv (u : User) (b : BW) : Bool :=
  match b.wl with
  | some wl => cfgInv u wl && podInv u b wl
  | none => false

/-- the CloneSet is under the blue-green hold, or still where the admission webhook put it -/
def hold (wl : Workload) : Bool := wl.saved ≠ .none || decide (wl.partition = some (pct 100))

/-- **C01/C04 `bg_old_pods_kept`, world form** — while the hold is on and two revisions exist, at least `replicas` ready pods
    are of the stable (current) revision -/
def stableKept (u : User) (b : BW) : Bool :=
  match b.wl with
  | some wl => if hold wl ∧ b.updateRevision ≠ b.currentRevision then decide (u.replicas ≤ wl.status.ready - wl.status.updatedReady) else true
  | none => true

/-! ### C04 / C10: traffic first -/

/-- this Rollout reconcile resumed the workload: it cleared `batchPartition` of the BatchRelease (`finalizingBatchRelease`),
    or it deleted a BatchRelease that still had one -/
def resumeIssued (pre post : BS) : Bool :=
  match pre.br with
  | some b =>
    b.partition.isSome && !b.deleting &&
    (match post.br with
     | some b' => b'.partition.isNone || b'.deleting
     | none => true)
  | none => false

/-- where the traffic has to be before the old (on success) / new (on rollback) pods may go:
    success — everything on the canary Service (weight 100); rollback — the canary route is gone (everything on the stable
    Service); deletion / disabling — either everything is on the new pods already, or the canary route is gone and the
    stable Service selects every pod (or the workload is back on its stable revision: nothing of it is replaced) -/
def trafficSettled (s : BS) : Bool :=
  let n := s.net
  if ¬ s.ro.hasTraffic then true
  else if s.ro.phase = .progressing ∧ s.ro.reason = .finalising then n.canaryIng == some 100
  else if s.ro.phase = .progressing ∧ s.ro.reason = .cancelling then n.canaryIng.isNone
  else n.canaryIng == some 100 ||
       (n.canaryIng.isNone && (n.stableSel.isNone || decide (s.world.updateRevision = s.world.currentRevision)))

/-- the executor's `Finalize` restored the CloneSet's settings in this BatchRelease reconcile -/
def settingsReleased (pre post : BS) : Bool :=
  match pre.world.wl, post.world.wl with
  | some wl, some wl' => wl.saved ≠ .none && wl'.saved = .none
  | _, _ => false

/-- **C04/C10 `bg_traffic_before_scale_down`** — the Rollout controller resumes the workload only in a state where the
    traffic is settled, and the executor hands the CloneSet back (restores `minReadySeconds` / `maxUnavailable`, after which
    the CloneSet controller may remove old pods) only after the Rollout controller has resumed it. -/
def trafficBeforeScaleDown (pre : BS) (l : Label) (post : BS) : Bool :=
  match l with
  | .ro => if resumeIssued pre post ∧ ¬ pre.gone then trafficSettled pre else true
  | .br => if settingsReleased pre post then
             (match pre.br with
              | some b => b.partition.isNone
              | none => false)
           else true
  | _ => true

/-! ### C10: a newer revision is refused -/

/-- the Rollout is rolling revision `sub.canaryRev` and the workload has been moved to another revision that is not the
    stable one (a rollback is not a supersession) -/
def superseded (s : BS) : Bool :=
  !s.gone && RolloutSM.Style.blueGreen = s.ro.style && s.ro.phase = .progressing && s.ro.reason = .inRolling && !s.ro.deleting &&
  !s.ro.paused && s.world.wl.isSome &&
  (match s.ro.sub with
   | some sub => sub.canaryRev ≠ "" && sub.canaryRev ≠ s.world.updateRevision && s.world.updateRevision ≠ s.world.currentRevision
   | none => false)

/-- known finding `supersedeBeforeInit`: the BatchRelease had not recorded its revision when the newer one arrived (or has
    recorded the newer one) -/
def adopted (s : BS) : Bool :=
  match s.br with
  | some b => b.st.updateRevision = "" || b.st.updateRevision = s.world.updateRevision
  | none => false

/-- the BatchRelease (if there is one) supervises the release the way the Rollout controller left it — Progressing, batch
    partition set, not in deletion — and has recorded the revision it releases, which is not the workload's newer one
    (the complement of `adopted`: known finding `supersedeBeforeInit`); the CloneSet reports pods that are not of the update
    revision (otherwise the executor takes the release for promoted) -/
def brSupervises (s : BS) : Bool :=
  match s.br, s.world.wl with
  | none, _ => true
  | some b, some wl =>
    b.partition.isSome && !b.deleting && b.st.phase = .progressing && b.st.updateRevision ≠ "" &&
    b.st.updateRevision ≠ s.world.updateRevision && decide (wl.status.replicas ≠ wl.status.updated)
  | some _, none => false

/-- everything a reconciler can change about what is exposed: the CloneSet's update settings and markers, the HPAs, the
    network objects, the BatchRelease's plan -/
structure WlKnobs where
  paused : Bool
  minReadySeconds : Int
  ru : Option CtlBlueGreen.RU
  partition : Option IntOrPct
  saved : CtlBlueGreen.Saved
  ctl : CtlBlueGreen.Ctl
  deriving Repr, DecidableEq

structure BrPlan where
  batches : List IntOrPct
  partition : Option Int
  deleting : Bool
  deriving Repr, DecidableEq

structure Exposure where
  wl : Option WlKnobs
  hpaV2 : List HPA
  hpaV1 : List HPA
  net : Net
  br : Option BrPlan
  deriving Repr, DecidableEq

def exposureOf (s : BS) : Exposure :=
  { wl := s.world.wl.map fun wl => { paused := wl.paused, minReadySeconds := wl.minReadySeconds, ru := wl.ru, partition := wl.partition,
                                     saved := wl.saved, ctl := wl.ctl },
    hpaV2 := s.world.hpaV2, hpaV1 := s.world.hpaV1, net := s.net,
    br := s.br.map fun b => { batches := b.batches, partition := b.partition, deleting := b.deleting } }

/-- **C10 `bg_refuses_continuous`** — while the workload is on a revision newer than the one being released, neither
    reconciler changes anything that is exposed (the Rollout does not move either), until the user rolls back. -/
def refusesContinuous (pre : BS) (l : Label) (post : BS) : Bool :=
  match l with
  | .ro | .br =>
    if superseded pre then
      decide (exposureOf post = exposureOf pre) &&
      (match pre.ro.sub, post.ro.sub with
       | some a, some b => decide (a.curIdx = b.curIdx) && decide (a.state = b.state) && post.ro.reason = .inRolling && !post.gone
       | _, _ => false)
    else true
  | _ => true

/-! ### C05: every exit leaves the cluster as configured -/

/-- the rollout has ended: the Rollout object is gone, or it is Healthy with no BatchRelease and no pending release -/
def terminal (s : BS) : Bool :=
  s.gone || (s.ro.phase = .healthy && s.br.isNone && !s.world.inProgressAnno)

def netClean (n : Net) : Bool := n.canarySvc.isNone && n.canaryIng.isNone && n.stableSel.isNone

/-- the CloneSet has the user's settings again and carries neither annotation; `partition` included -/
def wlRestored (u : User) (wl : Workload) : Bool :=
  decide (wl.saved = .none) && decide (wl.ctl = .none) &&
  decide (RV.Oracle.CtlBlueGreen.effSetting .cloneSet wl = RV.Oracle.CtlBlueGreen.effSetting .cloneSet (userWl u)) &&
  decide (wl.paused = u.paused) && decide (wl.stype = u.stype) && wl.partition.isNone

/-- **C05 `bg_settings_restored`** — in every terminal state the saved settings are back (minReadySeconds, maxSurge,
    maxUnavailable, paused, partition), both annotations are gone, the HPAs target the workload as before, and the network
    objects are the user's. -/
def settingsRestored (u : User) (s : BS) : Bool :=
  if terminal s then
    s.br.isNone && !s.world.inProgressAnno &&
    (match s.world.wl with
     | some wl => wlRestored u wl
     | none => true) &&
    decide (s.world.hpaV2 = u.hpaV2) && decide (s.world.hpaV1 = u.hpaV1) && netClean s.net
  else true

/-- guard `csPartitionKept` (open finding of the blue-green CloneSet control): `Finalize` never clears `partition`;
    only `UpgradeBatch` does -/
def gCsPartitionKept (s : BS) : Bool :=
  match s.world.wl with
  | some wl => wl.partition.isSome
  | none => false

/-- guard `csPausedLost`: `Initialize` un-pauses the CloneSet and nothing records that it was paused -/
def gCsPausedLost (u : User) : Bool := u.paused

/-- guard `bgRollbackNoSurge`: the workload is back on its stable revision but the finder does not report a rollback —
    no pod of the abandoned revision exists, so `updatedReplicas = replicas` — and the Rollout controller takes the
    stable revision for a newer one, which blue-green refuses -/
def rollbackUnseen (s : BS) : Bool :=
  decide (s.world.updateRevision = s.world.currentRevision) &&
  (match bgView s.world with
   | some (some v) => !v.inRollback
   | _ => false)

/-- the CloneSet is still held back at the partition the admission webhook set (no `UpgradeBatch` has cleared it) while
    a new revision waits: blue-green `Finalize` restores everything but the partition, and its wait for "all pods updated"
    cannot end -/
def heldBack (s : BS) : Bool :=
  decide (s.world.updateRevision ≠ s.world.currentRevision) &&
  (match s.world.wl with
   | some wl => wl.partition.isSome
   | none => false)

/-! ### the oracle lists of the driver -/

def stateOracles (u : User) (s : BS) : List (String × Bool) :=
  [("C01.bg_old_pods_kept", oldPodsKept s), ("C04.bg_old_pods_kept", oldPodsKept s), ("C06.bg_old_pods_kept", oldPodsKept s),
   ("C05.bg_settings_restored", settingsRestored u s), ("C06.bg_settings_restored", settingsRestored u s),
   ("C05.bg_world_inv", !userOK u || worldInv u s.world), ("C04.bg_world_inv", !userOK u || worldInv u s.world),
   ("C06.bg_world_inv", !userOK u || worldInv u s.world), ("C01.bg_stable_kept", !userOK u || stableKept u s.world)]

def stepOracles (pre : BS) (l : Label) (post : BS) : List (String × Bool) :=
  [("C04.bg_traffic_before_scale_down", trafficBeforeScaleDown pre l post), ("C10.bg_traffic_before_scale_down", trafficBeforeScaleDown pre l post),
   ("C06.bg_traffic_before_scale_down", trafficBeforeScaleDown pre l post),
   ("C10.bg_refuses_continuous", refusesContinuous pre l post), ("C06.bg_refuses_continuous", refusesContinuous pre l post)]

end RV.Oracle.ClosedLoopBG
