import RV.Model.TRSM
namespace RV.Oracle.TRSM
open RV.Traffic RV.TRSM

/-- C18 (TrafficRouting): the controller's own finalizer is removed only while the object is being
    deleted and only when the routes are restored (no canary route left).  The stable Service selector
    is not managed by a TrafficRouting (OnlyTrafficRouting), so it is not part of "clean". -/
def finalizerGuard (w : World) (t' : TR) (n' : Net) : Bool :=
  if w.tr.hasFinalizer ∧ ¬ t'.hasFinalizer then w.tr.deleting && n'.canaryIng.isNone else true

end RV.Oracle.TRSM
