/-
  C08 — admission pauses every relevant change: the decidable predicates.

  Everything here is *specification*: it is written in terms of the request
  (old object, submitted object, Rollouts, ReplicaSets, webhook configuration),
  not in terms of the handlers' control flow.  The same functions are used in
  the theorems of `RV.Props.C08` (about the model) and by the driver on the
  outcome of the real handlers.
-/
import RV.Model.Webhook
namespace RV.Oracle.C08
open RV.Webhook RV.Arith

/-- Which of the four workload families a request concerns, given the handler it
    was routed to (`WorkloadHandler`: Deployment / CloneSet / Advanced DaemonSet;
    `UnifiedWorkloadHandler`: everything StatefulSet-like, i.e. kind `StatefulSet`
    of any group or label `rollouts.kruise.io/workload-type=statefulset`). -/
inductive WKind where
  | deployment | cloneSet | daemonSet | stsLike | notHandled
  deriving DecidableEq, Repr

def isDeployment (o : Obj) : Bool := o.group == "apps" && o.kind == "Deployment"
def isCloneSet (o : Obj) : Bool := o.group == "apps.kruise.io" && o.kind == "CloneSet"
def isDaemonSet (o : Obj) : Bool := o.group == "apps.kruise.io" && o.kind == "DaemonSet"

def wkind (rq : Req) : WKind :=
  if !rq.unified then
    if isDeployment rq.new then .deployment
    else if isCloneSet rq.new then .cloneSet
    else if isDaemonSet rq.new then .daemonSet
    else .notHandled
  else
    if isDeployment rq.new || isCloneSet rq.new || isDaemonSet rq.new then .notHandled
    else if rq.new.workloadType.toLower == "statefulset" || rq.new.kind == "StatefulSet" then .stsLike
    else .notHandled

/-- "selected by the webhook": an UPDATE of the main resource for which some rule of the
    MutatingWebhookConfiguration matches and that webhook's objectSelector selects the object. -/
def selected (rq : Req) : Bool :=
  rq.op == "UPDATE" && rq.subResource == "" &&
  match rq.cfg with
  | none => false
  | some whs => matchWebhooks rq.new whs

/-- "release change": the rollout-id changes or, when no rollout-id is used, the pod
    template changes (hash label ignored). -/
def releaseChange (old new : Obj) : Bool :=
  if new.rolloutId != "" then old.rolloutId != new.rolloutId
  else old.tmpl.body != new.tmpl.body

/-- the Rollout references the object (group of the apiVersion, kind, name) -/
def refMatches (o : Obj) (r : Rollout) : Bool :=
  parseGroupVersion r.refApiVersion == some o.group && r.refKind == o.kind && r.refName == o.name

/-- not being deleted and not in phase Disabled -/
def active (r : Rollout) : Bool := !r.deleting && !r.phaseDisabled

/-- the first active Rollout of the namespace (API list order) that references the object -/
def matchedRollout (o : Obj) (rs : List Rollout) : Option Rollout :=
  rs.find? fun r => active r && refMatches o r

/-- ReplicaSets of the Deployment that still run pods -/
def activeRS (rq : Req) : List RS :=
  rq.rss.filter fun rs => rs.selected && rs.ctrl == .same && !rs.deleting && rs.replicas != some 0

def stsRolling : UpdStrat → Bool
  | .absent => true
  | .malformed => false
  | .present t _ => t == "" || t == "RollingUpdate"

/-- "a workload with running replicas" that is not yet handed over:
    * Deployment: replicas ≠ 0, some ReplicaSet still runs pods, not marked in-progress
      (in-progress Deployments are the subject of `repauseOk` / `frameOk`);
    * CloneSet: replicas ≠ 0;   * DaemonSet: always;
    * StatefulSet-like: replicas ≠ 0 (absent = 1), update strategy RollingUpdate, both objects carry a template. -/
def eligible (rq : Req) : Bool :=
  match wkind rq with
  | .deployment => rq.new.replicas != some 0 && !(activeRS rq).isEmpty && rq.new.inProgress == .absent
  | .cloneSet => rq.new.replicas != some 0
  | .daemonSet => true
  | .stsLike => rq.new.replicas != some 0 && stsRolling rq.new.us && rq.old.tmplPresent && rq.new.tmplPresent
  | .notHandled => false

/-- "runs a single revision" (only consulted with traffic routing, and only for
    Deployment and CloneSet — DaemonSet and StatefulSet-like objects are held regardless). -/
def singleRevision (rq : Req) : Bool :=
  match wkind rq with
  | .deployment => (activeRS rq).length == 1
  | .cloneSet => rq.new.statusReplicas == rq.new.statusUpdated
  | _ => true

/-- The Rollout for which the admitted object must be held back, if any. -/
def mustHoldRollout (rq : Req) : Option Rollout :=
  if selected rq && eligible rq && releaseChange rq.old rq.new then
    match matchedRollout rq.new rq.rollouts with
    | some r => if !r.emptyRelease && (!r.hasTraffic || singleRevision rq) then some r else none
    | none => none
  else none

/-- "held back": the native controller cannot update a single pod. -/
def heldBack (k : WKind) (o : Obj) : Bool :=
  match k with
  | .deployment => o.paused
  | .cloneSet => o.csPartition == some (.pct 100)
  | .daemonSet | .stsLike =>
    match o.us with
    | .present _ (.present (some p)) => p == 32767
    | _ => false
  | .notHandled => false

/-- the strategy type survives; an absent updateStrategy becomes RollingUpdate -/
def usTypeKept : UpdStrat → UpdStrat → Bool
  | .present t _, .present t' _ => t == t'
  | _, .present t' _ => t' == "RollingUpdate"
  | _, _ => false

/-- Frame of the hold: apart from the knob, the marker (and the stable-revision label of a
    Deployment) the admitted object is the submitted one. -/
def holdFrame (k : WKind) (new o : Obj) : Bool :=
  match k with
  | .deployment => { o with paused := new.paused, inProgress := new.inProgress, stableRev := new.stableRev } == new
  | .cloneSet => { o with csPartition := new.csPartition, inProgress := new.inProgress } == new
  | .daemonSet | .stsLike => { o with us := new.us, inProgress := new.inProgress } == new && usTypeKept new.us o.us
  | .notHandled => o == new

/-- Deployment: the stable-revision label is left alone, or set to the `pod-template-hash` label of
    a ReplicaSet of the Deployment that still runs pods and whose template differs from the
    submitted one. -/
def stableRevOk (rq : Req) (o : Obj) : Bool :=
  o.stableRev == rq.new.stableRev ||
  (activeRS rq).any fun rs => rs.hashLabel == o.stableRev && rs.tmplBody != rq.new.tmpl.body

/-- Observation III.3 #15: an Advanced DaemonSet without `updateStrategy.rollingUpdate`. -/
def dsNoRollingUpdate (rq : Req) : Bool :=
  wkind rq == .daemonSet &&
  match rq.new.us with
  | .absent => true
  | .present _ .absent => true
  | _ => false

def typedUSOk : UpdStrat → Bool
  | .malformed => false
  | .present _ .malformed => false
  | _ => true

/-- Request shapes an API server produces: `dryRun` set, old object with metadata, ReplicaSets
    with `spec.replicas`, a DaemonSet whose `updateStrategy` decodes. -/
def wellFormed (rq : Req) : Bool :=
  rq.dryRunSet && rq.oldMetaPresent && rq.rss.all (fun rs => rs.replicas.isSome) &&
  (wkind rq != .daemonSet || (typedUSOk rq.new.us && typedUSOk rq.old.us))

/-- a selected Deployment that carries the in-progress marker -/
def depInProgress (rq : Req) : Bool :=
  wkind rq == .deployment && selected rq && rq.new.inProgress != .absent

def partitionStyle (o : Obj) : Bool :=
  match o.stratAnno with
  | .valid s => s.rollingStyle.toLower == "partition"
  | _ => false

/-- canary- or partition-style release (no original-strategy annotation = not blue-green) -/
def repauseStyle (o : Obj) : Bool := partitionStyle o || !o.hasOrigStrategy

def Outcome.isAdmitted : Outcome → Bool
  | .admitted _ => true
  | _ => false

/-! ### the four clauses as oracles on (request, outcome) -/

/-- C08.i — must-hold requests are admitted held back, marked for the first matching active
    Rollout, nothing else changed. (The one API-reachable exception, a DaemonSet without
    `rollingUpdate`, must fail.) -/
def holdOk (rq : Req) (out : Outcome) : Bool :=
  match mustHoldRollout rq with
  | none => true
  | some r =>
    if !wellFormed rq then true
    else if dsNoRollingUpdate rq then out == .panic
    else match out with
      | .admitted o => heldBack (wkind rq) o && o.inProgress == .rollout r.name && holdFrame (wkind rq) rq.new o
                       && stableRevOk rq o
      | _ => false

/-- C08.iv — whatever the shape of the request: a must-hold request is never admitted
    without being held back and marked (a handler failure rejects, it does not admit). -/
def totalOk (rq : Req) (out : Outcome) : Bool :=
  match mustHoldRollout rq with
  | none => true
  | some r =>
    match out with
    | .admitted o => heldBack (wkind rq) o && o.inProgress == .rollout r.name
    | _ => true

/-- C08.ii — everything else is admitted unchanged (and well-formed requests are not
    rejected); an in-progress Deployment may only differ in paused / strategy / strategy annotation. -/
def frameOk (rq : Req) (out : Outcome) : Bool :=
  if (mustHoldRollout rq).isSome then true
  else if depInProgress rq then
    match out with
    | .admitted o =>
      { o with paused := rq.new.paused, stratType := rq.new.stratType, stratRU := rq.new.stratRU,
               stratAnno := rq.new.stratAnno } == rq.new
    | _ => !wellFormed rq
  else
    match out with
    | .admitted o => o == rq.new
    | _ => !wellFormed rq || (rq.cfg.isNone && rq.op == "UPDATE" && rq.subResource == "")

/-- C08.iii — an in-progress Deployment in a canary- or partition-style release, or any
    in-progress Deployment receiving a release change, is admitted paused. -/
def repauseOk (rq : Req) (out : Outcome) : Bool :=
  if depInProgress rq && (repauseStyle rq.new || releaseChange rq.old rq.new) then
    match out with
    | .admitted o => o.paused
    | _ => !wellFormed rq
  else true

end RV.Oracle.C08
