/-
  Decidable clauses for the advanced Deployment controller around `syncDeployment` (slice `depctl`).
  `w` is the world one Reconcile starts from, `o` its outcome: the model's (`RV.DepCtl.reconcile w`) in the
  theorems of `RV.Props.DepCtl`, the *implementation's* (decoded from the harness line) in the driver.
  Keys: C17.ctl_only_ours, C08.ctl_protection, C07.ctl_extra_status_exact, C07.ctl_extra_fixed_point,
  C07.ctl_requeue_until_satisfied, C06.ctl_errors_reported, C06.ctl_both_attempted, C17.ctl_paused_scales_only,
  C07.ctl_watch.
-/
import RV.Model.DepCtl
import RV.Oracle.C17
namespace RV.Oracle.DepCtl
open RV.Arith RV.DepSync RV.DepCtl

/-! ### which branch of Reconcile a world takes (functions of the input only) -/

/-- the Deployment is read -/
def reachesGate (w : World) : Bool := !w.fault.getD && w.present
/-- read, and not ours: not under rollout control, unparsable strategy annotation, or canary rolling style -/
def ignoredW (w : World) : Bool := reachesGate w && !newController w
/-- ours: the webhook configuration is looked up -/
def reachesHook (w : World) : Bool := reachesGate w && newController w
/-- ours, and the webhook configuration is missing or being deleted -/
def protectionW (w : World) : Bool := reachesHook w && !w.fault.getW && w.hook != .present
/-- ours and protected by admission: `syncDeployment` + `patchExtraStatus` run -/
def normalW (w : World) : Bool := reachesHook w && !w.fault.getW && w.hook == .present

def specOf (r : Option RS) : Option Int := r.map (·.spec)
def specs (l : List RS) : List Int := l.map (·.spec)
/-- no ReplicaSet changed size, none was created -/
def sameSizes (w : World) (o : Out) : Bool := specOf o.new == specOf w.s.new && specs o.olds == specs w.s.olds
def noScale (o : Out) : Bool := !(o.calls.any (·.isScale))

/-! ### 1. only ours -/

/-- a Deployment that does not exist or is not ours gets no write at all -/
def onlyOurs (w : World) (o : Out) : Bool :=
  !(ignoredW w || (!w.fault.getD && !w.present)) ||
  (o.calls.isEmpty && o.untouched && o.res == .ok && o.stype == w.stype && o.ru == w.ru && o.extra == w.extra && sameSizes w o)

/-! ### 2. admission protection -/

/-- webhook configuration absent / terminating: at most one write, the strategy patch; it restores
    `RollingUpdate` with the saved parameters; nothing else moves; a failed patch is reported -/
def protection (w : World) (o : Out) : Bool :=
  !protectionW w ||
  (sameSizes w o && o.extra == w.extra &&
    (match o.calls with
     | [] => w.stype == .rollingUpdate && o.res == .ok && o.stype == w.stype && o.ru == w.ru
     | [.protect true] => o.res == .ok && o.stype == .rollingUpdate && o.ru == mergeRU w.ru (savedRU w)
     | [.protect false] => o.res == .err && o.stype == w.stype && o.ru == w.ru
     | _ => false))

/-! ### 3. extra status -/

/-- the annotation afterwards -/
def extraAfter (w : World) : Extra := if w.fault.extra then w.extra else wantExtra w

/-- the extra-status annotation is (ready pods of the new ReplicaSet, partition limit), patched exactly when the
    text differs — whatever `syncDeployment` returned -/
def extraExact (w : World) (o : Out) : Bool :=
  !(normalW w && w.sel != .bad) ||
  (o.calls.filter (·.isExtra) == (if w.extra == wantExtra w then [] else [.extra (wantExtra w) (!w.fault.extra)]) &&
   o.extra == extraAfter w)

/-- outcome of a Reconcile that starts where a fault-free one ended: no extra-status write -/
def extraFixedPoint (o2 : Out) : Bool := (o2.calls.filter (·.isExtra)).isEmpty

/-! ### 4. requeue -/

/-- the status as read is the one a completed sync of the present ReplicaSets writes -/
def fresh (w : World) : Bool :=
  decide (w.gen ≤ w.obsGen) && w.s.statusReplicas == sumPods w.s.olds + optPods w.s.new &&
  w.statusUpdated == optPods w.s.new

/-- without an error the result is `RequeueAfter` exactly when `DeploymentRolloutSatisfied` fails -/
def requeueExact (w : World) (o : Out) : Bool :=
  !normalW w || o.res == .err || o.res == (if satisfied w then .ok else .requeue)

/-- with a fresh status: never "done" while the new ReplicaSet has fewer pods than the partition allows or the
    pod total differs from spec.replicas -/
def requeueDrives (w : World) (o : Out) : Bool :=
  !(normalW w && fresh w &&
      (decide (optPods w.s.new < limit w.s) || sumPods w.s.olds + optPods w.s.new != w.s.replicas)) ||
  o.res != .ok

def requeueUntilSatisfied (w : World) (o : Out) : Bool := requeueExact w o && requeueDrives w o

/-! ### 5. errors -/

/-- guard `swallowedScaleDown`: the failing write is a scale-down of an old ReplicaSet in the rolling path
    (`reconcileOldReplicaSets` drops the errors of its two scale-down helpers) -/
def swallowRegion (w : World) : Bool :=
  normalW w && w.sel == .normal && (syncF w.s w.fault.scaleAt).swallowed

/-- every failed API call makes the Reconcile return an error (retry) -/
def errorsReportedCore (w : World) (o : Out) : Bool :=
  (!w.fault.getD || o.res == .err) &&
  (!(reachesHook w && w.fault.getW) || o.res == .err) &&
  (!(o.calls.any fun c => c.isProtect && c.failed) || o.res == .err) &&
  (!(o.calls.any fun c => c.isExtra && c.failed) || (o.res == .err && o.errs.contains .extra)) &&
  (!(o.calls.any fun c => c.isScale && c.failed) || (o.res == .err && o.errs.contains .sync)) &&
  -- `fired`: any injected fault was hit (the harness's own observation; the model's prediction in the theorems);
  -- the empty selector is excluded: its status write ignores the error (and the API rejects such a selector)
  (!(o.fired && w.sel != .all) || o.res == .err)

def errorsReported (w : World) (o : Out) : Bool := errorsReportedCore w o

/-- a failing sync does not keep the extra status from being attempted (that a failing extra status does not
    keep the sync from running is the order of the two calls: the model comparison) -/
def bothAttempted (w : World) (o : Out) : Bool :=
  !(normalW w && w.sel == .normal && o.errs.contains .sync) ||
  o.calls.filter (·.isExtra) == (if w.extra == wantExtra w then [] else [.extra (wantExtra w) (!w.fault.extra)])

/-! ### 6. paused / deleting -/

def totalSpec (s : State) : Int := sumSpec s.olds + optSpec s.new

/-- ReplicaSet identities are well formed: index -1 is the new ReplicaSet's -/
def idxOk (s : State) : Bool := s.olds.all (fun r => r.idx != -1)

/-- `strategy.paused`: no ReplicaSet is created; sizes that add up to spec.replicas are left alone (no size write:
    the new RS is not grown towards the partition).  Deletion: no ReplicaSet size is written. -/
def pausedScalesOnly (w : World) (o : Out) : Bool :=
  (!(normalW w && w.sel == .normal && w.s.paused && !w.s.deleting) ||
    ((!(w.s.new.isNone && idxOk w.s) || o.new.isNone) &&
     (!(RV.Oracle.C17.invCore w.s && totalSpec w.s == w.s.replicas) || noScale o))) &&
  (!(normalW w && w.s.deleting) || noScale o)

/-- implementation-side companion (sizes are read back from the API objects): where the clause above demands
    "no size write", no ReplicaSet has another size afterwards -/
def pausedSizesKept (w : World) (o : Out) : Bool :=
  (!(normalW w && w.sel == .normal && w.s.paused && !w.s.deleting &&
      RV.Oracle.C17.invCore w.s && totalSpec w.s == w.s.replicas) || sameSizes w o) &&
  (!(normalW w && w.s.deleting) || sameSizes w o)

end RV.Oracle.DepCtl
