/-
  Decidable predicates about what the ControllerFinder reports (core Lean only).  They are used in the theorem
  statements of RV.Props.Finder *and* evaluated by the driver on the implementation's output.

  The declarative side is `Facts`: per kind of workload, what the record must say, written as a readable formula
  over the object the reference designates (not as a transcription of the Go control flow).
-/
import RV.Model.Finder
namespace RV.Oracle.Finder
open RV.Finder

/-! ### what an API server that validates and defaults admits -/

/-- `spec.replicas` of the typed kinds is defaulted (apps/v1 by the API server, the Kruise kinds by Kruise's webhook).
    Nothing is assumed about unstructured (custom-resource) StatefulSet-likes: any field may be absent or of any type. -/
def admissible (c : Cluster) : Bool :=
  c.cloneSets.all (·.replicas.isSome) && c.deployments.all (·.replicas.isSome) &&
  c.replicaSets.all (·.replicas.isSome) && c.nativeSts.all (·.replicas.isSome) && c.kruiseSts.all (·.replicas.isSome)

/-- the validating webhook of Rollout rejects a strategy with neither `canary` nor `blueGreen` -/
def strategyOK (s : Strategy) : Bool := s.blueGreen || s.canary.isSome

def noPanic (o : Out) : Bool := o != .panic

/-! ### dispatch table -/

/-- group of the reference; `none` when the apiVersion is malformed -/
def groupOf (ref : Ref) : Option String := (parseGroupVersion ref.apiVersion).map (·.group)

def knownGroupKind (g k : String) : Bool :=
  (g == "apps" && (k == "ReplicaSet" || k == "Deployment" || k == "StatefulSet")) ||
  (g == "apps.kruise.io" && (k == "CloneSet" || k == "StatefulSet" || k == "DaemonSet"))

/-- `knownGroupKind` of a reference whose apiVersion may be malformed (then: no) -/
def knownRef (g : Option String) (k : String) : Bool :=
  match g with
  | some g => knownGroupKind g k
  | none => false

/-- which finder accepts a reference: a function of the reference's group and kind (and, for the StatefulSet-like
    finder, of the `filter-workload-type` flag) — never of the version, the name or the cluster -/
def owns (filter : Bool) (g : Option String) (kind : String) : FinderId → Bool
  | .deployment => g == some "apps" && kind == "Deployment"
  | .advancedDeployment => g == some "apps" && kind == "Deployment"
  | .cloneSet => g == some "apps.kruise.io" && kind == "CloneSet"
  | .daemonSet => g == some "apps.kruise.io" && kind == "DaemonSet"
  | .stsLike => !filter || knownRef g kind

/-- the finders consulted, in order: a function of (rolling style, group, kind) -/
def owners (st : Style) (filter : Bool) (g : Option String) (kind : String) : List FinderId :=
  (finders st).filter (owns filter g kind)

/-! ### minimum by a comparator (the first of the least elements, scanning from the right) -/

def minBy {α : Type} (lt : α → α → Bool) : List α → Option α
  | [] => none
  | x :: xs =>
    match minBy lt xs with
    | none => some x
    | some m => if lt x m then some x else some m

/-- the part of a revision name after its last `-` (the whole name when there is none) -/
def suffix (s : String) : String :=
  String.ofList (s.toList.reverse.takeWhile (· != '-')).reverse

/-! ### facts per kind -/

/-- what the record of a workload must say -/
structure Facts where
  name : String
  /-- the finder must report nothing but `IsStatusConsistent = false` -/
  waits : Bool
  inProgress : Bool
  rollingBack : Bool
  stable : String
  canary : String
  pth : String
  key : String
  deriving Repr, DecidableEq, Inhabited

/-- CloneSet: rollback ⇔ in progress ∧ update revision = current revision ∧ not all pods are on it yet -/
def cloneSetFacts (cs : CloneSet) : Facts :=
  { name := cs.m.name
    waits := cs.m.generation != cs.observedGeneration
    inProgress := cs.m.inProgress
    rollingBack := cs.m.inProgress && cs.currentRevision == cs.updateRevision && cs.updatedReplicas != cs.statusReplicas
    stable := suffix cs.currentRevision
    canary := suffix cs.updateRevision
    pth := suffix cs.updateRevision
    key := podTemplateHashKey }

/-- Advanced DaemonSet seen by `getKruiseDaemonSet`: no stable revision, never a rollback -/
def daemonSetFacts (ds : DaemonSet) : Facts :=
  { name := ds.m.name
    waits := ds.m.generation != ds.observedGeneration
    inProgress := ds.m.inProgress
    rollingBack := false
    stable := ""
    canary := suffix ds.daemonSetHash
    pth := suffix ds.daemonSetHash
    key := podTemplateHashKey }

/-- StatefulSet-like (typed StatefulSets, the typed objects `ParseWorkload` accepts, unstructured): revisions are
    the full status strings; rollback ⇔ in progress ∧ update revision = current revision ∧ not all pods updated -/
def infoFacts (i : Info) : Facts :=
  { name := i.name
    waits := i.generation != i.observedGeneration
    inProgress := i.inProgress
    rollingBack := i.inProgress && i.updateRevision == i.stableRevision && i.updatedReplicas != i.statusReplicas
    stable := i.stableRevision
    canary := i.updateRevision
    pth := i.updateRevision
    key := controllerRevisionHashKey }

/-- the oldest ReplicaSet of `d` that counts (see `activeOwned`) -/
def oldestRs (c : Cluster) (d : Deployment) : Option ReplicaSet := minBy createdBefore (activeOwned c d)

/-- the newest canary Deployment of `stable` that is not in deletion -/
def newestLiveCanary (c : Cluster) (stable : Deployment) : Option Deployment :=
  minBy createdAfter ((canariesOf c stable).filter fun d => !d.m.deleting)

/-- canary-style Deployment: stable revision = hash label of the oldest counting ReplicaSet (without one the finder
    waits); rollback ⇔ in progress ∧ the Deployment's template equals that ReplicaSet's; the pod-template-hash is the
    hash label of the oldest counting ReplicaSet of the newest live canary Deployment, and empty while there is none,
    while not in progress, and during a rollback -/
def canaryDeploymentFacts (c : Cluster) (d : Deployment) : Facts :=
  match oldestRs c d with
  | none => { name := d.m.name, waits := true, inProgress := d.m.inProgress, rollingBack := false, stable := "", canary := "", pth := "", key := podTemplateHashKey }
  | some rs =>
    let rb := d.m.inProgress && rs.template == d.template
    { name := d.m.name
      waits := d.m.generation != d.observedGeneration
      inProgress := d.m.inProgress
      rollingBack := rb
      stable := rs.hashLabel
      canary := d.templateHash
      pth := if d.m.inProgress && !rb then
               match newestLiveCanary c d with
               | some cd => match oldestRs c cd with
                            | some crs => crs.hashLabel
                            | none => ""
               | none => ""
             else ""
      key := podTemplateHashKey }

/-- the counting ReplicaSet with the Deployment's template that comes last in revision order -/
def newRsOf (c : Cluster) (d : Deployment) : Option ReplicaSet :=
  ((sortBy revLess (activeOwned c d)).filter fun rs => rs.template == d.template).getLast?

/-- partition / blue-green style Deployment: stable revision = the label `rollouts.kruise.io/stable-revision`;
    while in progress the pod-template-hash is the hash label of the ReplicaSet carrying the Deployment's template;
    rollback ⇔ in progress ∧ that hash is the (non-empty) stable revision -/
def advancedDeploymentFacts (c : Cluster) (d : Deployment) : Facts :=
  let pth := if d.m.inProgress then (match newRsOf c d with | some rs => rs.hashLabel | none => "") else ""
  { name := d.m.name
    waits := d.m.generation != d.observedGeneration
    inProgress := d.m.inProgress
    rollingBack := d.m.inProgress && d.stableLabel != "" && d.stableLabel == pth
    stable := d.stableLabel
    canary := d.templateHash
    pth := pth
    key := podTemplateHashKey }

/-- the object the StatefulSet-like finder reads, as `ParseWorkload` sees it (`none`: absent, or unparsable) -/
def stsTarget (c : Cluster) (ns : String) (ref : Ref) : Option Info :=
  match getEmptyWorkloadObject c.filter (fromAPIVersionAndKind ref.apiVersion ref.kind) with
  | none => none
  | some .replicaSet => none
  | some .daemonSet => (lookup DaemonSet.m c.daemonSets ns ref.name).bind parseDaemonSet
  | some .deployment => (lookup Deployment.m c.deployments ns ref.name).bind parseDeployment
  | some .cloneSet => (lookup CloneSet.m c.cloneSets ns ref.name).bind parseCloneSet
  | some .statefulSet => (lookup Sts.m c.nativeSts ns ref.name).bind (stsInfo "StatefulSet")
  | some .kruiseSts => (lookup Sts.m c.kruiseSts ns ref.name).bind (stsInfo "StatefulSet")
  | some (.unstructured gvk) =>
    (c.unstructured.find? (fun u => u.gvk == gvk && u.m.ns == ns && u.m.name == ref.name)).bind parseUnstr

/-- the facts of the object a finder designates (`none`: there is no such object) -/
def factsOf (c : Cluster) (ns : String) (ref : Ref) : FinderId → Option Facts
  | .cloneSet => (lookup CloneSet.m c.cloneSets ns ref.name).map cloneSetFacts
  | .daemonSet => (lookup DaemonSet.m c.daemonSets ns ref.name).map daemonSetFacts
  | .deployment => (lookup Deployment.m c.deployments ns ref.name).map (canaryDeploymentFacts c)
  | .advancedDeployment => (lookup Deployment.m c.deployments ns ref.name).map (advancedDeploymentFacts c)
  | .stsLike => (stsTarget c ns ref).map infoFacts

/-- the facts of the workload a Rollout designates: those of the first finder, in dispatch order, that has an object -/
def facts (c : Cluster) (s : Strategy) (ns : String) (ref : Ref) : Option Facts :=
  match getRollingStyle s with
  | none => none
  | some st => (owners st c.filter (groupOf ref) ref.kind).findSome? (factsOf c ns ref)

/-- the record `w` says what the facts `F` demand: "wait" exactly when it must, then nothing else; otherwise every
    field as the facts have it -/
def agrees (w : W) (F : Facts) : Bool :=
  (w.isStatusConsistent == !F.waits) &&
  (if F.waits then w == W.opaque
   else w.name == F.name && w.isInRollback == F.rollingBack && w.stableRevision == F.stable && w.canaryRevision == F.canary &&
        w.podTemplateHash == F.pth && w.revisionLabelKey == F.key && w.inRolloutProgressing == F.inProgress)

/-! ### the oracles (input × output of `GetWorkloadForRef`) -/

def Out.w? : Out → Option W
  | .wl w => some w
  | .wlErr w => some w
  | _ => none

/-- C10: a rollback in the cluster is reported -/
def rollbackDetected (c : Cluster) (s : Strategy) (ns : String) (ref : Ref) (o : Out) : Bool :=
  match o, facts c s ns ref with
  | .wl w, some F => !(w.isStatusConsistent && F.rollingBack) || w.isInRollback
  | _, _ => true

/-- C10: a reported rollback is one (and the workload is marked in progress) -/
def noFalseRollback (c : Cluster) (s : Strategy) (ns : String) (ref : Ref) (o : Out) : Bool :=
  match Out.w? o with
  | none => true
  | some w => !w.isInRollback ||
      (w.inRolloutProgressing && w.isStatusConsistent &&
        match facts c s ns ref with
        | some F => F.rollingBack && F.inProgress
        | none => false)

/-- C10 / C02: an inconsistent record is the empty record; a skewed object yields it; a consistent record carries the
    revisions of the status (`Facts.stable`, `Facts.canary`) -/
def inconsistentIsOpaque (c : Cluster) (s : Strategy) (ns : String) (ref : Ref) (o : Out) : Bool :=
  match Out.w? o with
  | none => true
  | some w =>
    (w.isStatusConsistent || w == W.opaque) &&
    match o, facts c s ns ref with
    | .wl w, some F =>
      (w.isStatusConsistent == !F.waits) &&
      (!w.isStatusConsistent || (w.stableRevision == F.stable && w.canaryRevision == F.canary && w.inRolloutProgressing == F.inProgress))
    | _, _ => true

/-- C03: the pod-template-hash (the selector of the canary Service) comes from the canary's ReplicaSet, see `Facts.pth` -/
def podTemplateHashFromCanaryRs (c : Cluster) (s : Strategy) (ns : String) (ref : Ref) (o : Out) : Bool :=
  match o, facts c s ns ref with
  | .wl w, some F => !w.isStatusConsistent || w.podTemplateHash == F.pth
  | _, _ => true

/-- the cluster has an object for this finder under the reference's name -/
def present (c : Cluster) (ns : String) (ref : Ref) : FinderId → Bool
  | .cloneSet => (lookup CloneSet.m c.cloneSets ns ref.name).isSome
  | .daemonSet => (lookup DaemonSet.m c.daemonSets ns ref.name).isSome
  | .deployment => (lookup Deployment.m c.deployments ns ref.name).isSome
  | .advancedDeployment => (lookup Deployment.m c.deployments ns ref.name).isSome
  | .stsLike =>
    match getEmptyWorkloadObject c.filter (fromAPIVersionAndKind ref.apiVersion ref.kind) with
    | none => false
    | some .replicaSet => false
    | some .daemonSet => (lookup DaemonSet.m c.daemonSets ns ref.name).isSome
    | some .deployment => (lookup Deployment.m c.deployments ns ref.name).isSome
    | some .cloneSet => (lookup CloneSet.m c.cloneSets ns ref.name).isSome
    | some .statefulSet => (lookup Sts.m c.nativeSts ns ref.name).isSome
    | some .kruiseSts => (lookup Sts.m c.kruiseSts ns ref.name).isSome
    | some (.unstructured gvk) => gvk.version == "" || gvk.kind == "" || (c.unstructured.find? (fun u => u.gvk == gvk && u.m.ns == ns && u.m.name == ref.name)).isSome

/-- C08 / C09: the dispatch.  No owner ⇒ `nil, nil`; no object under any owner (and no failing `Get`) ⇒ `nil, nil`;
    a consistent record is that of the first owner holding an object: its name, its revision label key and the
    source of its stable revision (so: the canary-style finder for apps/Deployment under the canary style, the
    advanced-Deployment finder under the other two) -/
def finderDispatch (c : Cluster) (s : Strategy) (ns : String) (ref : Ref) (o : Out) : Bool :=
  match getRollingStyle s with
  | none => true
  | some st =>
    let os := owners st c.filter (groupOf ref) ref.kind
    (!os.isEmpty || o == .nothing) &&
    (!(c.failGet.isEmpty && os.all (fun f => !present c ns ref f)) || o == .nothing) &&
    (match o, facts c s ns ref with
     | .wl w, some F => !w.isStatusConsistent || (w.name == F.name && w.revisionLabelKey == F.key && w.stableRevision == F.stable)
     | .wl w, none => !w.isStatusConsistent
     | _, _ => true)

end RV.Oracle.Finder
