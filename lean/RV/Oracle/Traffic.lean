/-
  Decidable oracles about one traffic-Manager call (C03, C04, C05, C07), shared by the
  theorems and the driver.
-/
import RV.Model.Traffic
namespace RV.Oracle.Traffic
open RV.Traffic

/-- C04: no gateway rule may send traffic to a canary Service that does not exist or does not
    select the canary revision.  The canary Ingress with weight > 0 is such a rule. -/
def noVoidRoute (c : TCtx) (n : Net) : Bool :=
  match n.canaryIng with
  | some w => if w > 0 ∧ ¬ c.disableGen then n.canarySvc = some c.canaryRev else true
  | none => true

/-- C03.iii: `DoTrafficRouting` reports done for a weight step only if the services are in
    place and the configured canary share equals exactly the step's weight. -/
def doneMeansRouted (c : TCtx) (n' : Net) (done : Bool) : Bool :=
  if done ∧ c.hasRef then
    match c.weight with
    | none => true
    | some w =>
      (n'.canaryIng = some w || (w = 0 && n'.canaryIng = none)) &&
      (c.disableGen || (n'.canarySvc = some c.canaryRev && n'.stableSel = some c.stableRev))
  else true

/-- C04: the gateway is never pointed at the canary by a call that found the canary Service
    missing or mis-selected: the services are fixed first, in an earlier call. -/
def servicesBeforeRoutes (c : TCtx) (n n' : Net) : Bool :=
  if n'.canaryIng ≠ n.canaryIng ∧ n'.canaryIng.isSome ∧ ¬ c.disableGen then
    n.canarySvc = some c.canaryRev && n.stableSel = some c.stableRev && n'.canarySvc = n.canarySvc
  else true

/-- position of the first occurrence of a write, if any -/
def posOf (ws : List String) (w : String) : Option Nat :=
  let i := ws.findIdx (· == w)
  if i < ws.length then some i else none

/-- `a` (if it happens) happens before `b` (if it happens) -/
def before (ws : List String) (a b : String) : Bool :=
  match posOf ws a, posOf ws b with
  | some i, some j => decide (i < j)
  | _, _ => true

/-- C04 / C10: `FinalisingTrafficRouting` withdraws the route before it removes the canary Service,
    removes the canary Service only when no route to it is left, and reports done only when
    everything is restored. -/
def finalisingOrder (c : TCtx) (n : Net) (o : TOut) : Bool :=
  before o.writes "deleteCanaryIngress" "deleteCanarySvc" &&
  before o.writes "unpinStable" "deleteCanaryIngress" &&
  (if o.writes.contains "deleteCanarySvc" then o.net.canaryIng.isNone else true) &&
  (if o.done ∧ c.hasRef then o.net.canaryIng.isNone && (c.disableGen || o.net.canarySvc.isNone) &&
      (o.net.stableSel.getD "" == "" || !o.net.stableExists) else true) &&
  (if n.canaryIng.isSome ∧ o.net.canaryIng.isSome then o.net.canarySvc = n.canarySvc else true)

/-- C07.iii: a call that changed nothing and has no pending expectation reports completion
    (fixed point): re-applying is a no-op that says "done". -/
def frame (call : String) (n n' : Net) : Bool :=
  match call with
  | "patchStableService" | "restoreStableService" =>
    n'.canarySvc = n.canarySvc && n'.canaryIng = n.canaryIng && n'.stableIngress = n.stableIngress && n'.stableExists = n.stableExists
  | "restoreGateway" => n'.canarySvc = n.canarySvc && n'.stableSel = n.stableSel && n'.stableExists = n.stableExists
  | "removeCanaryService" => n'.stableSel = n.stableSel && n'.canaryIng = n.canaryIng && n'.stableExists = n.stableExists
  | _ => n'.stableExists = n.stableExists && n'.stableIngress = n.stableIngress

/-- the Manager calls with *retry* semantics (`done = true` means "call me again") -/
def retryCall (call : String) : Bool :=
  call == "patchStableService" || call == "restoreStableService" || call == "restoreGateway" ||
  call == "removeCanaryService" || call == "routeAllToNew"

/-- whether the call asks to be re-run after a positive duration (`c.RecheckDuration > 0`), as a function of
    its result: the retry-style calls exactly when they say "retry"; `FinalisingTrafficRouting` exactly when one of
    its parts did; `DoTrafficRouting` never (its caller requeues with the default period) -/
def recheckOf (call : String) (c : TCtx) (o : TOut) : Bool :=
  if retryCall call then o.done && !o.err
  else if call == "finalisingTrafficRouting" then c.hasRef && !o.done && !o.err
  else false

/-- **C07** — a retry is a wake-up that comes: a call that says "retry" (without an error, which the rate limiter
    retries) was configured with a grace period to wait for (`gracePeriodSeconds: 0` means *no waiting*: never a retry)
    and asked for a positive recheck duration. -/
def retryHasWakeup (call : String) (c : TCtx) (o : TOut) (recheck : Bool) : Bool :=
  if retryCall call ∧ o.done ∧ ¬ o.err then decide (c.grace > 0) && recheck
  else if call = "finalisingTrafficRouting" ∧ c.hasRef ∧ ¬ o.done ∧ ¬ o.err then decide (c.grace > 0) && recheck
  else true

/-- **C03.iv** — `PatchStableService` (traffic routing configured, canary Service generated) that returns without an error
    has left the stable Service existing and pinned to the stable revision: the caller reads "no error, no retry" as
    "pinned" and goes on to create the step's pods (theorem `RV.Props.CanaryStyle.ps_spec`). -/
def patchMeansPinned (c : TCtx) (o : TOut) : Bool :=
  !(c.hasRef && !c.disableGen && !o.err) || (o.net.stableExists && o.net.stableSel.getD "" == c.stableRev)

def callOracles (call : String) (c : TCtx) (n : Net) (_m : Mem) (o : TOut) : List (String × Bool) :=
  [("C05.frame", frame call n o.net)] ++
  (if call = "doTrafficRouting" then
    [("C03.done_means_routed", doneMeansRouted c o.net o.done),
     ("C04.services_before_routes", servicesBeforeRoutes c n o.net),
     ("C03.services_before_routes", servicesBeforeRoutes c n o.net)]
   else []) ++
  (if call = "patchStableService" then [("C03.patch_means_pinned", patchMeansPinned c o)] else []) ++
  (if call = "finalisingTrafficRouting" then
    [("C04.finalising_order", finalisingOrder c n o),
     ("C10.finalising_order", finalisingOrder c n o),
     ("C05.finalising_order", finalisingOrder c n o)]
   else []) ++
  -- C05: a clean-up call that reports completion (no retry, no error) has established its effect
  (if c.hasRef ∧ o.done = false ∧ o.err = false then
    (if call = "restoreStableService" then [("C05.finalising_order", !o.net.stableExists || o.net.stableSel.getD "" == "")] else []) ++
    (if call = "restoreGateway" then [("C05.task_post", o.net.canaryIng.isNone)] else []) ++
    (if call = "removeCanaryService" then [("C05.task_post", c.disableGen || o.net.canarySvc.isNone)] else [])
   else [])

end RV.Oracle.Traffic
