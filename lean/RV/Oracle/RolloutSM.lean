/-
  Decidable oracles about one Rollout reconcile (C02, C03, C09, C10, C18).
-/
import RV.Model.RolloutSM
namespace RV.Oracle.RolloutSM
open RV.Arith RV.Traffic RV.RolloutSM

/-- States that cannot be produced through the API by a user of the documented editable fields
    (`nextStepIndex`, `currentStepState`, spec edits the validating webhook accepts): internal
    status corruption.  Only in these states may a reconcile panic. -/
def corrupted (w : World) : Bool :=
  let ro := w.ro
  let n : Int := ro.steps.length
  ro.steps.isEmpty ||
  (ro.phase = .progressing && ro.reason = .none) ||
  (ro.phase = .terminating && ro.term = .none) ||
  (ro.phase = .progressing && ro.reason = .inRolling && ro.sub.isNone) ||
  -- the release manager indexes steps[currentStepIndex-1] and dereferences lastUpdateTime; every other path
  -- (finalising, reset, terminating) falls back to the first step for an index outside the plan — such an
  -- index is reachable through the API (drop a step while Healthy, then delete the Rollout)
  (ro.phase = .progressing && ro.reason = .inRolling &&
   (match ro.sub with
    | some s => decide (s.curIdx < 1 ∨ s.curIdx > n) || s.lastUpdate = .none
    | none => false)) ||
  -- a BatchRelease without (or with an out-of-range) batch partition is dereferenced only when a plan change
  -- is recalculated while rolling
  (ro.phase = .progressing && ro.reason = .inRolling &&
   (match w.br with
    | some b => (match b.partition with
       | none => true
       | some p => decide (p < 0 ∨ p ≥ b.batches.length))
    | none => false))


end RV.Oracle.RolloutSM

namespace RV.Oracle.RolloutSM
open RV.Arith RV.Traffic RV.RolloutSM

/-- sub-states in which the current step's pods have already been reported ready -/
def podsReady (st : StepState) : Bool :=
  st = .trafficRouting || st = .metricsAnalysis || st = .paused || st = .ready || st = .completed

def inRollingNow (ro : Rollout) : Bool := ro.phase = .progressing && ro.reason = .inRolling && !ro.deleting

/-- the BatchRelease reports the step's pods ready (`doCanaryUpgrade` would return done) -/
def upgradeDoneObs (w : World) (s : Sub) : Bool :=
  match w.wl with
  | some wl => (doCanaryUpgrade w.ro s wl w.br).1
  | none => false

/-- does the status carry a user step-jump request? -/
def jumpRequested (ro : Rollout) (s : Sub) : Bool :=
  let n : Int := ro.steps.length
  decide (s.nextIdx ≠ nextBatchIndex n s.curIdx ∧ s.nextIdx > 0 ∧ s.nextIdx ≤ n)

/-- **C03.ii / C02.i** — `StepTrafficRouting` of a step (or, on the full-replica bypass and on steps without
    traffic, `StepMetricsAnalysis`, the sub-state that follows it) is entered only after that step's pods
    were reported ready: from `StepUpgrade` when the BatchRelease says so, or by a jump / plan change to a
    step with the same replicas taken from a sub-state in which the current step's pods are ready. -/
def enterRoutingGated (w : World) (r : StepResult) : Bool :=
  match w.ro.sub, r.w.ro.sub with
  | some s, some s' =>
    if inRollingNow w.ro ∧ r.w.ro.reason = .inRolling ∧ (s'.state = .trafficRouting ∨ s'.state = .metricsAnalysis) ∧
       (s.state ≠ s'.state ∨ s'.curIdx ≠ s.curIdx) then
      ((s.state = .upgrade || s.state = .init) && decide (s'.curIdx = s.curIdx) && upgradeDoneObs w { s with nextIdx := s'.nextIdx }) ||
      podsReady s.state
    else true
  | _, _ => true

/-- **C02.i** — the step index changes only (a) by one, from `StepReady`, to the natural next step,
    or (b) on an explicit user request: step jump, plan edit, rollback-in-batches, new release. -/
def advanceGated (w : World) (r : StepResult) : Bool :=
  match w.ro.sub, r.w.ro.sub, w.wl with
  | some s, some s', some wl =>
    let n : Int := w.ro.steps.length
    if inRollingNow w.ro ∧ r.w.ro.reason = .inRolling ∧ s'.curIdx ≠ s.curIdx then
      (s.state = .ready && decide (s'.curIdx = s.curIdx + 1) && decide (s.curIdx < n) && !jumpRequested w.ro s) ||
      jumpRequested w.ro s ||
      s.hash = .differs ||
      (wl.inRollback && decide (wl.canaryRev ≠ s.canaryRev))
    else true
  | _, _, _ => true

/-- **C02.iii** — while `spec.strategy.paused` is set, a reconcile of an InRolling rollout changes
    nothing but the Progressing reason, which becomes `Paused` (unless the workload was rolled back, which is
    handled first). -/
def pausedNoProgress (w : World) (r : StepResult) : Bool :=
  match w.wl with
  | some wl =>
    if inRollingNow w.ro ∧ w.ro.paused ∧ wl.consistent ∧ ¬ wl.inRollback ∧ ¬ w.ro.disabled then
      r.w.br == w.br && r.w.net == w.net && r.w.wl == w.wl && r.writes.isEmpty &&
      -- the rollout parks in reason Paused; in particular it does not slip into Finalising (whose tasks
      -- do not look at `spec.strategy.paused` any more and would promote the remaining pods)
      r.w.ro.reason == .paused &&
      (match w.ro.sub, r.w.ro.sub with
       | some s, some s' => s'.curIdx == s.curIdx && s'.state == s.state
       | none, none => true
       | _, _ => false)
    else true
  | none => true

/-- **C02.i** — `StepReady` is reached only from `StepPaused` with the pause satisfied, or on a plan edit. -/
def readyGated (w : World) (r : StepResult) : Bool :=
  match w.ro.sub, r.w.ro.sub with
  | some s, some s' =>
    if inRollingNow w.ro ∧ r.w.ro.reason = .inRolling ∧ s'.state = .ready ∧ s.state ≠ .ready ∧ s'.curIdx = s.curIdx then
      s.state = .paused || s.hash = .differs
    else true
  | _, _ => true

/-- **C18 (Rollout)** — the Rollout's own finalizer is removed only while it is being deleted and its
    Terminating condition says Completed; and that reason is set only when the clean-up sequence
    reached END (or there was nothing to clean up). -/
def finalizerGuard (w : World) (r : StepResult) : Bool :=
  (if r.roGone ∨ (w.ro.hasFinalizer ∧ ¬ r.w.ro.hasFinalizer) then w.ro.deleting && w.ro.term = .completed else true) &&
  (if r.w.ro.term = .completed ∧ w.ro.term ≠ .completed then
     (match r.w.ro.sub with
      | none => true
      | some s' => s'.finStep = .end_)
   else true)

/-- **C10** — a rollback of the workload observed while rolling is dispatched before everything
    else (pause, plan change, normal progress): the reason becomes Cancelling and nothing is written. -/
def rollbackFirst (w : World) (r : StepResult) : Bool :=
  match w.ro.sub, w.wl with
  | some s, some wl =>
    if inRollingNow w.ro ∧ wl.consistent ∧ wl.inRollback ∧ wl.canaryRev ≠ s.canaryRev ∧
       ¬ (¬ w.ro.hasTraffic ∧ w.ro.realPartition ∧ w.ro.rollbackInBatch) then
      r.w.ro.reason = .cancelling && r.w.br == w.br && r.w.net == w.net
    else true
  | _, _ => true

/-- **C10** — a newer revision during a blue-green release is refused: nothing changes. -/
def blueGreenRefusesContinuous (w : World) (r : StepResult) : Bool :=
  match w.ro.sub, w.wl with
  | some s, some wl =>
    if inRollingNow w.ro ∧ wl.consistent ∧ ¬ wl.inRollback ∧ ¬ w.ro.paused ∧ w.ro.style = .blueGreen ∧
       s.canaryRev ≠ "" ∧ wl.canaryRev ≠ s.canaryRev then
      r.w.br == w.br && r.w.net == w.net && r.w.ro.reason = .inRolling &&
      (match r.w.ro.sub with | some s' => s'.curIdx == s.curIdx && s'.state == s.state | none => false)
    else true
  | _, _ => true

/-- **C02.ii** — only the user asks for a step jump: a reconcile that did not find a jump request in the
    status never leaves one behind (whenever the controller moves the step index it also writes the
    natural successor as next index). -/
def noSelfJump (w : World) (r : StepResult) : Bool :=
  match r.w.ro.sub with
  | some s' =>
    let hadNone : Bool := match w.ro.sub with | some s => !jumpRequested w.ro s | none => true
    if hadNone && !r.roGone then !jumpRequested r.w.ro s' else true
  | none => true

/-- **C10 (supersession)** — when a newer revision supersedes the one being released (canary style, traffic
    routing configured) and the reset starts from the beginning (no reset stage recorded yet), the
    BatchRelease is deleted and the canary Service removed only in a reconcile that leaves no canary route
    behind: traffic is back on stable first. -/
def resetRoutesFirst (w : World) (r : StepResult) : Bool :=
  match w.ro.sub, w.wl with
  | some s, some wl =>
    if inRollingNow w.ro ∧ wl.consistent ∧ ¬ wl.inRollback ∧ ¬ w.ro.paused ∧ w.ro.style = .canary ∧ w.ro.hasTraffic ∧
       s.canaryRev ≠ "" ∧ wl.canaryRev ≠ s.canaryRev ∧
       s.finStep ≠ .releaseWorkloadControl ∧ s.finStep ≠ .removeCanaryService ∧ ¬ r.err then
      let brTouched := (match w.br, r.w.br with
        | some b, some b' => !b.deleting && b'.deleting
        | some _, none => true
        | none, _ => false)
      let svcRemoved := w.net.canarySvc.isSome && r.w.net.canarySvc.isNone
      if brTouched || svcRemoved then r.w.net.canaryIng.isNone else true
    else true
  | _, _ => true

/-- the step the status points at replaces every stable pod: a **partition-style** canary rollout
    (`IsRealPartition`) whose step replicas cover the whole workload.  A canary-style rollout never scales the
    stable Deployment down during a step, so it has no such step (and must keep the stable Service pinned:
    `firstStepPinsStable` below). -/
def fullStep (ro : Rollout) (s : Sub) (wl : WL) : Bool :=
  match ro.steps[(s.curIdx - 1).toNat]? with
  | some st => ro.style = .canary && stepHasTraffic st && decide (scaledV st.replicas wl.replicas true ≥ wl.replicas) &&
      ro.realPartition
  | none => false

/-- **C04 (stable half)** — a partition-style canary step that replaces every stable pod leaves `StepInit` towards the upgrade
    (the batch is handed to the BatchRelease) only with the stable Service un-pinned: no request routed through
    the stable Service may end at a selector that matches no pod. -/
def fullStepUnpinsFirst (w : World) (r : StepResult) : Bool :=
  match w.ro.sub, r.w.ro.sub, w.wl with
  | some s, some s', some wl =>
    if inRollingNow w.ro ∧ r.w.ro.reason = .inRolling ∧ w.ro.hasTraffic ∧ wl.consistent ∧ 1 ≤ s.curIdx ∧
       s.state = .init ∧ (s'.state = .upgrade ∨ s'.state = .trafficRouting ∨ s'.state = .metricsAnalysis) ∧
       s'.curIdx = s.curIdx ∧ fullStep w.ro s wl then
      !r.w.net.stableExists || r.w.net.stableSel.getD "" == ""
    else true
  | _, _, _ => true

/-- the pause of the step the status points at is satisfied, as `doCanaryPaused` judges it: the last step of a canary plan
    that releases `100%` needs no approval; a pause with a duration is over once the last status update is older than it.
    (A manual pause is ended by the user writing `StepReady`, which is not a reconcile.) -/
def pauseSatisfied (ro : Rollout) (s : Sub) : Bool :=
  match ro.steps[(s.curIdx - 1).toNat]? with
  | some step =>
    (ro.style = .canary && decide ((ro.steps.length : Int) = s.curIdx) && step.replicas == .pct 100) ||
    (step.pause = .short && s.lastUpdate = .elapsed)
  | none => false

/-- **C02.i** — the controller itself moves a step from `StepPaused` to `StepReady` only when the step's pause is
    satisfied (or the plan was edited, which re-evaluates the step). -/
def readyNeedsPause (w : World) (r : StepResult) : Bool :=
  match w.ro.sub, r.w.ro.sub with
  | some s, some s' =>
    if inRollingNow w.ro ∧ r.w.ro.reason = .inRolling ∧ s.state = .paused ∧ s'.state = .ready ∧ s'.curIdx = s.curIdx ∧
       s.hash ≠ .differs then pauseSatisfied w.ro s
    else true
  | _, _ => true

/-- replicas that step `i` (1-based) of the plan asks for on this workload -/
def stepReplicas (ro : Rollout) (wl : WL) (i : Int) : Option Int :=
  if i < 1 then none else (ro.steps[(i - 1).toNat]?).map fun st => scaledV st.replicas wl.replicas true

/-- what the BatchRelease has been authorised to release so far: the entry of *its* plan its partition points at -/
def releasedByBR (b : BR) (wl : WL) : Option Int :=
  match b.partition with
  | some p => if p < 0 then none else (b.batches[p.toNat]?).map fun e => scaledV e wl.replicas true
  | none => none

def coversIdx (ro : Rollout) (wl : WL) (rel : Int) (i : Int) : Bool :=
  match stepReplicas ro wl i with
  | some r => decide (rel ≤ r)
  | none => false

/-- **C01 (across edits of the plan)** — when the plan is edited while a step is in progress, the rollout re-positions
    itself (`recalculateCanaryStep`) on a step of the NEW plan that covers what the BatchRelease was already authorised to
    release under the OLD plan (its `batchPartition`, not the batch it happens to have reached): afterwards the current
    step or the one it is about to move to allows at least that many pods — whenever the new plan has such a step at all. -/
def recalcCovers (w : World) (r : StepResult) : Bool :=
  match w.wl, w.ro.sub, r.w.ro.sub, w.br with
  | some wl, some s, some s', some b =>
    if inRollingNow w.ro ∧ ¬ w.ro.paused ∧ wl.consistent ∧ ¬ wl.inRollback ∧ wl.canaryRev = s.canaryRev ∧ s.hash = .differs ∧
       r.w.ro.reason = .inRolling ∧ ¬ r.err then
      match releasedByBR b wl with
      | some rel =>
        if (List.range w.ro.steps.length).any (fun i => coversIdx w.ro wl rel ((i : Int) + 1)) then
          coversIdx w.ro wl rel s'.curIdx || coversIdx w.ro wl rel s'.nextIdx
        else true
      | none => true
    else true
  | _, _, _, _ => true

/-- the reconcile runs a clean-up sequence or may run the continuous-release reset -/
def cleaningOrRolling (ro : Rollout) : Bool :=
  (ro.phase = .progressing && (ro.reason = .finalising || ro.reason = .cancelling || ro.reason = .inRolling)) ||
  (ro.phase = .terminating && ro.term = .inTerminating) || ro.phase = .disabling

/-- **C03 / C10 / C05** — "release the workload from the BatchRelease" is left behind only when the BatchRelease is really
    gone: the clean-up cursor (and the reset of a superseded release) moves past `ReleaseWorkloadControl` only in a state
    without BatchRelease — never on the strength of having issued the Delete.  (A BatchRelease that is still terminating
    would otherwise be taken for the next release's: same name, and with an unchanged rollout-id the same spec.)
    The one other way the cursor leaves the task is backwards: deletion / disabling of a Progressing rollout starts the clean-up
    over from an empty cursor. -/
def releaseWaitsGone (w : World) (r : StepResult) : Bool :=
  match w.ro.sub, r.w.ro.sub with
  | some s, some s' =>
    if cleaningOrRolling w.ro ∧ ¬ r.err ∧ s.finStep = .releaseWorkloadControl ∧ s'.finStep ≠ .releaseWorkloadControl then
      -- … or the clean-up is started over: a Progressing rollout that turns Terminating / Disabling in this reconcile gets an
      -- empty cursor (fix "cursor reset"); the sequence that follows has `ReleaseWorkloadControl` as a task of its own
      -- (`RV.Props.Release.restart_releases_again`), so the cursor has not moved *past* the task
      r.w.br.isNone || (exitsProgressing w r && s'.finStep = .empty)
    else true
  | _, _ => true

/-- **C04 / C02** — while the workload's status is not consistent with its spec (`generation ≠ observedGeneration`: the
    controller cannot tell which revision the pods run, the finder reports an empty `Workload`) a reconcile of a Rollout
    that is not being deleted only waits: nothing is written to the BatchRelease, the workload or the network, the
    status cursor stays where it is, and the request is requeued.  (An unreadable workload carries no revision label
    key: clean-up tasks run in that window would "restore" nothing and still report completion.) -/
def inconsistentWaits (w : World) (r : StepResult) : Bool :=
  match w.wl with
  | some wl =>
    if ¬ wl.consistent ∧ ¬ w.ro.deleting then
      r.w.br == w.br && r.w.net == w.net && r.w.wl == w.wl &&
      (r.w.ro.sub.map fun s => (s.curIdx, s.state, s.finStep, s.canaryRev, s.stableRev)) == (w.ro.sub.map fun s => (s.curIdx, s.state, s.finStep, s.canaryRev, s.stableRev)) &&
      r.w.ro.phase == w.ro.phase && r.w.ro.reason == w.ro.reason && r.requeue && !r.err
    else true
  | none => true

def stepOracles (w : World) (r : StepResult) : List (String × Bool) :=
  [("C03.enter_routing_gated", enterRoutingGated w r),
   ("C02.pods_before_next_state", enterRoutingGated w r),
   ("C02.advance_gated", advanceGated w r),
   ("C02.paused_no_progress", pausedNoProgress w r),
   ("C02.ready_gated", readyGated w r),
   ("C18.rollout_finalizer_guard", finalizerGuard w r),
   -- C05: a deleted Rollout is reported cleaned up (Terminating reason Completed, finalizer released) only when its
   -- clean-up sequence reached END
   ("C05.exit_completed_means_end", finalizerGuard w r),
   ("C10.rollback_first", rollbackFirst w r),
   ("C10.bluegreen_refuses_continuous", blueGreenRefusesContinuous w r),
   ("C04.full_step_unpins_first", fullStepUnpinsFirst w r),
   ("C02.no_self_jump", noSelfJump w r),
   ("C10.reset_routes_first", resetRoutesFirst w r),
   ("C02.ready_needs_pause", readyNeedsPause w r),
   ("C03.release_waits_gone", releaseWaitsGone w r),
   ("C10.release_waits_gone", releaseWaitsGone w r),
   ("C05.release_waits_gone", releaseWaitsGone w r),
   ("C01.recalc_covers_released", recalcCovers w r),
   ("C04.inconsistent_waits", inconsistentWaits w r),
   ("C05.inconsistent_waits", inconsistentWaits w r),
   ("C02.inconsistent_waits", inconsistentWaits w r)]

end RV.Oracle.RolloutSM

/-! ### canary-style Deployment rollouts (`IsRealPartition = false`) -/
namespace RV.Oracle.RolloutSM
open RV.Arith RV.Traffic RV.RolloutSM

/-- the status points at the first step, which carries traffic, of a canary rollout that generates its canary
    Service — and the step is not a partition-style full step (`fullStep`, where C04 demands the opposite).
    For a canary-style rollout (`realPartition = false`) no step is a `fullStep`: the condition holds whatever the
    step's replicas, 100 % included. -/
def pinnedFirstStep (ro : Rollout) (s : Sub) (wl : WL) : Bool :=
  match ro.steps[(s.curIdx - 1).toNat]? with
  | some st => ro.style = .canary && !ro.disableGen && stepHasTraffic st && decide (s.curIdx = 1) &&
      !(decide (scaledV st.replicas wl.replicas true ≥ wl.replicas) && ro.realPartition)
  | none => false

/-- **C03.iv** — a canary rollout with traffic leaves `StepInit` of its first step towards the upgrade (the batch is
    handed to the BatchRelease: before that no canary pod can exist) only with the stable Service existing and
    pinned to the stable revision recorded in the status.  For a canary-style rollout this holds whatever the step's
    replicas: the canary Deployment's pods carry the Service's labels too, and an un-pinned stable Service would send
    them traffic as soon as they are ready, before `StepTrafficRouting` decides their share.  The only exception is the
    partition-style step that replaces every stable pod (`fullStepUnpinsFirst`).
    (Not demanded with `disableGenerateCanaryService`, where the Services are never re-selected.) -/
def firstStepPinsStable (w : World) (r : StepResult) : Bool :=
  match w.ro.sub, r.w.ro.sub, w.wl with
  | some s, some s', some wl =>
    if inRollingNow w.ro ∧ r.w.ro.reason = .inRolling ∧ w.ro.hasTraffic ∧ wl.consistent ∧
       s.state = .init ∧ (s'.state = .upgrade ∨ s'.state = .trafficRouting ∨ s'.state = .metricsAnalysis) ∧
       s'.curIdx = s.curIdx ∧ pinnedFirstStep w.ro s wl then
      r.w.net.stableExists && r.w.net.stableSel.getD "" == s'.stableRev
    else true
  | _, _, _ => true

/-- **C03 / C04** — `StepTrafficRouting` is skipped after `StepUpgrade` (the status goes from `StepInit` / `StepUpgrade`
    straight to `StepMetricsAnalysis` of the same step) only by a partition-style canary rollout: a canary-style
    rollout, whose stable Service stays pinned, always routes the step's traffic share explicitly. -/
def bypassPartitionOnly (w : World) (r : StepResult) : Bool :=
  match w.ro.sub, r.w.ro.sub, w.wl with
  | some s, some s', some wl =>
    if inRollingNow w.ro ∧ r.w.ro.reason = .inRolling ∧ wl.consistent ∧ (s.state = .init ∨ s.state = .upgrade) ∧
       s'.state = .metricsAnalysis then
      w.ro.style = .canary && w.ro.realPartition
    else true
  | _, _, _ => true

/-- **C03 (which pods the canary Service will select)** — when a reconcile finds the step's pods ready (the status goes
    from `StepInit` / `StepUpgrade` to `StepTrafficRouting` or, on the bypass, `StepMetricsAnalysis`), the pod-template
    hash it records — the revision the canary Service selects from then on — is the workload's `PodTemplateHash` as the
    finder reports it *now*: for a canary-style Deployment the hash of the canary Deployment's ReplicaSet, not the
    update revision of the stable Deployment and not a value recorded earlier. -/
def upgradeRecordsPodHash (w : World) (r : StepResult) : Bool :=
  match w.ro.sub, r.w.ro.sub, w.wl with
  | some s, some s', some wl =>
    if inRollingNow w.ro ∧ r.w.ro.reason = .inRolling ∧ wl.consistent ∧ (s.state = .init ∨ s.state = .upgrade) ∧
       (s'.state = .trafficRouting ∨ s'.state = .metricsAnalysis) then
      s'.podHash == wl.podTemplateHash
    else true
  | _, _, _ => true

/-- the antecedent of `firstStepPinsStable` (for the coverage statistics only) -/
def firstStepLeft (w : World) (r : StepResult) : Bool :=
  match w.ro.sub, r.w.ro.sub, w.wl with
  | some s, some s', some wl =>
    inRollingNow w.ro && r.w.ro.reason = .inRolling && w.ro.hasTraffic && wl.consistent &&
    s.state = .init && (s'.state = .upgrade || s'.state = .trafficRouting || s'.state = .metricsAnalysis) &&
    decide (s'.curIdx = s.curIdx) && pinnedFirstStep w.ro s wl
  | _, _, _ => false

/-- the antecedent of `bypassPartitionOnly` (for the coverage statistics only) -/
def bypassTaken (w : World) (r : StepResult) : Bool :=
  match w.ro.sub, r.w.ro.sub, w.wl with
  | some s, some s', some wl =>
    inRollingNow w.ro && r.w.ro.reason = .inRolling && wl.consistent && (s.state = .init || s.state = .upgrade) &&
    s'.state = .metricsAnalysis
  | _, _, _ => false

/-- the oracles added with the canary-style worlds (evaluated next to `stepOracles`) -/
def canaryStyleOracles (w : World) (r : StepResult) : List (String × Bool) :=
  [("C03.first_step_pins_stable", firstStepPinsStable w r),
   ("C03.upgrade_records_pod_hash", upgradeRecordsPodHash w r),
   ("C03.bypass_partition_only", bypassPartitionOnly w r),
   ("C04.bypass_partition_only", bypassPartitionOnly w r),
   -- C02: skipping StepTrafficRouting means the step's traffic rule is never applied before the step advances
   ("C02.bypass_partition_only", bypassPartitionOnly w r)]

end RV.Oracle.RolloutSM


/-! ### the natural advance starts the next step from its beginning -/
namespace RV.Oracle.RolloutSM
open RV.Arith RV.Traffic RV.RolloutSM

/-- **C02.i / C03** — when the controller itself moves from `StepReady` of step k to step k+1 (no jump request, plan
    unchanged), step k+1 starts at its first sub-state (`StepInit` = BeforeStepUpgrade): its pods are upgraded and reported
    ready before anything else of that step happens.  (The shortcut "same replicas ⇒ start at `StepTrafficRouting`" belongs to
    user jumps only, which `enterRoutingGated` admits from a sub-state with ready pods.) -/
def naturalAdvanceStartsInit (w : World) (r : StepResult) : Bool :=
  match w.ro.sub, r.w.ro.sub with
  | some s, some s' =>
    if inRollingNow w.ro ∧ r.w.ro.reason = .inRolling ∧ s.state = .ready ∧ s.hash = .same ∧ ¬ jumpRequested w.ro s ∧
       s'.curIdx = s.curIdx + 1 then
      s'.state = .init
    else true
  | _, _ => true

end RV.Oracle.RolloutSM
