/-
  Decidable oracles about one Rollout reconcile (C02, C03, C09, C10, C18).
-/
import RV.Model.RolloutSM
namespace RV.Oracle.RolloutSM
open RV.Arith RV.Traffic RV.RolloutSM

/-- States that cannot be produced through the API by a user of the documented editable fields
    (`nextStepIndex`, `currentStepState`, spec edits the validating webhook accepts): internal
    status corruption.  Only in these states may a reconcile panic. -/
def corrupted (w : World) : Bool :=
  let ro := w.ro
  let n : Int := ro.steps.length
  ro.steps.isEmpty ||
  (ro.phase = .progressing && ro.reason = .none) ||
  (ro.phase = .terminating && ro.term = .none) ||
  (ro.phase = .progressing && ro.reason = .inRolling && ro.sub.isNone) ||
  (match ro.sub with
   | some s => decide (s.curIdx < 1 ∨ s.curIdx > n) || s.lastUpdate = .none
   | none => false) ||
  (match w.br with
   | some b => (match b.partition with
      | none => true
      | some p => decide (p < 0 ∨ p ≥ b.batches.length))
   | none => false)

end RV.Oracle.RolloutSM
