/-
  Decidable oracles of C19 (isolation of rollouts), shared by the theorems
  (`RV/Props/IsolationThms.lean`) and by the driver, which evaluates them on what the
  implementation did.
-/
import RV.Model.Isolation
namespace RV.Oracle.Isolation
open RV.Isolation

/-- `C19.same_as_solo`: what rollout `r` observed in the run of the whole process is what it
    observed when it ran alone -/
def sameAsSolo {Obs : Type} [BEq Obs] (r : Nat) (joint solo : List (Nat × Obs)) : Bool :=
  obsOf r joint == obsOf r solo

/-- `C19.keys_distinct`: per rollout, the keys of the shared maps its operations used.  Every key
    is non-empty and no key is used by two rollouts. -/
def keysDistinct (used : List (Nat × List String)) : Bool :=
  used.all fun a =>
    a.2.all (fun k => k != "") &&
    used.all fun b => a.1 == b.1 || a.2.all (fun k => !b.2.contains k)

/-- `C19.writes_within_footprint`: every API write of a rollout's call is on one of its own objects -/
def writesWithin (fp : List ObjKey) (writes : List ObjKey) : Bool :=
  writes.all fun w => fp.contains w

def disjointKeys (a b : List ObjKey) : Bool := a.all fun k => !b.contains k

/-- `C19.action_frame`: a call leaves every record of the shared map whose action is not one of its own
    exactly as it was (rows are (key, action, age)) -/
def actionFrame (allowed : List String) (pre post : List (String × String × Int)) : Bool :=
  (pre.filter fun r => !allowed.contains r.2.1) == (post.filter fun r => !allowed.contains r.2.1)

/-- `C19.closure_error_reported`: when the closure (the API write) failed, the call says retry-with-error;
    it never reports completion -/
def errorReported (closureErr retry err : Bool) : Bool := !closureErr || (retry && err)

/-! ### who is who -/

/-- a Kubernetes namespace or object name never contains '/'; neither does a UID -/
def noSlash (s : String) : Bool := !s.toList.contains '/'

/-- the API objects whose identity enters the grace keys of one rollout's traffic routing -/
structure RIdent where
  /-- namespace of the Rollout / TrafficRouting and of everything it routes -/
  ns : String
  /-- UID of the Rollout / TrafficRouting object (as fetched by `Reconcile`) -/
  ownerUID : String
  /-- name of the stable Service (`ObjectRef[0].Service`) -/
  svc : String
  /-- UID of the stable Service (as fetched by the Manager) -/
  svcUID : String
  deriving Repr, DecidableEq, Inhabited

/-- the controller keys under which a rollout's Manager calls use the grace map -/
def RIdent.keys (a : RIdent) : List String :=
  [a.ownerUID, a.svcUID, nsName a.ns (a.svc ++ "-canary")]

def RIdent.wf (a : RIdent) : Bool :=
  noSlash a.ownerUID && noSlash a.svcUID && noSlash a.ns

/-- the two rollouts are about different objects: all four UIDs differ (the API server never gives
    one UID to two objects) and the stable Services differ in namespace or name -/
def RIdent.distinct (a b : RIdent) : Bool :=
  a.ownerUID != b.ownerUID && a.ownerUID != b.svcUID && a.svcUID != b.ownerUID && a.svcUID != b.svcUID &&
  !(a.ns == b.ns && a.svc == b.svc)

/-- the Manager call `x` is made for rollout `a` with canary Service generation: its context is `a`'s and the
    stable Service it fetched is `a`'s -/
def callOf (a : RIdent) (x : MCall) : Bool :=
  x.c.ns == a.ns && x.c.ownerUID == a.ownerUID &&
  (match x.c.refs with | [] => true | r :: _ => r.service == a.svc) &&
  (match x.stable with | .ok o => o.uid == a.svcUID | _ => true)

def opOf (a : RIdent) : MOp → Bool
  | .call x => callOf a x
  | .finalising x y z => callOf a x && callOf a y && callOf a z

/-- every operation of the trace is made for the rollout that owns it -/
def traceOf (ids : List (Nat × RIdent)) (tr : List (Ev MOp)) : Bool :=
  tr.all fun e => match e with
    | .op r o => match ids.lookup r with
      | some a => opOf a o
      | none => false
    | _ => true

/-- all rollouts of the process are well-formed and pairwise about different objects -/
def allDistinct (ids : List (Nat × RIdent)) : Bool :=
  ids.all fun a => a.2.wf && ids.all fun b => a.1 == b.1 || a.2.distinct b.2

/-! ### BatchRelease expectations -/

/-- identity of a BatchRelease: (namespace, name) -/
def relDistinct (ns₁ n₁ ns₂ n₂ : String) : Bool := !(ns₁ == ns₂ && n₁ == n₂)

/-- the operations a BatchRelease `(ns, n)` performs on the resource expectations -/
def brOpOf (ns n : String) : EOp → Bool
  | .brCreate _ ns' n' _ _ _ _ => ns' == ns && n' == n
  | .brObserved ns' _ o => ns' == ns && (match o with | some ow => ow.kind != "BatchRelease" || ow.name == n | none => true)
  | _ => false

/-- every operation of the trace is performed by the BatchRelease that owns it -/
def brTraceOf (rels : List (Nat × String × String)) (tr : List (Ev EOp)) : Bool :=
  tr.all fun e => match e with
    | .op r o => match rels.lookup r with
      | some x => brOpOf x.1 x.2 o
      | none => false
    | _ => true

def brAllDistinct (rels : List (Nat × String × String)) : Bool :=
  rels.all fun a => noSlash a.2.1 && rels.all fun b => a.1 == b.1 || relDistinct a.2.1 a.2.2 b.2.1 b.2.2

/-- `C19.create_respects_expectation`: a BatchRelease may create a canary Deployment only when it has no
    unobserved creation under its own key, or that expectation has been unsatisfied for the timeout.
    `pending`: some action of the key has a non-empty set before the call; `unsatAge`: age of the first
    unsatisfied time stamp before the call -/
def createAllowed (pending : Bool) (unsatAge : Option Nat) (timeout : Nat) (res : CreateOut) : Bool :=
  if res = .created then
    !pending || (match unsatAge with | some a => decide (a ≥ timeout) | none => decide (timeout = 0))
  else true

/-- the two inputs of `createAllowed`, read from the store before the call -/
def pendingOf (st : ExpStore) (ck : String) : Bool :=
  match aget st ck with
  | some e => e.objs.any (fun x => x.2.length > 0)
  | none => false

def unsatAgeOf (st : ExpStore) (now : Nat) (ck : String) : Option Nat :=
  match aget st ck with
  | some e => e.firstUnsat.map (now - ·)
  | none => none

/-! ### dynamic watch registry: what the recording controller and the registry hook saw -/

/-- one reconcile of the real controller -/
structure WRec where
  r : Nat
  gvk : String
  /-- outcome of every `Watch` call the reconcile made (true = success) -/
  attempts : List Bool
  /-- non-static kinds in `watchedWorkload` when the reconcile returned -/
  registry : List String
  /-- the reconcile returned an error -/
  err : Bool
  /-- how many of the immediately preceding records ran while this reconcile's `Watch` call was in flight
      (they come after its `Load`) -/
  during : Nat
  deriving Repr, DecidableEq, Inhabited

/-- kinds for which some `Watch` call has succeeded -/
def succKinds (recs : List WRec) : List String :=
  recs.filterMap fun x => if x.attempts.any id then some x.gvk else none

def sameSet (a b : List String) : Bool := a.all b.contains && b.all a.contains

/-- `C19.watch_registered_iff_succeeded`: after every reconcile, the non-static kinds in the registry are exactly
    the kinds for which a `Watch` call has succeeded (nothing is claimed without a watcher) -/
def watchRegIffSucc (static : List String) (recs : List WRec) : Bool :=
  (List.range recs.length).all fun i =>
    match recs[i]? with
    | some x => sameSet x.registry ((succKinds (recs.take (i + 1))).filter (!static.contains ·)).eraseDups
    | none => true

/-- `C19.watch_failed_not_registered`: a reconcile calls `Watch` exactly when, at its `Load`, the kind is not static
    and no `Watch` call for it has succeeded yet — in particular after a failed call the next reconcile of *any*
    rollout of that kind calls `Watch` again -/
def watchRetried (static : List String) (recs : List WRec) : Bool :=
  (List.range recs.length).all fun i =>
    match recs[i]? with
    | some x =>
      let before := recs.take (i - x.during)
      (!x.attempts.isEmpty) == (!static.contains x.gvk && !(succKinds before).contains x.gvk)
    | none => true

/-- `C19.watch_error_reported`: a failed `Watch` makes `Reconcile` return an error (so the request is retried) -/
def watchErrReported (recs : List WRec) : Bool := recs.all fun x => !(x.attempts.any (!·)) || x.err

/-- after each reconcile of rollout `r`: is a watcher for its kind established? -/
def establishedSeq (static : List String) (r : Nat) (recs : List WRec) : List Bool :=
  (List.range recs.length).filterMap fun i =>
    match recs[i]? with
    | some x => if x.r = r then some (static.contains x.gvk || (succKinds (recs.take (i + 1))).contains x.gvk) else none
    | none => none

/-- `C19.same_as_solo` for the watch registry.  The fault schedule belongs to each rollout (its k-th own `Watch` call
    fails), so the solo run is the rollout's reconciles under its own schedule.  `shared`: another rollout has the
    same non-static kind.  Not shared: the rollout has a watcher after its i-th reconcile in the joint run iff it
    has one after its i-th reconcile alone.  Shared (registration is shared by design): other rollouts can only
    help — whenever it has a watcher alone, it has one in the joint run. -/
def watchSolo (shared : Bool) (joint solo : List Bool) : Bool :=
  joint.length == solo.length && (joint.zip solo).all (fun p => !p.2 || p.1) && (shared || joint == solo)

/-! ### API objects -/

/-- the names of two rollouts' network objects do not run into each other: none of the four objects
    of one is an object of the other -/
def noNameClash (ns₁ svc₁ ing₁ : String) (o₁ d₁ : Bool) (ns₂ svc₂ ing₂ : String) (o₂ d₂ : Bool) : Bool :=
  disjointKeys (footprint ns₁ svc₁ ing₁ o₁ d₁) (footprint ns₂ svc₂ ing₂ o₂ d₂)

end RV.Oracle.Isolation
