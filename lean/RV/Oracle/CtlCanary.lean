/-
  Decidable oracles about one call of the canary-style Deployment control plane
  (world before, call, result and world after), shared by the theorems
  (`RV.Props.CtlCanary`) and by the driver, which evaluates them on the *implementation's* output.
  Attached to C06, C01, C05, C18.
-/
import RV.Model.CtlCanary
namespace RV.Oracle.CtlCanary
open RV.Arith RV.CtlCanary

/-- owned by this BatchRelease (controller owner reference) — what `listDeployment` keeps -/
def owned (d : Dep) : Bool := d.owner = .this

/-- API-server fact assumed of every world: object names are unique -/
def namesNodup (w : World) : Bool := decide (w.deps.map (·.name)).Nodup

/-- an active Deployment of this BatchRelease whose pod template is the stable Deployment's current one
    (modulo the metadata the BatchRelease patches in and the pod-template-hash label) -/
def matching (br : BR) (w : World) (d : Dep) : Bool :=
  owned d && !d.deleting &&
  (match w.find br.key with
   | some st => eqIgnore br st.template d.template
   | none => false)

def matchCount (br : BR) (w : World) : Nat := (w.deps.filter (matching br w)).length

/-- the Deployments of `w'` that did not exist in `w` -/
def newDeps (w w' : World) : List Dep := w'.deps.filter (fun d => (w.find d.name).isNone)

/-- what a canary Deployment must look like when the plane creates it -/
def wellFormedCanary (br : BR) (w : World) (d : Dep) : Bool :=
  d.owner = .this && d.ctrl = .this && d.canaryOf = some br.key && d.finalizer && !d.otherFinalizer && !d.deleting &&
  d.replicas = some 0 && !d.paused && matching br w d

/-- the canary Deployment the plane works on: newest active owned one with the current template
    (newest active owned one when the stable Deployment is gone) -/
def selectCanary (br : BR) (w : World) : Option Dep :=
  filterCanary br (filterActive (w.deps.filter (fun d => d.owner = .this))) ((w.find br.key).map (·.template))

/-- `CalculateBatchReplicas(stable replicas, batches[currentBatch])` -/
def target (br : BR) (w : World) : Option Int :=
  match w.find br.key with
  | none => none
  | some st =>
    match st.replicas, batchEntry br with
    | some R, some e => some (calcBatchReplicas R e)
    | _, _ => none

/-! ### C06 -/

/-- C06 `finalize_ok_means_gone`: when `Finalize` returns no error, no Deployment owned by this
    BatchRelease still carries the batch-release finalizer. -/
def finalizeOkMeansGone (op : Op) (o : StepOut) : Bool :=
  if op = .fin ∧ o.res = .ok then o.w.deps.all (fun d => !(owned d && d.finalizer)) else true

/-- C06: errors are never swallowed — if any API call of this call failed, the call reports an error. -/
def faultReported (c : Cfg) (o : StepOut) : Bool :=
  match c.failAt with
  | some k => if k < o.calls then o.res = .err else true
  | none => true

/-- C06 `initialize_single_canary`, per call: a Deployment appears only in `Initialize`, one at a time,
    only when no active owned Deployment has the current template, and it is a well-formed canary. -/
def createGuarded (br : BR) (op : Op) (w : World) (o : StepOut) : Bool :=
  match newDeps w o.w with
  | [] => true
  | [d] => op = .init && matchCount br w == 0 && wellFormedCanary br o.w d
  | _ => false

/-- C06: the number of active canaries for the current template never grows beyond one. -/
def singleCanary (br : BR) (w : World) (o : StepOut) : Bool :=
  decide (matchCount br o.w ≤ max 1 (matchCount br w))

/-- C06: the in-memory creation expectation guards `create` (it is what prevents a second canary while the
    informer has not yet shown the first): with a pending, not timed-out expectation nothing is created, and
    whenever something is created the expectation is pending afterwards. -/
def expectationGuardsCreate (c : Cfg) (w : World) (exp : Exp) (o : StepOut) : Bool :=
  (if exp = .pending ∧ c.timedOut = false then decide (o.w.deps.length ≤ w.deps.length) else true) &&
  (if o.w.deps.length > w.deps.length then o.exp = .pending else true)

/-! ### C01 -/

/-- C01 `canary_replicas_within_step`: `spec.replicas` of every Deployment is unchanged, or — only in
    `UpgradeBatch`, only for a Deployment of this BatchRelease — raised to exactly the current step's
    target; a new Deployment starts with 0. -/
def replicasWithinStep (br : BR) (op : Op) (w : World) (o : StepOut) : Bool :=
  o.w.deps.all fun d' =>
    match w.find d'.name with
    | none => d'.replicas = some 0
    | some d =>
      d'.replicas = d.replicas ||
      (op = .upgrade && owned d &&
        (match target br w, d.replicas with
         | some t, some r => d'.replicas = some t && decide (r < t)
         | _, _ => false))

/-- C01: a successful `UpgradeBatch` leaves the canary at `max(current, target)` — exactly the target
    unless the canary was already larger. -/
def upgradeReachesTarget (br : BR) (op : Op) (w : World) (o : StepOut) : Bool :=
  if op = .upgrade ∧ o.res = .ok then
    match w.find br.key with
    | none => false
    | some st =>
      if st.replicas = some 0 then true else
      match selectCanary br w, target br w with
      | some cd, some t =>
        (match cd.replicas, o.w.find cd.name with
         | some r, some d' => d'.replicas = some (max r t)
         | _, _ => false)
      | _, _ => false
  else true

/-! ### C05 -/

/-- C05 `finalize_releases_stable`: after a successful `Finalize` the stable Deployment (if it exists)
    has no control-info and `paused = (batchPartition ≠ nil)` — un-paused when the release is promoted. -/
def finalizeReleasesStable (br : BR) (op : Op) (o : StepOut) : Bool :=
  if op = .fin ∧ o.res = .ok then
    match o.w.find br.key with
    | none => true
    | some st => st.ctrl = .none && st.paused == br.partition.isSome
  else true

/-- C11 / C05 `finalize_done_means_resumed`: when `Finalize` with finalizing policy WaitResume returns no
    error (the BatchRelease will report `Completed`), the stable Deployment **as stored after the call** —
    not whatever object the call happened to look at — really is promoted: not paused, every created
    replica updated, availability within maxUnavailable (`waitAllUpdatedAndReady`), or it does not exist. -/
def finalizeDoneMeansResumed (br : BR) (op : Op) (o : StepOut) : Bool :=
  if op = .fin ∧ o.res = .ok ∧ br.waitResume = true then
    match o.w.find br.key with
    | none => true
    | some st => waitAllUpdatedAndReady st = .ok
  else true

/-- C05: the plane changes nothing of the stable Deployment but control-info and paused (and the
    generation the API server bumps); paused only in `Finalize`, control-info only in `Initialize` / `Finalize`. -/
def stableFrame (br : BR) (op : Op) (w : World) (o : StepOut) : Bool :=
  match w.find br.key with
  | none => true
  | some st =>
    match o.w.find br.key with
    | none => st.owner = .this       -- only an owned Deployment can disappear (Finalize, in deletion)
    | some st' =>
      st.owner = .this ||
      (decide ({ st' with ctrl := st.ctrl, paused := st.paused, generation := st.generation } = st) &&
       (op = .fin || st'.paused == st.paused) &&
       (op = .fin || op = .init || st'.ctrl = st.ctrl))

/-! ### C18 -/

/-- C18: outside `Finalize` no Deployment loses the batch-release finalizer or disappears. -/
def finalizerOnlyByFinalize (op : Op) (w : World) (o : StepOut) : Bool :=
  if op = .fin then true else
  w.deps.all fun d =>
    match o.w.find d.name with
    | some d' => d'.finalizer == d.finalizer && d'.otherFinalizer == d.otherFinalizer && d'.deleting == d.deleting
    | none => false

/-- C18 / C19: Deployments that are neither owned by this BatchRelease nor its workload are never touched. -/
def foreignUntouched (br : BR) (w : World) (o : StepOut) : Bool :=
  w.deps.all fun d => owned d || d.name == br.key || o.w.find d.name == some d

/-- C18: `Finalize` removes nothing but the batch-release finalizer from owned Deployments. -/
def finalizeOnlyDropsFinalizer (br : BR) (op : Op) (w : World) (o : StepOut) : Bool :=
  if op = .fin then
    w.deps.all fun d =>
      d.name == br.key ||
      (match o.w.find d.name with
       | some d' => d' = d || (owned d && d.finalizer && d' = { d with finalizer := false })
       | none => owned d && d.finalizer && d.deleting && !d.otherFinalizer)
  else true

/-- the plane may panic only on objects the API server would not serve (`spec.replicas` nil, a rollingUpdate
    strategy without its block, pod-template labels nil while the BatchRelease patches labels) or on a
    current batch outside the plan -/
def panicAllowed (br : BR) (w : World) : Bool :=
  batchEntry br = none ||
  w.deps.any (fun d => d.replicas = none || (d.strategy.type = .rolling && d.strategy.rolling = none) ||
                       d.template.labels.isEmpty)

def stepOracles (br : BR) (op : Op) (c : Cfg) (w : World) (exp : Exp) (o : StepOut) : List (String × Bool) :=
  if o.res = .panic then [("C09.canary_no_panic", panicAllowed br w)] else
  [ ("C06.canary_finalize_ok_means_gone", finalizeOkMeansGone op o),
    ("C06.canary_fault_reported", faultReported c o),
    ("C06.canary_create_guarded", createGuarded br op w o),
    ("C06.canary_initialize_single", singleCanary br w o),
    ("C06.canary_expectation_guards_create", expectationGuardsCreate c w exp o),
    ("C01.canary_replicas_within_step", replicasWithinStep br op w o),
    ("C01.canary_upgrade_reaches_target", upgradeReachesTarget br op w o),
    ("C05.canary_finalize_releases_stable", finalizeReleasesStable br op o),
    ("C05.canary_finalize_ok_means_gone", finalizeOkMeansGone op o),
    -- C18: the BatchRelease reaches Completed (and then drops its own finalizer) only through a Finalize that
    -- returned ok, which therefore must have released every canary Deployment it owns
    ("C18.canary_finalize_ok_means_gone", finalizeOkMeansGone op o),
    ("C05.canary_stable_frame", stableFrame br op w o),
    ("C05.canary_finalize_done_means_resumed", finalizeDoneMeansResumed br op o),
    ("C11.canary_finalize_done_means_resumed", finalizeDoneMeansResumed br op o),
    ("C18.canary_finalizer_only_by_finalize", finalizerOnlyByFinalize op w o),
    ("C18.canary_foreign_untouched", foreignUntouched br w o),
    ("C18.canary_finalize_only_drops_finalizer", finalizeOnlyDropsFinalizer br op w o) ]

end RV.Oracle.CtlCanary
