/-
  Progress of the closed loop (C07): the fair healthy round, the explicit measure `mu`, and the round-boundary facts.
  Evaluated by the driver on the fair walks of the real controllers, and used by the theorems of `RV.Props.ClosedLoop`.
-/
import RV.Oracle.ClosedLoop
import RV.Oracle.Executor
namespace RV.Oracle.ClosedLoop
open RV.Arith RV.Traffic RV.RolloutSM RV.ClosedLoop

/-- the fair healthy round: both reconcilers, the CloneSet controller catches up, the user approves, time passes -/
def roundLabels : List Label := [.ro, .br, .env, .approve, .tick]

def round (s : CS) : Option CS := run s roundLabels

def rounds : Nat → CS → Option CS
  | 0, s => some s
  | k + 1, s => match round s with | some s' => rounds k s' | none => none

/-- ranks inside one step are below this -/
def stepW : Nat := 64

/-- rank of the BatchRelease / executor while the rollout waits in `StepUpgrade` (higher = further from Ready) -/
def brRank (s : CS) (sub : Sub) (w : CWl) : Nat :=
  match s.br with
  | none => 30
  | some b =>
    if b.partition ≠ some (sub.curIdx - 1) then 28
    else match b.st.phase with
      | .empty => 27
      | .preparing => 26
      | .progressing =>
        if b.st.hash ≠ .same then 25
        else match b.st.batchState with
          | .verifying => if b.st.updated ≠ w.updated ∨ b.st.updatedReady ≠ w.updatedReady then 20 else 18
          | .ready => 16
          | _ => 22
      | _ => 29

/-- rank of the sub-state of the step the rollout is on -/
def subRank (s : CS) (sub : Sub) (w : CWl) : Nat :=
  match sub.state with
  | .init => 40
  | .upgrade => brRank s sub w
  | .trafficRouting => 8
  | .metricsAnalysis => 6
  | .paused => 4
  | .ready => 2
  | .completed => 1
  | .other => 0

/-- rank of the clean-up: cursor, then what the BatchRelease still has to go through -/
def finRank (s : CS) (sub : Sub) : Nat :=
  match sub.finStep with
  | .empty => 20
  | .restoreStableService => 18
  | .routeTrafficToStable => 16
  | .removeCanaryService => 14
  | .resumeWorkload =>
    (match s.br with
     | none => 9
     | some b => if b.partition.isSome then 12 else if b.st.phase ≠ .completed then 11 else 10)
  | .releaseWorkloadControl =>
    (match s.br with
     | none => 6
     | some b => if b.deleting then 7 else 8)
  | .end_ => 5
  | _ => 21

/-- **the measure**: 0 exactly in the idle Healthy state; lexicographic in (phase, steps left, sub-state, executor) -/
def mu (s : CS) : Nat :=
  let n := s.ro.steps.length
  match s.wl with
  | none => 0
  | some w =>
    match s.ro.phase, s.ro.reason with
    | .healthy, _ => if w.inProgressAnno then 32 + n * stepW + 2 + (if w.generation = w.observedGeneration then 0 else 1) else 0
    | .progressing, .initializing => 32 + n * stepW + (if s.ro.condAge = .fresh then 1 else 0)
    | .progressing, .inRolling =>
      (match s.ro.sub with
       | some sub => 32 + (n - sub.curIdx.toNat) * stepW + subRank s sub w
       | none => 0)
    | .progressing, .finalising => (match s.ro.sub with | some sub => 2 + finRank s sub | none => 0)
    | .progressing, .completed => 1
    | _, _ => 0

/-- the release is over: Healthy, nothing in progress, no BatchRelease -/
def idleDone (s : CS) : Bool :=
  !s.gone && s.ro.phase == .healthy && s.br.isNone &&
  (match s.wl with | some w => !w.inProgressAnno | none => false)

/-- **C05.i / C07** — the terminal state is clean: succeeded, partition released, all replicas updated and observed -/
def terminalOK (s : CS) : Bool :=
  idleDone s && s.ro.succeeded == some true &&
  (match s.wl with
   | some w => w.partition.isNone && !w.paused && w.owner == .none && w.updated == w.replicas && w.generation == w.observedGeneration &&
       w.currentRevision == w.updateRevision
   | none => false)

/-- **C07 (oracle on the fair walks of the real controllers)** — over the states at the round boundaries of a healthy fair run,
    from the release on: from every boundary state that is not idle-done, within `K` rounds the measure is strictly smaller -/
def measureDecreases (K : Nat) : List CS → Bool
  | [] => true
  | s :: rest =>
    (idleDone s || mu s == 0 || ((rest.take K).any fun t => mu t < mu s) || rest.length < K) && measureDecreases K rest

/-- first boundary index (diagnostics) at which `measureDecreases` fails -/
def measureFirstBad (K : Nat) : List CS → Nat → Option (Nat × Nat)
  | [], _ => none
  | s :: rest, i =>
    if idleDone s || mu s == 0 || ((rest.take K).any fun t => mu t < mu s) || rest.length < K then measureFirstBad K rest (i + 1)
    else some (i, mu s)

/-- bound of the measure: every state has `mu s ≤ muBound` -/
def muBound (n : Nat) : Nat := 32 + n * stepW + 4

end RV.Oracle.ClosedLoop

/-! ### round-boundary classes of a healthy run without traffic routing (used by the progress theorems) -/
namespace RV.Oracle.ClosedLoop
open RV.Arith RV.Traffic RV.RolloutSM RV.ClosedLoop

/-- the configuration the progress theorems speak about: no traffic routing (no step carries a weight), no pause that
    never elapses, at least one replica, and every step's partition lets the workload reach what the readiness check demands
    (excludes known finding `pctFallback`) -/
def stepReady (R : Int) (e : IntOrPct) : Bool :=
  decide (RV.BatchCtx.desiredOf .cloneSet R e none ≤ exposure (RV.BatchCtx.desKnob .cloneSet R e none) R) &&
  decide (0 < RV.BatchCtx.desiredOf .cloneSet R e none → 0 < exposure (RV.BatchCtx.desKnob .cloneSet R e none) R)

def liveCfg (s : CS) : Bool :=
  !s.ro.hasTraffic && s.ro.steps.all (fun st => st.weight.isNone && st.pause != .long) &&
  (match s.wl with
   | some w => decide (0 < w.replicas) && (planOf s.ro).all (stepReady w.replicas) && !w.paused && w.updateRevision != ""
   | none => false)

/-- what holds at the end of every fair round: the CloneSet controller has caught up (one more `env` changes nothing) and
    every recorded time has aged (one more `tick` changes nothing) -/
def atBoundary (s : CS) : Bool :=
  (match s.wl with | some w => envWl w == w | none => false) && (tick s == s)

/-- the executor's status is in step with the object: counters refreshed, generation observed, finalizer set, nothing pending -/
def brSync (b : CBr) (w : CWl) : Bool :=
  b.st.updated == w.updated && b.st.updatedReady == w.updatedReady && b.generation == b.observedGeneration &&
  b.hasFinalizer && !b.deleting && b.observedRolloutID == b.rolloutID && b.rolloutID == w.updateRevision &&
  b.specOther && b.failureThreshold.isNone && b.st.hash == .same

/-- the executor has initialised the release: revisions and size recorded, workload claimed -/
def brInit (b : CBr) (w : CWl) : Bool :=
  b.st.updateRevision == "wl-" ++ w.updateRevision && b.st.observedReplicas == w.replicas && w.owner == .this &&
  b.st.phase == .progressing

/-- `brSync` without the refreshed counters (the workload moved since the executor looked) -/
def brSyncLag (b : CBr) (w : CWl) : Bool :=
  (b.st.updated != w.updated || b.st.updatedReady != w.updatedReady) && b.generation == b.observedGeneration &&
  b.hasFinalizer && !b.deleting && b.observedRolloutID == b.rolloutID && b.rolloutID == w.updateRevision &&
  b.specOther && b.failureThreshold.isNone && b.st.hash == .same

/-- the partition in force keeps at most as many pods on the old revision as the partition computed for the executor's batch
    (post-condition of `UpgradeBatch`) -/
def partLow (b : CBr) (w : CWl) : Bool :=
  match w.partition, (if b.st.currentBatch < 0 then none else b.batches[b.st.currentBatch.toNat]?) with
  | some k, some e => decide (scaledV k w.replicas true ≤ scaledV (RV.BatchCtx.desKnob .cloneSet w.replicas e none) w.replicas true)
  | _, _ => false

/-- class of a round-boundary state (0 = none of the listed classes) -/
def cls (s : CS) : Nat :=
  match s.wl with
  | none => 0
  | some w =>
    match s.ro.phase, s.ro.reason with
    | .healthy, _ =>
      if w.inProgressAnno then
        (if w.updateRevision == w.currentRevision then 0 else if w.generation = w.observedGeneration then 2
         else if w.updated < w.replicas then 1 else 0)
      else if s.br.isNone && (match s.ro.sub with | some sub => sub.state != .paused | none => false) &&
              csObserve s.ro (roWl w) == s.ro then 40 else 0
    | .progressing, .initializing => if s.ro.condAge = .fresh || w.updateRevision == w.currentRevision then 0 else 4
    | .progressing, .inRolling =>
      (match s.ro.sub with
       | none => 0
       | some sub =>
         match sub.state with
         | .init =>
           (match s.br with
            | none => if sub.curIdx = 1 && w.updateRevision != w.currentRevision then 5 else 0
            | some b => if brSync b w && brInit b w && b.st.batchState == .ready && b.st.hasReadyTime &&
                           b.partition == some (sub.curIdx - 2) && b.st.currentBatch == sub.curIdx - 2 &&
                           RV.Oracle.Executor.batchReadyNow (exBr b) (some (exWl w)) then 5 else 0)
         | .upgrade =>
           (match s.br with
            | none => if sub.curIdx = 1 && w.updateRevision != w.currentRevision then 6 else 0
            | some b =>
              if b.partition == some (sub.curIdx - 2) then
                (if brSync b w && brInit b w && b.st.batchState == .ready && b.st.hasReadyTime && b.st.currentBatch == sub.curIdx - 2 &&
                    RV.Oracle.Executor.batchReadyNow (exBr b) (some (exWl w)) then 7 else 0)
              else if b.partition == some (sub.curIdx - 1) then
                (if brSyncLag b w && brInit b w && b.st.currentBatch == sub.curIdx - 1 && b.st.batchState == .verifying && partLow b w then 10
                 else if !brSync b w then 0
                 else if b.st.phase == .preparing then
                   (if b.st.batchState == .empty && b.st.currentBatch == 0 && b.st.observedReplicas == -1 && b.st.updateRevision == "" &&
                       sub.curIdx == 1 && w.updateRevision != w.currentRevision then 8 else 0)
                 else if !brInit b w || b.st.currentBatch != sub.curIdx - 1 then 0
                 else match b.st.batchState with
                   | .empty | .upgrading => 9
                   | .verifying => if partLow b w then 11 else 0
                   | .ready => if b.st.hasReadyTime && RV.Oracle.Executor.batchReadyNow (exBr b) (some (exWl w)) then 12 else 0
                   | .other => 0)
              else 0)
         | .trafficRouting | .metricsAnalysis | .ready | .completed =>
           (match s.br with
            | some b => if brSync b w && brInit b w && b.st.batchState == .ready && b.st.hasReadyTime &&
                           b.partition == some (sub.curIdx - 1) && b.st.currentBatch == sub.curIdx - 1 &&
                           RV.Oracle.Executor.batchReadyNow (exBr b) (some (exWl w)) then
                         (match sub.state with | .trafficRouting => 13 | .metricsAnalysis => 14 | .ready => 16 | _ => 17) else 0
            | none => 0)
         | _ => 0)
    | .progressing, .finalising =>
      (match s.ro.sub with
       | none => 0
       | some sub =>
         match sub.finStep, s.br with
         | .empty, some b | .restoreStableService, some b | .routeTrafficToStable, some b | .removeCanaryService, some b =>
           if brSync b w && brInit b w && b.st.batchState == .ready && b.partition.isSome &&
              RV.Oracle.Executor.batchReadyNow (exBr b) (some (exWl w)) && isPartitioned' b then
             (match sub.finStep with | .empty => 20 | .restoreStableService => 21 | .routeTrafficToStable => 22 | _ => 23) else 0
         | .resumeWorkload, some b =>
           if b.partition.isSome then
             (if brSync b w && brInit b w && b.st.batchState == .ready && RV.Oracle.Executor.batchReadyNow (exBr b) (some (exWl w)) && isPartitioned' b then 24 else 0)
           else if b.st.phase == .finalizing then
             (if b.st.updated == w.updated && b.st.updatedReady == w.updatedReady && b.generation == b.observedGeneration &&
                 b.hasFinalizer && !b.deleting && b.policy == "WaitResume" && b.st.hash != .empty &&
                 b.observedRolloutID == b.rolloutID then 25 else 0)
           else if b.st.phase == .completed then (if !b.deleting && b.hasFinalizer then 26 else 0) else 0
         | .releaseWorkloadControl, some b => if b.st.phase == .completed && !b.deleting && b.hasFinalizer then 27 else 0
         | .releaseWorkloadControl, none => 29
         | _, _ => 0)
    | .progressing, .completed => if s.br.isNone && s.ro.sub.isSome then 30 else 0
    | _, _ => 0
where
  isPartitioned' (b : CBr) : Bool := match b.partition with | some p => decide (p ≤ b.st.currentBatch) | none => false

/-- **the round-boundary invariant of a healthy run without traffic routing**: the forward invariant, the configuration, one of
    the listed classes, and (except right after the release, class 1) the round-boundary facts -/
def liveInv (s : CS) : Bool :=
  fwdInv s && liveCfg s && cls s != 0 && (cls s == 1 || atBoundary s)

/-- what the end of the clean-up has achieved (carried along the rounds next to `liveInv`, needed for `terminalOK`): once the
    BatchRelease has completed (`mu ≤ 12`: classes 26, 27, 29, 30, 40) the CloneSet is released — no partition, not paused, no
    owner — and once the rollout has left `Finalising` (`mu ≤ 1`: classes 30, 40) it is recorded as succeeded -/
def doneInv (s : CS) : Bool :=
  match s.wl with
  | none => true
  | some w =>
    (decide (12 < mu s) || (w.partition.isNone && !w.paused && w.owner == .none)) &&
    (decide (1 < mu s) || s.ro.succeeded == some true)

/-- the release policy of the BatchRelease while the rollout is rolling (`32 < mu`) is the empty one the Rollout controller writes
    (carried along the rounds next to `liveInv`; `WaitResume` is written only by the clean-up) -/
def polInv (s : CS) : Bool :=
  match s.br with
  | some b => decide (mu s ≤ 32) || b.policy == ""
  | none => true

end RV.Oracle.ClosedLoop
