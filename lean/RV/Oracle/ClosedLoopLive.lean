/-
  Progress of the closed loop (C07): the fair healthy round, the explicit measure `mu`, and the round-boundary facts.
  Evaluated by the driver on the fair walks of the real controllers, and used by the theorems of `RV.Props.ClosedLoop`.
-/
import RV.Oracle.ClosedLoop
namespace RV.Oracle.ClosedLoop
open RV.Arith RV.Traffic RV.RolloutSM RV.ClosedLoop

/-- the fair healthy round: both reconcilers, the CloneSet controller catches up, the user approves, time passes -/
def roundLabels : List Label := [.ro, .br, .env, .approve, .tick]

def round (s : CS) : Option CS := run s roundLabels

def rounds : Nat → CS → Option CS
  | 0, s => some s
  | k + 1, s => match round s with | some s' => rounds k s' | none => none

/-- ranks inside one step are below this -/
def stepW : Nat := 64

/-- rank of the BatchRelease / executor while the rollout waits in `StepUpgrade` (higher = further from Ready) -/
def brRank (s : CS) (sub : Sub) (w : CWl) : Nat :=
  match s.br with
  | none => 30
  | some b =>
    if b.partition ≠ some (sub.curIdx - 1) then 28
    else match b.st.phase with
      | .empty => 27
      | .preparing => 26
      | .progressing =>
        if b.st.hash ≠ .same then 25
        else match b.st.batchState with
          | .verifying => if b.st.updated ≠ w.updated ∨ b.st.updatedReady ≠ w.updatedReady then 20 else 18
          | .ready => 16
          | _ => 22
      | _ => 29

/-- rank of the sub-state of the step the rollout is on -/
def subRank (s : CS) (sub : Sub) (w : CWl) : Nat :=
  match sub.state with
  | .init => 40
  | .upgrade => brRank s sub w
  | .trafficRouting => 8
  | .metricsAnalysis => 6
  | .paused => 4
  | .ready => 2
  | .completed => 1
  | .other => 0

/-- rank of the clean-up: cursor, then what the BatchRelease still has to go through -/
def finRank (s : CS) (sub : Sub) : Nat :=
  match sub.finStep with
  | .empty => 20
  | .restoreStableService => 18
  | .routeTrafficToStable => 16
  | .removeCanaryService => 14
  | .resumeWorkload =>
    (match s.br with
     | none => 9
     | some b => if b.partition.isSome then 12 else if b.st.phase ≠ .completed then 11 else 10)
  | .releaseWorkloadControl =>
    (match s.br with
     | none => 6
     | some b => if b.deleting then 7 else 8)
  | .end_ => 5
  | _ => 21

/-- **the measure**: 0 exactly in the idle Healthy state; lexicographic in (phase, steps left, sub-state, executor) -/
def mu (s : CS) : Nat :=
  let n := s.ro.steps.length
  match s.wl with
  | none => 0
  | some w =>
    match s.ro.phase, s.ro.reason with
    | .healthy, _ => if w.inProgressAnno then 32 + n * stepW + 2 + (if w.generation = w.observedGeneration then 0 else 1) else 0
    | .progressing, .initializing => 32 + n * stepW + (if s.ro.condAge = .fresh then 1 else 0)
    | .progressing, .inRolling =>
      (match s.ro.sub with
       | some sub => 32 + (n - sub.curIdx.toNat) * stepW + subRank s sub w
       | none => 0)
    | .progressing, .finalising => (match s.ro.sub with | some sub => 2 + finRank s sub | none => 0)
    | .progressing, .completed => 1
    | _, _ => 0

/-- the release is over: Healthy, nothing in progress, no BatchRelease -/
def idleDone (s : CS) : Bool :=
  !s.gone && s.ro.phase == .healthy && s.br.isNone &&
  (match s.wl with | some w => !w.inProgressAnno | none => false)

/-- **C05.i / C07** — the terminal state is clean: succeeded, partition released, all replicas updated and observed -/
def terminalOK (s : CS) : Bool :=
  idleDone s && s.ro.succeeded == some true &&
  (match s.wl with
   | some w => w.partition.isNone && !w.paused && w.owner == .none && w.updated == w.replicas && w.generation == w.observedGeneration &&
       w.currentRevision == w.updateRevision
   | none => false)

/-- bound of the measure: every state has `mu s ≤ muBound` -/
def muBound (n : Nat) : Nat := 32 + n * stepW + 4

end RV.Oracle.ClosedLoop
