/-
  State invariants and run-level oracles of the closed loop (C01.5, C04.c, C05.i, C06, C07.i).
-/
import RV.Oracle.RolloutSM
import RV.Oracle.Batch
namespace RV.Oracle.Cluster
open RV.Arith RV.Traffic RV.RolloutSM RV.BatchCtx

/-- the knob part of the CloneSet that the rollout world does not carry -/
structure WlX where
  partition : Option IntOrPct
  paused : Bool
  controlled : Bool
  updated : Int
  deriving Repr, DecidableEq, Inhabited

/-- the plan entry of the step the rollout is on -/
def currentEntry (ro : Rollout) : Option IntOrPct :=
  match ro.sub with
  | some s => if s.curIdx < 1 then none else (ro.steps[(s.curIdx - 1).toNat]?).map (·.replicas)
  | none => none

/-- **C01.5** — while the rollout is rolling forward (InRolling, no rollback, same revision), the CloneSet
    partition in force exposes at most what the *current* step allows (+ the < 1 % percent slack). -/
def exposureWithinStep (w : World) (x : WlX) : Bool :=
  match w.wl, w.ro.sub with
  | some wl, some s =>
    if w.ro.phase = .progressing ∧ w.ro.reason = .inRolling ∧ ¬ wl.inRollback ∧ wl.canaryRev = s.canaryRev ∧ x.controlled then
      match currentEntry w.ro, x.partition with
      | some e, some p => RV.Oracle.Batch.exposureBound .cloneSet wl.replicas e none p
      | some _, none => false      -- a controlled workload without partition exposes everything
      | none, _ => true
    else true
  | _, _ => true

/-- **C04.c** — a gateway rule that sends traffic to the canary Service implies the canary Service exists
    and selects the new revision; a pinned stable Service implies pods of that revision still exist
    (the stable revision is still the workload's current revision). -/
def noVoid (w : World) (x : WlX) : Bool :=
  (match w.net.canaryIng with
   | some wt => if wt > 0 ∧ ¬ w.ro.disableGen then
       (match w.ro.sub, w.net.canarySvc with
        | some s, some r => r = s.podHash || r = s.canaryRev
        | _, _ => false)
     else true
   | none => true) &&
  (match w.net.stableSel, w.wl with
   | some r, some wl =>
     -- the stable Service always receives traffic: the revision it is pinned to must have pods
     if r = wl.canaryRev then decide (x.updated > 0) else decide (x.updated < wl.replicas)
   | _, _ => true)

/-- **C01 / C08 (closed loop)** — no pod runs a revision the rollout has not taken up: while the workload's
    update revision is neither the revision this rollout is releasing nor its stable one, no pod has
    been moved to it. -/
def supervised (w : World) (x : WlX) : Bool :=
  match w.wl, w.ro.sub with
  | some wl, some s =>
    if wl.canaryRev ≠ s.canaryRev ∧ wl.canaryRev ≠ s.stableRev ∧ wl.canaryRev ≠ wl.stableRev ∧ ¬ w.ro.disabled ∧ ¬ w.ro.deleting then
      decide (x.updated = 0)
    else true
  | _, _ => true

/-- **C05.i** — a terminal rollout leaves nothing behind and everything as the user configured it. -/
def terminalClean (exists_ : Bool) (w : World) (x : Option WlX) : Bool :=
  let terminal := !exists_ || ((w.ro.phase = .healthy || w.ro.phase = .disabled) &&
    (match w.wl with | some wl => !wl.inProgressAnno | none => true))
  if terminal then
    w.br.isNone && w.net.canarySvc.isNone && w.net.canaryIng.isNone && (w.net.stableSel.isNone || !w.net.stableExists) &&
    (match x with
     | some k => k.partition.isNone && !k.paused && !k.controlled
     | none => true)
  else true

/-- what each clean-up task guarantees once it has reported completion (state predicate over the
    BatchRelease and the network objects) -/
def post (t : FinStep) (ro : Rollout) (br : Option BR) (n : Net) : Bool :=
  match t with
  | .restoreStableService => !ro.hasTraffic || !n.stableExists || n.stableSel.getD "" == ""
  | .routeTrafficToStable => !ro.hasTraffic || n.canaryIng.isNone
  | .removeCanaryService => !ro.hasTraffic || ro.disableGen || n.canarySvc.isNone
  | .releaseWorkloadControl => br.isNone
  | .resumeWorkload => match br with | none => true | some b => b.partition.isNone && b.phaseCompleted
  | _ => true

/-- the tasks of a list that lie strictly before the cursor: all of them at END, none for an empty or
    foreign cursor -/
def doneTasks (tasks : List FinStep) (cur : FinStep) : List FinStep :=
  if cur = .end_ then tasks else if cur ∈ tasks then tasks.takeWhile (· != cur) else []

/-- the cursor is one the exit reason's list can interpret -/
def cursorOk (tasks : List FinStep) (cur : FinStep) : Bool :=
  cur == .empty || cur == .end_ || tasks.contains cur

/-- **C05 invariant** — every clean-up task the persisted cursor has passed still has its effect -/
def finInv (reason : Reason) (ro : Rollout) (cur : FinStep) (br : Option BR) (n : Net) : Bool :=
  (doneTasks (taskList ro.style reason) cur).all fun t => post t ro br n

end RV.Oracle.Cluster
