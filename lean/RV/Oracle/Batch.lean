/-
  Decidable oracles about one `CalculateBatchContext` + `UpgradeBatch` decision.
  Shared by the theorems (C01, C07, C11) and by the driver, which evaluates them
  on the *implementation's* outputs.
-/
import RV.Model.BatchCtx
namespace RV.Oracle.Batch
open RV.Arith RV.BatchCtx IntOrPct

/-- New-revision pods the current step allows at size `R` for plan entry `e`
    (`k` no-need-update pods of a rollback-in-batches already run the target revision). -/
def allowed (R : Int) (e : IntOrPct) (nn : Option Int) : Int :=
  match nn with
  | some k => if k > 0 then k + calcBatchReplicas (R - k) e else calcBatchReplicas R e
  | none => calcBatchReplicas R e

def isPct : IntOrPct → Bool
  | pct _ => true
  | _ => false

/-- string-typed `IntOrString` (a percent or a malformed string): the CloneSet control turns
    the stable count into a percent partition for these -/
def isStr : IntOrPct → Bool
  | int _ => false
  | _ => true

/-- C01.1: the knob value `w` written for entry `e` exposes at most what the step allows;
    CloneSet percent entries may exceed it by strictly less than 1 % of the workload. -/
def exposureBound (kind : Kind) (R : Int) (e : IntOrPct) (nn : Option Int) (w : IntOrPct) : Bool :=
  let ex := exposureOf kind w R
  let al := allowed R e nn
  if kind = .cloneSet ∧ isStr e then decide (100 * (ex - al) < max R 1)
  else decide (ex ≤ al)

/-- C01.2: a written knob never lowers the exposure. -/
def monotone (kind : Kind) (R : Int) (cur w : IntOrPct) : Bool :=
  decide (exposureOf kind cur R ≤ exposureOf kind w R)

/-- the knob in force after the decision -/
def effective (cur : IntOrPct) (w : Option IntOrPct) : IntOrPct := w.getD cur

/-- C07.iv: the knob in force after `UpgradeBatch` lets the workload reach the
    `DesiredUpdatedReplicas` that `IsBatchReady` will demand. -/
def targetSuffices (kind : Kind) (R : Int) (cur : IntOrPct) (w : Option IntOrPct) (desired : Int) : Bool :=
  decide (desired ≤ exposureOf kind (effective cur w) R)

/-- Guard of known finding F-C07-1: CloneSet percent step whose stable remainder is so
    small that `ParseIntegerAsPercentageIfPossible` falls back to "1%". -/
def gPctFallback (kind : Kind) (R : Int) (e : IntOrPct) (nn : Option Int) : Bool :=
  kind = .cloneSet ∧ isPct e ∧ e ≠ pct 100 ∧
    (let s := desiredStable R e nn
     decide (0 < s ∧ s < R ∧ 100 * s < R))

/-- C11.i: what a `Ready` verdict means. -/
def readyMeans (c : Ctx) (labelled : Option Int) : Bool :=
  decide (c.updated ≥ c.desired) &&
  decide (allowedUnavailable c.failureThreshold c.updated + c.updatedReady ≥ c.desired) &&
  decide (c.desired > 0 → c.updatedReady > 0) &&
  (match labelled with
   | some n => decide (n ≥ c.planned)
   | none => true)

end RV.Oracle.Batch
