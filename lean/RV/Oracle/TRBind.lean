/-
  Decidable predicates of the Rollout ↔ TrafficRouting binding protocol (suite `trbind`).  Each is evaluated on a
  transition (state before, label, state after): by the theorems of `RV.Props.TRBind` on the model's transitions, by
  the driver on the transitions the *real* reconcilers make.
-/
import RV.Model.TRBind
namespace RV.Oracle.TRBind
open RV.Traffic RV.TRBind

def holdersOf (tr : Option TRO) : List Nat := match tr with | none => [] | some t => t.holders

/-- the canary route was created or changed towards the canary -/
def routed (n n' : Net) : Bool := n'.canaryIng.isSome && n'.canaryIng != n.canaryIng

/-- the canary route was withdrawn -/
def withdrawn (n n' : Net) : Bool := n.canaryIng.isSome && n'.canaryIng.isNone

/-- the TrafficRouting is held: live, Progressing, at least one progressing finalizer -/
def held (tr : Option TRO) : Bool :=
  match tr with
  | none => false
  | some t => !t.deleting && t.phase == .progressing && !t.holders.isEmpty

/-- **C03.bind_routes_only_while_held** — a TrafficRouting reconcile writes the gateway towards the canary only while
    the object is live, Progressing and held by at least one rollout -/
def routesOnlyWhileHeld (pre post : JS) : Bool := !routed pre.net post.net || held pre.tr

/-- **C05.bind_held_not_restored** — a TrafficRouting reconcile withdraws the canary route only in deletion or in
    phase Finalizing / Terminating — and Finalizing is entered only when the last holder has let go and nobody can
    join before it is over (`RV.Props.TRBind.finalizing_means_unheld`): the second holder keeps the routing alive -/
def heldNotRestored (pre post : JS) : Bool :=
  match pre.tr with
  | some t => !withdrawn pre.net post.net || t.deleting || t.phase == .finalizing || t.phase == .terminating
  | none => true

def rolling (ro : RolloutSM.Rollout) : Bool :=
  ro.phase == .progressing && (ro.reason == .inRolling || ro.reason == .paused)

def initializing (ro : RolloutSM.Rollout) : Bool := ro.phase == .progressing && ro.reason == .initializing

/-- **C03.bind_rollout_waits** (a) — a bound rollout that leaves Initializing for InRolling in this reconcile found its
    finalizer on the TrafficRouting when it looked (and it still is there): it goes on only when the finalizer *is*
    there, not in the reconcile that writes it -/
def leavesInitHeld (i : Nat) (e e' : Entry) (pre post : Option TRO) : Bool :=
  !(e.bound && initializing e.w.ro && !e'.gone && rolling e'.w.ro) || ((holdersOf pre).contains i && (holdersOf post).contains i)

/-- **C03.bind_rollout_waits** (b) — a progressing finalizer is added only to a live TrafficRouting whose phase is
    neither Finalizing nor Terminating (no resurrection of a clean-up in progress) -/
def addedOnlyWhenOpen (i : Nat) (pre post : Option TRO) : Bool :=
  if !(holdersOf pre).contains i && (holdersOf post).contains i then
    match pre with
    | none => false
    | some t => !t.deleting && t.phase != .finalizing && t.phase != .terminating
  else true

/-- a Rollout reconcile touches nobody else's finalizer, nor anything else of the TrafficRouting -/
def othersKept (i : Nat) (pre post : Option TRO) : Bool :=
  match pre, post with
  | none, none => true
  | none, some _ => false
  | some t, none => t.deleting && !t.hasFinalizer && t.holders.all (· == i)
  | some t, some t' =>
    t'.deleting == t.deleting && t'.hasFinalizer == t.hasFinalizer && t'.phase == t.phase && t'.weight == t.weight &&
    t'.grace == t.grace && t'.hasRef == t.hasRef &&
    t.holders.all (fun j => j == i || t'.holders.contains j) && t'.holders.all (fun j => j == i || t.holders.contains j)

def finStepOf (ro : RolloutSM.Rollout) : Option RolloutSM.FinStep := ro.sub.map (·.finStep)

/-- the workload as the finder reports it -/
def wlSeen (w : RolloutSM.World) : Option RolloutSM.WL := (landWl w).wl

/-- the rollout's own clean-up did something in this reconcile: workload, BatchRelease, clean-up cursor, or the
    verdict (Completed / Terminating-Completed / Disabled) -/
def cleanupMoved (e e' : Entry) : Bool :=
  wlSeen e'.w != wlSeen e.w || e'.w.br != e.w.br || finStepOf e'.w.ro != finStepOf e.w.ro ||
  e'.w.ro.reason != e.w.ro.reason || e'.w.ro.term != e.w.ro.term || e'.w.ro.phase != e.w.ro.phase

/-- **C05.bind_finalise_finalizer_off** — a bound rollout's own clean-up moves only when its finalizer is off the
    TrafficRouting (or the TrafficRouting is gone) -/
def finaliseFinalizerOff (i : Nat) (pos : Pos) (e e' : Entry) (post : Option TRO) : Bool :=
  !(e.bound && pos == .fin && cleanupMoved e e') || !(holdersOf post).contains i

/-- the TrafficRouting is unheld but has not finished restoring the gateway -/
def restoring (tr : Option TRO) : Bool :=
  match tr with
  | none => false
  | some t => t.holders.isEmpty && (t.phase == .progressing || t.phase == .finalizing || t.phase == .terminating)

/-- NOT an oracle of any property (it is stronger than C05, which judges the final quiescent state: the asynchronous
    TrafficRouting controller restores the gateway afterwards, theorem `released_means_restored`); kept because
    `finalise_waits_for_restore_full_FALSE` documents the code's behaviour with it — … and, when no other rollout holds it, the TrafficRouting reports Healthy (or is gone) -/
def finaliseWaitsForRestore (i : Nat) (pos : Pos) (e e' : Entry) (post : Option TRO) : Bool :=
  finaliseFinalizerOff i pos e e' post && !(e.bound && pos == .fin && cleanupMoved e e' && restoring post)

/-- the observation `completedBeforeRestored` (a tag in the evidence, not a finding) -/
def guardCompletedBeforeRestored (pos : Pos) (e e' : Entry) (post : Option TRO) : Bool :=
  e.bound && pos == .fin && cleanupMoved e e' && restoring post

/-- **C05.bind_finalizing_unheld** — a TrafficRouting reconcile enters phase Finalizing only when no progressing
    finalizer is left -/
def finalizingEntryUnheld (pre post : Option TRO) : Bool :=
  match pre, post with
  | some t, some t' => !(t'.phase == .finalizing && t.phase != .finalizing) || (t.holders.isEmpty && !t.deleting)
  | _, _ => true

/-- **C18.bind_tr_finalizer_guard** — the TrafficRouting controller removes its own finalizer only from an object in
    deletion and only when no canary route is left (whatever progressing finalizers remain: the object then stays
    visible until the last holder lets go), in a reconcile that does not ask to be called again (the clean-up reported
    done, grace periods included).  A TrafficRouting without `objectRef` manages no route. -/
def trFinalizerGuard (pre post : JS) (requeue : Bool) : Bool :=
  match pre.tr with
  | none => true
  | some t =>
    let off := match post.tr with | none => true | some t' => !t'.hasFinalizer
    if t.hasFinalizer && off then t.deleting && (post.net.canaryIng.isNone || !t.hasRef) && !requeue else true

/-- **C18.bind_held_stays_visible** — the object disappears only in deletion and only with its last finalizer -/
def staysVisible (l : Label) (pre post : Option TRO) : Bool :=
  match pre, post with
  | some t, none =>
    (match l with
     | .tr => t.deleting && t.holders.isEmpty
     | .ro i _ => t.deleting && !t.hasFinalizer && t.holders.all (· == i)
     | .deleteTR => !t.hasFinalizer && t.holders.isEmpty
     | _ => false)
  | _, _ => true

/-- a TrafficRouting reconcile never touches the progressing finalizers -/
def trKeepsHolders (pre post : Option TRO) : Bool :=
  match pre, post with
  | some t, some t' => t'.holders == t.holders
  | some t, none => t.holders.isEmpty
  | none, _ => true

/-! ### C06 — a failing call on the TrafficRouting is reported, and nothing happens behind it -/

/-- would the fault-free reconcile reach the call that `f` makes fail? -/
def faultReached (i : Nat) (bound : Bool) (w : RolloutSM.World) (tr : Option TRO) (f : TFault) : Bool :=
  bound && f != .none &&
  (match position w with
   | .fin =>
     (match f with
      | .get => true
      | .update => (holdersOf tr).contains i
      | .none => false)
   | .init =>
     (match RolloutSM.reconcile w with
      | .val r =>
        r.w.ro.reason == .inRolling &&
        (match f with
         | .get => true
         | .update => (match tr with
            | some t => !t.holders.contains i && t.phase != .finalizing && t.phase != .terminating
            | none => false)
         | .none => false)
      | .panic => false)
   | .other => false)

/-- **C06.bind_fault_reported** — when the faulted call is reached the reconcile returns an error, leaves the
    TrafficRouting alone and its own clean-up does not move -/
def faultReported (reached : Bool) (err : Bool) (e e' : Entry) (pre post : Option TRO) : Bool :=
  !reached || (err && post == pre && !cleanupMoved e e')

/-! ### C05.bind_released_means_restored — on a walk -/

structure Obs where
  /-- label kind: "ro", "tr", "tick", … -/
  k : String
  tr : Option TRO
  net : Net
  err : Bool
  deriving Repr

def restoredObs (o : Obs) : Bool :=
  match o.tr with
  | none => o.net.canaryIng.isNone
  | some t => t.phase == .healthy && o.net.canaryIng.isNone

/-- rounds the theorem `released_means_restored` allows -/
def restoreBound : Nat := 11

/-- from a released state: count fault-free `tr` reconciles each followed (somewhere before the next one) by a `tick`;
    abandon when somebody holds again, the object is edited, deleted, re-created or the network is changed from
    outside; succeed when the state is restored; fail when `budget` quiet rounds have gone by without -/
def restoresWithin : Nat → Bool → List Obs → Bool
  | _, _, [] => true
  | budget, ticked, o :: rest =>
    if !(holdersOf o.tr).isEmpty || o.k == "editStrategy" || o.k == "deleteTR" || o.k == "createTR" || o.k == "envNet" || o.err then true
    else if restoredObs o then true
    else if o.k == "tick" then restoresWithin budget true rest
    else if o.k == "tr" then
      (if !ticked then restoresWithin budget false rest       -- a round without the clock moving does not count
       else match budget with
         | 0 => false
         | b + 1 => restoresWithin b false rest)
    else restoresWithin budget ticked rest

/-- every point of the walk at which the last holder let go -/
def releasedMeansRestored : List Obs → Bool
  | [] => true
  | o :: rest =>
    (match o.tr with
     | some t => if t.holders.isEmpty && t.hasRef && (t.phase == .progressing || t.phase == .finalizing) && !t.deleting
                 then restoresWithin restoreBound true rest else true
     | none => true) && releasedMeansRestored rest

end RV.Oracle.TRBind
