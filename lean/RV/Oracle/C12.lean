/-
  C12 — decidable property predicates for the pod batch labels.
  Used by the theorems in `RV/Props/C12.lean` and, at run time, on the outputs of the
  real `PatchPodBatchLabel` (driver `RV/Drv/LabelPatch.lean`).
-/
import RV.Model.LabelPatch
namespace RV.Oracle.C12
open RV.LabelPatch

/-- the pod is live (not terminating) and of the new revision, judged on the labels the
    patcher judges (`IsConsistentWithRevision` with the effective controller-revision-hash) -/
def liveNew (cfg : Cfg) (rp : RPod) : Bool :=
  !rp.pod.terminating && consistent rp.pod.tmplHash rp.eff cfg.updateRevision

/-- the pod carries the rollout-id of this release -/
def hasId (cfg : Cfg) (p : Pod) : Bool := lbl p.rolloutId == cfg.rolloutId

/-- the pod counts for `(rollout-id, batch b)`: live, new revision, rollout-id of this
    release, batch-id label reading as the number `b` -/
def labelledFor (cfg : Cfg) (b : Nat) (rp : RPod) : Bool :=
  liveNew cfg rp && hasId cfg rp.pod && atoi (lbl rp.pod.batchId) == some (b : Int)

/-- `#labelled(id, b)` -/
def labelled (cfg : Cfg) (b : Nat) (rps : List RPod) : Nat := rps.countP (labelledFor cfg b)

/-- the number of pods batch `b` (1-based, as in the label) adds under the plan; `0` for a
    number that is no batch of the plan -/
def increment (planned : List Int) (b : Nat) : Int :=
  if b = 0 then 0 else
  match planned[b - 1]? with
  | some v => v
  | none => 0

/-- the same pods (same revision view) with the labels of `pods` -/
def withPods (rps : List RPod) (pods : List Pod) : List RPod :=
  List.zipWith (fun rp p => { rp with pod := p }) rps pods

/-- (i) every label patch addresses a live pod of the new revision -/
def okLive (cfg : Cfg) (rps : List RPod) (ps : List Patch) : Bool :=
  ps.all fun p => p.batch.isNone ||
    match rps[p.idx]? with
    | some rp => liveNew cfg rp
    | none => false

/-- (iii) no label patch addresses a pod that already carries the rollout-id -/
def okFresh (cfg : Cfg) (rps : List RPod) (ps : List Patch) : Bool :=
  ps.all fun p => p.batch.isNone ||
    match rps[p.idx]? with
    | some rp => !hasId cfg rp.pod
    | none => false

/-- (ii) for batch number `b`: labelled after ≤ max(labelled before, increment) -/
def okBudgetAt (cfg : Cfg) (planned : List Int) (before after : List RPod) (b : Nat) : Bool :=
  decide ((labelled cfg b after : Int) ≤ max (labelled cfg b before : Int) (increment planned b))

/-- the batch numbers worth looking at: those of the plan (and one beyond on both sides) and
    every number some pod's batch-id label reads as -/
def batchNumbers (planned : List Int) (rps : List RPod) : List Nat :=
  List.range (planned.length + 2) ++
    rps.filterMap fun rp => match atoi (lbl rp.pod.batchId) with
      | some v => if v ≥ 0 then some v.toNat else none
      | none => none

/-- (ii) over every batch number that occurs -/
def okBudget (cfg : Cfg) (planned : List Int) (before after : List RPod) : Bool :=
  (batchNumbers planned after).all (okBudgetAt cfg planned before after)

/-- (iv) a second pass issues no patch -/
def okIdem (second : Outcome) : Bool := second == .done false []

/-- foreign pods (rollout-id different from this release's) get other foreign label values:
    the harness applies the same function to the real pods -/
def scramble (cfg : Cfg) (p : Pod) : Pod :=
  if hasId cfg p then p else
  { p with batchId := if p.batchId == some "1" then some "2" else some "1",
           rolloutId := match p.rolloutId with
             | none => some ("zz-" ++ cfg.rolloutId)
             | some _ => none }

/-- (v) the patches do not depend on the label values of foreign pods -/
def okForeign (out outScrambled : Outcome) : Bool := out == outScrambled

/-- (vi) -/
def noPanic (out : Outcome) : Bool := out != .panic

/-- precondition of (vi) on the plan: `ctx.CurrentBatch < len(batches)` -/
def curInRange (cfg : Cfg) : Bool := decide (cfg.currentBatch < cfg.batches.length)

/-- precondition of (vi) for the ordered filter: `sort.Slice` is not asked to compare pods
    whose name has no `-` -/
def namesOk (k : FilterKind) (pods : List Pod) : Bool :=
  k != .ordered || pods.length < 2 || pods.all fun p => (lastDash p.name.toList).isSome

end RV.Oracle.C12
