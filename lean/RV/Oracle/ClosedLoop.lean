/-
  Decidable invariants of the closed loop (`RV.ClosedLoop`): evaluated by the driver on every state the
  *implementation* reaches in the closed-loop walks, and proved for every reachable state of the model
  (`RV.Props.ClosedLoop`).
-/
import RV.Model.ClosedLoop
import RV.Oracle.Cluster
import RV.Oracle.RolloutSM
namespace RV.Oracle.ClosedLoop
open RV.Arith RV.Traffic RV.RolloutSM RV.ClosedLoop RV.Oracle.Batch

/-- the plan entries as the BatchRelease carries them -/
def planOf (ro : Rollout) : List IntOrPct := ro.steps.map (·.replicas)

/-- **C01.5** — partition `k` of a CloneSet of size `R` exposes at most what plan entry `e` allows; when the plan has a
    string-typed (percent) entry the documented slack of strictly less than 1 % of the workload applies -/
def within (R : Int) (plan : List IntOrPct) (e k : IntOrPct) : Bool :=
  decide (exposure k R ≤ calcBatchReplicas R e) ||
  (plan.any isStr && decide (100 * (exposure k R - calcBatchReplicas R e) < max R 1))

/-- what the validating webhook guarantees about a plan (for the workload's size): no entry asks for fewer pods than
    an earlier one -/
def planMono (R : Int) : List IntOrPct → Bool
  | a :: b :: rest => decide (calcBatchReplicas R a ≤ calcBatchReplicas R b) && planMono R (b :: rest)
  | _ => true

/-- the user-owned configuration of the rollouts the closed-loop theorems speak about: a live, enabled, un-paused
    canary rollout in partition style over a CloneSet, with a non-empty plan, carrying the controller's finalizer -/
def roOK (s : CS) : Bool :=
  !s.gone && !s.ro.deleting && s.ro.hasFinalizer && !s.ro.disabled && !s.ro.paused && s.ro.style == .canary &&
  s.ro.realPartition && !s.ro.steps.isEmpty

/-- facts about the CloneSet that the simulated workload controller and the partition writes maintain -/
def wlOK (w : CWl) : Bool :=
  w.statusReplicas == w.replicas && decide (0 ≤ w.replicas) && decide (w.updated ≤ w.replicas) &&
  (w.updateRevision != w.currentRevision || w.updated == w.replicas) &&
  (match w.partition with | some k => decide (0 ≤ scaledV k w.replicas true) | none => true)

/-- the workload is held back exactly as the admission webhook left it: nothing exposed -/
def held (w : CWl) : Bool := w.partition == some (.pct 100)

/-- **C09** — what every existing BatchRelease satisfies: the executor never indexes outside the plan -/
def brOK (b : CBr) : Bool :=
  !b.batches.isEmpty && decide (0 ≤ b.st.currentBatch) &&
  (match b.partition with | some p => decide (0 ≤ p) | none => true) && !b.rollbackAnno && b.st.noNeedUpdate.isNone

/-- **C01 / C11 (the three cursors)** — while the rollout is rolling: the BatchRelease carries the rollout's plan, its
    partition is at most the rollout's step (`curIdx − 1`; exactly that once the release manager has written the
    step), the executor's batch is at most the partition, and the BatchRelease is neither being finalised nor deleted -/
def linkOK (ro : Rollout) (s : Sub) (b : CBr) : Bool :=
  b.batches == planOf ro &&
  (match b.partition with
   | some p => decide (0 ≤ p ∧ p ≤ s.curIdx - 1 ∧ b.st.currentBatch ≤ p)
   | none => false) &&
  !b.deleting && (b.st.phase == .empty || b.st.phase == .preparing || b.st.phase == .progressing)

/-- **C09** — the sub-status of a rolling rollout never leaves the plan and never carries a jump request the user
    did not make -/
def subOK (ro : Rollout) (s : Sub) (w : CWl) : Bool :=
  let n : Int := ro.steps.length
  decide (1 ≤ s.curIdx ∧ s.curIdx ≤ n) && decide (s.nextIdx = nextBatchIndex n s.curIdx) && s.lastUpdate != .none &&
  s.hash == .same && s.canaryRev == w.updateRevision && s.finStep == .empty

def brOKo (br : Option CBr) : Bool := match br with | some b => brOK b | none => true

def linkOKo (ro : Rollout) (s : Sub) (br : Option CBr) : Bool := match br with | some b => linkOK ro s b | none => true

/-- **C01.5** — the CloneSet carries a partition, and it exposes at most what the step the rollout is on allows -/
def withinCur (ro : Rollout) (s : Sub) (w : CWl) : Bool :=
  match w.partition, (planOf ro)[(s.curIdx - 1).toNat]? with
  | some k, some e => within w.replicas (planOf ro) e k
  | _, _ => false

/-- the part of the invariant that depends on where the rollout is -/
def phaseInv (s : CS) (w : CWl) : Bool :=
  match s.ro.phase, s.ro.reason with
  | .healthy, _ => s.br.isNone && (!w.inProgressAnno || held w)
  | .progressing, .initializing => s.br.isNone && held w
  | .progressing, .inRolling =>
    (match s.ro.sub with
     | none => false
     | some sub => subOK s.ro sub w && linkOKo s.ro sub s.br && withinCur s.ro sub w)
  | .progressing, .finalising =>
    (match s.ro.sub with
     | none => false
     | some sub =>
       RV.Oracle.Cluster.cursorOk (taskList s.ro.style .success) sub.finStep &&
       RV.Oracle.Cluster.finInv .success s.ro sub.finStep (s.br.map roBr) s.net)
  | .progressing, .completed => s.br.isNone && !w.inProgressAnno
  | _, _ => false

/-- the invariant of a forward rollout (labels ro / br / env / approve / tick / crash, and a new release while idle) -/
def fwdInv (s : CS) : Bool :=
  roOK s &&
  (match s.wl with
   | none => false
   | some w => wlOK w && planMono w.replicas (planOf s.ro) && brOKo s.br && phaseInv s w)

/-! ### ghost history of the step gates (C02.ii): never read by a transition -/

/-- what has been *observed* for the step the rollout is on -/
structure Ghost where
  /-- the step index the flags speak about -/
  idx : Int
  /-- a Rollout reconcile in `BeforeStepUpgrade` / `StepUpgrade` of this step found the BatchRelease reporting the step's pods ready -/
  upgraded : Bool
  /-- a Rollout reconcile in `StepTrafficRouting` of this step found the traffic routing done (or the step was a
      partition-style full-replica step, which documentedly by-passes the routing sub-state) -/
  routed : Bool
  /-- in `StepPaused` of this step the pause was found satisfied (duration elapsed / last step at 100 %) or the user approved -/
  pauseOK : Bool
  deriving Repr, DecidableEq, Inhabited

def Ghost.fresh (i : Int) : Ghost := { idx := i, upgraded := false, routed := false, pauseOK := false }

/-- the sub-status while the rollout is rolling -/
def rollingSub (s : CS) : Option Sub :=
  if !s.gone && s.ro.phase == .progressing && s.ro.reason == .inRolling then s.ro.sub else none

/-- the BatchRelease reports the current step's pods ready, as the reconcile about to run sees it -/
def obsUpgraded (s : CS) (sub : Sub) : Bool := RV.Oracle.RolloutSM.upgradeDoneObs (roWorld s) sub

/-- the step replaces every pod (partition-style canary): `StepUpgrade` goes straight to `StepMetricsAnalysis` -/
def bypassW (w : World) (sub : Sub) : Bool :=
  match w.ro.steps[(sub.curIdx - 1).toNat]?, w.wl with
  | some st, some wl => decide (scaledV st.replicas wl.replicas true ≥ wl.replicas)
  | _, _ => false

def bypassStep (s : CS) (sub : Sub) : Bool := bypassW (roWorld s) sub

/-- `DoTrafficRouting` for the current step reports done on the network state the reconcile about to run sees
    (the release manager first fills an empty pod-template hash from the workload) -/
def obsRoutedW (w : World) (sub : Sub) : Bool :=
  match w.wl with
  | none => false
  | some wl =>
    let sub1 := if sub.podHash = "" then { sub with podHash := wl.podTemplateHash } else sub
    match trCtx w.ro sub1 with
    | none => false
    | some t => let o := doTrafficRouting { t with hasRevKey := true } w.net w.mem; o.done && !o.err

def obsRouted (s : CS) (sub : Sub) : Bool := obsRoutedW (roWorld s) sub

/-- the pause of the current step is satisfied as the reconcile about to run sees it -/
def obsPauseW (w : World) (sub : Sub) : Bool :=
  match w.ro.steps[(sub.curIdx - 1).toNat]? with
  | some st => (match doCanaryPaused w.ro sub st with | some (true, _) => true | _ => false)
  | none => false

def obsPause (s : CS) (sub : Sub) : Bool := obsPauseW (roWorld s) sub

def preUpgrade (st : StepState) : Bool := st == .init || st == .upgrade
def postRouting (st : StepState) : Bool := st == .metricsAnalysis || st == .paused || st == .ready || st == .completed
def postPause (st : StepState) : Bool := st == .ready || st == .completed

/-- how a transition `s —l→ s'` updates the ghost -/
def gstep (g : Ghost) (s : CS) (l : Label) (s' : CS) : Ghost :=
  match rollingSub s' with
  | none => g
  | some sub' =>
    match rollingSub s with
    | none => Ghost.fresh sub'.curIdx
    | some sub =>
      if sub'.curIdx ≠ sub.curIdx then Ghost.fresh sub'.curIdx
      else match l with
        | .ro =>
          let up := preUpgrade sub.state && obsUpgraded s sub
          { g with upgraded := g.upgraded || up,
                   routed := g.routed || (sub.state == .trafficRouting && obsRouted s sub) || (up && bypassStep s sub),
                   pauseOK := g.pauseOK || (sub.state == .paused && obsPause s sub) }
        | .approve => { g with pauseOK := g.pauseOK || sub.state == .paused }
        | _ => g

/-- **C02.ii** — the sub-state implies the observations, and the observations were made in order -/
def gateInv (g : Ghost) (s : CS) : Bool :=
  match rollingSub s with
  | none => true
  | some sub =>
    g.idx == sub.curIdx &&
    (!RV.Oracle.RolloutSM.podsReady sub.state || g.upgraded) &&
    (!postRouting sub.state || g.routed) &&
    (!postPause sub.state || g.pauseOK) &&
    (!g.routed || g.upgraded) && (!g.pauseOK || g.routed)

/-- **C02.ii** — the step index moves on (without a user label) only after all three observations of the step -/
def advanceOK (g : Ghost) (s : CS) (l : Label) (s' : CS) : Bool :=
  match rollingSub s, rollingSub s' with
  | some sub, some sub' =>
    if sub'.curIdx ≠ sub.curIdx ∧ l = .ro then g.upgraded && g.routed && g.pauseOK && decide (sub'.curIdx = sub.curIdx + 1) else true
  | _, _ => true

/-- index of the first judged transition of a recorded walk that fails (diagnostics) -/
def traceFirstBad : Ghost → CS → List (Label × CS × Bool) → Nat → Option (Nat × Ghost × Bool × Bool)
  | _, _, [], _ => none
  | g, s, (l, s', judged) :: rest, i =>
    let g' := gstep g s l s'
    if judged && !(gateInv g' s' && advanceOK g s l s') then some (i, g', gateInv g' s', advanceOK g s l s')
    else traceFirstBad g' s' rest (i + 1)

/-- fold the ghost over a recorded walk: every state satisfies `gateInv`, every transition `advanceOK` -/
def traceOK : Ghost → CS → List (Label × CS × Bool) → Bool
  | _, _, [] => true
  | g, s, (l, s', judged) :: rest =>
    let g' := gstep g s l s'
    (!judged || (gateInv g' s' && advanceOK g s l s')) && traceOK g' s' rest

/-- the rollout is idle (Healthy, nothing in progress) and the revision differs from the one all pods run -/
def idle (s : CS) (rev : String) : Bool :=
  s.ro.phase == .healthy &&
  (match s.wl with | some w => !w.inProgressAnno && rev != w.currentRevision | none => false)

/-- the labels of the forward-rollout theorems: both reconcilers, workload progress, approval, clock, crash at any
    time; a new release only while the rollout is idle; no deletion -/
def legal (s : CS) : Label → Bool
  | .release rev => idle s rev
  | .delete => false
  | _ => true

/-! ### deletion of the Rollout (C09: no reachable state crashes — also while the Rollout is being torn down) -/

/-- a Rollout under deletion that still carries the controller's finalizer -/
def delOK (ro : Rollout) : Bool :=
  ro.deleting && ro.hasFinalizer && !ro.disabled && !ro.paused && ro.style == .canary && ro.realPartition && !ro.steps.isEmpty

/-- the invariant after the user deleted the Rollout (labels ro / br / env / approve / tick / crash / delete): the
    workload and BatchRelease facts of `fwdInv`; while the status still says Progressing (the one reconcile that notices
    the deletion) the phase-dependent part of `fwdInv`; once Terminating, a Terminating condition exists -/
def delInv (s : CS) : Bool :=
  (match s.wl with
   | none => false
   | some w =>
     wlOK w && planMono w.replicas (planOf s.ro) && brOKo s.br &&
     (s.gone ||
      (delOK s.ro &&
       (match s.ro.phase with
        | .healthy => true
        | .progressing => phaseInv s w
        | .terminating => s.ro.term != .none
        | _ => false))))

/-- the labels of the deletion theorems: everything legal before, plus `delete` at any time; once the Rollout is being
    deleted (or gone) no new release -/
def legalD (s : CS) : Label → Bool
  | .release rev => !s.gone && !s.ro.deleting && idle s rev
  | _ => true

/-- the CloneSet knobs the rollout world does not carry -/
def wlx (w : CWl) : RV.Oracle.Cluster.WlX :=
  { partition := w.partition, paused := w.paused, controlled := w.owner != .none, updated := w.updated }

/-- **C01.5** on the joint state, as the snapshots of suite `cluster` judge it -/
def exposureOK (s : CS) : Bool :=
  s.gone || (match s.wl with | some w => RV.Oracle.Cluster.exposureWithinStep (roWorld s) (wlx w) | none => true)

/-- **C01 / C08 (closed loop)** — no pod runs a revision the rollout has not taken up (`RV.Oracle.Cluster.supervised` on the
    joint state) -/
def supervisedOK (s : CS) : Bool :=
  s.gone || (match s.wl with | some w => RV.Oracle.Cluster.supervised (roWorld s) (wlx w) | none => true)

/-- the rollout is rolling on a revision that is no longer the workload's update revision (a newer revision was pushed and
    the Rollout controller has not reset the release yet): the state part of the guard of known finding `supersedeBeforeInit` -/
def superseding (s : CS) : Bool :=
  !s.gone && s.ro.phase == .progressing && s.ro.reason == .inRolling &&
  (match s.ro.sub, s.wl with | some sub, some w => sub.canaryRev != w.updateRevision | _, _ => false)

/-- a release pushed at this moment falls into known finding `supersedeBeforeInit`: a BatchRelease exists that has not
    recorded the revision it releases yet (created by the Rollout controller, not yet initialised by the executor), so
    `Initialize` will adopt whatever revision the workload has by then -/
def releaseBeforeInit (s : CS) : Bool :=
  match s.br with | some b => b.st.updateRevision == "" | none => false

/-! ### supersession: a newer revision pushed while the rollout is rolling (continuous release) -/

/-- the BatchRelease cannot lower the workload's partition any more: it is Completed; or it is being deleted / finalised with
    its batch partition still set (`Finalize` then only drops the control annotation); or it is Progressing on a recorded
    revision that is not the workload's any more (the executor stops on every round — the repaired defect `supersedeRace`) -/
def brHolds (b : CBr) (w : CWl) : Bool :=
  b.st.phase == .completed ||
  (b.partition.isSome && (b.deleting || b.st.phase == .finalizing)) ||
  (!b.deleting && b.partition.isSome && b.st.phase == .progressing && b.st.updateRevision != "" &&
   b.st.updateRevision != "wl-" ++ w.updateRevision && decide (b.st.currentBatch < b.batches.length) &&
   b.st.observedReplicas == w.replicas)

def brHoldsO (br : Option CBr) (w : CWl) : Bool := match br with | some b => brHolds b w | none => true

/-- the invariant while the Rollout controller resets a superseded release: the rollout still says InRolling on the old
    revision; the workload is held back exactly as the webhook left it — partition 100 %, no pod on the new revision —
    and the BatchRelease, if any, cannot lower the partition -/
def resetInv (s : CS) : Bool :=
  roOK s &&
  (match s.wl with
   | none => false
   | some w =>
     wlOK w && planMono w.replicas (planOf s.ro) && brOKo s.br &&
     s.ro.phase == .progressing && s.ro.reason == .inRolling &&
     (match s.ro.sub with | some sub => sub.canaryRev != "" && sub.canaryRev != w.updateRevision | none => false) &&
     w.updateRevision != w.currentRevision && decide (0 < w.replicas) && w.updated == 0 && held w && brHoldsO s.br w)

/-- the reset cursor reaches its last stage (`RemoveCanaryService`, only with traffic routing) only once the BatchRelease is gone -/
def resetCursor (s : CS) : Bool :=
  match s.ro.sub with
  | some sub => !(s.ro.hasTraffic && sub.finStep == .removeCanaryService) || s.br.isNone
  | none => true

/-- the invariant of the supersession theorems: the forward invariant, or the reset invariant -/
def supInv (s : CS) : Bool := fwdInv s || (resetInv s && resetCursor s)

/-- a superseding release is legal (for the theorems) when the rollout is rolling on a workload with at least one replica, the
    revision is new, and the BatchRelease — if one exists — is Progressing with the rolled revision and the workload's size
    recorded (outside known finding `supersedeBeforeInit`: a BatchRelease not yet initialised adopts the new revision) -/
def supersedeOK (s : CS) (rev : String) : Bool :=
  !s.gone && s.ro.phase == .progressing && s.ro.reason == .inRolling &&
  (match s.wl, s.ro.sub with
   | some w, some sub =>
     decide (0 < w.replicas) && rev != "" && rev != w.currentRevision && rev != w.updateRevision && sub.canaryRev != "" &&
     w.updateRevision != w.currentRevision &&
     (match s.br with
      | none => true
      | some b => !b.deleting && b.st.phase == .progressing && b.st.updateRevision == "wl-" ++ w.updateRevision &&
          b.st.observedReplicas == w.replicas)
   | _, _ => false)

/-- the labels of the supersession theorems: the forward labels, and a superseding release (once per reset) -/
def legalS (s : CS) : Label → Bool
  | .release rev => (fwdInv s && (idle s rev || supersedeOK s rev))
  | .delete => false
  | _ => true

/-- **C09** — no reconciler panics from this state -/
def totalOK (s : CS) : Bool := (step s .ro).isSome && (step s .br).isSome

def stateOracles (s : CS) (fwd : Bool) (del : Bool := false) (sup : Bool := false) : List (String × Bool) :=
  let inv := (!fwd || fwdInv s) && (!del || delInv s) && (!sup || supInv s)
  [("C01.loop_inv", inv), ("C02.loop_inv", inv), ("C06.loop_inv", inv), ("C07.loop_inv", inv), ("C09.loop_inv", inv),
   ("C09.loop_total", totalOK s), ("C06.loop_total", totalOK s),
   ("C01.loop_exposure", exposureOK s), ("C06.loop_exposure", exposureOK s),
   ("C01.loop_supervised", supervisedOK s), ("C06.loop_supervised", supervisedOK s), ("C08.loop_supervised", supervisedOK s)]

/-- **C02.i on one Rollout reconcile of the closed loop** (the conclusion of `RV.Lemmas.ClosedLoop.rolling_gate`, judged on
    the state before and after): the index moves only from `StepReady` by one; a gate that is passed was observed open -/
def stepGate (pre post : CS) : Bool :=
  match rollingSub pre, rollingSub post with
  | some s, some s' =>
    if s'.curIdx ≠ s.curIdx then s.state == .ready && decide (s'.curIdx = s.curIdx + 1) && s'.state == .init
    else
      (!RV.Oracle.RolloutSM.podsReady s'.state || RV.Oracle.RolloutSM.podsReady s.state || (preUpgrade s.state && obsUpgraded pre s)) &&
      (!postRouting s'.state || postRouting s.state || (s.state == .trafficRouting && obsRouted pre s) ||
         (preUpgrade s.state && obsUpgraded pre s && bypassStep pre s)) &&
      (!postPause s'.state || postPause s.state || (s.state == .paused && obsPause pre s))
  | _, _ => true

def stepOracles (pre : CS) (lab : String) (post : CS) (fwd : Bool) : List (String × Bool) :=
  if lab == "ro" && fwd then [("C02.loop_step_gate", stepGate pre post), ("C06.loop_step_gate", stepGate pre post)] else []

end RV.Oracle.ClosedLoop
