/-
  Decidable invariants of the closed loop (`RV.ClosedLoop`): evaluated by the driver on every state the
  *implementation* reaches in the closed-loop walks, and proved for every reachable state of the model.
-/
import RV.Model.ClosedLoop
import RV.Oracle.Cluster
namespace RV.Oracle.ClosedLoop
open RV.Arith RV.Traffic RV.ClosedLoop

def stateOracles (_s : CS) : List (String × Bool) := []
def stepOracles (_pre : CS) (_lab : String) (_post : CS) : List (String × Bool) := []

end RV.Oracle.ClosedLoop
