/-
  Decidable oracles about one BatchRelease reconcile over **any** control plane (old state → new state),
  shared by the theorems of `RV.Props.ExecutorX` and by the driver of suite `executorx`.

  They are the oracles of `RV.Oracle.Executor` with the CloneSet-specific parts replaced by two verdicts the
  caller computes with the plane's own predicates:
    `ready`    – the plane's readiness predicate for the batch the *persisted* status points at, on the world
                 as observed in this reconcile,
    `released` – the plane's "the workload is no longer under this BatchRelease's control" on the world after.
  `stopped` = the sync step of this reconcile stops (status persisted, nothing executed).
-/
import RV.Model.ExecutorX
import RV.Oracle.Executor
namespace RV.Oracle.ExecutorX
open RV.Arith RV.BatchCtx RV.Executor RV.ExecutorX

variable {W : Type}

/-- A plane's **own** predicates, with which the executor's guarantees are stated for that plane:
    `ready`    – the batch the persisted status points at has its pods, as the plane counts them (world as observed),
    `released` – the workload is no longer under this BatchRelease's control,
    `exposure` – how many pods of the new revision the world lets run, `allowed` – what the plan entry of the current batch allows,
    `expoOK`   – the region in which the plane's exposure figures are meaningful (sizes, holds: the side conditions of the
                 plane's own exposure theorems),
    `wf`       – well-formedness of a world the API server guarantees (unique names); `true` for most planes. -/
structure Preds (W : Type) where
  ready    : BR → W → Bool
  released : BR → W → Bool
  exposure : W → Int
  allowed  : BR → W → Int
  expoOK   : BR → W → Bool := fun _ _ => true
  wf       : W → Bool := fun _ => true
  /-- the post-condition of a successful `Initialize` in this plane's own terms (world before, world after): the workload
      is claimed the way *this* plane claims it -/
  claimed  : BR → W → W → Bool := fun _ _ _ => true

/-- did this reconcile stop after the sync step? (a crashing sync step counts as stopped: nothing is executed) -/
def stoppedX (P : Plane W) (br : BR) (w : W) : Bool :=
  match syncStatusX P (withFinalizer br) (initializedStatus br.status) w with
  | .val s => s.stop
  | .panic => true

/-- C11.i: whenever the executor acts and leaves the batch state `Ready`, the plane's readiness predicate held on the
    world as observed in this reconcile. -/
def readyOnlyIfReady (stopped ready : Bool) (br br' : BR) : Bool :=
  if ¬ stopped ∧ br.status.phase = .progressing ∧ br'.status.phase = .progressing ∧ br'.status.batchState = .ready then ready
  else true

/-- C11.ii / C01.3: `currentBatch` rises only by one, only from `Ready`, only while below the batch partition, only with
    the plane's readiness predicate true; otherwise it changes only through recalculation / restart. -/
def batchAdvanceGuarded (ready : Bool) (br br' : BR) : Bool :=
  if br'.status.currentBatch > br.status.currentBatch ∧ br.status.phase = .progressing ∧ br.status.hash = .same ∧
     ¬ isPlanUnhealthy br then
    decide (br'.status.currentBatch = br.status.currentBatch + 1) && br.status.batchState = .ready &&
    (match br.partition with
     | some p => decide (p > br.status.currentBatch)
     | none => false) && ready
  else true

/-- C11.ii: the executor never works beyond its partition (plane-independent) -/
def withinPartition (br br' : BR) : Bool := RV.Oracle.Executor.withinPartition br br'

/-- C11.iii / C18: phase `Completed` is entered only from `Finalizing`, and then the plane's `released` holds of the
    world after the reconcile. -/
def completedMeansReleased (released : Bool) (br br' : BR) : Bool :=
  if br'.status.phase = .completed ∧ br.status.phase ≠ .completed then br.status.phase = .finalizing && released
  else true

/-- C18: the BatchRelease disappears only in phase Completed; otherwise its finalizer is present afterwards. -/
def goneOnlyWhenCompleted (br : BR) (br' : Option BR) : Bool := RV.Oracle.Executor.goneOnlyWhenCompleted br br'

/-- C06 / C01: when the sync step stops, the plane's world is not written. -/
def noActBeforePersist [DecidableEq W] (stopped : Bool) (w w' : W) : Bool :=
  if stopped then decide (w' = w) else true

/-- C11.iv: a failing readiness predicate in Verifying/Ready falls back to Upgrading (when the call does not crash:
    the current batch indexes the plan). -/
def fallsBack (stopped ready : Bool) (br br' : BR) : Bool :=
  if ¬ stopped ∧ br.status.phase = .progressing ∧ (br.status.batchState = .verifying ∨ br.status.batchState = .ready) ∧
     ¬ ready then
    br'.status.batchState = .upgrading && (br.status.batchState != .ready || !br'.status.hasReadyTime)
  else true

/-- C11.iv: a plan change is acknowledged only together with the fall-back to `Upgrading` (plane-independent). -/
def planChangeFallsBack (br br' : BR) : Bool := RV.Oracle.Executor.planChangeFallsBack br br'

/-- C07: with the plane's readiness predicate true, `Verifying` becomes `Ready` without a write, and a `Ready` batch
    whose partition asks for no more is left exactly as it is. -/
def settles [DecidableEq W] (stopped ready : Bool) (br br' : BR) (w w' : W) : Bool :=
  if ¬ stopped ∧ br.status.phase = .progressing ∧ ready then
    (if br.status.batchState = .verifying then
       br'.status.batchState = .ready && br'.status.hasReadyTime && decide (br'.status.currentBatch = br.status.currentBatch) &&
       decide (w' = w)
     else if br.status.batchState = .ready ∧ isPartitioned br then
       br'.status == br.status && decide (w' = w)
     else true)
  else true

/-- C01: a reconcile of a release that is and stays `Progressing` changes the exposure of the new revision only
    upwards and only up to what the batch the persisted status points at allows (`allowed`), or leaves it. -/
def writeWithinBatch (expo expo' allowed : Int) (br br' : BR) : Bool :=
  if br.status.phase = .progressing ∧ br'.status.phase = .progressing then
    decide (expo ≤ expo') && decide (expo' ≤ max expo allowed)
  else true

/-- C01 / C11: a release becomes `Progressing` only in a reconcile whose `Initialize` succeeded, and then the workload is
    claimed the way the serving plane claims it (`claimed` = the plane's post-condition on the worlds before / after). -/
def initClaims (claimed : Bool) (br br' : BR) : Bool :=
  if br.status.phase ≠ .progressing ∧ br'.status.phase = .progressing then claimed else true

/-- C11.iv: when the plane reports the scaling event for a `Progressing` release whose plan is neither completed, finalizing,
    changed nor unhealthy, the reconcile restarts the batch (`Upgrading`, ready time cleared), records the new size and
    stops before acting.  `scaled` = the plane's `SyncWorkloadInformation` says `WorkloadReplicasChanged` with these replicas
    (which differ from the recorded ones: that is what the event means). -/
def scalingRestarts (scaled : Option Int) (br br' : BR) : Bool :=
  match scaled with
  | some r =>
    if br.status.phase = .progressing ∧ ¬ isPlanFinalizing br ∧ ¬ isPlanChanged br ∧ ¬ isPlanUnhealthy br ∧
       br.status.observedReplicas ≠ r then
      br'.status.batchState = .upgrading && !br'.status.hasReadyTime && decide (br'.status.observedReplicas = r) &&
      br'.status.phase = .progressing && decide (br'.status.currentBatch = br.status.currentBatch)
    else true
  | none => true

/-- the scaling event as the plane reports it for this release (`none`: another event, or the sync step crashes) -/
def scaledX (P : Plane W) (br : BR) (w : W) : Option Int :=
  match P.syncInfo (withFinalizer br) (initializedStatus br.status) w with
  | .val (.replicasChanged, some i) => some i.replicas
  | _ => none

/-- The executor may crash only on a plan without batches / a negative current batch (not reachable from a Rollout
    the validating webhook accepts), or where the plane's own model says the plane crashes (`planePanics`). -/
def panicAllowed (planePanics : Bool) (br : BR) : Bool :=
  br.batches.isEmpty || decide (br.status.currentBatch < 0) || planePanics

/-- all oracles of one step, keyed by property -/
def stepOracles [DecidableEq W] (stopped ready released claimed expoOK : Bool) (scaled : Option Int) (expo expo' allowed : Int)
    (br : BR) (w : W) (br' : Option BR) (w' : W) : List (String × Bool) :=
  let common := [("C18.x_finalizer_guards_teardown", goneOnlyWhenCompleted br br'),
                 ("C06.x_no_act_before_persist", noActBeforePersist stopped w w'),
                 ("C01.x_no_act_before_persist", noActBeforePersist stopped w w')]
  match br' with
  | none => common
  | some b =>
    common ++
    [("C11.x_ready_only_if_ready", readyOnlyIfReady stopped ready br b),
     ("C11.x_batch_advance_guarded", batchAdvanceGuarded ready br b),
     ("C01.x_batch_advance_guarded", batchAdvanceGuarded ready br b),
     ("C11.x_within_partition", withinPartition br b),
     ("C01.x_within_partition", withinPartition br b),
     ("C01.x_write_within_batch", !expoOK || writeWithinBatch expo expo' allowed br b),
     ("C01.x_init_claims", initClaims claimed br b),
     ("C11.x_init_claims", initClaims claimed br b),
     ("C11.x_scaling_restarts", scalingRestarts scaled br b),
     ("C11.x_completed_means_released", completedMeansReleased released br b),
     ("C18.x_completed_means_released", completedMeansReleased released br b),
     ("C11.x_falls_back", fallsBack stopped ready br b),
     ("C11.x_plan_change_falls_back", planChangeFallsBack br b),
     ("C07.x_settles", settles stopped ready br b w w')]

end RV.Oracle.ExecutorX
