/-
  Decidable oracles about the partition-style Deployment control plane, shared by the theorems
  (RV/Props/CtlPDeployThms.lean) and by the driver, which evaluates them on the snapshots the
  *real* code produced.  Attached to C01 (exposure), C05 (round trip of the user's strategy),
  C06 (idempotence / fault safety), C07 (the write suffices for readiness).
-/
import RV.Model.CtlPDeploy
import RV.Model.BatchCtx
namespace RV.Oracle.CtlPDeploy
open RV.Arith IntOrPct RV.Webhook RV.CtlPDeploy

/-- how many pods the advanced deployment controller may run on the new revision:
    `NewRSReplicasLimit(strategy.partition)` (C17's subject consumes exactly this number) -/
def limitOf (d : Dep) : Int :=
  match d.replicas with
  | some r => newRSReplicasLimit (getStrategy d).partition r
  | none => 0

/-! ### C01 -/

/-- C01 `initialize_exposes_nothing`: a successful `Initialize` either finds the Deployment already
    under rollout control and leaves it as it is, or claims it with a partition-style strategy whose
    partition is the integer 0 (not paused), i.e. a limit of 0 new-revision pods. -/
def initExposesNothing (d : Option Dep) (o : StepOut) : Bool :=
  if o.res = .ok then
    match d, o.dep with
    | some d, some d' =>
      if isUnderRolloutControl d then d' == d
      else (getStrategy d').partition == int 0 && (getStrategy d').rollingStyle == "Partition" &&
           !(getStrategy d').paused && limitOf d' == 0 && isUnderRolloutControl d'
    | _, _ => false
  else true

/-- the plan entry `UpgradeBatch` works on -/
def entryOf (rel : Rel) (batch : Int) : Option IntOrPct :=
  if batch < 0 then none else rel.batches[batch.toNat]?

/-- only the strategy annotation differs -/
def sameButAnno (d d' : Dep) : Bool := { d' with stratAnno := d.stratAnno } == d

/-- C01 `upgradeBatch_within_step`: after `UpgradeBatch` for batch `i` the limit is at most what it was
    or what step `i` plans (`CalculateBatchReplicas`), nothing but the annotation changed, and a written
    partition is the step's `canaryReplicas` verbatim. -/
def upgradeWithinStep (rel : Rel) (batch : Int) (d : Option Dep) (o : StepOut) : Bool :=
  match d, o.dep with
  | some d, some d' =>
    sameButAnno d d' &&
    (match d.replicas, entryOf rel batch with
     | some r, some e =>
       (d' == d || ((getStrategy d').partition == e && isUnderRolloutControl d)) &&
       decide (limitOf d' ≤ max (limitOf d) (calcBatchReplicas r e))
     | _, _ => d' == d)
  | none, none => true
  | _, _ => false

/-- C01.2 / C11: `UpgradeBatch` never lowers the limit -/
def upgradeMonotone (d : Option Dep) (o : StepOut) : Bool :=
  match d, o.dep with
  | some d, some d' => decide (limitOf d ≤ limitOf d')
  | none, none => true
  | _, _ => false

/-- C07: an `UpgradeBatch` that returns ok on a Deployment under rollout control leaves a partition that
    allows the batch's `DesiredUpdatedReplicas` — so `IsBatchReady` can pass once those pods are ready. -/
def upgradeSuffices (rel : Rel) (batch : Int) (d : Option Dep) (o : StepOut) : Bool :=
  if o.res = .ok then
    match d, o.dep with
    | some d, some d' =>
      (match d.replicas, entryOf rel batch with
       | some r, some e =>
         if isUnderRolloutControl d ∧ r ≠ 0 then decide (newRSReplicasLimit e r ≤ limitOf d') else true
       | _, _ => true)
    | _, _ => true
  else true

/-- what one step of a walk allows: the planned size of the batch an `UpgradeBatch` works on -/
def stepAllow (rel : Rel) (r : Int) (s : Step) : Int :=
  if s.call = .upgradeBatch then
    match entryOf rel s.batch with
    | some e => max 0 (calcBatchReplicas r e)
    | none => 0
  else 0

/-- what the batches upgraded during a walk allow at most -/
def allowedMax (rel : Rel) (r : Int) : List Step → Int
  | [] => 0
  | s :: ss => max (stepAllow rel r s) (allowedMax rel r ss)

/-- the user does not scale during the walk -/
def noScale (steps : List Step) : Bool := steps.all fun s => s.edit.replicas.isNone

/-! ### C05 -/

/-- a `rollingUpdate` block as the API server stores it for a RollingUpdate Deployment:
    both fields present (defaulting) and not both zero (validation) -/
def ruValid (u : RU) : Bool :=
  u.maxUnavailable.isSome && u.maxSurge.isSome &&
  !(scaled100 u.maxSurge == 0 && scaled100 u.maxUnavailable == 0)

/-- no leftover of a rollout on the Deployment -/
def userClean (d : Dep) : Bool :=
  d.stratAnno == .absent && d.control == .none && !d.ctrlLabel && !d.extraStatus && d.stableRev == ""

/-- the Deployment as its user configured it: strategy RollingUpdate `u`, nothing parked -/
def userState (d : Dep) (u : RU) : Bool :=
  d.stratType == "RollingUpdate" && d.stratRU == some u && userClean d

/-- user edits considered by the round trip: a new template, a new size, and/or re-submitting
    `strategy: {type: RollingUpdate, rollingUpdate: u'}` (what `kubectl apply` of the manifest does);
    never `spec.paused` -/
def editOK (e : Edit) : Bool :=
  e.paused.isNone &&
  (match e.strat with
   | none => true
   | some (t, some u) => t == "RollingUpdate" && ruValid u
   | some (_, none) => false)

def stepsOK (steps : List Step) : Bool := steps.all fun s => s.call != .submit || editOK s.edit

/-- the `rollingUpdate` block after a user edit -/
def editRU (u : RU) (e : Edit) : RU :=
  match e.strat with
  | some (_, some u') => u'
  | _ => u

def stepRU (u : RU) (s : Step) : RU := if s.call = .submit then editRU u s.edit else u

/-- the `rollingUpdate` the user submitted last -/
def trackRU (u : RU) : List Step → RU
  | [] => u
  | s :: ss => trackRU (stepRU u s) ss

/-- what `Finalize` takes as "this Deployment is ours" -/
def claimed (d : Dep) : Bool := d.control != .none && d.paused

/-- C05: the Deployment is back to what its user configured -/
def restored (d : Dep) (u : RU) : Bool :=
  d.stratType == "RollingUpdate" && d.stratRU == some u && !d.paused && d.stratAnno == .absent &&
  d.control == .none && !d.ctrlLabel && !d.extraStatus && d.stableRev == ""

/-- the strategy is parked in the annotation (states B and C of the invariant) -/
def parked (d : Dep) : Bool :=
  match d.stratAnno with
  | .valid _ => true
  | _ => false

/-- the last step of a walk is a successful complete `Finalize` -/
def endsWithFinalize (s : Step) (o : StepOut) : Bool :=
  s.call == .finalize && s.bpNil && s.fault == .none && o.res == .ok

/-- C05 `finalize_restores_user_strategy`, **full strength**: a walk of the user and the control plane
    that starts from a Deployment as the user configured it (`type` RollingUpdate with block `u`, or `type`
    Recreate) and ends with a successful `Finalize(batchPartition = nil)` leaves the user's latest strategy,
    unpaused, with no rollout annotation or label.
    `d0` initial Deployment, `pre` the steps before the last, `dl` the Deployment before the last step. -/
def roundTripFull (d0 : Dep) (pre : List Step) (last : Step) (dl : Option Dep) (o : StepOut) : Bool :=
  if stepsOK pre ∧ endsWithFinalize last o ∧ userClean d0 then
    match d0.stratType, d0.stratRU, dl, o.dep with
    | "RollingUpdate", some u, some _, some d' => if ruValid u then restored d' (trackRU u pre) else true
    | "Recreate", none, some _, some d' =>
      -- a user's Recreate strategy (no rollingUpdate block) must survive, too
      if pre.all (fun s => s.edit.strat.isNone) then
        d'.stratType == "Recreate" && d'.stratRU == none && !d'.paused && d'.stratAnno == .absent && d'.control == .none
      else true
    | _, _, _, _ => true
  else true

/-- known-finding guard `userRecreate`: the user's strategy type is Recreate -/
def guardUserRecreate (d0 : Dep) : Bool := d0.stratType == "Recreate"

/-- known-finding guard `unclaimedFinalize`: the last `Finalize` finds no control-info on a Deployment that is
    still paused or whose strategy is still parked in the annotation (an earlier BatchRelease released only its
    control-info, or none ever claimed the Deployment the webhook paused) -/
def guardUnclaimed (dl : Option Dep) : Bool :=
  match dl with
  | some d => !claimed d && (parked d || d.paused)
  | none => false

/-- the part of `roundTripFull` that is a theorem of the unchanged code -/
def roundTripPartial (d0 : Dep) (pre : List Step) (last : Step) (dl : Option Dep) (o : StepOut) : Bool :=
  guardUserRecreate d0 || guardUnclaimed dl || roundTripFull d0 pre last dl o

/-! ### C06 -/

/-- a controller call with an injected API fault leaves the Deployment as it was; a failed read is an error;
    an error never comes with a change -/
def faultSafe (s : Step) (d : Option Dep) (o : StepOut) : Bool :=
  if s.call = .submit then true else
  (if s.fault ≠ .none ∨ o.res = .err then o.dep == d else true) &&
  (if s.fault = .get then o.res == .err && o.writes == 0 else true) &&
  (if s.fault = .write ∧ o.res = .ok then o.writes == 0 else true)

/-- nothing of the rollout is left on the Deployment but (possibly) the in-progress annotation, which the
    Rollout controller owns -/
def released (d : Dep) : Bool :=
  d.stratAnno == .absent && !d.paused && !d.extraStatus && !d.ctrlLabel && d.stableRev == "" && d.control == .none

/-- C06 **full strength**: a call that returns ok has its effect.  After `Initialize` the Deployment is under
    rollout control.  After `Finalize` of a paused Deployment the control-info is gone and, with
    `batchPartition = nil`, so are the strategy annotation, the extra-status annotation, both labels and the pause;
    a Deployment its user has un-paused is left alone.  (`UpgradeBatch`: `upgradeSuffices`.) -/
def okHasEffect (s : Step) (d : Option Dep) (o : StepOut) : Bool :=
  if o.res = .ok then
    match s.call, d, o.dep with
    | .initialize, some _, some d' => isUnderRolloutControl d'
    | .initialize, _, _ => false
    | .finalize, some d, some d' =>
      if d.paused then d'.control == .none && (!s.bpNil || released d') else d' == d
    | .finalize, none, none => true
    | .finalize, _, _ => false
    | _, _, _ => true
  else true

/-- known-finding guard `unclaimedFinalizeStep`: a complete `Finalize` on a Deployment in the region of
    `guardUnclaimed` (no control-info, yet paused or with a parked strategy) -/
def guardUnclaimedStep (s : Step) (d : Option Dep) : Bool :=
  s.call == .finalize && s.bpNil && guardUnclaimed d

/-- the part of `okHasEffect` that is a theorem of the unchanged code -/
def okHasEffectPartial (s : Step) (d : Option Dep) (o : StepOut) : Bool :=
  guardUnclaimedStep s d || okHasEffect s d o

/-- steps `k` and `k+1` repeat the same controller call -/
def sameCall (a b : Step) : Bool :=
  a.call == b.call && a.call != .submit && a.fault == .none && b.fault == .none &&
  (a.call != .upgradeBatch || a.batch == b.batch) && (a.call != .finalize || a.bpNil == b.bpNil)

/-- C06 idempotence: repeating a successful call changes nothing and issues no write -/
def idempotent (a b : Step) (oa ob : StepOut) : Bool :=
  if sameCall a b ∧ oa.res = .ok then ob.res == .ok && ob.dep == oa.dep && ob.writes == 0 else true

/-- no step ever touches what is not modelled, the template, the size or the in-progress annotation
    (controller calls), and `writes ≤ 1` -/
def frame (s : Step) (d : Option Dep) (o : StepOut) : Bool :=
  if s.call = .submit then
    match d, o.dep with
    | some d, some d' => d'.rest == d.rest && d'.control == d.control && d'.ctrlLabel == d.ctrlLabel &&
                         d'.extraStatus == d.extraStatus
    | none, none => true
    | _, _ => false
  else
    match d, o.dep with
    | some d, some d' => d'.rest == d.rest && d'.replicas == d.replicas && d'.tmpl == d.tmpl &&
                         d'.inProgress == d.inProgress && decide (o.writes ≤ 1)
    | none, none => o.writes == 0
    | _, _ => false

/-- all per-step oracles -/
def stepOracles (rel : Rel) (s : Step) (d : Option Dep) (o : StepOut) : List (String × Bool) :=
  [("C06.pdeploy_fault_safe", faultSafe s d o),
   ("C06.pdeploy_ok_has_effect", okHasEffect s d o),
   ("C05.pdeploy_frame", frame s d o)] ++
  (match s.call with
   | .initialize => [("C01.pdeploy_initialize_exposes_nothing", initExposesNothing d o)]
   | .upgradeBatch => [("C01.pdeploy_upgrade_within_step", upgradeWithinStep rel s.batch d o),
                       ("C01.pdeploy_upgrade_monotone", upgradeMonotone d o),
                       ("C07.pdeploy_upgrade_suffices", upgradeSuffices rel s.batch d o)]
   | _ => [])

end RV.Oracle.CtlPDeploy
