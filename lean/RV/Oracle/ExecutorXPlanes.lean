/-
  The planes' own predicates (`RV.Oracle.ExecutorX.Preds`) for every concrete control plane: what "ready", "released",
  "exposure" and "allowed" mean for that plane.  They are the predicates of the planes' own oracle files wherever
  those exist (`RV.Oracle.CtlPDeploy.limitOf`, `RV.Oracle.CtlSts.exposureW`, `RV.Oracle.CtlBlueGreen.exposureW`,
  `RV.Oracle.Executor.batchReadyNow`, …).  Used by the laws (`RV.Props.ExecutorXPlanes`) **and** by the driver on the
  implementation's output.
-/
import RV.Model.ExecutorXPlanes
import RV.Oracle.ExecutorX
import RV.Oracle.CtlPDeploy
import RV.Oracle.CtlSts
import RV.Oracle.CtlBlueGreen
import RV.Oracle.CtlCanary
namespace RV.Oracle.ExecutorX
open RV.Arith IntOrPct RV.BatchCtx RV.Executor RV.ExecutorX

def outBool : Out Bool → Bool
  | .val b => b
  | .panic => false

/-! ### partition-style CloneSet -/

def csPreds : Preds (Option Workload) where
  ready := fun br wl => RV.Oracle.Executor.batchReadyNow br wl
  released := fun _ wl => match wl with
    | none => true
    | some w => decide (w.owner ≠ .this)
  exposure := fun wl => match wl with
    | none => 0
    | some w => exposure (w.partition.getD (.int 0)) w.replicas
  allowed := fun br wl => match wl with
    | none => 0
    | some w =>
      match calcCtx (obsOf br br.status w) with
      | .ok c => exposure c.knobDes w.replicas
      | .panic => 0
  claimed := fun _ _ wl' => match wl' with
    | some w => decide (w.owner = .this)
    | none => false

/-! ### partition-style Deployment -/

/-- `Finalize` regards a Deployment as under rollout control when it carries a control-info and is paused -/
def pdepClaimed (d : CtlPDeploy.Dep) : Bool := d.control != .none && d.paused

def pdepPreds : Preds PDepW where
  ready := fun br w => outBool (pdepReady br w)
  released := fun _ w => match w.dep with
    | none => true
    | some d => !pdepClaimed d
  exposure := fun w => match w.dep with
    | none => 0
    | some d => RV.Oracle.CtlPDeploy.limitOf d
  allowed := fun br w => match w.dep, entryOf br with
    | some d, some e =>
      (match d.replicas with
       | some r => calcBatchReplicas r e
       | none => 0)
    | _, _ => 0
  claimed := fun _ _ w' => match w'.dep with
    | some d => CtlPDeploy.isUnderRolloutControl d
    | none => false

/-! ### StatefulSet-like / DaemonSet -/

def stsPreds : Preds StsW where
  ready := fun br w =>
    match CtlSts.planeVerdict (stsRel br br.status.updated br.status.noNeedUpdate) br.status.currentBatch w.wl w.cl .none with
    | .val v => decide (v.verdict = .is .ok)
    | .panic => false
  released := fun _ w => match w.wl with
    | none => true
    | some wl => decide (wl.control = .none)
  exposure := fun w => match w.wl with
    | none => 0
    | some wl => RV.Oracle.CtlSts.exposureW wl
  allowed := fun br w => match w.wl, entryOf br with
    | some wl, some e =>
      (match CtlSts.replicasOf wl with
       | some r => RV.Oracle.Batch.allowed r e br.status.noNeedUpdate
       | none => 0)
    | _, _ => 0
  expoOK := fun br w => match w.wl with
    | none => true
    | some wl =>
      match CtlSts.replicasOf wl with
      | some r => RV.Oracle.CtlSts.sizeOK r && RV.Oracle.CtlSts.nnOK r br.status.noNeedUpdate
      | none => false
  claimed := fun _ _ w' => match w'.wl with
    | some wl => decide (wl.control = .this)
    | none => false

/-! ### blue-green -/

/-- this BatchRelease (UID 0) holds the control-info -/
def bgControlled (wl : CtlBlueGreen.Workload) : Bool := decide (wl.ctl = .uid 0)

/-- full strength: the control-info of this BatchRelease is gone (or the workload is) -/
def bgReleasedFull (w : BGW) : Bool :=
  match w.w.wl with
  | none => true
  | some wl => !bgControlled wl

/-- guard `bgPartitionedFinalize`: blue-green `Finalize` with `batchPartition` set does nothing and returns nil
    ("continuous release is not supported yet") -/
def gBgPartitioned (br : BR) : Bool := br.partition.isSome

/-- guard `bgRestoredControlled`: a workload that carries the control-info but no saved-settings annotation (never
    initialised by this code, or edited) is "restored" for `Finalize`: no patch, the control-info stays -/
def gBgRestoredControlled (w : BGW) : Bool :=
  match w.w.wl with
  | none => false
  | some wl => CtlBlueGreen.restored wl && bgControlled wl

def bgPreds (kind : CtlBlueGreen.Kind) : Preds BGW where
  ready := fun br w => outBool (bgReady kind br w)
  -- what the unchanged code guarantees: released outside the two guards
  released := fun br w => gBgPartitioned br || gBgRestoredControlled w || bgReleasedFull w
  exposure := fun w => RV.Oracle.CtlBlueGreen.exposureW kind w.w
  allowed := fun br w => match w.w.wl with
    | some wl =>
      (match wl.replicas with
       | some R => RV.Oracle.CtlBlueGreen.plannedOfBR (bgBR br) R
       | none => 0)
    | none => 0
  expoOK := fun _ w => match w.w.wl with
    | some wl => RV.Oracle.CtlBlueGreen.held wl && (CtlBlueGreen.ruSurge wl.ru).isSome
    | none => true
  -- under this BatchRelease's control; when it was not before, with the saved settings and the blue-green hold installed
  claimed := fun _ w w' => match w.w.wl, w'.w.wl with
    | some wl, some wl' =>
      bgControlled wl' &&
      (bgControlled wl ||
       (decide (wl'.minReadySeconds = CtlBlueGreen.maxReady) && decide (CtlBlueGreen.ruUnavailable wl'.ru = some (int 0)) &&
        decide (wl'.saved ≠ .none)))
    | _, _ => false

/-! ### canary-style Deployment -/

def canaryOwnedReplicas (w : CtlCanary.World) : List Int :=
  (w.deps.filter RV.Oracle.CtlCanary.owned).map fun d => d.replicas.getD 0

def canaryPreds : Preds CanaryW where
  ready := fun br w =>
    decide ((CtlCanary.planeEnsureReady (canaryCfg w) (canaryBR br w) (canaryS w)).2 = .ok)
  released := fun _ w =>
    (match w.w.find 0 with
     | none => true
     | some st => decide (st.ctrl = .none)) &&
    w.w.deps.all (fun d => !(RV.Oracle.CtlCanary.owned d && d.finalizer))
  exposure := fun w => (canaryOwnedReplicas w.w).foldl max 0
  allowed := fun br w => (RV.Oracle.CtlCanary.target (canaryBR br w) w.w).getD 0
  wf := fun w => RV.Oracle.CtlCanary.namesNodup w.w
  -- the stable Deployment is under this BatchRelease's control and a canary Deployment of it exists
  claimed := fun _ _ w' =>
    (match w'.w.find 0 with
     | some st => CtlCanary.isControlledBy st
     | none => false) &&
    w'.w.deps.any (fun d => RV.Oracle.CtlCanary.owned d && !d.deleting)

end RV.Oracle.ExecutorX
