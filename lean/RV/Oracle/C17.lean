/-
  C17 — decidable property predicates.  `s` is the state a sync starts from, `t` the state
  right after it (same status numbers, new spec.replicas / annotations).  The same functions
  appear in the theorems of `RV.Props.C17` (with `t := post s`, the model's sync) and are
  evaluated by the driver on the *implementation's* output.
-/
import RV.Model.DepSync
namespace RV.Oracle.C17
open RV.Arith RV.DepSync

/-- total spec.replicas of the old ReplicaSets -/
def oldTotal (s : State) : Int := sumSpec s.olds
/-- spec.replicas of the new ReplicaSet (0 while it does not exist) -/
def newSpec (s : State) : Int := optSpec s.new
/-- available pods as reported by the ReplicaSet statuses -/
def availTotal (s : State) : Int := sumAvail s.olds + optAvail s.new
/-- replicas − maxUnavailable -/
def minAvailable (s : State) : Int := s.replicas - maxUnavailV s
/-- what the partition reserves for the old ReplicaSets when the new one has `n` replicas -/
def reserve (s : State) (n : Int) : Int := s.replicas - max (limit s) n

/-- pods that are available now and are kept by the current spec (the ReplicaSet controller deletes
    not-ready pods first): what is still available once the ReplicaSet controller has caught up -/
def keptAvail (r : RS) : Int := min r.avail r.spec
def floorAvail (s : State) : Int :=
  sumBy keptAvail s.olds + (match s.new with | none => 0 | some r => keptAvail r)
/-- unhealthy (unavailable) pods of the old ReplicaSets -/
def unhealthyOld (s : State) : Int := sumBy (fun r => max 0 (r.spec - r.avail)) s.olds

/-! ### the invariant -/

def rsOk (r : RS) : Bool := decide (0 ≤ r.spec) && decide (0 ≤ r.avail) && decide (r.avail ≤ r.pods)

def fenceOk : Option IntOrPct → Bool
  | some (.int n) => decide (0 ≤ n)
  | some (.pct p) => decide (0 ≤ p)
  | _ => true

/-- sizes are non-negative, available pods are pods, fenceposts are non-negative -/
def invCore (s : State) : Bool :=
  decide (0 ≤ s.replicas) && fenceOk s.maxSurge && fenceOk s.maxUnavailable &&
  s.olds.all rsOk && s.new.all rsOk

/-- a max-replicas annotation, when present, is non-negative -/
def annoOk (r : RS) : Bool :=
  match r.maxAnno with
  | none => true
  | some m => decide (0 ≤ m)

/-- bookkeeping read by the proportional scaling: status.replicas and max-replicas annotations ≥ 0 -/
def invAnno (s : State) : Bool :=
  decide (0 ≤ s.statusReplicas) && s.olds.all annoOk && s.new.all annoOk

/-- `I`: the inductive invariant. -/
def inv (s : State) : Bool := invCore s && invAnno s

/-! ### scope and guards -/

/-- "released in partition style, size not being changed": the sync takes the rolling path -/
def inScope (s : State) : Bool := !s.deleting && !s.paused && !isScalingEvent s

/-- guard `lowerBound`: the new ReplicaSet is about to be created and `NewRSReplicasLowerBound` is 1 -/
def lowerBoundRegion (s : State) : Bool :=
  s.new.isNone && maxSurgeV s == 0 && decide (1 ≤ s.replicas)

/-- guard `stale`: some ReplicaSet status reports more available pods than its spec keeps -/
def stale (s : State) : Bool :=
  (s.olds ++ s.new.toList).any fun r => decide (r.avail > r.spec)

/-! ### clauses -/

/-- (i) while old pods exist, a sync never raises the new RS above `max(current, partition limit)` -/
def clauseI (s t : State) : Bool :=
  !(inScope s && decide (0 < oldTotal s)) || decide (newSpec t ≤ max (newSpec s) (limit s))

/-- (i′) with no old pods there is nothing to roll: the new RS is simply brought to `replicas` -/
def clauseI0 (s t : State) : Bool :=
  !(inScope s && decide (oldTotal s = 0)) || decide (newSpec t = s.replicas)

/-- (ii) a sync never lowers the old total below what the partition reserves -/
def clauseII (s t : State) : Bool :=
  !inScope s || decide (min (oldTotal s) (reserve s (newSpec t)) ≤ oldTotal t)

/-- (ii′) when the old total is below the reserve (and the new RS is left alone) it is raised to it -/
def clauseIIup (s t : State) : Bool :=
  !(inScope s && decide (newSpec t = newSpec s) && decide (0 < oldTotal s) &&
      decide (oldTotal s < reserve s (newSpec s))) ||
  decide (oldTotal t = reserve s (newSpec s))

/-- (iii) raising the new RS keeps the total within replicas + maxSurge -/
def clauseIII (s t : State) : Bool :=
  !(inScope s && decide (newSpec s < newSpec t)) ||
  decide (oldTotal s + newSpec t ≤ s.replicas + maxSurgeV s)

/-- (iv, budget) old pods removed by one sync ≤ unhealthy old pods + (available − minAvailable) -/
def clauseIVbudget (s t : State) : Bool :=
  !inScope s || decide (oldTotal s - oldTotal t ≤ unhealthyOld s + max 0 (availTotal s - minAvailable s))

/-- (iv, spent) when the spec-based budget `old + new.available − (replicas − maxUnavailable)` is used up, a sync
    does not lower the old ReplicaSets at all — whatever the (possibly stale) ReplicaSet statuses report -/
def clauseIVspent (s t : State) : Bool :=
  !(inScope s && decide (oldTotal s + optAvail s.new - minAvailable s ≤ 0)) || decide (oldTotal s ≤ oldTotal t)

/-- (iv) a sync never leaves fewer than `replicas − maxUnavailable` of the currently available pods -/
def clauseIV (s t : State) : Bool :=
  !inScope s || decide (min (floorAvail s) (minAvailable s) ≤ floorAvail t)

/-! ### convergence -/

/-- the partition covers all replicas -/
def covers (s : State) : Bool := limit s == s.replicas
/-- rollingUpdate present and both fenceposts resolve (what `SetDefaultDeploymentStrategy` guarantees) -/
def cfgLive (s : State) : Bool :=
  s.rolling && (resolveFenceposts s.maxSurge s.maxUnavailable s.replicas).isSome
/-- only the new revision runs, at full size -/
def final (s : State) : Bool :=
  (match s.new with | none => false | some r => r.spec == s.replicas) && oldTotal s == 0
/-- every ReplicaSet has exactly its pods, all available -/
def settled (s : State) : Bool :=
  (s.olds ++ s.new.toList).all fun r => r.pods == r.spec && r.avail == r.spec
/-- the variant: distance of the new RS from `replicas` plus old pods (+1 while the new RS is missing) -/
def variant (s : State) : Nat :=
  match s.new with
  | none => s.replicas.natAbs + (oldTotal s).natAbs + 1
  | some r => (s.replicas - r.spec).natAbs + (oldTotal s).natAbs

/-- hypotheses of the convergence clause: `I`, rolling path, covering partition, live fenceposts -/
def live (s : State) : Bool := inv s && inScope s && covers s && cfgLive s

/-- run-time form of (v): outcome of the healthy schedule reported by the harness -/
def clauseV (s : State) (newFinal oldFinal : Int) : Bool :=
  !live s || (newFinal == s.replicas && oldFinal == 0)

end RV.Oracle.C17
