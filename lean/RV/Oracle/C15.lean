/-
  C15 — decidable property predicates for the custom (Lua) network provider.
  Core Lean only.  The same `Bool` functions occur in the theorems of `RV.Props.C15`
  and are evaluated by the driver on the *implementation's* outputs.
-/
import RV.Model.Custom
namespace RV.Oracle.C15
open RV.Custom

/-! ## generic helpers -/

/-- pointwise check of two lists; `false` when the lengths differ. -/
def all2 {α β} (p : α → β → Bool) : List α → List β → Bool
  | [], [] => true
  | a :: as, b :: bs => p a b && all2 p as bs
  | _, _ => false

def all3 {α β γ} (p : α → β → γ → Bool) : List α → List β → List γ → Bool
  | [], [], [] => true
  | a :: as, b :: bs, c :: cs => p a b c && all3 p as bs cs
  | _, _, _ => false

/-! ## (i) statelessness -/

/-- two object states carry the same configuration: the same `spec` as a JSON value
    (object key order irrelevant, absent ≡ null), the same label map and the same annotation map
    (an absent map and `{}` are *not* identified here). -/
def objEqv (a b : Obj) : Bool :=
  decide (canonJ (a.spec.getD .null) = canonJ (b.spec.getD .null))
    && mapsDeepEq a.labels b.labels && mapsDeepEq a.annotations b.annotations

/-- what the provider writes for a script result `d` on an object whose original-configuration
    annotation has the value `orig`: spec, labels and annotations are those of `d`, plus the annotation. -/
def written (orig : String) (d : Data) : Obj :=
  { spec := some d.spec
    labels := optOfList d.labels
    annotations := some (setKey origKey orig d.annotations) }

/-- the script of every reference run on the *original* object alone. -/
def freshAll (s : Strategy) : List (Option Script × Obj) → Option (List Data)
  | [] => some []
  | (some f, o) :: r =>
    match f (dataOf o) s, freshAll s r with
    | some d, some ds => some (d :: ds)
    | _, _ => none
  | (none, _) :: _ => none

/-- **C15.stateless**: every object after the step is the script result on the original object. -/
def statelessOK (c : Codec) (orig : List Obj) (fresh : List Data) (after : List (Option Obj)) : Bool :=
  all3 (fun o d x => match x with
    | some x => objEqv x (written (c.enc (dataOf o)) d)
    | none => false) orig fresh after

/-! ## (ii) restore -/

/-- the user's object has no original-configuration annotation yet. -/
def noOrig (o : Obj) : Bool := (lookup origKey (o.annotations.getD [])).isNone

/-- what Finalise forces: an absent `spec` comes back as `spec: null`, an empty label / annotation
    map comes back as absent.  Nothing else changes. -/
def normalise (o : Obj) : Obj :=
  { spec := some (o.spec.getD .null)
    labels := o.labels.bind optOfList
    annotations := o.annotations.bind optOfList }

/-- **C15.restore**: every object is back at the user's configuration. -/
def restoreOK (orig : List Obj) (after : List (Option Obj)) : Bool :=
  all2 (fun o x => decide (x = some (normalise o))) orig after

/-! ## (iv) idempotence -/

/-- **C15.idempotent**: after a successful EnsureRoutes the same call reports done and writes nothing. -/
def idemOK (r1 r2 : Res) (unchanged : Bool) : Bool :=
  match r1 with
  | .ok _ => decide (r2 = .ok true) && unchanged
  | .err => true

/-! ## (iii) Istio scripts -/

def getField (k : String) : J → Option J
  | .obj kvs => lookup k kvs
  | _ => none

/-- effective weights inside the VirtualService script (`-1` = no weight = all traffic to canary). -/
def vsCanaryW (cw0 : Int) : Int := if cw0 = -1 then 100 else cw0
def vsStableW (cw0 : Int) : Int := if cw0 = -1 then 0 else 100 - cw0

/-- the rule carries `match`. -/
def hasMatch (rule : J) : Bool :=
  match rule with
  | .obj kvs => (lookup "match" kvs).isSome
  | _ => false

/-- every destination of the rule names a host and none is the stable service. -/
def noStableDest (stable : String) (rule : J) : Bool :=
  match rule with
  | .obj kvs =>
    match lookup "route" kvs with
    | some (.arr rs) => rs.all fun r => match routeHost r with
        | some h => h != stable
        | none => false
    | _ => false
  | _ => false

/-- the rule has exactly one destination, it names the stable service, and its weight is absent or 100. -/
def singleStable (stable : String) (rule : J) : Option (List (String × J) × List (String × J)) :=
  match rule with
  | .obj kvs =>
    match lookup "match" kvs, lookup "route" kvs with
    | none, some (.arr [.obj r]) =>
      if routeHost (.obj r) = some stable ∧ (lookup "weight" r = none ∨ lookup "weight" r = some (.int 100))
      then some (kvs, r) else none
    | _, _ => none
  | _ => none

/-- expected rule for a single stable destination: stable `100-w`, canary `w`, all other fields kept. -/
def splitRule (stable canary : String) (cw0 : Int) (kvs r : List (String × J)) : J :=
  .obj (setKey "route" (.arr [.obj (setKey "weight" (.int (vsStableW cw0)) r),
                               canaryDest stable canary (vsCanaryW cw0)]) kvs)

/-- one rule, input (as Lua sees it) against output (as encoded). -/
def vsRuleOK (stable canary : String) (cw0 : Int) (rule out : J) : Bool :=
  if hasMatch rule || noStableDest stable rule then decide (out = encJ rule)
  else match singleStable stable rule with
    | some (kvs, r) => decide (out = encJ (splitRule stable canary cw0 kvs r))
    | none => true

def vsProtoOK (stable canary : String) (cw0 : Int) (specIn specOut : J) (proto : String) : Bool :=
  match getField proto specIn with
  | some (.arr rules) =>
    match getField proto specOut with
    | some (.arr outs) => all2 (vsRuleOK stable canary cw0) rules outs
    | some .null => rules.isEmpty
    | _ => false
  | other => decide (getField proto specOut = other.map encJ)

def protos : List String := ["http", "tcp", "tls"]

/-- every field of the input other than `skip` is in the output with its value (as encoded), and the
    output has no field the input lacks. -/
def frameOK (skip : List String) (kvs : List (String × J)) (out : J) : Bool :=
  (kvs.all fun p => skip.contains p.1 || decide (getField p.1 out = (lookup p.1 kvs).map encJ))
  && match out with
     | .obj okvs => okvs.all fun p => (lookup p.1 kvs).isSome
     | _ => true

/-- **C15.istio (VirtualService, weight step)**: `specIn` is the spec as the script sees it
    (after `decodeValue`), `specOut` the spec the provider receives.  Route lists keep length and
    order; rules with `match` and rules whose destinations are all other hosts are untouched; a rule
    with a single stable destination is split `100-w` / `w`; every non-route field is untouched. -/
def vsWeightOK (stable canary : String) (cw0 : Int) (specIn specOut : J) : Bool :=
  protos.all (vsProtoOK stable canary cw0 specIn specOut)
    && match specIn with
       | .obj kvs => frameOK protos kvs specOut
       | _ => true

/-- **C15.istio (DestinationRule)**: exactly the canary subset is appended; every other field is kept. -/
def drOK (specIn specOut : J) : Bool :=
  match specIn with
  | .obj kvs =>
    match lookup "subsets" kvs with
    | some (.arr xs) =>
      decide (getField "subsets" specOut = some (.arr (encL xs ++ [canarySubset])))
        && frameOK ["subsets"] kvs specOut
    | _ => true
  | _ => true

end RV.Oracle.C15
