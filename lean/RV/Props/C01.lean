import RV.Lemmas.BatchCtx
/-!
# C01 — pod exposure never exceeds what the current step allows

Part 1–2: one `CalculateBatchContext` + `UpgradeBatch` decision, every workload kind,
every replica count, every plan entry (ints, percents, malformed strings), every
current knob value.  The oracles `exposureBound` / `monotone` are the ones the driver
evaluates on the implementation's writes (RV/Oracle/Batch.lean).
-/
namespace RV.Props.C01
open RV.Arith IntOrPct RV.BatchCtx RV.Oracle.Batch

def partitionKind : Kind → Bool
  | .cloneSet | .stsOrdered | .stsUnordered | .daemonSet => true
  | _ => false

/-- Inputs the controls can see: a non-negative size; a no-need-update count (only the
    partition-style control plane sets one) between 0 and the size. -/
def NnValid (kind : Kind) (R : Int) (nn : Option Int) : Prop :=
  0 ≤ R ∧ (∀ k, nn = some k → 0 ≤ k ∧ k ≤ R) ∧ (partitionKind kind = true ∨ nn = none)

/-- **C01.1** — the knob value computed for plan entry `e` exposes at most the pods the step
    allows (`CalculateBatchReplicas`; `k` rolled-back pods count as already updated), except
    that a CloneSet percent partition may exceed it by strictly less than 1 % of the size. -/
theorem desKnob_exposure_bound (kind : Kind) (R : Int) (e : IntOrPct) (nn : Option Int)
    (hv : NnValid kind R nn) : exposureBound kind R e nn (desKnob kind R e nn) = true := by
  obtain ⟨hR, hk, hpk⟩ := hv
  obtain ⟨hs0, hs1, _, hal⟩ := plannedDesired_facts R e nn hR hk
  have hcb0 := calcBatch_nonneg R e hR
  have hcb1 := calcBatch_le R e hR
  generalize hds : desiredStable R e nn = ds at *
  cases kind
  case cloneSet =>
    cases e with
    | int n =>
      simp only [exposureBound, desKnob, hds, isStr, exposureOf, Bool.false_eq_true, and_false,
        if_false, decide_eq_true_eq]
      rw [exposure_int ds _ hs0 hs1]; omega
    | pct p =>
      simp only [exposureBound, desKnob, hds, isStr, exposureOf, and_self, if_true, decide_eq_true_eq]
      by_cases hR0 : 0 < R
      · have := parsePct_slack ds R (pct p) hR0 hs0 hs1
        omega
      · have hR00 : R = 0 := by omega
        have hds0 : ds = 0 := by omega
        subst hR00 hds0
        simp only [parsePct, exposure, keptStable, scaledV, scaled]
        omega
    | bad =>
      simp only [exposureBound, desKnob, hds, isStr, exposureOf, and_self, if_true, decide_eq_true_eq]
      by_cases hR0 : 0 < R
      · have := parsePct_slack ds R bad hR0 hs0 hs1
        omega
      · have hR00 : R = 0 := by omega
        have hds0 : ds = 0 := by omega
        subst hR00 hds0
        simp only [parsePct, exposure, keptStable, scaledV, scaled]
        omega
  case stsOrdered =>
    simp only [exposureBound, desKnob, hds, exposureOf, reduceCtorEq, false_and, if_false, decide_eq_true_eq]
    cases nn with
    | none => simp only []; rw [exposure_int ds _ hs0 hs1]; omega
    | some k =>
      have ⟨hk0, hk1⟩ := hk k rfl
      simp only [allowed] at hal ⊢
      simp only [exposure, keptStable_int]
      split at hal <;> split <;> omega
  case stsUnordered =>
    simp only [exposureBound, desKnob, hds, exposureOf, reduceCtorEq, false_and, if_false, decide_eq_true_eq]
    rw [exposure_int ds _ hs0 hs1]; omega
  case daemonSet =>
    simp only [exposureBound, desKnob, hds, exposureOf, reduceCtorEq, false_and, if_false, decide_eq_true_eq]
    split
    · simp only [exposure, keptStable_int]; omega
    · rw [exposure_int ds _ hs0 hs1]; omega
  case depPartition =>
    have hnn : nn = none := by cases hpk with | inl h => cases h | inr h => exact h
    subst hnn
    simp only [exposureBound, desKnob, exposureOf, reduceCtorEq, false_and, if_false, allowed]
    exact decide_eq_true (newRSLimit_le_calcBatch e R hR)
  case depCanary =>
    have hnn : nn = none := by cases hpk with | inl h => cases h | inr h => exact h
    subst hnn
    simp only [exposureBound, desKnob, exposureOf, reduceCtorEq, false_and, if_false, allowed, intVal]
    exact decide_eq_true (Int.le_refl _)
  case depBlueGreen =>
    have hnn : nn = none := by cases hpk with | inl h => cases h | inr h => exact h
    subst hnn
    simp only [exposureBound, desKnob, exposureOf, reduceCtorEq, false_and, if_false, allowed]
    apply decide_eq_true
    clear hal hcb0 hcb1
    simp only [calcBatchReplicas]
    repeat' split
    all_goals omega
  case csBlueGreen =>
    have hnn : nn = none := by cases hpk with | inl h => cases h | inr h => exact h
    subst hnn
    simp only [exposureBound, desKnob, exposureOf, reduceCtorEq, false_and, if_false, allowed]
    apply decide_eq_true
    clear hal hcb0 hcb1
    simp only [calcBatchReplicas]
    repeat' split
    all_goals omega


/-- For contexts produced by `CalculateBatchContext`, whatever `UpgradeBatch` writes is the
    context's desired knob. -/
theorem upgrade_writes_desired (o : Obs) (c : Ctx) (w : IntOrPct)
    (hc : calcCtx o = .ok c) (hw : upgrade o.kind c = some w) : w = c.knobDes := by
  unfold calcCtx at hc
  split at hc
  · cases hc
  · rename_i e he
    simp only [Outcome.ok.injEq] at hc
    subst hc
    generalize o.kind = kind at *
    have hsts : ∀ nn : Option Int, ∃ n, desKnob .stsOrdered o.replicas e nn = int n := by
      intro nn; cases nn <;> exact ⟨_, rfl⟩
    have hds : ∃ n, desKnob .daemonSet o.replicas e o.noNeedUpdate = int n := ⟨_, rfl⟩
    cases kind <;> simp only [upgrade] at hw <;> split at hw <;>
      first
        | (cases hw; done)
        | (simp only [Option.some.injEq] at hw; subst hw)
    · rfl
    · obtain ⟨n, hn⟩ := hsts o.noNeedUpdate; rw [hn]; rfl
    · rfl
    · obtain ⟨n, hn⟩ := hds; rw [hn]; rfl
    · rfl
    · rfl
    · rfl
    · rfl

/-- **C01.1 (as observed on writes)** — every knob write of `UpgradeBatch` respects the
    exposure bound of the current plan entry. -/
theorem write_exposure_bound (o : Obs) (e : IntOrPct) (c : Ctx) (w : IntOrPct)
    (hv : NnValid o.kind o.replicas o.noNeedUpdate) (he : o.entry = some e)
    (hc : calcCtx o = .ok c) (hw : upgrade o.kind c = some w) :
    exposureBound o.kind o.replicas e o.noNeedUpdate w = true := by
  have h1 := upgrade_writes_desired o c w hc hw
  have h2 : c.knobDes = desKnob o.kind o.replicas e o.noNeedUpdate := by
    unfold calcCtx at hc; rw [he] at hc
    simp only [Outcome.ok.injEq] at hc; subst hc; rfl
  rw [h1, h2]
  exact desKnob_exposure_bound _ _ _ _ hv

/-- The knob kinds whose current value is always an integer on the object
    (`*int32` partitions, the canary Deployment's replicas). -/
def KnobTyped (kind : Kind) (cur : IntOrPct) : Prop :=
  match kind with
  | .stsOrdered | .stsUnordered | .daemonSet | .depCanary => ∃ n, cur = int n
  | _ => True

/-- monotonicity of the environment's clamp -/
theorem keptStable_mono {a b : IntOrPct} {R : Int} (h : scaledV a R true ≤ scaledV b R true) :
    keptStable a R ≤ keptStable b R := by
  simp only [keptStable]; omega

/-- **C01.2** — a knob write never lowers the exposure: `UpgradeBatch` only ever moves the
    workload's update setting toward the new revision. -/
theorem write_monotone (kind : Kind) (c : Ctx) (w : IntOrPct)
    (ht : KnobTyped kind c.knobCur) (hd : KnobTyped kind c.knobDes)
    (hw : upgrade kind c = some w) :
    monotone kind c.replicas c.knobCur w = true := by
  apply decide_eq_true
  cases kind <;> simp only [upgrade] at hw <;> split at hw <;>
    first
      | (cases hw; done)
      | skip
  case cloneSet =>
    rename_i hlt
    simp only [Option.some.injEq] at hw; subst hw
    simp only [exposureOf, exposure]
    have : keptStable c.knobDes c.replicas ≤ keptStable c.knobCur c.replicas :=
      keptStable_mono (by omega)
    omega
  case stsOrdered =>
    rename_i hlt
    simp only [Option.some.injEq] at hw; subst hw
    obtain ⟨n, hn⟩ := ht
    simp only [exposureOf, exposure, keptStable, scaledV, scaled, hn, intVal] at hlt ⊢
    omega
  case stsUnordered =>
    rename_i hlt
    simp only [Option.some.injEq] at hw; subst hw
    obtain ⟨n, hn⟩ := ht
    simp only [exposureOf, exposure, keptStable, scaledV, scaled, hn, intVal] at hlt ⊢
    omega
  case daemonSet =>
    rename_i hlt
    simp only [Option.some.injEq] at hw; subst hw
    obtain ⟨n, hn⟩ := ht
    simp only [exposureOf, exposure, keptStable, scaledV, scaled, hn, intVal] at hlt ⊢
    omega
  case depPartition =>
    rename_i hlt
    simp only [Option.some.injEq] at hw; subst hw
    simp only [exposureOf]; omega
  case depCanary =>
    rename_i hlt
    simp only [Option.some.injEq] at hw; subst hw
    simp only [exposureOf]
    have : intVal (int c.desired) = c.desired := rfl
    omega
  case depBlueGreen =>
    rename_i hlt
    simp only [Option.some.injEq] at hw; subst hw
    simp only [exposureOf]; omega
  case csBlueGreen =>
    rename_i hlt
    simp only [Option.some.injEq] at hw; subst hw
    simp only [exposureOf]; omega

/-! ### non-vacuity (tests on literals, not the ∀ claims) -/
example : exposureOf .cloneSet (desKnob .cloneSet 3 (pct 34) none) 3 = 2 ∧ calcBatchReplicas 3 (pct 34) = 2 := by decide
example : exposureOf .cloneSet (desKnob .cloneSet 199 (pct 50) none) 199 = 101 ∧ calcBatchReplicas 199 (pct 50) = 100 := by decide
example : NnValid .cloneSet 10 (some 3) := by
  refine ⟨by decide, ?_, Or.inl rfl⟩
  intro k hk; cases hk; decide
example : upgrade .cloneSet (Ctx.mk 10 0 0 5 5 (pct 100) (pct 50) none) = some (pct 50) := by decide


/-- **C01 (scaling)** `ParseIntegerAsPercentageIfPossible` always answers with a percentage — never with the bare
    stable count — so the partition written for a percentage plan entry follows the workload's size. -/
theorem parsePct_is_percentage (stable all : Int) (canary : IntOrPct) : ∃ q, parsePct stable all canary = .pct q := by
  unfold parsePct
  split
  · exact ⟨_, rfl⟩
  · split
    · exact ⟨_, rfl⟩
    · dsimp only; split <;> exact ⟨_, rfl⟩

/-- the CloneSet partition computed for a percentage plan entry is a percentage, for every size and no-need-update count -/
theorem cloneSet_percent_partition_is_percentage (R p : Int) (nn : Option Int) :
    ∃ q, desKnob .cloneSet R (.pct p) nn = .pct q := by
  unfold desKnob
  exact parsePct_is_percentage _ _ _

end RV.Props.C01
