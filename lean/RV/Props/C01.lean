import RV.Lemmas.Arith
/-!
# C01 — pod exposure never exceeds what the current step allows

Part 1 (arithmetic bound, CloneSet / StatefulSet-like partition written for a
plan entry).  Further parts are added in later sections of this file.
-/
namespace RV.Props.C01
open RV.Arith IntOrPct

/-- The partition the CloneSet control writes for plan entry `e` at size `R`
    (no no-need-update pods):  `partitionstyle/cloneset/control.go:CalculateBatchContext`. -/
def cloneSetPartition (R : Int) (e : IntOrPct) : IntOrPct :=
  let stable := R - calcBatchReplicas R e
  match e with
  | int _ => int stable
  | _ => parsePct stable R e

/-- **C01.1 (CloneSet, integer plan entries): exposure is exactly the planned count.** -/
theorem cloneSet_int_exact (R n : Int) (hR : 0 ≤ R) :
    exposure (cloneSetPartition R (int n)) R = calcBatchReplicas R (int n) := by
  have h1 := calcBatch_nonneg R (int n) hR
  have h2 := calcBatch_le R (int n) hR
  simp only [cloneSetPartition, exposure, keptStable, scaledV, scaled]
  omega

/-- **C01.1 (CloneSet, percent plan entries): exposure exceeds the planned count
    by strictly less than 1 % of the workload size**, for every size and every
    percent (also > 100 and negative ones, which the clamp absorbs). -/
theorem cloneSet_pct_slack (R p : Int) (hR : 0 < R) :
    100 * (exposure (cloneSetPartition R (pct p)) R - calcBatchReplicas R (pct p)) < R := by
  have h1 := calcBatch_nonneg R (pct p) (by omega)
  have h2 := calcBatch_le R (pct p) (by omega)
  generalize hplanned : calcBatchReplicas R (pct p) = planned at *
  simp only [cloneSetPartition, hplanned, parsePct]
  split
  · -- stable ≥ all : "100%"
    simp only [exposure, keptStable, scaledV, scaled, if_true]
    have := ceilDiv100_mul100 R; omega
  · split
    · -- stable ≤ 0 : "0%"
      simp only [exposure, keptStable, scaledV, scaled, if_true, Int.zero_mul]
      have : ceilDiv100 0 = 0 := by decide
      omega
    · rename_i hs1 hs2
      have hs : 0 < R - planned := by omega
      have htd : ((R - planned) * 100).tdiv R = (100 * (R - planned)) / R := by
        rw [tdiv_pos_eq (by omega) hR, Int.mul_comm]
      have hb := floor_bracket (s := R - planned) hR
      generalize hq : (100 * (R - planned)) / R = q at *
      simp only [htd, scaledV, scaled, if_true]
      have hc1 := ceilDiv100_ge (q * R)
      have hc2 := ceilDiv100_lt (q * R)
      split
      · -- "1%" fallback
        simp only [exposure, keptStable, scaledV, scaled, if_true, Int.one_mul]
        have := ceilDiv100_ge R
        have := ceilDiv100_lt R
        omega
      · simp only [exposure, keptStable, scaledV, scaled, if_true]
        omega

/-- `bad` plan entries (a non-percent string) plan 0 pods and expose 0 pods. -/
theorem cloneSet_bad (R : Int) (hR : 0 ≤ R) :
    exposure (cloneSetPartition R bad) R = 0 := by
  simp only [cloneSetPartition, calcBatchReplicas, scaledV, scaled, parsePct]
  have : ¬ ((0:Int) > R) := by omega
  simp only [this, if_false, Int.lt_irrefl, Int.sub_zero, ge_iff_le, Int.le_refl, if_true,
    exposure, keptStable, scaledV, scaled]
  have := ceilDiv100_mul100 R; omega

/-- non-vacuity: a concrete percent case with positive slack (R = 7, "50%": planned 4, exposed 4;
    R = 3, "34%": planned 2, stable 1 → "33%" → kept 1). -/
example : exposure (cloneSetPartition 3 (pct 34)) 3 = 2 ∧ calcBatchReplicas 3 (pct 34) = 2 := by decide
example : exposure (cloneSetPartition 199 (pct 50)) 199 = 101 ∧ calcBatchReplicas 199 (pct 50) = 100 := by decide
example : exposure (cloneSetPartition 101 (pct 50)) 101 = 51 ∧ calcBatchReplicas 101 (pct 50) = 51 := by decide

end RV.Props.C01
