import RV.Oracle.TRSM
/-! # C18 — TrafficRouting controller: the finalizer guards the teardown -/
namespace RV.Props.TRSM
open RV.Traffic RV.TRSM RV.Oracle.TRSM

/-- `FinalisingTrafficRouting` reporting done leaves no canary route -/
theorem finalising_done_clean (c : TCtx) (n : Net) (m : Mem) (href : c.hasRef = true)
    (hd : (finalisingTrafficRouting c n m).done = true) : (finalisingTrafficRouting c n m).net.canaryIng = none := by
  unfold finalisingTrafficRouting at hd ⊢
  simp only [href, not_true_eq_false, if_false] at hd ⊢
  have hg : ∀ n1 m1, (restoreGateway c n1 m1).net.canaryIng = none := by
    intro n1 m1; unfold restoreGateway finaliseGw
    cases n1.canaryIng <;> simp [href]
  have hc : ∀ n1 m1, (removeCanaryService c n1 m1).net.canaryIng = n1.canaryIng := by
    intro n1 m1; unfold removeCanaryService
    by_cases h2 : c.disableGen = true <;> simp [href, h2]
  repeat' split at hd
  all_goals first | (cases hd; done) | skip
  rename_i h1 h2 h3
  simp only [h1, h2, h3, if_false]
  rw [hc, hg]

/-- **C18 (TrafficRouting)** — for every object, network state and expectation map: the controller
    removes its own finalizer only while the object is being deleted, and only in a reconcile in which
    `FinalisingTrafficRouting` reported done — so that no canary route is left. -/
theorem finalizer_guard (w : World) :
    finalizerGuard w (reconcile w).w.tr (reconcile w).w.net = true ∧
    (w.tr.hasFinalizer = true → (reconcile w).w.tr.hasFinalizer = false → (reconcile w).finalised = true) := by
  obtain ⟨⟨del, hf, prog, ph, wt, gr⟩, n, m⟩ := w
  have hdone := finalising_done_clean (tctx ⟨del, hf, prog, ph, wt, gr⟩) n m rfl
  unfold finalizerGuard reconcile
  dsimp only
  cases del
  · -- live object: the finalizer is only ever added or kept
    cases hf
    · simp
    · simp only [Bool.false_eq_true, not_false_eq_true, not_true_eq_false, and_false, if_false]
      cases ph <;> (repeat' split) <;> simp_all
  · -- in deletion: the phase is Terminating
    simp only [not_true_eq_false, false_and, if_false, if_true]
    generalize hfo : finalisingTrafficRouting (tctx ⟨true, hf, prog, ph, wt, gr⟩) n m = o at *
    cases he : o.err <;> cases hdn : o.done <;> simp only [he, hdn, Bool.false_eq_true, if_false, if_true, not_false_eq_true, not_true_eq_false]
    · cases hf <;> simp
    · have hcl := hdone hdn
      cases hf <;> (repeat' split) <;> simp_all
    · cases hf <;> simp
    · cases hf <;> simp

/-- **C18 (converse)** — once the routes are restored, the next fault-free reconcile of an object in
    deletion removes the finalizer, so deletion is not blocked forever. -/
theorem clean_then_released (w : World) (hd : w.tr.deleting = true) (hclean : w.net.canaryIng = none)
    (hg : w.tr.grace = 0) : (reconcile w).w.tr.hasFinalizer = false ∧ (reconcile w).err = false ∨ (reconcile w).gone = true := by
  unfold reconcile
  dsimp only
  simp only [hd, not_true_eq_false, false_and, if_false, if_true]
  have : (finalisingTrafficRouting (tctx w.tr) w.net w.mem).done = true ∧ (finalisingTrafficRouting (tctx w.tr) w.net w.mem).err = false := by
    unfold finalisingTrafficRouting restoreStableService restoreGateway removeCanaryService finaliseGw runGrace tctx
    by_cases h1 : w.net.stableExists = true <;> simp [h1, hclean, hg]
  simp only [this.1, this.2]
  repeat' split
  all_goals simp_all

/-! ### non-vacuity (tests on literals) -/

/-- a TrafficRouting in deletion whose canary route is still in place: one reconcile keeps the finalizer
    (the clean-up is not done), so `finalizer_guard` speaks about a real situation -/
example :
    let w : World := { tr := { deleting := true, hasFinalizer := true, progressing := 0, phase := .terminating, weight := some 20, grace := 3 },
                       net := { stableExists := true, stableSel := some "v1", canarySvc := some "v2", stableIngress := true, canaryIng := some 20 },
                       mem := Mem.empty }
    (reconcile w).w.tr.hasFinalizer = true ∧ (reconcile w).gone = false := by decide

/-- and once the network is clean the next reconcile releases it (`clean_then_released`) -/
example :
    let w : World := { tr := { deleting := true, hasFinalizer := true, progressing := 0, phase := .terminating, weight := some 20, grace := 0 },
                       net := { stableExists := true, stableSel := none, canarySvc := none, stableIngress := true, canaryIng := none },
                       mem := Mem.empty }
    (reconcile w).w.tr.hasFinalizer = false ∨ (reconcile w).gone = true := by decide

end RV.Props.TRSM
