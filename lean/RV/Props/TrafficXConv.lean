import RV.Props.TrafficXThms
import RV.Props.TrafficThms
/-!
# C07.iii — the Manager over a lawful provider converges (no oscillation, bounded number of rounds)

`doTRX_converges`: on a healthy API server `DoTrafficRouting` reports *done* — or reports an error to its
caller — after at most `bound + 1` further rounds, `bound` being the provider's own bound (1 for the Gateway
API and the custom provider, 2 for the canary Ingress, the sum for a composite).
`finalisingX_converges`: `FinalisingTrafficRouting` reports *done* after at most `leftover ≤ 9` rounds.
-/
namespace RV.Props.TrafficX
open RV.TrafficX RV.Traffic RV.Oracle.TrafficX

variable {S G : Type}

/-- a round whose outcome is final for the caller: done, or an error / a panic it gets to see -/
def settled (o : XOut G) : Prop := o.done = true ∨ o.err = true ∨ o.panic = true

section lawful
variable (ops : StratOps S) {P : Provider S G} {Inv : G → Prop} {spec : G → S → Prop} {clean : G → Prop}
  {μ : G → S → Nat} {bound : Nat} (hL : LawfulProvider P Inv spec clean μ bound)

/-- the state after one more round of `DoTrafficRouting` on a healthy API server -/
def stepNetX (P : Provider S G) (c : XCtx S) (m : Mem) (n : XNet G) : XNet G :=
  (doTrafficRoutingX ops (some P) c Api.ok n m).net

/-- `k` further rounds -/
def iterNetX (P : Provider S G) (c : XCtx S) (m : Mem) : Nat → XNet G → XNet G
  | 0, n => n
  | k + 1, n => iterNetX P c m k (stepNetX ops P c m n)

include hL

/-- with the Services in place every round is a provider round; the provider's variant bounds their number -/
theorem route_rounds (c : XCtx S) (m : Mem) (href : c.hasRef = true) (hstep : isStep ops c.strategy = true)
    (hw : ¬ (c.lastUpdate = .fresh ∧ c.doGrace > 0))
    (hrev : c.noGen = true ∨ (c.stableRev ≠ "" ∧ c.canaryRev ≠ "")) :
    ∀ (b : Nat) (n : XNet G), servicesInPlace c n = true → n.stableExists = true → Inv n.g →
      μ n.g c.strategy ≤ b →
      ∃ k, k ≤ b ∧ settled (doTrafficRoutingX ops (some P) c Api.ok (iterNetX ops P c m k n) m) := by
  intro b
  induction b with
  | zero =>
    intro n hin hex hi hb
    refine ⟨0, Nat.le_refl _, ?_⟩
    show settled (doTrafficRoutingX ops (some P) c Api.ok n m)
    rw [doTRX_inPlace ops (some P) c Api.ok n m href hstep rfl hex hw hin hrev]
    simp only [routeStepX, settled]
    by_cases hp : (P.ensure Api.ok n.g c.strategy).panic = true
    · simp [hp, XOut.panicked]
    · by_cases he : (P.ensure Api.ok n.g c.strategy).err = true
      · simp [hp, he]
      · have hp' : (P.ensure Api.ok n.g c.strategy).panic = false := by simpa using hp
        have he' : (P.ensure Api.ok n.g c.strategy).err = false := by simpa using he
        simp only [hp', he', Bool.false_eq_true, if_false, or_false]
        cases hf : (P.ensure Api.ok n.g c.strategy).flag
        · have := (hL.ensure_progress n.g c.strategy hi hp' he').1 hf
          omega
        · rfl
  | succ b ih =>
    intro n hin hex hi hb
    have ho := doTRX_inPlace ops (some P) c Api.ok n m href hstep rfl hex hw hin hrev
    by_cases hp : (P.ensure Api.ok n.g c.strategy).panic = true
    · exact ⟨0, Nat.zero_le _, by
        show settled (doTrafficRoutingX ops (some P) c Api.ok n m)
        rw [ho]; simp [routeStepX, settled, hp, XOut.panicked]⟩
    · by_cases he : (P.ensure Api.ok n.g c.strategy).err = true
      · exact ⟨0, Nat.zero_le _, by
          show settled (doTrafficRoutingX ops (some P) c Api.ok n m)
          rw [ho]; simp [routeStepX, settled, hp, he]⟩
      · have hp' : (P.ensure Api.ok n.g c.strategy).panic = false := by simpa using hp
        have he' : (P.ensure Api.ok n.g c.strategy).err = false := by simpa using he
        cases hf : (P.ensure Api.ok n.g c.strategy).flag
        · -- not verified: one round spent, the variant went down
          have hlt := (hL.ensure_progress n.g c.strategy hi hp' he').1 hf
          have hnet : stepNetX ops P c m n = { n with g := (P.ensure Api.ok n.g c.strategy).g } := by
            unfold stepNetX; rw [ho]; simp [routeStepX, hp', he']
          obtain ⟨k, hk, hs⟩ := ih (stepNetX ops P c m n) (by rw [hnet]; exact hin) (by rw [hnet]; exact hex)
            (by rw [hnet]; exact hL.inv_ensure Api.ok n.g c.strategy hi) (by rw [hnet]; show μ (P.ensure Api.ok n.g c.strategy).g c.strategy ≤ b; omega)
          exact ⟨k + 1, by omega, hs⟩
        · exact ⟨0, Nat.zero_le _, by
            show settled (doTrafficRoutingX ops (some P) c Api.ok n m)
            rw [ho]; simp [routeStepX, settled, hp', he', hf]⟩

/-- **C07.iii (`doTRX_converges`)** — for every lawful provider, every context with a route to manage and a step
    that has something to route, every state in which the stable Service exists and the provider's invariant
    holds: if the caller comes back whenever its grace period has elapsed, then on a healthy API server
    `DoTrafficRouting` reports *done* — or an error / a panic the caller sees — after at most `bound + 1` further
    rounds.  There is no state from which it keeps rewriting the network silently. -/
theorem doTRX_converges (c : XCtx S) (n : XNet G) (m : Mem) (href : c.hasRef = true)
    (hstep : isStep ops c.strategy = true) (hex : n.stableExists = true) (hi : Inv n.g)
    (hw : ¬ (c.lastUpdate = .fresh ∧ c.doGrace > 0))
    (hrev : c.noGen = true ∨ (c.stableRev ≠ "" ∧ c.canaryRev ≠ "")) :
    ∃ k, k ≤ bound + 1 ∧ settled (doTrafficRoutingX ops (some P) c Api.ok (iterNetX ops P c m k n) m) := by
  by_cases hin : servicesInPlace c n = true
  · obtain ⟨k, hk, hs⟩ := route_rounds ops hL c m href hstep hw hrev bound n hin hex hi (hL.μ_le _ _)
    exact ⟨k, by omega, hs⟩
  · -- the first round puts the Services in place and leaves the provider alone
    obtain ⟨n2, ws, hs, hin2, hg, hse, hnil⟩ := svcStepX_healthy c n hrev
    have hws : ws ≠ [] := by
      intro h; have := hnil h; subst this; exact hin hin2
    have hstepN : stepNetX ops P c m n = n2 := by
      have hnos := (isStep_true_iff ops c.strategy).mp hstep
      unfold stepNetX doTrafficRoutingX
      simp only [href, not_true_eq_false, if_false, hnos, Bool.false_eq_true, Api.read_ok, hex, hw, hs, ne_eq, hws,
        not_false_eq_true, if_true]
    obtain ⟨k, hk, hst⟩ := route_rounds ops hL c m href hstep hw hrev bound n2 hin2 (by rw [hse]; exact hex)
      (by rw [hg]; exact hi) (hL.μ_le _ _)
    refine ⟨k + 1, by omega, ?_⟩
    show settled (doTrafficRoutingX ops (some P) c Api.ok (iterNetX ops P c m k (stepNetX ops P c m n)) m)
    rw [hstepN]; exact hst

end lawful


/-! ## … and so does the Manager over whatever `newNetworkProvider` returned (an error included) -/

/-- the state after one more round of `DoTrafficRouting` on a healthy API server; `Q = none`: the provider cannot
    be built -/
def stepNetO (ops : StratOps S) (Q : Option (Provider S G)) (c : XCtx S) (m : Mem) (n : XNet G) : XNet G :=
  (doTrafficRoutingX ops Q c Api.ok n m).net

/-- `k` further rounds -/
def iterNetO (ops : StratOps S) (Q : Option (Provider S G)) (c : XCtx S) (m : Mem) : Nat → XNet G → XNet G
  | 0, n => n
  | k + 1, n => iterNetO ops Q c m k (stepNetO ops Q c m n)

theorem iterNetO_some (ops : StratOps S) (P : Provider S G) (c : XCtx S) (m : Mem) (k : Nat) (n : XNet G) :
    iterNetO ops (some P) c m k n = iterNetX ops P c m k n := by
  induction k generalizing n with
  | zero => rfl
  | succ k ih => exact ih (stepNetX ops P c m n)

/-- **C07.iii (`refused_converges`)** — a configuration whose provider cannot be built settles at once: under the
    hypotheses of `doTRX_converges`, `DoTrafficRouting` returns the error after at most 1 further round (the
    round that puts the Services in place).  It never keeps retrying silently, and (`refused_doTR`) it never
    touches a provider object. -/
theorem refused_converges (ops : StratOps S) (c : XCtx S) (n : XNet G) (m : Mem) (href : c.hasRef = true)
    (hstep : isStep ops c.strategy = true) (hex : n.stableExists = true)
    (hw : ¬ (c.lastUpdate = .fresh ∧ c.doGrace > 0))
    (hrev : c.noGen = true ∨ (c.stableRev ≠ "" ∧ c.canaryRev ≠ "")) :
    ∃ k, k ≤ 1 ∧ settled (doTrafficRoutingX ops (none : Option (Provider S G)) c Api.ok
      (iterNetO ops (none : Option (Provider S G)) c m k n) m) := by
  obtain ⟨h1, h2⟩ := refused_is_reported (G := G) ops c n m href hstep hex hw hrev
  cases hin : servicesInPlace c n
  · exact ⟨1, Nat.le_refl _, Or.inr (Or.inl (h2 hin))⟩
  · exact ⟨0, Nat.zero_le _, Or.inr (Or.inl (h1 hin))⟩


/-! ## the clean-up converges -/

open RV.Props.Traffic (expW tick tickE tick_noFresh NoFresh runGrace_nofresh expW_tick_le expW_le_one tickE_ne_fresh)

/-- the stable Service still has to be un-pinned -/
def PinX (c : XCtx S) (n : XNet G) : Prop := n.stableExists = true ∧ c.hasRevKey = true ∧ n.stableSel.getD "" ≠ ""

instance (c : XCtx S) (n : XNet G) : Decidable (PinX c n) := by unfold PinX; exact inferInstance

/-- `RestoreStableService` on a healthy API server and a memory without running periods -/
theorem rs_roundX (c : XCtx S) (n : XNet G) (m : Mem) (href : c.hasRef = true) (hg : c.graceSec ≠ 0)
    (hm : m.restoreService ≠ .fresh) :
    (restoreStableServiceX c Api.ok n m).err = false ∧ (restoreStableServiceX c Api.ok n m).a = Api.ok ∧
    (restoreStableServiceX c Api.ok n m).net.g = n.g ∧
    (restoreStableServiceX c Api.ok n m).net.canarySvc = n.canarySvc ∧
    (restoreStableServiceX c Api.ok n m).net.stableExists = n.stableExists ∧
    (restoreStableServiceX c Api.ok n m).mem.restoreGateway = m.restoreGateway ∧
    (restoreStableServiceX c Api.ok n m).mem.removeCanaryService = m.removeCanaryService ∧
    (PinX c n → (restoreStableServiceX c Api.ok n m).done = true ∧
      (restoreStableServiceX c Api.ok n m).net.stableSel = none ∧
      (restoreStableServiceX c Api.ok n m).mem.restoreService = .fresh) ∧
    (¬ PinX c n → (restoreStableServiceX c Api.ok n m).done = false ∧ (restoreStableServiceX c Api.ok n m).net = n ∧
      (n.stableExists = true → (restoreStableServiceX c Api.ok n m).mem.restoreService = .none) ∧
      (n.stableExists = false → (restoreStableServiceX c Api.ok n m).mem = m)) := by
  unfold restoreStableServiceX PinX
  simp only [href, not_true_eq_false, if_false, Api.read_ok, Bool.false_eq_true, Api.spend_ok]
  by_cases hex : n.stableExists = true
  · simp only [hex, not_true_eq_false, if_false, true_and]
    by_cases hk : c.hasRevKey = true
    · by_cases hs : n.stableSel.getD "" = ""
      · have := (runGrace_nofresh c.graceSec m.restoreService false hg hm).2 rfl
        simp [hk, hs, this.1, this.2, hex]
      · have := (runGrace_nofresh c.graceSec m.restoreService true hg hm).1 rfl
        simp [hk, hs, this]
    · have := (runGrace_nofresh c.graceSec m.restoreService false hg hm).2 rfl
      simp [hk, this.1, this.2, hex]
  · simp [hex, XOut.same]

/-- `RemoveCanaryService` on a healthy API server and a memory without running periods -/
theorem rc_roundX (c : XCtx S) (n : XNet G) (m : Mem) (href : c.hasRef = true) (hg : c.graceSec ≠ 0)
    (hm : m.removeCanaryService ≠ .fresh) :
    (removeCanaryServiceX c Api.ok n m).err = false ∧ (removeCanaryServiceX c Api.ok n m).a = Api.ok ∧
    (removeCanaryServiceX c Api.ok n m).net.g = n.g ∧
    (removeCanaryServiceX c Api.ok n m).net.stableSel = n.stableSel ∧
    (removeCanaryServiceX c Api.ok n m).net.stableExists = n.stableExists ∧
    (removeCanaryServiceX c Api.ok n m).mem.restoreService = m.restoreService ∧
    (removeCanaryServiceX c Api.ok n m).mem.restoreGateway = m.restoreGateway ∧
    (c.noGen = true → (removeCanaryServiceX c Api.ok n m).done = false ∧ (removeCanaryServiceX c Api.ok n m).net = n ∧
      (removeCanaryServiceX c Api.ok n m).mem = m) ∧
    (c.noGen = false → (removeCanaryServiceX c Api.ok n m).net.canarySvc = none ∧
      (n.canarySvc.isSome = true → (removeCanaryServiceX c Api.ok n m).done = true ∧
        (removeCanaryServiceX c Api.ok n m).mem.removeCanaryService = .fresh) ∧
      (n.canarySvc.isSome = false → (removeCanaryServiceX c Api.ok n m).done = false ∧
        (removeCanaryServiceX c Api.ok n m).mem.removeCanaryService = .none)) := by
  unfold removeCanaryServiceX
  simp only [href, not_true_eq_false, if_false, Api.spend_ok]
  by_cases hd : c.noGen = true
  · simp [hd, XOut.same]
  · simp only [hd, Bool.false_eq_true, if_false]
    cases hcs : n.canarySvc with
    | none =>
      have := (runGrace_nofresh c.graceSec m.removeCanaryService false hg hm).2 rfl
      simp [this.1, this.2, hcs]
    | some x =>
      have := (runGrace_nofresh c.graceSec m.removeCanaryService true hg hm).1 rfl
      simp [this]

section lawful
variable {P : Provider S G} {Inv : G → Prop} {spec : G → S → Prop} {clean : G → Prop}
  {μ : G → S → Nat} {bound : Nat} (hL : LawfulProvider P Inv spec clean μ bound)

/-- the provider still has something to finalise -/
def DirtyX (P : Provider S G) (n : XNet G) : Prop := (P.finalise Api.ok n.g).flag = true

instance (P : Provider S G) (n : XNet G) : Decidable (DirtyX P n) := by unfold DirtyX; exact inferInstance

include hL

/-- `RestoreGateway` on a healthy API server and a memory without running periods -/
theorem rg_roundX (c : XCtx S) (n : XNet G) (m : Mem) (hi : Inv n.g) (href : c.hasRef = true) (hg : c.graceSec ≠ 0)
    (hm : m.restoreGateway ≠ .fresh) :
    (restoreGatewayX (some P) c Api.ok n m).err = false ∧ (restoreGatewayX (some P) c Api.ok n m).panic = false ∧
    (restoreGatewayX (some P) c Api.ok n m).a = Api.ok ∧
    (restoreGatewayX (some P) c Api.ok n m).net.stableSel = n.stableSel ∧
    (restoreGatewayX (some P) c Api.ok n m).net.canarySvc = n.canarySvc ∧
    (restoreGatewayX (some P) c Api.ok n m).net.stableExists = n.stableExists ∧
    Inv (restoreGatewayX (some P) c Api.ok n m).net.g ∧
    ¬ DirtyX P (restoreGatewayX (some P) c Api.ok n m).net ∧
    (restoreGatewayX (some P) c Api.ok n m).mem.restoreService = m.restoreService ∧
    (restoreGatewayX (some P) c Api.ok n m).mem.removeCanaryService = m.removeCanaryService ∧
    (DirtyX P n → (restoreGatewayX (some P) c Api.ok n m).done = true ∧
      (restoreGatewayX (some P) c Api.ok n m).mem.restoreGateway = .fresh) ∧
    (¬ DirtyX P n → (restoreGatewayX (some P) c Api.ok n m).done = false ∧
      (restoreGatewayX (some P) c Api.ok n m).mem.restoreGateway = .none) := by
  obtain ⟨he, hp⟩ := hL.finalise_healthy n.g hi
  have ha := hL.healthy_finalise n.g
  have hinv := hL.inv_finalise Api.ok n.g hi
  have hst := hL.finalise_stable Api.ok n.g hi hp he Api.ok rfl
  unfold restoreGatewayX DirtyX
  simp only [href, not_true_eq_false, if_false, hp, he, Bool.false_eq_true]
  have hnd : ¬ (P.finalise Api.ok (P.finalise Api.ok n.g).g).flag = true := by rw [hst]; simp [PRes.noop]
  cases hf : (P.finalise Api.ok n.g).flag
  · have := (runGrace_nofresh c.graceSec m.restoreGateway false hg hm).2 rfl
    simp [this.1, this.2, ha, hinv, hnd]
  · have := (runGrace_nofresh c.graceSec m.restoreGateway true hg hm).1 rfl
    simp [this, ha, hinv, hnd]


omit hL in
def pinWX (c : XCtx S) (n : XNet G) : Nat := if PinX c n then 2 else 0
omit hL in
def provWX (P : Provider S G) (n : XNet G) : Nat := if DirtyX P n then 2 else 0
omit hL in
def svcWX (c : XCtx S) (n : XNet G) : Nat := if c.noGen = false ∧ n.canarySvc.isSome = true then 2 else 0

omit hL in
/-- what is left to clean up, weighted so that every round that is not done lowers it -/
def leftoverX (P : Provider S G) (c : XCtx S) (n : XNet G) (m : Mem) : Nat :=
  pinWX c n + provWX P n + svcWX c n + expW m.restoreService + expW m.restoreGateway + expW m.removeCanaryService

omit hL in
theorem pinWX_congr (c : XCtx S) (n n' : XNet G) (h1 : n'.stableExists = n.stableExists) (h2 : n'.stableSel = n.stableSel) :
    pinWX c n' = pinWX c n := by
  have hiff : PinX c n' ↔ PinX c n := by unfold PinX; rw [h1, h2]
  unfold pinWX
  by_cases hp : PinX c n
  · rw [if_pos hp, if_pos (hiff.mpr hp)]
  · rw [if_neg hp, if_neg (fun h => hp (hiff.mp h))]
omit hL in
theorem provWX_congr (P : Provider S G) (n n' : XNet G) (h : n'.g = n.g) : provWX P n' = provWX P n := by
  have hiff : DirtyX P n' ↔ DirtyX P n := by unfold DirtyX; rw [h]
  unfold provWX
  by_cases hp : DirtyX P n
  · rw [if_pos hp, if_pos (hiff.mpr hp)]
  · rw [if_neg hp, if_neg (fun h => hp (hiff.mp h))]
omit hL in
theorem svcWX_congr (c : XCtx S) (n n' : XNet G) (h : n'.canarySvc = n.canarySvc) : svcWX c n' = svcWX c n := by
  unfold svcWX; rw [h]

/-- **one round of the clean-up makes progress**: it reports done, or strictly less is left afterwards; on a
    healthy API server it never fails -/
theorem fin_round_progressX (c : XCtx S) (n : XNet G) (m : Mem) (hi : Inv n.g) (href : c.hasRef = true)
    (hg : c.graceSec ≠ 0) (hm : NoFresh m) :
    (finalisingTrafficRoutingX (some P) c Api.ok n m).err = false ∧
    (finalisingTrafficRoutingX (some P) c Api.ok n m).panic = false ∧
    Inv (finalisingTrafficRoutingX (some P) c Api.ok n m).net.g ∧
    ((finalisingTrafficRoutingX (some P) c Api.ok n m).done = true ∨
     leftoverX P c (finalisingTrafficRoutingX (some P) c Api.ok n m).net
        (tick (finalisingTrafficRoutingX (some P) c Api.ok n m).mem) < leftoverX P c n m) := by
  obtain ⟨hm1, hm2, hm3⟩ := hm
  obtain ⟨e1, ao1, a0, a2, a3, a4, a5, p1, p2⟩ := rs_roundX c n m href hg hm1
  have pan1 : (restoreStableServiceX c Api.ok n m).panic = false := (rs_specX c Api.ok n m).2.2.2.2.1
  generalize hr1 : restoreStableServiceX c Api.ok n m = r1 at *
  have hi1 : Inv r1.net.g := by rw [a0]; exact hi
  generalize ho : finalisingTrafficRoutingX (some P) c Api.ok n m = o
  unfold finalisingTrafficRoutingX at ho
  simp only [href, not_true_eq_false, if_false, hr1] at ho
  by_cases hpin : PinX c n
  · -- the stable Service is un-pinned in this round
    obtain ⟨d1, s1, x1⟩ := p1 hpin
    simp only [e1, d1, Bool.false_eq_true, false_or, if_true] at ho
    subst ho
    refine ⟨rfl, pan1, hi1, Or.inr ?_⟩
    show leftoverX P c r1.net (tick r1.mem) < leftoverX P c n m
    unfold leftoverX
    have hA : pinWX c r1.net = 0 := by
      unfold pinWX; rw [if_neg]; unfold PinX; rw [s1]; simp
    have hA0 : pinWX c n = 2 := by unfold pinWX; rw [if_pos hpin]
    have hB := provWX_congr P n r1.net a0
    have hC := svcWX_congr c n r1.net a2
    have hx : expW (tick r1.mem).restoreService = 1 := by
      show expW (tickE r1.mem.restoreService) = 1; rw [x1]; rfl
    have hy : expW (tick r1.mem).restoreGateway ≤ expW m.restoreGateway := by
      show expW (tickE r1.mem.restoreGateway) ≤ _; rw [a4]; exact expW_tick_le _
    have hz : expW (tick r1.mem).removeCanaryService ≤ expW m.removeCanaryService := by
      show expW (tickE r1.mem.removeCanaryService) ≤ _; rw [a5]; exact expW_tick_le _
    omega
  · obtain ⟨d1, s1, x1, x1'⟩ := p2 hpin
    simp only [e1, d1, Bool.false_eq_true, or_self, if_false, ao1] at ho
    have hm2' : r1.mem.restoreGateway ≠ .fresh := by rw [a4]; exact hm2
    have hm3' : r1.mem.removeCanaryService ≠ .fresh := by rw [a5]; exact hm3
    have hrs : expW r1.mem.restoreService ≤ expW m.restoreService := by
      by_cases hex : n.stableExists = true
      · rw [x1 hex]; simp [expW]
      · rw [x1' (by simpa using hex)]; exact Nat.le_refl _
    obtain ⟨e2, pp2, ao2, b1, b2, b3, hi2, bclean, b5, b6, q1, q2⟩ := rg_roundX hL c r1.net r1.mem hi1 href hg hm2'
    generalize hr2 : restoreGatewayX (some P) c Api.ok r1.net r1.mem = r2 at *
    simp only [pp2, Bool.false_eq_true, if_false] at ho
    by_cases hdirty : DirtyX P r1.net
    · obtain ⟨d2, y2⟩ := q1 hdirty
      simp only [e2, d2, Bool.false_eq_true, false_or, if_true] at ho
      subst ho
      refine ⟨rfl, rfl, hi2, Or.inr ?_⟩
      show leftoverX P c r2.net (tick r2.mem) < leftoverX P c n m
      unfold leftoverX
      have hA : pinWX c r2.net = pinWX c n := by
        rw [pinWX_congr c r1.net r2.net b3 b1, s1]
      have hB : provWX P r2.net = 0 := by unfold provWX; rw [if_neg bclean]
      have hB0 : provWX P n = 2 := by
        rw [← provWX_congr P n r1.net a0]; unfold provWX; rw [if_pos hdirty]
      have hC : svcWX c r2.net = svcWX c n := by rw [svcWX_congr c r1.net r2.net b2, svcWX_congr c n r1.net a2]
      have hx : expW (tick r2.mem).restoreService ≤ expW m.restoreService := by
        show expW (tickE r2.mem.restoreService) ≤ _; rw [b5]; exact Nat.le_trans (expW_tick_le _) hrs
      have hy : expW (tick r2.mem).restoreGateway = 1 := by
        show expW (tickE r2.mem.restoreGateway) = 1; rw [y2]; rfl
      have hz : expW (tick r2.mem).removeCanaryService ≤ expW m.removeCanaryService := by
        show expW (tickE r2.mem.removeCanaryService) ≤ _; rw [b6, a5]; exact expW_tick_le _
      omega
    · obtain ⟨d2, y2⟩ := q2 hdirty
      simp only [e2, d2, Bool.false_eq_true, or_self, if_false, ao2] at ho
      have hm3'' : r2.mem.removeCanaryService ≠ .fresh := by rw [b6]; exact hm3'
      obtain ⟨e3, ao3, c0, c1, c3, c4, c5, t1, t2⟩ := rc_roundX c r2.net r2.mem href hg hm3''
      generalize hr3 : removeCanaryServiceX c Api.ok r2.net r2.mem = r3 at *
      have hi3 : Inv r3.net.g := by rw [c0]; exact hi2
      by_cases hd : c.noGen = true
      · obtain ⟨d3, _, _⟩ := t1 hd
        simp only [e3, d3, Bool.false_eq_true, or_self, if_false] at ho
        subst ho
        exact ⟨rfl, rfl, hi3, Or.inl rfl⟩
      · have hd' : c.noGen = false := by simpa using hd
        obtain ⟨u1, u2, u3⟩ := t2 hd'
        by_cases hsvc : r2.net.canarySvc.isSome = true
        · obtain ⟨d3, z3⟩ := u2 hsvc
          simp only [e3, d3, Bool.false_eq_true, false_or, if_true] at ho
          subst ho
          refine ⟨rfl, rfl, hi3, Or.inr ?_⟩
          show leftoverX P c r3.net (tick r3.mem) < leftoverX P c n m
          unfold leftoverX
          have hA : pinWX c r3.net = pinWX c n := by
            rw [pinWX_congr c r2.net r3.net c3 c1, pinWX_congr c r1.net r2.net b3 b1, s1]
          have hB : provWX P r3.net ≤ provWX P n := by
            rw [provWX_congr P r2.net r3.net c0]; unfold provWX; rw [if_neg bclean]; exact Nat.zero_le _
          have hC : svcWX c r3.net = 0 := by unfold svcWX; rw [u1]; simp
          have hC0 : svcWX c n = 2 := by
            unfold svcWX; rw [← a2, ← b2, if_pos ⟨hd', hsvc⟩]
          have hx : expW (tick r3.mem).restoreService ≤ expW m.restoreService := by
            show expW (tickE r3.mem.restoreService) ≤ _; rw [c4, b5]; exact Nat.le_trans (expW_tick_le _) hrs
          have hy : expW (tick r3.mem).restoreGateway ≤ expW m.restoreGateway := by
            show expW (tickE r3.mem.restoreGateway) ≤ _; rw [c5, y2]; simp [tickE, expW]
          have hz : expW (tick r3.mem).removeCanaryService = 1 := by
            show expW (tickE r3.mem.removeCanaryService) = 1; rw [z3]; rfl
          omega
        · have hsvc' : r2.net.canarySvc.isSome = false := by simpa using hsvc
          obtain ⟨d3, _⟩ := u3 hsvc'
          simp only [e3, d3, Bool.false_eq_true, or_self, if_false] at ho
          subst ho
          exact ⟨rfl, rfl, hi3, Or.inl rfl⟩

/-- `k` rounds of clean-up on a healthy API server, time passing after each -/
def finIterX (P : Provider S G) (c : XCtx S) : Nat → XNet G × Mem → XNet G × Mem
  | 0, s => s
  | k + 1, s => finIterX P c k ((finalisingTrafficRoutingX (some P) c Api.ok s.1 s.2).net,
                                 tick (finalisingTrafficRoutingX (some P) c Api.ok s.1 s.2).mem)

theorem finalisingX_converges_aux (c : XCtx S) (href : c.hasRef = true) (hg : c.graceSec ≠ 0) :
    ∀ (b : Nat) (n : XNet G) (m : Mem), Inv n.g → leftoverX P c n m ≤ b → NoFresh m →
      ∃ k, k ≤ b ∧ (finalisingTrafficRoutingX (some P) c Api.ok (finIterX P c k (n, m)).1 (finIterX P c k (n, m)).2).done = true := by
  intro b
  induction b with
  | zero =>
    intro n m hi hb hm
    obtain ⟨_, _, _, hp⟩ := fin_round_progressX hL c n m hi href hg hm
    rcases hp with hd | hlt
    · exact ⟨0, Nat.le_refl _, hd⟩
    · omega
  | succ b ih =>
    intro n m hi hb hm
    obtain ⟨_, _, hi', hp⟩ := fin_round_progressX hL c n m hi href hg hm
    rcases hp with hd | hlt
    · exact ⟨0, Nat.zero_le _, hd⟩
    · obtain ⟨k, hk, hdone⟩ := ih (finalisingTrafficRoutingX (some P) c Api.ok n m).net
        (tick (finalisingTrafficRoutingX (some P) c Api.ok n m).mem) hi' (by omega) (tick_noFresh _)
      exact ⟨k + 1, by omega, hdone⟩

/-- **C05 / C07 (`finalisingX_converges`)** — for every lawful provider, every context, every state satisfying the
    provider's invariant and every grace memory without a running period (e.g. the empty memory after a
    restart): if the caller comes back whenever its grace period has elapsed, then on a healthy API server
    `FinalisingTrafficRouting` reports *done* after at most `leftover ≤ 9` rounds and never an error — and by
    `finalisingX_order_partial` *done* means un-pinned, provider clean, canary Service removed, in that order. -/
theorem finalisingX_converges (c : XCtx S) (n : XNet G) (m : Mem) (hi : Inv n.g) (href : c.hasRef = true)
    (hg : c.graceSec ≠ 0) (hm : NoFresh m) :
    ∃ k, k ≤ 9 ∧ (finalisingTrafficRoutingX (some P) c Api.ok (finIterX P c k (n, m)).1 (finIterX P c k (n, m)).2).done = true := by
  have hle : leftoverX P c n m ≤ 9 := by
    unfold leftoverX pinWX provWX svcWX
    have := expW_le_one m.restoreService
    have := expW_le_one m.restoreGateway
    have := expW_le_one m.removeCanaryService
    split <;> split <;> split <;> omega
  obtain ⟨k, hk, hd⟩ := finalisingX_converges_aux hL c href hg (leftoverX P c n m) n m hi (Nat.le_refl _) hm
  exact ⟨k, by omega, hd⟩

end lawful

end RV.Props.TrafficX
