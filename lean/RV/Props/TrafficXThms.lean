import RV.Lemmas.TrafficXMgr
/-!
# The traffic Manager over an arbitrary lawful provider (C03, C04, C05, C06, C07)

Model: `RV/Model/TrafficX.lean` (the Manager functions of `pkg/trafficrouting/manager.go`, parametric in a
`Provider`; `CompositeController` as `seq` / `composite`).  Provider laws: `RV.TrafficX.LawfulProvider`
(`RV/Lemmas/TrafficX.lean`); they are proved for the Gateway API, the canary-Ingress and the custom (Lua)
provider from the theorems of C13 / C14 / C15 in `RV/Props/TrafficXInst.lean`.

Every statement quantifies over every provider satisfying the laws, every state of its objects satisfying
its invariant, every Service state, every grace memory, every context and — unless a *healthy* API server
is asked for explicitly (`Api.ok`) — every write budget and read fault.
-/
namespace RV.Props.TrafficX
open RV.TrafficX RV.Traffic RV.Oracle.TrafficX

variable {S G : Type}

/-! ## the shape of a `DoTrafficRouting` call -/

/-- Either the provider is not called — then its objects are untouched and only Service writes are issued —
    or it is called: then the context has a ref and something to route, the stable Service exists, no grace
    period is running, both Services were found in place, and the call is the provider step on the
    unchanged Services. -/
theorem doTRX_cases (ops : StratOps S) (P : Option (Provider S G)) (c : XCtx S) (a : Api) (n : XNet G) (m : Mem) :
    ((doTrafficRoutingX ops P c a n m).net.g = n.g ∧ SvcWritesOnly (doTrafficRoutingX ops P c a n m).writes ∧
      (doTrafficRoutingX ops P c a n m).panic = false ∧ (doTrafficRoutingX ops P c a n m).mem = m ∧
      (doTrafficRoutingX ops P c a n m).net.stableExists = n.stableExists ∧
      ((doTrafficRoutingX ops P c a n m).done = true →
        (c.hasRef = false ∨ isStep ops c.strategy = false) ∧ (doTrafficRoutingX ops P c a n m) = .same true false n m a) ∧
      (readFailed a (doTrafficRoutingX ops P c a n m).a = true → (doTrafficRoutingX ops P c a n m).err = true) ∧
      ((doTrafficRoutingX ops P c a n m).a.armed = true → a.armed = true)) ∨
    (c.hasRef = true ∧ isStep ops c.strategy = true ∧ n.stableExists = true ∧
      ¬ (c.lastUpdate = .fresh ∧ c.doGrace > 0) ∧ servicesInPlace c n = true ∧
      (c.noGen = true ∨ (c.stableRev ≠ "" ∧ c.canaryRev ≠ "")) ∧
      ∃ a2, readFailed a a2 = false ∧ (a2.armed = true → a.armed = true) ∧ (a.armed = false → a2 = a) ∧
        doTrafficRoutingX ops P c a n m = routeStepX P c.strategy a2 n m) := by
  generalize ho : doTrafficRoutingX ops P c a n m = o
  unfold doTrafficRoutingX at ho
  by_cases href : c.hasRef = true
  · simp only [href, not_true_eq_false, if_false] at ho
    by_cases hst : (ops.noTraffic c.strategy && ops.noMatches c.strategy) = true
    · left
      simp only [hst, if_true, XOut.same] at ho
      subst ho
      exact ⟨rfl, SvcWritesOnly.nil, rfl, rfl, rfl, fun _ => ⟨Or.inr (by simp [isStep, hst]), rfl⟩,
        (fun h => by rw [readFailed_self] at h; cases h), fun h => h⟩
    · simp only [hst, Bool.false_eq_true, if_false] at ho
      have hstep : isStep ops c.strategy = true := by
        simp only [isStep]; cases h : (ops.noTraffic c.strategy && ops.noMatches c.strategy)
        · rfl
        · exact absurd h hst
      rcases Api.read_cases a with ⟨hr, har, hr2⟩ | ⟨hr, hr2⟩
      · -- the Get of the stable Service fails
        left
        rw [show a.read = (a.read.1, a.read.2) from rfl, hr] at ho
        simp only [if_true, XOut.same] at ho
        subst ho
        exact ⟨rfl, SvcWritesOnly.nil, rfl, rfl, rfl, (fun h => by cases h), fun _ => rfl,
          fun h => by rw [hr2] at h; cases h⟩
      · rw [show a.read = (a.read.1, a.read.2) from rfl, hr] at ho
        simp only [Bool.false_eq_true, if_false] at ho
        have hsame : a.armed = false → a.read.2 = a := Api.read_snd_not_armed
        generalize a.read.2 = a1 at hr2 hsame ho
        have rf1 : readFailed a a1 = false := by unfold readFailed; rw [hr2]; cases a.armed <;> rfl
        have mono1 : a1.armed = true → a.armed = true := fun h => by rw [← hr2]; exact h
        by_cases hex : n.stableExists = true
        · simp only [hex, not_true_eq_false, if_false] at ho
          by_cases hw : c.lastUpdate = .fresh ∧ c.doGrace > 0
          · left
            simp only [hw, and_self, if_true, XOut.same] at ho
            subst ho
            exact ⟨rfl, SvcWritesOnly.nil, rfl, rfl, rfl, (fun h => by cases h),
              (fun h => by rw [rf1] at h; cases h), mono1⟩
          · simp only [hw, if_false] at ho
            rcases svcStepX_spec c a1 n with ⟨hs, _, _⟩ | ⟨n2, ws, a2, hs, _, hg, hse, hws, hm⟩ |
              ⟨n2, ws, a2, hs, hg, hse, hin, hws, hnil, hm, hrf⟩
            · left
              simp only [hs, XOut.same] at ho
              subst ho
              exact ⟨rfl, SvcWritesOnly.nil, rfl, rfl, rfl, (fun h => by cases h),
                (fun h => by rw [rf1] at h; cases h), mono1⟩
            · left
              simp only [hs] at ho
              subst ho
              exact ⟨hg, hws, rfl, rfl, hse, (fun h => by cases h), (fun _ => rfl), fun h => mono1 (hm h)⟩
            · simp only [hs] at ho
              by_cases hwe : ws = []
              · right
                subst hwe
                have hn2 := hnil rfl
                subst hn2
                have hrevs : c.noGen = true ∨ (c.stableRev ≠ "" ∧ c.canaryRev ≠ "") := by
                  by_cases hng : c.noGen = true
                  · exact Or.inl hng
                  · right
                    have hng' : c.noGen = false := by simpa using hng
                    unfold svcStepX at hs
                    simp only [hng', Bool.false_eq_true, if_false] at hs
                    by_cases hrev : c.stableRev = "" ∨ c.canaryRev = ""
                    · simp [hrev] at hs
                    · exact ⟨fun h => hrev (Or.inl h), fun h => hrev (Or.inr h)⟩
                refine ⟨href, hstep, hex, hw, hin, hrevs, a2, readFailed_trans rf1 hrf mono1, fun h => mono1 (hm h), ?_, ?_⟩
                · intro ha
                  have h1 := hsame ha
                  subst h1
                  have := svcStepX_inPlace c a1 n2 ha hin hrevs
                  rw [this] at hs
                  injection hs with _ _ h3
                  exact h3.symm
                · simp only [ne_eq, not_true_eq_false, if_false] at ho
                  exact ho.symm
              · left
                simp only [ne_eq, hwe, not_false_eq_true, if_true] at ho
                subst ho
                exact ⟨hg, hws, rfl, rfl, hse, (fun h => by cases h),
                  (fun h => by rw [readFailed_trans rf1 hrf mono1] at h; cases h), fun h => mono1 (hm h)⟩
        · left
          have hex' : n.stableExists = false := by simpa using hex
          simp only [hex', Bool.false_eq_true, not_false_eq_true, if_true, XOut.same] at ho
          subst ho
          exact ⟨rfl, SvcWritesOnly.nil, rfl, rfl, rfl, (fun h => by cases h),
            (fun h => by rw [rf1] at h; cases h), mono1⟩
  · left
    have href' : c.hasRef = false := by simpa using href
    simp only [href', Bool.false_eq_true, not_false_eq_true, if_true, XOut.same] at ho
    subst ho
    exact ⟨rfl, SvcWritesOnly.nil, rfl, rfl, rfl, fun _ => ⟨Or.inl href', rfl⟩,
      (fun h => by rw [readFailed_self] at h; cases h), fun h => h⟩


theorem isStep_false_iff (ops : StratOps S) (s : S) :
    isStep ops s = false ↔ (ops.noTraffic s && ops.noMatches s) = true := by
  unfold isStep; cases (ops.noTraffic s && ops.noMatches s) <;> simp

theorem isStep_true_iff (ops : StratOps S) (s : S) :
    isStep ops s = true ↔ (ops.noTraffic s && ops.noMatches s) = false := by
  unfold isStep; cases (ops.noTraffic s && ops.noMatches s) <;> simp

/-- the provider step never touches the Services or the grace memory -/
theorem routeStepX_frame (P : Option (Provider S G)) (s : S) (a : Api) (n : XNet G) (m : Mem) :
    (routeStepX P s a n m).net.stableSel = n.stableSel ∧ (routeStepX P s a n m).net.canarySvc = n.canarySvc ∧
    (routeStepX P s a n m).net.stableExists = n.stableExists ∧ (routeStepX P s a n m).mem = m := by
  unfold routeStepX
  cases P with
  | none => exact ⟨rfl, rfl, rfl, rfl⟩
  | some P =>
    simp only []
    split
    · exact ⟨rfl, rfl, rfl, rfl⟩
    · split <;> exact ⟨rfl, rfl, rfl, rfl⟩

/-- with the Services in place and no grace period running, `DoTrafficRouting` is the provider step -/
theorem doTRX_inPlace (ops : StratOps S) (P : Option (Provider S G)) (c : XCtx S) (a : Api) (n : XNet G) (m : Mem)
    (href : c.hasRef = true) (hstep : isStep ops c.strategy = true) (ha : a.armed = false)
    (hex : n.stableExists = true) (hw : ¬ (c.lastUpdate = .fresh ∧ c.doGrace > 0)) (hin : servicesInPlace c n = true)
    (hrev : c.noGen = true ∨ (c.stableRev ≠ "" ∧ c.canaryRev ≠ "")) :
    doTrafficRoutingX ops P c a n m = routeStepX P c.strategy a n m := by
  have hs := (isStep_true_iff ops c.strategy).mp hstep
  unfold doTrafficRoutingX
  simp only [href, not_true_eq_false, if_false, hs, Bool.false_eq_true, Api.read_of_not_armed ha, hex, hw,
    svcStepX_inPlace c a n ha hin hrev, ne_eq]

/-! ## C03 — done means routed; Services before routes -/

section lawful
variable (ops : StratOps S) {P : Provider S G} {Inv : G → Prop} {spec : G → S → Prop} {clean : G → Prop}
  {μ : G → S → Nat} {bound : Nat} (hL : LawfulProvider P Inv spec clean μ bound)
include hL

/-- **C03 (`doneX_means_routed`)** — for every lawful provider: when `DoTrafficRouting` reports *done* for a
    step that has something to route (a weight **or** matches), the stable Service exists, both Services are
    in place (canary Service selecting the canary revision, stable Service pinned to the stable revision —
    unless no canary Service is generated), and the provider's objects carry *this* step (`spec`); the call
    returned neither an error nor a panic. -/
theorem doneX_means_routed (c : XCtx S) (a : Api) (n : XNet G) (m : Mem) (hi : Inv n.g)
    (href : c.hasRef = true) (hs : isStep ops c.strategy = true)
    (hd : (doTrafficRoutingX ops (some P) c a n m).done = true) :
    (doTrafficRoutingX ops (some P) c a n m).net.stableExists = true ∧
    servicesInPlace c (doTrafficRoutingX ops (some P) c a n m).net = true ∧
    spec (doTrafficRoutingX ops (some P) c a n m).net.g c.strategy ∧
    (doTrafficRoutingX ops (some P) c a n m).err = false ∧ (doTrafficRoutingX ops (some P) c a n m).panic = false := by
  rcases doTRX_cases ops (some P) c a n m with ⟨_, _, _, _, _, hdone, _, _⟩ | ⟨_, _, hex, _, hin, _, a2, _, _, _, ho⟩
  · rcases (hdone hd).1 with h | h
    · rw [href] at h; cases h
    · rw [hs] at h; cases h
  · rw [ho] at hd ⊢
    simp only [routeStepX] at hd ⊢
    cases hp : (P.ensure a2 n.g c.strategy).panic
    · simp only [hp, Bool.false_eq_true, if_false] at hd ⊢
      cases he : (P.ensure a2 n.g c.strategy).err
      · simp only [he, Bool.false_eq_true, if_false] at hd ⊢
        exact ⟨hex, hin, hL.verified_spec a2 n.g c.strategy hi hp he hd, trivial, trivial⟩
      · simp [he] at hd
    · simp [hp, XOut.panicked] at hd

/-- the same as the decidable oracle evaluated by the driver on the implementation's output:
    `specOk` is any Boolean judgement implied by the provider's spec on the state after the call -/
theorem doneX_means_routed_oracle (c : XCtx S) (a : Api) (n : XNet G) (m : Mem) (hi : Inv n.g) (specOk : Bool)
    (hspec : spec (doTrafficRoutingX ops (some P) c a n m).net.g c.strategy → specOk = true) :
    doneMeansRoutedX c (isStep ops c.strategy) specOk (doTrafficRoutingX ops (some P) c a n m) = true := by
  unfold doneMeansRoutedX
  split
  · rename_i h
    simp only [Bool.and_eq_true] at h
    obtain ⟨⟨hd, href⟩, hs⟩ := h
    obtain ⟨h1, h2, h3, _, _⟩ := doneX_means_routed ops hL c a n m hi href hs hd
    simp [h1, h2, hspec h3]
  · rfl

/-- **C03 / C04 (`servicesX_before_routes`)** — a call of `DoTrafficRouting` that touches the provider (changes
    its objects or issues a provider write) found the stable Service, found both Services already in place and
    no grace period running, and does not touch the Services itself. -/
theorem servicesX_before_routes (c : XCtx S) (a : Api) (n : XNet G) (m : Mem)
    (ht : (doTrafficRoutingX ops (some P) c a n m).net.g ≠ n.g ∨
          providerTouched (doTrafficRoutingX ops (some P) c a n m).writes = true) :
    n.stableExists = true ∧ servicesInPlace c n = true ∧ ¬ (c.lastUpdate = .fresh ∧ c.doGrace > 0) ∧
    (doTrafficRoutingX ops (some P) c a n m).net.stableSel = n.stableSel ∧
    (doTrafficRoutingX ops (some P) c a n m).net.canarySvc = n.canarySvc ∧
    NamedWrites (doTrafficRoutingX ops (some P) c a n m).writes := by
  rcases doTRX_cases ops (some P) c a n m with ⟨hg, hws, _⟩ | ⟨_, _, hex, hw, hin, _, a2, _, _, _, ho⟩
  · rcases ht with h | h
    · exact absurd hg h
    · rw [hws.not_provider] at h; cases h
  · obtain ⟨f1, f2, _, _⟩ := routeStepX_frame (some P) c.strategy a2 n m
    refine ⟨hex, hin, hw, by rw [ho]; exact f1, by rw [ho]; exact f2, ?_⟩
    rw [ho]
    simp only [routeStepX]
    split
    · exact NamedWrites.nil
    · split <;> exact hL.writes_ensure a2 n.g c.strategy

/-- the oracle form of `servicesX_before_routes` -/
theorem servicesX_before_routes_oracle (c : XCtx S) (a : Api) (n : XNet G) (m : Mem) :
    servicesBeforeRoutesX c n (doTrafficRoutingX ops (some P) c a n m) = true := by
  unfold servicesBeforeRoutesX
  split
  · rename_i h
    obtain ⟨h1, h2, h3, h4, h5, h6⟩ := servicesX_before_routes ops hL c a n m (Or.inr h)
    have h3' : (c.lastUpdate == Age.fresh && decide (c.doGrace > 0)) = false := by
      cases hb : (c.lastUpdate == Age.fresh && decide (c.doGrace > 0))
      · rfl
      · simp only [Bool.and_eq_true, beq_iff_eq, decide_eq_true_eq] at hb; exact absurd hb h3
    have h6' : (doTrafficRoutingX ops (some P) c a n m).writes.all isProviderWrite = true := by
      rw [List.all_eq_true]; exact h6
    simp [h1, h2, h3', h4, h5, h6']
  · rfl

/-! ## C07.iii — a done step is a fixed point -/

/-- **C07.iii (`doneX_is_fixed_point`)** — when `DoTrafficRouting` reports *done*, the same call made again on
    the state it left (whatever the write budget: it needs no write) reports *done* again, changes nothing
    and writes nothing; the grace memory was not touched by either call. -/
theorem doneX_is_fixed_point (c : XCtx S) (a : Api) (n : XNet G) (m : Mem) (hi : Inv n.g)
    (hd : (doTrafficRoutingX ops (some P) c a n m).done = true) (a' : Api) (ha' : a'.armed = false) :
    (doTrafficRoutingX ops (some P) c a n m).mem = m ∧
    doTrafficRoutingX ops (some P) c a' (doTrafficRoutingX ops (some P) c a n m).net m =
      .same true false (doTrafficRoutingX ops (some P) c a n m).net m a' := by
  rcases doTRX_cases ops (some P) c a n m with ⟨_, _, _, hm, _, hdone, _, _⟩ |
    ⟨href, hstep, hex, hw, hin, hrev, a2, _, _, _, ho⟩
  · obtain ⟨hc, heq⟩ := hdone hd
    refine ⟨hm, ?_⟩
    rw [heq]
    simp only [XOut.same]
    unfold doTrafficRoutingX
    rcases hc with h | h
    · simp [h, XOut.same]
    · have := (isStep_false_iff ops c.strategy).mp h
      by_cases href : c.hasRef = true <;> simp [href, this, XOut.same]
  · rw [ho] at hd ⊢
    simp only [routeStepX] at hd ⊢
    cases hp : (P.ensure a2 n.g c.strategy).panic
    · simp only [hp, Bool.false_eq_true, if_false] at hd ⊢
      cases he : (P.ensure a2 n.g c.strategy).err
      · simp only [he, Bool.false_eq_true, if_false] at hd ⊢
        refine ⟨trivial, ?_⟩
        have hst := hL.verified_stable a2 n.g c.strategy hi hp he hd a' ha'
        have hin' : servicesInPlace c ({ n with g := (P.ensure a2 n.g c.strategy).g } : XNet G) = true := hin
        rw [doTRX_inPlace ops (some P) c a' ({ n with g := (P.ensure a2 n.g c.strategy).g }) m href hstep ha' hex hw hin' hrev]
        simp only [routeStepX, hst, PRes.noop, Bool.false_eq_true, if_false, XOut.same]
      · simp [he] at hd
    · simp [hp, XOut.panicked] at hd

/-! ## C05 / C06 — a failed read is reported -/

/-- **C06 (`read_fault_reported`, `DoTrafficRouting`)** — if some `Get` of the call failed with an error other
    than NotFound, the call returns an error (in particular it does not report *done*). -/
theorem read_fault_reported_doTR (c : XCtx S) (a : Api) (n : XNet G) (m : Mem)
    (hp : (doTrafficRoutingX ops (some P) c a n m).panic = false)
    (hr : readFailed a (doTrafficRoutingX ops (some P) c a n m).a = true) :
    (doTrafficRoutingX ops (some P) c a n m).err = true := by
  rcases doTRX_cases ops (some P) c a n m with ⟨_, _, _, _, _, _, hrf, _⟩ | ⟨_, _, _, _, _, _, a2, hrf2, hm2, _, ho⟩
  · exact hrf hr
  · rw [ho] at hp hr ⊢
    simp only [routeStepX] at hp hr ⊢
    cases hpp : (P.ensure a2 n.g c.strategy).panic
    · simp only [hpp, Bool.false_eq_true, if_false] at hp hr ⊢
      obtain ⟨f1, m1⟩ := hL.read_fault_ensure a2 n.g c.strategy hpp
      cases he : (P.ensure a2 n.g c.strategy).err
      · simp only [he, Bool.false_eq_true, if_false] at hr ⊢
        have n1 : readFailed a2 (P.ensure a2 n.g c.strategy).a = false := by
          cases hh : readFailed a2 (P.ensure a2 n.g c.strategy).a
          · rfl
          · have := f1 hh; rw [he] at this; cases this
        rw [readFailed_trans hrf2 n1 hm2] at hr; cases hr
      · simp [he]
    · simp [hpp, XOut.panicked] at hp

end lawful

/-! ## C04 / C05 — the clean-up: order, completion, read faults -/

section lawful
variable {P : Provider S G} {Inv : G → Prop} {spec : G → S → Prop} {clean : G → Prop}
  {μ : G → S → Nat} {bound : Nat} (hL : LawfulProvider P Inv spec clean μ bound)
include hL

/-- `RestoreGateway`: it touches only the provider's objects, issues only provider writes, keeps the provider's
    invariant; when it returns without error the objects are clean; a failed read is reported. -/
theorem rg_specX (c : XCtx S) (a : Api) (n : XNet G) (m : Mem) :
    (restoreGatewayX (some P) c a n m).net.stableSel = n.stableSel ∧
    (restoreGatewayX (some P) c a n m).net.canarySvc = n.canarySvc ∧
    (restoreGatewayX (some P) c a n m).net.stableExists = n.stableExists ∧
    NamedWrites (restoreGatewayX (some P) c a n m).writes ∧
    (Inv n.g → Inv (restoreGatewayX (some P) c a n m).net.g) ∧
    (Inv n.g → (restoreGatewayX (some P) c a n m).panic = false → (restoreGatewayX (some P) c a n m).err = false →
      c.hasRef = true → clean (restoreGatewayX (some P) c a n m).net.g) ∧
    ((restoreGatewayX (some P) c a n m).panic = false →
      (readFailed a (restoreGatewayX (some P) c a n m).a = true → (restoreGatewayX (some P) c a n m).err = true) ∧
      ((restoreGatewayX (some P) c a n m).a.armed = true → a.armed = true)) ∧
    (restoreGatewayX (some P) c a n m).mem.restoreService = m.restoreService ∧
    (restoreGatewayX (some P) c a n m).mem.removeCanaryService = m.removeCanaryService := by
  generalize ho : restoreGatewayX (some P) c a n m = o
  unfold restoreGatewayX at ho
  by_cases href : c.hasRef = true
  · simp only [href, not_true_eq_false, if_false] at ho
    have hinv := hL.inv_finalise a n.g
    have hw := hL.writes_finalise a n.g
    have hcl := hL.finalise_clean a n.g
    have hrf := hL.read_fault_finalise a n.g
    generalize P.finalise a n.g = r at ho hinv hw hcl hrf
    cases hp : r.panic
    · simp only [hp, Bool.false_eq_true, if_false] at ho
      obtain ⟨f1, m1⟩ := hrf hp
      cases he : r.err
      · simp only [he, Bool.false_eq_true, if_false] at ho
        subst ho
        exact ⟨rfl, rfl, rfl, hw, hinv, (fun hi _ _ _ => hcl hi hp he), (fun _ => ⟨(fun h => by
          have := f1 h; rw [he] at this; cases this), m1⟩), rfl, rfl⟩
      · simp only [he, if_true] at ho
        subst ho
        exact ⟨rfl, rfl, rfl, hw, hinv, (fun _ _ h => by cases h), (fun _ => ⟨fun _ => rfl, m1⟩), rfl, rfl⟩
    · simp only [hp, if_true, XOut.panicked] at ho
      subst ho
      exact ⟨rfl, rfl, rfl, NamedWrites.nil, (fun h => h), (fun _ h => by cases h), (fun h => by cases h), rfl, rfl⟩
  · have href' : c.hasRef = false := by simpa using href
    simp only [href', Bool.false_eq_true, not_false_eq_true, if_true, XOut.same] at ho
    subst ho
    exact ⟨rfl, rfl, rfl, NamedWrites.nil, (fun h => h), (fun _ _ _ h => absurd h href),
      (fun _ => ⟨(fun h => by rw [readFailed_self] at h; cases h), fun h => h⟩), rfl, rfl⟩

/-- the three calls of `FinalisingTrafficRouting`, with what each guarantees -/
theorem finalisingX_shape (c : XCtx S) (a : Api) (n : XNet G) (m : Mem) (hi : Inv n.g) (href : c.hasRef = true) :
    ∃ (w1 w2 w3 : List String),
      (finalisingTrafficRoutingX (some P) c a n m).writes = w1 ++ w2 ++ w3 ∧
      (w1 = [] ∨ w1 = ["unpinStable"]) ∧ NamedWrites w2 ∧ (w3 = [] ∨ w3 = ["deleteCanarySvc"]) ∧
      Inv (finalisingTrafficRoutingX (some P) c a n m).net.g ∧
      -- the canary Service is removed only after the provider was finalised without error in this very call
      (w3 = ["deleteCanarySvc"] → clean (finalisingTrafficRoutingX (some P) c a n m).net.g) ∧
      -- done: un-pinned (the revision label key being known), clean, canary Service gone
      ((finalisingTrafficRoutingX (some P) c a n m).done = true →
        clean (finalisingTrafficRoutingX (some P) c a n m).net.g ∧
        (c.noGen = true ∨ (finalisingTrafficRoutingX (some P) c a n m).net.canarySvc = none) ∧
        (c.hasRevKey = true → unpinned (finalisingTrafficRoutingX (some P) c a n m).net = true) ∧
        (finalisingTrafficRoutingX (some P) c a n m).err = false) ∧
      -- a failed read is reported
      ((finalisingTrafficRoutingX (some P) c a n m).panic = false →
        readFailed a (finalisingTrafficRoutingX (some P) c a n m).a = true →
        (finalisingTrafficRoutingX (some P) c a n m).err = true) := by
  obtain ⟨a1, a2, a3, aw, ap, arf, am, aun, _, _⟩ := rs_specX c a n m
  generalize hr1 : restoreStableServiceX c a n m = r1 at a1 a2 a3 aw ap arf am aun
  have hi1 : Inv r1.net.g := by rw [a1]; exact hi
  obtain ⟨b1, b2, b3, bw, binv, bcl, brf, _, _⟩ := rg_specX hL c r1.a r1.net r1.mem
  generalize hr2 : restoreGatewayX (some P) c r1.a r1.net r1.mem = r2 at b1 b2 b3 bw binv bcl brf
  obtain ⟨c1, c2, c3, cw, cp, carm, cgone, ckeep⟩ := rc_specX c r2.a r2.net r2.mem
  generalize hr3 : removeCanaryServiceX c r2.a r2.net r2.mem = r3 at c1 c2 c3 cw cp carm cgone ckeep
  have hi2 : Inv r2.net.g := binv hi1
  generalize ho : finalisingTrafficRoutingX (some P) c a n m = o
  unfold finalisingTrafficRoutingX at ho
  simp only [href, not_true_eq_false, if_false, hr1] at ho
  by_cases h1 : r1.err = true ∨ r1.done = true
  · -- the stable Service: error or retry
    simp only [h1, if_true] at ho
    subst ho
    refine ⟨r1.writes, [], [], by simp, aw, NamedWrites.nil, Or.inl rfl, hi1, (fun h => by cases h),
      (fun h => by cases h), ?_⟩
    intro _ h
    exact arf h
  · simp only [h1, if_false, hr2] at ho
    have e1 : r1.err = false := by
      cases h : r1.err
      · rfl
      · exact absurd (Or.inl h) h1
    cases hp2 : r2.panic
    · simp only [hp2, Bool.false_eq_true, if_false] at ho
      obtain ⟨f2, m2⟩ := brf hp2
      have rf1 : readFailed a r1.a = false := by
        cases hh : readFailed a r1.a
        · rfl
        · have := arf hh; rw [e1] at this; cases this
      by_cases h2 : r2.err = true ∨ r2.done = true
      · simp only [h2, if_true] at ho
        subst ho
        refine ⟨r1.writes, r2.writes, [], by simp, aw, bw, Or.inl rfl, hi2, (fun h => by cases h),
          (fun h => by cases h), ?_⟩
        intro _ h
        cases he2 : r2.err
        · have n2 : readFailed r1.a r2.a = false := by
            cases hh : readFailed r1.a r2.a
            · rfl
            · have := f2 hh; rw [he2] at this; cases this
          rw [readFailed_trans rf1 n2 am] at h; cases h
        · rfl
      · simp only [h2, if_false, hr3] at ho
        have e2 : r2.err = false := by
          cases h : r2.err
          · rfl
          · exact absurd (Or.inl h) h2
        have n2 : readFailed r1.a r2.a = false := by
          cases hh : readFailed r1.a r2.a
          · rfl
          · have := f2 hh; rw [e2] at this; cases this
        have hcl2 : clean r2.net.g := bcl hi1 hp2 e2 href
        have hcl3 : clean r3.net.g := by rw [c1]; exact hcl2
        have hi3 : Inv r3.net.g := by rw [c1]; exact hi2
        have rf3 : readFailed a r3.a = false := by
          have := readFailed_trans rf1 n2 am
          unfold readFailed at this ⊢
          rw [carm]; exact this
        by_cases h3 : r3.err = true ∨ r3.done = true
        · simp only [h3, if_true] at ho
          subst ho
          exact ⟨r1.writes, r2.writes, r3.writes, rfl, aw, bw, cw, hi3, (fun _ => hcl3), (fun h => by cases h),
            (fun _ h => by rw [rf3] at h; cases h)⟩
        · simp only [h3, if_false] at ho
          subst ho
          have e3 : r3.err = false := by
            cases h : r3.err
            · rfl
            · exact absurd (Or.inl h) h3
          refine ⟨r1.writes, r2.writes, r3.writes, rfl, aw, bw, cw, hi3, (fun _ => hcl3), ?_,
            (fun _ h => by rw [rf3] at h; cases h)⟩
          intro _
          refine ⟨hcl3, ?_, ?_, rfl⟩
          · by_cases hng : c.noGen = true
            · exact Or.inl hng
            · exact Or.inr (cgone e3 href (by simpa using hng))
          · intro hk
            have := aun e1 href hk
            simp only [unpinned] at this ⊢
            rw [c2, c3, b1, b3]; exact this
    · simp only [hp2, if_true] at ho
      subst ho
      refine ⟨[], r2.writes, [], by simp, Or.inl rfl, bw, Or.inl rfl, hi2, (fun h => by cases h), ?_,
        (fun h => by rw [hp2] at h; cases h)⟩
      intro hd
      -- a panicking provider call is not done
      unfold restoreGatewayX at hr2
      simp only [href, not_true_eq_false, if_false] at hr2
      split at hr2
      · rw [← hr2] at hd; cases hd
      · split at hr2 <;> (rw [← hr2] at hp2; cases hp2)

/-- **C04 / C05 (`finalisingX_order`, partial: outside known finding `noRevKey`)** — for every lawful provider:
    `FinalisingTrafficRouting` un-pins the stable Service first, finalises the provider next and removes the
    canary Service last, never in another order; the canary Service is removed only by a call that left the
    provider's objects clean; *done* means un-pinned ∧ clean ∧ canary Service gone (`finalise-restores`).
    Hypothesis: the revision label key is known (see `finalisingX_order_full_FALSE`). -/
theorem finalisingX_order_partial (c : XCtx S) (a : Api) (n : XNet G) (m : Mem) (hi : Inv n.g)
    (hk : c.hasRevKey = true) (cleanAfter : Bool)
    (hclean : clean (finalisingTrafficRoutingX (some P) c a n m).net.g → cleanAfter = true) :
    finalisingOrderX c cleanAfter (finalisingTrafficRoutingX (some P) c a n m) = true := by
  by_cases href : c.hasRef = true
  · obtain ⟨w1, w2, w3, hw, h1, h2, h3, _, hdel, hdone, _⟩ := finalisingX_shape hL c a n m hi href
    unfold finalisingOrderX
    have hph : phasesOrdered (finalisingTrafficRoutingX (some P) c a n m).writes 0 = true := by
      rw [hw]; exact phasesOrdered_fin w1 w2 w3 h1 h2 h3
    have hdelB : (if (finalisingTrafficRoutingX (some P) c a n m).writes.contains "deleteCanarySvc" = true
        then cleanAfter else true) = true := by
      split
      · rename_i hc
        rcases h3 with e | e
        · exfalso
          rw [hw, e] at hc
          have n1 : w1.contains "deleteCanarySvc" = false := by rcases h1 with e1 | e1 <;> rw [e1] <;> decide
          have n2 := not_mem_delete_of_named h2
          simp only [List.append_nil, List.contains_iff_mem, List.mem_append] at hc n1 n2
          rcases hc with hc | hc
          · rw [← List.contains_iff_mem] at hc; rw [n1] at hc; cases hc
          · rw [← List.contains_iff_mem] at hc; rw [n2] at hc; cases hc
        · exact hclean (hdel e)
      · rfl
    rw [hph, hdelB]
    simp only [Bool.true_and]
    split
    · rename_i hd
      simp only [Bool.and_eq_true] at hd
      obtain ⟨hcl, hcs, hun, _⟩ := hdone hd.1
      rw [hclean hcl, hun hk]
      rcases hcs with e | e
      · simp [e]
      · simp [e]
    · rfl
  · have href' : c.hasRef = false := by simpa using href
    unfold finalisingOrderX finalisingTrafficRoutingX
    simp [href', phasesOrdered]

/-- **C05 / C06 (`read_fault_reported`, clean-up)** — a `FinalisingTrafficRouting` call in which some `Get`
    failed with an error other than NotFound returns that error: it is never *done*, so the caller's clean-up
    cursor cannot advance past an object that could not be read. -/
theorem read_fault_reported_finalising (c : XCtx S) (a : Api) (n : XNet G) (m : Mem) (hi : Inv n.g)
    (hp : (finalisingTrafficRoutingX (some P) c a n m).panic = false)
    (hr : readFailed a (finalisingTrafficRoutingX (some P) c a n m).a = true) :
    (finalisingTrafficRoutingX (some P) c a n m).err = true ∧
    (finalisingTrafficRoutingX (some P) c a n m).done = false := by
  by_cases href : c.hasRef = true
  · obtain ⟨_, _, _, _, _, _, _, _, _, hdone, hrf⟩ := finalisingX_shape hL c a n m hi href
    have he := hrf hp hr
    refine ⟨he, ?_⟩
    cases hd : (finalisingTrafficRoutingX (some P) c a n m).done
    · rfl
    · have := (hdone hd).2.2.2; rw [he] at this; cases this
  · have href' : c.hasRef = false := by simpa using href
    unfold finalisingTrafficRoutingX at hr
    simp [href', readFailed_self] at hr

/-- the same for the individual clean-up calls the Rollout controller makes one by one -/
theorem read_fault_reported_tasks (c : XCtx S) (a : Api) (n : XNet G) (m : Mem) :
    (readFailed a (restoreStableServiceX c a n m).a = true → (restoreStableServiceX c a n m).err = true) ∧
    ((restoreGatewayX (some P) c a n m).panic = false → readFailed a (restoreGatewayX (some P) c a n m).a = true →
      (restoreGatewayX (some P) c a n m).err = true) ∧
    (readFailed a (removeCanaryServiceX c a n m).a = false) := by
  obtain ⟨_, _, _, _, _, arf, _⟩ := rs_specX c a n m
  obtain ⟨_, _, _, _, _, _, brf, _⟩ := rg_specX hL c a n m
  obtain ⟨_, _, _, _, _, carm, _⟩ := rc_specX c a n m
  refine ⟨arf, fun hp h => (brf hp).1 h, ?_⟩
  unfold readFailed; rw [carm]; cases a.armed <;> rfl

end lawful

/-! ## grace between the phases of the clean-up -/

/-- `RestoreStableService` and the grace period: a call that did not set `LastUpdateTime` wrote nothing; with a
    non-zero grace period a call that did returns *retry* (or an error) -/
theorem rs_graceX (c : XCtx S) (a : Api) (n : XNet G) (m : Mem) :
    ((restoreStableServiceX c a n m).touched = false → (restoreStableServiceX c a n m).writes = []) ∧
    (c.graceSec ≠ 0 → (restoreStableServiceX c a n m).touched = true →
      (restoreStableServiceX c a n m).err = true ∨ (restoreStableServiceX c a n m).done = true) := by
  generalize ho : restoreStableServiceX c a n m = o
  unfold restoreStableServiceX at ho
  by_cases href : c.hasRef = true
  · simp only [href, not_true_eq_false, if_false] at ho
    rcases Api.read_cases a with ⟨hr, har, hr2⟩ | ⟨hr, hr2⟩
    · rw [show a.read = (a.read.1, a.read.2) from rfl, hr] at ho
      simp only [if_true, XOut.same] at ho
      subst ho
      exact ⟨fun _ => rfl, fun _ h => by cases h⟩
    · rw [show a.read = (a.read.1, a.read.2) from rfl, hr] at ho
      simp only [Bool.false_eq_true, if_false] at ho
      generalize a.read.2 = a1 at hr2 ho
      by_cases hex : n.stableExists = true
      · simp only [hex, not_true_eq_false, if_false] at ho
        by_cases hmod : (c.hasRevKey && decide (n.stableSel.getD "" ≠ "")) = true
        · simp only [hmod, if_true] at ho
          cases hsp : a1.spend with
          | none =>
            simp only [hsp, XOut.same] at ho
            subst ho
            exact ⟨fun _ => rfl, fun _ h => by cases h⟩
          | some a2 =>
            simp only [hsp] at ho
            subst ho
            refine ⟨(fun h => by cases h), fun hg _ => Or.inr ?_⟩
            simp [runGrace, hg]
        · simp only [hmod, Bool.false_eq_true, if_false] at ho
          subst ho
          exact ⟨fun _ => rfl, fun _ h => by cases h⟩
      · have hex' : n.stableExists = false := by simpa using hex
        simp only [hex', Bool.false_eq_true, not_false_eq_true, if_true, XOut.same] at ho
        subst ho
        exact ⟨fun _ => rfl, fun _ h => by cases h⟩
  · have href' : c.hasRef = false := by simpa using href
    simp only [href', Bool.false_eq_true, not_false_eq_true, if_true, XOut.same] at ho
    subst ho
    exact ⟨fun _ => rfl, fun _ h => by cases h⟩

theorem rg_touched_stops (P : Provider S G) (c : XCtx S) (a : Api) (n : XNet G) (m : Mem) (hg : c.graceSec ≠ 0)
    (h : (restoreGatewayX (some P) c a n m).touched = true) :
    (restoreGatewayX (some P) c a n m).err = true ∨ (restoreGatewayX (some P) c a n m).done = true := by
  generalize ho : restoreGatewayX (some P) c a n m = o at h ⊢
  unfold restoreGatewayX runGrace at ho
  simp only [hg, if_false] at ho
  repeat' split at ho
  all_goals (subst ho; simp_all [XOut.same, XOut.panicked])

section lawful
variable {P : Provider S G} {Inv : G → Prop} {spec : G → S → Prop} {clean : G → Prop}
  {μ : G → S → Nat} {bound : Nat} (hL : LawfulProvider P Inv spec clean μ bound)
include hL

/-- **C04 / C05 (`finalisingX_grace_separates`)** — for every lawful provider and every non-zero grace period:
    a `FinalisingTrafficRouting` call that un-pins the stable Service issues no other write, and a call that
    reports a modification (of the stable Service or of a provider object) does not remove the canary Service:
    the phases of the clean-up are separated by the grace period. (With grace 0 all three phases may run in one
    call — `grace0_runs_through` below.) -/
theorem finalisingX_grace_separates (c : XCtx S) (a : Api) (n : XNet G) (m : Mem) :
    graceSeparatesX c (finalisingTrafficRoutingX (some P) c a n m) = true := by
  unfold graceSeparatesX
  by_cases hg : c.graceSec = 0
  · simp [hg]
  have hg' : (c.graceSec == 0) = false := by simpa using hg
  rw [hg', Bool.false_or]
  by_cases href : c.hasRef = true
  · obtain ⟨_, _, _, aw, _⟩ := rs_specX c a n m
    have as := (rs_graceX c a n m).2 hg
    have aq := (rs_graceX c a n m).1
    generalize hr1 : restoreStableServiceX c a n m = r1 at aw as aq
    obtain ⟨_, _, _, bw, _⟩ := rg_specX hL c r1.a r1.net r1.mem
    have bs := rg_touched_stops P c r1.a r1.net r1.mem hg
    generalize hr2 : restoreGatewayX (some P) c r1.a r1.net r1.mem = r2 at bw bs
    obtain ⟨_, _, _, cw, _⟩ := rc_specX c r2.a r2.net r2.mem
    generalize hr3 : removeCanaryServiceX c r2.a r2.net r2.mem = r3 at cw
    have nd2 : ¬ "deleteCanarySvc" ∈ r2.writes := fun h => by
      have := bw _ h
      revert this; decide
    have nu2 : ¬ "unpinStable" ∈ r2.writes := fun h => by
      have := bw _ h
      revert this; decide
    generalize ho : finalisingTrafficRoutingX (some P) c a n m = o
    unfold finalisingTrafficRoutingX at ho
    simp only [href, not_true_eq_false, if_false, hr1, hr2, hr3] at ho
    by_cases h1 : r1.err = true ∨ r1.done = true
    · simp only [h1, if_true] at ho
      subst ho
      rcases aw with e | e <;> simp [e]
    · simp only [h1, if_false] at ho
      have t1 : r1.touched = false := by
        cases h : r1.touched
        · rfl
        · exact absurd (as h) h1
      have w1 : r1.writes = [] := aq t1
      cases hp2 : r2.panic
      · simp only [hp2, Bool.false_eq_true, if_false] at ho
        by_cases h2 : r2.err = true ∨ r2.done = true
        · simp only [h2, if_true] at ho
          subst ho
          simp [w1, nu2, nd2]
        · simp only [h2, if_false] at ho
          have t2 : r2.touched = false := by
            cases h : r2.touched
            · rfl
            · exact absurd (bs h) h2
          have nu3 : ¬ "unpinStable" ∈ r3.writes := by rcases cw with e | e <;> rw [e] <;> decide
          by_cases h3 : r3.err = true ∨ r3.done = true
          · simp only [h3, if_true] at ho
            subst ho
            simp [w1, t1, t2, nu2, nu3]
          · simp only [h3, if_false] at ho
            subst ho
            simp [w1, t1, t2, nu2, nu3]
      · simp only [hp2, if_true] at ho
        subst ho
        -- a panicking provider call: no writes recorded
        unfold restoreGatewayX at hr2
        simp only [href, not_true_eq_false, if_false] at hr2
        split at hr2
        · rw [← hr2]; simp [XOut.panicked]
        · split at hr2 <;> (rw [← hr2] at hp2; cases hp2)
  · have href' : c.hasRef = false := by simpa using href
    unfold finalisingTrafficRoutingX
    simp [href']

end lawful

/-! ## match steps and steps with nothing to route -/

/-- a step with neither a weight nor matches is done at once: nothing is read, nothing written, nothing changed -/
theorem empty_step_is_done (ops : StratOps S) (P : Option (Provider S G)) (c : XCtx S) (a : Api) (n : XNet G) (m : Mem)
    (hs : isStep ops c.strategy = false) :
    doTrafficRoutingX ops P c a n m = .same true false n m a := by
  have := (isStep_false_iff ops c.strategy).mp hs
  unfold doTrafficRoutingX
  by_cases href : c.hasRef = true <;> simp [href, this, XOut.same]

/-- a step of the real strategy type that carries matches but no weight has something to route: it is not
    skipped (with `doneX_means_routed`: *done* then means that the provider's objects carry the matches) -/
theorem match_step_is_a_step (s : Strat) (hm : s.mts ≠ []) : isStep stratOps s = true := by
  cases h : s.mts with
  | nil => exact absurd h hm
  | cons x xs => simp [isStep, stratOps, h]

/-- … and the provider is consulted with exactly this strategy as soon as the Services are in place -/
theorem match_step_reaches_provider (P : Provider Strat G) (c : XCtx Strat) (n : XNet G) (m : Mem)
    (href : c.hasRef = true) (hm : c.strategy.mts ≠ []) (hex : n.stableExists = true)
    (hw : ¬ (c.lastUpdate = .fresh ∧ c.doGrace > 0)) (hin : servicesInPlace c n = true)
    (hrev : c.noGen = true ∨ (c.stableRev ≠ "" ∧ c.canaryRev ≠ "")) :
    doTrafficRoutingX stratOps (some P) c Api.ok n m = routeStepX (some P) c.strategy Api.ok n m := by
  exact doTRX_inPlace stratOps (some P) c Api.ok n m href (match_step_is_a_step c.strategy hm) rfl hex hw hin hrev


/-- The full-strength statement (without `hasRevKey`) is FALSE on the unchanged code, whatever the provider:
    with an empty revision label key `RestoreStableService` finds nothing to remove and the whole clean-up
    reports *done* while the stable Service is still pinned (known finding `noRevKey`, as for the old model:
    `RV.Props.Traffic.finalising_order_full_FALSE`).  Witness with the trivially lawful provider `idle`. -/
theorem finalisingX_order_full_FALSE :
    ∃ (c : XCtx Unit) (n : XNet Unit) (m : Mem), c.hasRevKey = false ∧
      finalisingOrderX c true (finalisingTrafficRoutingX (some idle) c Api.ok n m) = false := by
  refine ⟨{ hasRef := true, grace := 0, strategy := (), disableGen := false, stableRev := "v1", canaryRev := "v2",
            lastUpdate := .none, hasRevKey := false },
          { stableExists := true, stableSel := some "v1", canarySvc := some "v2", g := () }, Mem.empty, rfl, by decide⟩

/-- `finalisingX_grace_separates` is not vacuous, and its hypothesis "non-zero grace" is needed: with an explicit
    `gracePeriodSeconds: 0` one call runs through all phases (un-pin, finalise, delete) and reports *done* … -/
theorem grace0_runs_through :
    ∃ (c : XCtx Unit) (n : XNet Unit) (m : Mem), c.graceSec = 0 ∧
      (finalisingTrafficRoutingX (some idle) c Api.ok n m).writes = ["unpinStable", "deleteCanarySvc"] ∧
      (finalisingTrafficRoutingX (some idle) c Api.ok n m).done = true := by
  refine ⟨{ hasRef := true, grace := 0, strategy := (), disableGen := false, stableRev := "v1", canaryRev := "v2",
            lastUpdate := .none, hasRevKey := true },
          { stableExists := true, stableSel := some "v1", canarySvc := some "v2", g := () }, Mem.empty,
          by decide, by decide, by decide⟩

/-- … while with one second of grace the same call stops after the un-pin -/
theorem grace1_stops_after_unpin :
    ∃ (c : XCtx Unit) (n : XNet Unit) (m : Mem), c.graceSec = 1 ∧
      (finalisingTrafficRoutingX (some idle) c Api.ok n m).writes = ["unpinStable"] ∧
      (finalisingTrafficRoutingX (some idle) c Api.ok n m).done = false := by
  refine ⟨{ hasRef := true, grace := 1, strategy := (), disableGen := false, stableRev := "v1", canaryRev := "v2",
            lastUpdate := .none, hasRevKey := true },
          { stableExists := true, stableSel := some "v1", canarySvc := some "v2", g := () }, Mem.empty,
          by decide, by decide, by decide⟩

/-! ## a stable Service without `spec.selector` (fixed finding `selectorlessStable`) -/

/-- with a selector on the stable Service `doTrafficRoutingB` is `doTrafficRoutingX`: every theorem of this file
    about `doTrafficRoutingX` is a theorem about `DoTrafficRouting` under the hypothesis "the stable Service
    carries a selector" -/
theorem doTRB_of_selector (ops : StratOps S) (P : Option (Provider S G)) (c : XCtx S) (a : Api) (n : XNet G) (m : Mem) :
    doTrafficRoutingB ops P c a n m false = doTrafficRoutingX ops P c a n m := by
  simp [doTrafficRoutingB, refusesBare]

/-- … and so it is whenever the call does not get as far as generating the canary Service from a selector-less
    stable Service -/
theorem doTRB_outside_refusal (ops : StratOps S) (P : Option (Provider S G)) (c : XCtx S) (a : Api) (n : XNet G) (m : Mem)
    (bare : Bool) (hg : refusesBare ops c a n bare = false) :
    doTrafficRoutingB ops P c a n m bare = doTrafficRoutingX ops P c a n m := by
  simp [doTrafficRoutingB, hg]

/-- **C09 / C03 (`no_panicB`, full strength)** — with a provider whose `EnsureRoutes` does not panic,
    `DoTrafficRouting` does not panic: for **every** state of the Services — a stable Service without any selector
    included —, every context, every write budget and read fault.
    (Before rollouts commit bc46e20 this held only outside the region `refusesBare`, where
    `createCanaryService` assigned into the nil selector map: fixed finding `selectorlessStable`.) -/
theorem no_panicB (ops : StratOps S) (P : Provider S G) (hP : ∀ a g s, (P.ensure a g s).panic = false)
    (c : XCtx S) (a : Api) (n : XNet G) (m : Mem) (bare : Bool) :
    (doTrafficRoutingB ops (some P) c a n m bare).panic = false := by
  cases hg : refusesBare ops c a n bare
  · rw [doTRB_outside_refusal ops (some P) c a n m bare hg]
    rcases doTRX_cases ops (some P) c a n m with ⟨_, _, hp, _⟩ | ⟨_, _, _, _, _, _, a2, _, _, _, he⟩
    · exact hp
    · rw [he]
      unfold routeStepX
      simp only [hP, Bool.false_eq_true, if_false]
      split <;> rfl
  · simp [doTrafficRoutingB, hg, XOut.same]

/-- two `Get`s that were answered leave the read fault as it was -/
theorem readFailed_two_reads (a : Api) (h1 : a.read.1 = false) (h2 : a.read.2.read.1 = false) :
    readFailed a a.read.2.read.2 = false := by
  have e1 : a.read.2.armed = a.armed := by
    rcases Api.read_cases a with ⟨h, _, _⟩ | ⟨_, h⟩
    · rw [h1] at h; cases h
    · exact h
  have e2 : a.read.2.read.2.armed = a.read.2.armed := by
    rcases Api.read_cases a.read.2 with ⟨h, _, _⟩ | ⟨_, h⟩
    · rw [h2] at h; cases h
    · exact h
  unfold readFailed
  rw [e2, e1]
  cases a.armed <;> rfl

/-- **C03 / C09 (`selectorless_refused`)** — where the call would have to generate the canary Service from a stable
    Service without selector, it **returns an error** and leaves everything as it was: no write, Services, provider
    objects, expectations and `LastUpdateTime` unchanged, no read reported as failed, no panic, not *done*.  The
    user sees the error on every reconcile until the Service gets a selector (or a canary Service exists);
    nothing is rewritten silently.  Whatever the provider (`P = none` included). -/
theorem selectorless_refused (ops : StratOps S) (P : Option (Provider S G)) (c : XCtx S) (a : Api) (n : XNet G)
    (m : Mem) (hg : refusesBare ops c a n true = true) :
    (doTrafficRoutingB ops P c a n m true).err = true ∧ (doTrafficRoutingB ops P c a n m true).done = false ∧
    (doTrafficRoutingB ops P c a n m true).panic = false ∧
    (doTrafficRoutingB ops P c a n m true).net = n ∧ (doTrafficRoutingB ops P c a n m true).mem = m ∧
    (doTrafficRoutingB ops P c a n m true).writes = [] ∧ (doTrafficRoutingB ops P c a n m true).touched = false ∧
    readFailed a (doTrafficRoutingB ops P c a n m true).a = false := by
  have hr : a.read.1 = false ∧ a.read.2.read.1 = false := by
    simp only [refusesBare, Bool.and_eq_true, Bool.not_eq_true'] at hg
    exact ⟨hg.1.1.1.1.1.1.1.1.2, hg.1.1.2⟩
  have e : doTrafficRoutingB ops P c a n m true = .same false true n m a.read.2.read.2 := by
    simp [doTrafficRoutingB, hg]
  rw [e]
  exact ⟨rfl, rfl, rfl, rfl, rfl, rfl, rfl, readFailed_two_reads a hr.1 hr.2⟩

theorem memSame_refl (x : Mem) : memSame x x = true := by simp [memSame]

/-- the same as the decidable oracle the driver evaluates on the implementation's output -/
theorem selectorless_refused_oracle (ops : StratOps S) (P : Option (Provider S G)) (c : XCtx S) (a : Api) (n : XNet G)
    (m : Mem) (hg : refusesBare ops c a n true = true) :
    selectorlessRefusedX true m (doTrafficRoutingB ops P c a n m true) = true := by
  obtain ⟨he, hd, _, _, hm, hw, ht, _⟩ := selectorless_refused ops P c a n m hg
  simp [selectorlessRefusedX, he, hd, hw, ht, hm, memSame_refl]

/-- `selectorless_refused` is not vacuous: a stable Service without selector, a first weight step — the call is
    in the region and returns the error, having written nothing (test on a literal) -/
theorem selectorless_refused_witness :
    ∃ (c : XCtx Strat) (n : XNet Unit) (m : Mem), refusesBare stratOps c Api.ok n true = true ∧
      (doTrafficRoutingB stratOps (some idle) c Api.ok n m true).err = true ∧
      (doTrafficRoutingB stratOps (some idle) c Api.ok n m true).panic = false ∧
      (doTrafficRoutingB stratOps (some idle) c Api.ok n m true).writes = [] := by
  refine ⟨{ hasRef := true, grace := 3, strategy := { traffic := some "20%", mts := [], rhm := none },
            disableGen := false, stableRev := "v1", canaryRev := "v2", lastUpdate := .none },
          { stableExists := true, stableSel := none, canarySvc := none, g := () }, Mem.empty,
          by decide, by decide, by decide, by decide⟩

/-- **C03 (`doneB_means_routed`)** — *done* is never reported by a refused call: a `DoTrafficRouting` that
    reports *done* over a possibly selector-less stable Service is a `doTrafficRoutingX` call that reports
    *done*, so `doneX_means_routed` applies as it stands. -/
theorem doneB_is_doneX (ops : StratOps S) (P : Option (Provider S G)) (c : XCtx S) (a : Api) (n : XNet G) (m : Mem)
    (bare : Bool) (hd : (doTrafficRoutingB ops P c a n m bare).done = true) :
    doTrafficRoutingB ops P c a n m bare = doTrafficRoutingX ops P c a n m := by
  cases hg : refusesBare ops c a n bare
  · exact doTRB_outside_refusal ops P c a n m bare hg
  · simp [doTrafficRoutingB, hg, XOut.same] at hd

/-- the other Manager calls do not depend on the selector map: `PatchStableService` / `RestoreStableService`
    send a strategic-merge patch built from a string (`{"spec":{"selector":{key:rev}}}`), which the API server
    applies to a nil selector as well — checked against the real code by the suite (state `stableBare`). -/
theorem selectorless_only_create (ops : StratOps S) (c : XCtx S) (a : Api) (n : XNet G) (bare : Bool)
    (h : refusesBare ops c a n bare = true) :
    bare = true ∧ n.canarySvc = none ∧ n.stableSel = none ∧ c.noGen = false := by
  simp only [refusesBare, Bool.and_eq_true, Bool.not_eq_true', Option.isNone_iff_eq_none] at h
  obtain ⟨⟨⟨⟨⟨⟨⟨⟨⟨⟨⟨hb, _⟩, _⟩, _⟩, _⟩, _⟩, hn⟩, _⟩, _⟩, _⟩, hc⟩, hs⟩ := h
  exact ⟨hb, hc, hs, hn⟩

/-! ## a provider that cannot be built (`newNetworkProvider` returns an error)

A Gateway API ref without a canary Service of its own (fixed finding `sameServiceGateway`), an Ingress class
without Lua script, a ref without any provider: every Manager call that needs the provider returns the error,
and **no provider object is read or written**. -/

/-- `RestoreGateway` without provider -/
theorem refused_restoreGateway (c : XCtx S) (a : Api) (n : XNet G) (m : Mem) :
    restoreGatewayX (none : Option (Provider S G)) c a n m = .same false c.hasRef n m a := by
  unfold restoreGatewayX
  by_cases href : c.hasRef = true
  · simp [href]
  · have : c.hasRef = false := by simpa using href
    simp [this]

/-- `RouteAllTrafficToNewVersion` without provider -/
theorem refused_routeAll (ops : StratOps S) (c : XCtx S) (a : Api) (n : XNet G) (m : Mem) :
    routeAllToNewX ops (none : Option (Provider S G)) c a n m = .same false c.hasRef n m a := by
  unfold routeAllToNewX
  by_cases href : c.hasRef = true
  · simp [href]
  · have : c.hasRef = false := by simpa using href
    simp [this]

/-- `DoTrafficRouting` without provider: the provider's objects are untouched, no provider write, no panic;
    *done* only when there is nothing to route -/
theorem refused_doTR (ops : StratOps S) (c : XCtx S) (a : Api) (n : XNet G) (m : Mem) (bare : Bool) :
    (doTrafficRoutingB ops (none : Option (Provider S G)) c a n m bare).net.g = n.g ∧
    providerTouched (doTrafficRoutingB ops (none : Option (Provider S G)) c a n m bare).writes = false ∧
    (doTrafficRoutingB ops (none : Option (Provider S G)) c a n m bare).panic = false ∧
    ((doTrafficRoutingB ops (none : Option (Provider S G)) c a n m bare).done = true →
      c.hasRef = false ∨ isStep ops c.strategy = false) := by
  cases hg : refusesBare ops c a n bare
  · rw [doTRB_outside_refusal ops none c a n m bare hg]
    rcases doTRX_cases ops (none : Option (Provider S G)) c a n m with
      ⟨h1, h2, h3, _, _, h6, _, _⟩ | ⟨_, _, _, _, _, _, a2, _, _, _, he⟩
    · exact ⟨h1, h2.not_provider, h3, fun hd => (h6 hd).1⟩
    · rw [he]
      exact ⟨rfl, rfl, rfl, fun hd => by cases hd⟩
  · have e : doTrafficRoutingB ops (none : Option (Provider S G)) c a n m bare = .same false true n m a.read.2.read.2 := by
      simp [doTrafficRoutingB, hg]
    rw [e]
    exact ⟨rfl, rfl, rfl, fun hd => by cases hd⟩

/-- `FinalisingTrafficRouting` without provider: at most the stable Service is un-pinned; the provider's objects
    and the canary Service are left alone; no panic; never *done* -/
theorem refused_finalising (c : XCtx S) (a : Api) (n : XNet G) (m : Mem) :
    (finalisingTrafficRoutingX (none : Option (Provider S G)) c a n m).net.g = n.g ∧
    (finalisingTrafficRoutingX (none : Option (Provider S G)) c a n m).net.canarySvc = n.canarySvc ∧
    ((finalisingTrafficRoutingX (none : Option (Provider S G)) c a n m).writes = [] ∨
      (finalisingTrafficRoutingX (none : Option (Provider S G)) c a n m).writes = ["unpinStable"]) ∧
    (finalisingTrafficRoutingX (none : Option (Provider S G)) c a n m).panic = false ∧
    (c.hasRef = true → (finalisingTrafficRoutingX (none : Option (Provider S G)) c a n m).done = false) := by
  obtain ⟨hg, hc, _, hw, hp, _⟩ := rs_specX c a n m
  unfold finalisingTrafficRoutingX
  by_cases href : c.hasRef = true
  · simp only [href, not_true_eq_false, if_false]
    by_cases h1 : (restoreStableServiceX c a n m).err = true ∨ (restoreStableServiceX c a n m).done = true
    · simp only [h1, if_true]
      exact ⟨hg, hc, hw, hp, fun _ => trivial⟩
    · simp only [h1, if_false, refused_restoreGateway, href, XOut.same, Bool.false_eq_true, true_or, if_true,
        List.append_nil]
      exact ⟨hg, hc, hw, trivial, fun _ => trivial⟩
  · have : c.hasRef = false := by simpa using href
    simp [this]

/-- **C05 / C07 (`refused_untouched`)** — the decidable oracle the driver evaluates on the implementation's output
    in the region of a refused configuration holds of every Manager call without provider -/
theorem refused_untouched (ops : StratOps S) (c : XCtx S) (a : Api) (n : XNet G) (m : Mem) (bare : Bool) :
    refusedX "doTrafficRouting" c (isStep ops c.strategy) true
      (doTrafficRoutingB ops (none : Option (Provider S G)) c a n m bare) = true ∧
    refusedX "finalisingTrafficRouting" c (isStep ops c.strategy) true
      (finalisingTrafficRoutingX (none : Option (Provider S G)) c a n m) = true ∧
    refusedX "restoreGateway" c (isStep ops c.strategy) true (restoreGatewayX (none : Option (Provider S G)) c a n m) = true ∧
    refusedX "routeAllToNew" c (isStep ops c.strategy) true
      (routeAllToNewX ops (none : Option (Provider S G)) c a n m) = true := by
  refine ⟨?_, ?_, ?_, ?_⟩
  · obtain ⟨_, hw, _, hd⟩ := refused_doTR ops c a n m bare
    simp only [refusedX, hw, Bool.not_false, Bool.true_and]
    cases hdd : (doTrafficRoutingB ops (none : Option (Provider S G)) c a n m bare).done
    · simp
    · rcases hd hdd with h | h <;> simp [h]
  · obtain ⟨_, _, hw, _, hd⟩ := refused_finalising (G := G) c a n m
    have hpt : providerTouched (finalisingTrafficRoutingX (none : Option (Provider S G)) c a n m).writes = false := by
      rcases hw with h | h <;> rw [h] <;> decide
    simp only [refusedX, hpt, Bool.not_false, Bool.true_and]
    by_cases href : c.hasRef = true
    · simp [hd href]
    · have : c.hasRef = false := by simpa using href
      simp [this]
  · rw [refused_restoreGateway]
    cases h : c.hasRef <;> simp [refusedX, XOut.same, providerTouched, h]
  · rw [refused_routeAll]
    cases h : c.hasRef <;> simp [refusedX, XOut.same, providerTouched, h]

/-- **C07 (`refused_is_reported`)** — a configuration whose provider cannot be built is reported to the caller, not
    retried silently: on a healthy API server, with the stable Service present, the revisions known and no grace
    period running, `DoTrafficRouting` for a step that has something to route returns the error in this round
    when the Services are in place (always so when no canary Service is generated), and otherwise in the next
    round, after the round that put the Services in place. -/
theorem refused_is_reported (ops : StratOps S) (c : XCtx S) (n : XNet G) (m : Mem) (href : c.hasRef = true)
    (hstep : isStep ops c.strategy = true) (hex : n.stableExists = true)
    (hw : ¬ (c.lastUpdate = .fresh ∧ c.doGrace > 0))
    (hrev : c.noGen = true ∨ (c.stableRev ≠ "" ∧ c.canaryRev ≠ "")) :
    (servicesInPlace c n = true → (doTrafficRoutingX ops (none : Option (Provider S G)) c Api.ok n m).err = true) ∧
    (servicesInPlace c n = false →
      (doTrafficRoutingX ops (none : Option (Provider S G)) c Api.ok
        (doTrafficRoutingX ops (none : Option (Provider S G)) c Api.ok n m).net m).err = true) := by
  constructor
  · intro hin
    rw [doTRX_inPlace ops none c Api.ok n m href hstep rfl hex hw hin hrev]
    rfl
  · intro hnin
    obtain ⟨n2, ws, hs, hin2, _, hse, hnil⟩ := svcStepX_healthy c n hrev
    have hws : ws ≠ [] := by
      intro h; have := hnil h; subst this; rw [hin2] at hnin; cases hnin
    have hnet : (doTrafficRoutingX ops (none : Option (Provider S G)) c Api.ok n m).net = n2 := by
      have hnos := (isStep_true_iff ops c.strategy).mp hstep
      unfold doTrafficRoutingX
      simp only [href, not_true_eq_false, if_false, hnos, Bool.false_eq_true, Api.read_ok, hex, hw, hs, ne_eq, hws,
        not_false_eq_true, if_true]
    rw [hnet, doTRX_inPlace ops none c Api.ok n2 m href hstep rfl (by rw [hse]; exact hex) hw hin2 hrev]
    rfl

/-! ## composite: all or nothing -/

section composite
variable (p q : Provider S G)

/-- **`composite_all_or_nothing` (EnsureRoutes, verdict)** — a composite that returned neither an error nor a
    panic reports *verified* exactly when every member does (each on the objects its predecessors left). -/
theorem seq_verified_iff (a : Api) (g : G) (s : S) (hp : ((seq p q).ensure a g s).panic = false)
    (he : ((seq p q).ensure a g s).err = false) :
    ((seq p q).ensure a g s).flag = true ↔
      ((p.ensure a g s).flag = true ∧ (q.ensure (p.ensure a g s).a (p.ensure a g s).g s).flag = true) := by
  simp only [seq] at hp he ⊢
  by_cases p1 : (p.ensure a g s).panic = true
  · simp [p1] at hp
  · by_cases e1 : (p.ensure a g s).err = true
    · simp [p1, e1] at he
    · by_cases p2 : (q.ensure (p.ensure a g s).a (p.ensure a g s).g s).panic = true
      · simp [p1, e1, p2] at hp
      · by_cases e2 : (q.ensure (p.ensure a g s).a (p.ensure a g s).g s).err = true
        · simp [p1, e1, p2, e2] at he
        · simp [p1, e1, p2, e2]

/-- **`composite_all_or_nothing` (EnsureRoutes, error)** — an error of a member ends the round: the members
    after it are not called in that call (the result is the failing member's own result). -/
theorem seq_error_stops (a : Api) (g : G) (s : S) (hp : (p.ensure a g s).panic = false)
    (he : (p.ensure a g s).err = true) :
    (seq p q).ensure a g s = { p.ensure a g s with flag := false } := by
  simp [seq, hp, he]

/-- **`composite_all_or_nothing` (EnsureRoutes, not verified)** — a member that is merely *not verified* does not
    end the round: the remaining members are still called, on the objects it left. -/
theorem seq_unverified_continues (a : Api) (g : G) (s : S) (hp : (p.ensure a g s).panic = false)
    (he : (p.ensure a g s).err = false) :
    ((seq p q).ensure a g s).g = (q.ensure (p.ensure a g s).a (p.ensure a g s).g s).g ∧
    ((seq p q).ensure a g s).writes = (p.ensure a g s).writes ++ (q.ensure (p.ensure a g s).a (p.ensure a g s).g s).writes := by
  simp only [seq, hp, he, Bool.false_eq_true, if_false]
  split
  · exact ⟨rfl, rfl⟩
  · split <;> exact ⟨rfl, rfl⟩

/-- **`composite_all_or_nothing` (Finalise)** — an error of a member is collected and the remaining members are
    finalised all the same; the error is returned at the end; `modified` is set by the members that did not fail. -/
theorem seq_finalise_continues (a : Api) (g : G) (hp : (p.finalise a g).panic = false)
    (hq : (q.finalise (p.finalise a g).a (p.finalise a g).g).panic = false) :
    ((seq p q).finalise a g).g = (q.finalise (p.finalise a g).a (p.finalise a g).g).g ∧
    ((seq p q).finalise a g).err = ((p.finalise a g).err || (q.finalise (p.finalise a g).a (p.finalise a g).g).err) ∧
    ((seq p q).finalise a g).flag =
      ((!(p.finalise a g).err && (p.finalise a g).flag) || (q.finalise (p.finalise a g).a (p.finalise a g).g).flag) ∧
    ((seq p q).finalise a g).writes =
      (p.finalise a g).writes ++ (q.finalise (p.finalise a g).a (p.finalise a g).g).writes := by
  simp [seq, hp, hq]

end composite

/-- every member verified, each on the objects (and API health) its predecessors left -/
def allVerified : List (Provider S G) → Api → G → S → Prop
  | [], _, _, _ => True
  | p :: ps, a, g, s => (p.ensure a g s).flag = true ∧ allVerified ps (p.ensure a g s).a (p.ensure a g s).g s

/-- **`composite_all_or_nothing`** for `CompositeController` of any length -/
theorem composite_verified_iff (ps : List (Provider S G)) (a : Api) (g : G) (s : S)
    (hp : ((composite ps).ensure a g s).panic = false) (he : ((composite ps).ensure a g s).err = false) :
    ((composite ps).ensure a g s).flag = true ↔ allVerified ps a g s := by
  induction ps generalizing a g with
  | nil => simp [composite, idle, allVerified]
  | cons p ps ih =>
    simp only [composite] at hp he ⊢
    rw [seq_verified_iff p (composite ps) a g s hp he]
    simp only [allVerified]
    have hp1 : (p.ensure a g s).panic = false := by
      by_cases h : (p.ensure a g s).panic = true
      · simp [seq, h] at hp
      · simpa using h
    have he1 : (p.ensure a g s).err = false := by
      by_cases h : (p.ensure a g s).err = true
      · simp [seq, hp1, h] at he
      · simpa using h
    have hp2 : ((composite ps).ensure (p.ensure a g s).a (p.ensure a g s).g s).panic = false := by
      by_cases h : ((composite ps).ensure (p.ensure a g s).a (p.ensure a g s).g s).panic = true
      · simp [seq, hp1, he1, h] at hp
      · simpa using h
    have he2 : ((composite ps).ensure (p.ensure a g s).a (p.ensure a g s).g s).err = false := by
      by_cases h : ((composite ps).ensure (p.ensure a g s).a (p.ensure a g s).g s).err = true
      · simp [seq, hp1, he1, hp2, h] at he
      · simpa using h
    rw [ih _ _ hp2 he2]


/-- **`composite_all_or_nothing`** — `CompositeController` of any members `ps` after a member `p`:
    (1) without error / panic the composite is *verified* iff every member is;
    (2) an error of `p` ends `EnsureRoutes`: the members after it are not called in that call;
    (3) a `p` that is merely not verified does not: they are still called, on what `p` left;
    (4) `Finalise` goes on after an error of `p`, finalises the remaining members and returns the error at the end. -/
theorem composite_all_or_nothing (p : Provider S G) (ps : List (Provider S G)) (a : Api) (g : G) (s : S) :
    (((composite (p :: ps)).ensure a g s).panic = false → ((composite (p :: ps)).ensure a g s).err = false →
      (((composite (p :: ps)).ensure a g s).flag = true ↔ allVerified (p :: ps) a g s)) ∧
    ((p.ensure a g s).panic = false → (p.ensure a g s).err = true →
      (composite (p :: ps)).ensure a g s = { p.ensure a g s with flag := false }) ∧
    ((p.ensure a g s).panic = false → (p.ensure a g s).err = false →
      ((composite (p :: ps)).ensure a g s).g = ((composite ps).ensure (p.ensure a g s).a (p.ensure a g s).g s).g) ∧
    ((p.finalise a g).panic = false → ((composite ps).finalise (p.finalise a g).a (p.finalise a g).g).panic = false →
      ((composite (p :: ps)).finalise a g).g = ((composite ps).finalise (p.finalise a g).a (p.finalise a g).g).g ∧
      ((composite (p :: ps)).finalise a g).err =
        ((p.finalise a g).err || ((composite ps).finalise (p.finalise a g).a (p.finalise a g).g).err)) :=
  ⟨fun hp he => composite_verified_iff (p :: ps) a g s hp he,
   fun hp he => seq_error_stops p (composite ps) a g s hp he,
   fun hp he => (seq_unverified_continues p (composite ps) a g s hp he).1,
   fun hp hq => ⟨(seq_finalise_continues p (composite ps) a g hp hq).1, (seq_finalise_continues p (composite ps) a g hp hq).2.1⟩⟩

/-! ## C05 / C06 — `read_fault_reported`, every Manager call -/

theorem read_fault_reported_patch (c : XCtx S) (a : Api) (n : XNet G) (m : Mem)
    (hr : readFailed a (patchStableServiceX c a n m).a = true) : (patchStableServiceX c a n m).err = true := by
  generalize ho : patchStableServiceX c a n m = o at hr
  unfold patchStableServiceX at ho
  by_cases href : c.hasRef = true
  · simp only [href, not_true_eq_false, if_false] at ho
    by_cases hng : c.noGen = true
    · simp only [hng, if_true, XOut.same] at ho
      subst ho; rw [readFailed_self] at hr; cases hr
    · simp only [hng, Bool.false_eq_true, if_false] at ho
      rcases Api.read_cases a with ⟨hrd, _, _⟩ | ⟨hrd, hr2⟩
      · rw [show a.read = (a.read.1, a.read.2) from rfl, hrd] at ho
        simp only [if_true, XOut.same] at ho
        subst ho; rfl
      · rw [show a.read = (a.read.1, a.read.2) from rfl, hrd] at ho
        simp only [Bool.false_eq_true, if_false] at ho
        have key : ∀ x : Api, x.armed = a.read.2.armed → readFailed a x = false := by
          intro x hx; unfold readFailed; rw [hx, hr2]; cases a.armed <;> rfl
        split at ho
        · simp only [XOut.same] at ho; subst ho; rfl
        · split at ho
          · split at ho
            · simp only [XOut.same] at ho; subst ho; rfl
            · rename_i a1 hsp
              subst ho
              rw [key a1 (Api.spend_armed hsp)] at hr; cases hr
          · subst ho
            rw [key _ rfl] at hr; cases hr
  · have href' : c.hasRef = false := by simpa using href
    simp only [href', Bool.false_eq_true, not_false_eq_true, if_true, XOut.same] at ho
    subst ho; rw [readFailed_self] at hr; cases hr

section lawful
variable (ops : StratOps S) {P : Provider S G} {Inv : G → Prop} {spec : G → S → Prop} {clean : G → Prop}
  {μ : G → S → Nat} {bound : Nat} (hL : LawfulProvider P Inv spec clean μ bound)
include hL

theorem read_fault_reported_routeAll (c : XCtx S) (a : Api) (n : XNet G) (m : Mem)
    (hp : (routeAllToNewX ops (some P) c a n m).panic = false)
    (hr : readFailed a (routeAllToNewX ops (some P) c a n m).a = true) :
    (routeAllToNewX ops (some P) c a n m).err = true := by
  unfold routeAllToNewX at hp hr ⊢
  by_cases href : c.hasRef = true
  · simp only [href, not_true_eq_false, if_false] at hp hr ⊢
    cases hpp : (P.ensure a n.g (ops.routeAll c.strategy)).panic
    · simp only [hpp, Bool.false_eq_true, if_false] at hp hr ⊢
      obtain ⟨f1, _⟩ := hL.read_fault_ensure a n.g (ops.routeAll c.strategy) hpp
      cases he : (P.ensure a n.g (ops.routeAll c.strategy)).err
      · simp only [he, Bool.false_eq_true, if_false] at hr ⊢
        have := f1 hr; rw [he] at this; cases this
      · simp [he]
    · simp [hpp, XOut.panicked] at hp
  · have href' : c.hasRef = false := by simpa using href
    simp [href', XOut.same, readFailed_self] at hr

/-- **C05 / C06 (`read_fault_reported`)** — for every lawful provider and **every** Manager call: if some API read
    of the call failed with an error other than NotFound (at whatever position: the Manager's own `Get` of a
    Service or any `Get` inside the provider, any member of a composite, any custom ref), the call returns an
    error.  A call that returns an error is never taken for complete (`done = true` / `retry = false` are only
    looked at when `err = nil`), so the clean-up cursor cannot advance past a resource that could not be read. -/
theorem read_fault_reported (c : XCtx S) (a : Api) (n : XNet G) (m : Mem) (hi : Inv n.g) :
    ((doTrafficRoutingX ops (some P) c a n m).panic = false →
      readFailed a (doTrafficRoutingX ops (some P) c a n m).a = true → (doTrafficRoutingX ops (some P) c a n m).err = true) ∧
    ((finalisingTrafficRoutingX (some P) c a n m).panic = false →
      readFailed a (finalisingTrafficRoutingX (some P) c a n m).a = true →
      (finalisingTrafficRoutingX (some P) c a n m).err = true ∧ (finalisingTrafficRoutingX (some P) c a n m).done = false) ∧
    (readFailed a (restoreStableServiceX c a n m).a = true → (restoreStableServiceX c a n m).err = true) ∧
    ((restoreGatewayX (some P) c a n m).panic = false → readFailed a (restoreGatewayX (some P) c a n m).a = true →
      (restoreGatewayX (some P) c a n m).err = true) ∧
    (readFailed a (removeCanaryServiceX c a n m).a = false) ∧
    (readFailed a (patchStableServiceX c a n m).a = true → (patchStableServiceX c a n m).err = true) ∧
    ((routeAllToNewX ops (some P) c a n m).panic = false → readFailed a (routeAllToNewX ops (some P) c a n m).a = true →
      (routeAllToNewX ops (some P) c a n m).err = true) :=
  ⟨read_fault_reported_doTR ops hL c a n m, read_fault_reported_finalising hL c a n m hi,
   (read_fault_reported_tasks hL c a n m).1, (read_fault_reported_tasks hL c a n m).2.1,
   (read_fault_reported_tasks hL c a n m).2.2, read_fault_reported_patch c a n m,
   read_fault_reported_routeAll ops hL c a n m⟩

end lawful

end RV.Props.TrafficX
