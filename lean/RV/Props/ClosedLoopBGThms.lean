import RV.Lemmas.ClosedLoopBG
import RV.Props.ExecutorXThms
import RV.Props.ReconcileThms
import RV.Lemmas.ClosedLoop
/-!
# The blue-green closed loop (C01, C04, C05, C06, C09, C10)

`RV.ClosedLoopBG` writes the closed loop once, over any workload world and the control plane that serves it, and
instantiates it with (i) the canary / partition-style CloneSet loop — `closedloop_is_instance`: `RV.ClosedLoop.step` IS
that instance, so nothing of `RV.Props.ClosedLoop` is lost — and (ii) blue-green over a CloneSet with HPAs.

The theorems below quantify over **every history** (`Reach`: any list of labels `ro | br | env | release rev | approve |
tick | crash | delete`, a rollback being the `release` of the stable revision), every plan, every replica count, every user
configuration of the CloneSet (`User`), by induction on the label list.  What is proved where:

* over every history, all labels: the **world invariant** (`bg_world_inv`) and its corollaries `bg_old_pods_kept`,
  `bg_no_promotion_while_held`, `bg_settings_restored_partial`, `bg_crash`;
* for every state (no reachability needed), one transition: `bg_refuses_continuous_ro` / `_br_partial`, `bg_finalize_needs_resume`
  (the BatchRelease half of `bg_traffic_before_scale_down`) and — in `RV.Props.ClosedLoopBGResume` — `bg_resume_only_in_cleanup`
  (the Rollout half, as a localisation), `bg_total_partial`;
* `_partial` says exactly what is missing; every `_full_FALSE` is a concrete history evaluated by the kernel on the model and
  replayed on the real controllers from `corpus/closedloopbg/`.
-/
namespace RV.Props.ClosedLoopBG
open RV.Arith IntOrPct RV.Traffic RV.ClosedLoopBG RV.Oracle.ClosedLoopBG RV.Lemmas.ClosedLoopBG
open RV.ClosedLoop (CBr Label CS)
open RV.CtlBlueGreen (Workload HPA maxReady)
open RV.RolloutSM (World WL Sub StepResult reconcile reconcileCore inRolling handleFinalizer calculateStatus)
open RV.ExecutorX (bgPlane bgInfo mkInfo syncVia reconcileX_cases syncStatusX_val entryOf bgBR bgReady)
open RV.Executor (BR Status Event syncDecide refreshStatus isPlanFinalizing isPlanChanged isPlanUnhealthy signalRecalculate resetStatus)

/-! ## 0. the closed loop of `RV.ClosedLoop` is an instance -/

/-- **`closedloop_is_instance`** — the transition function of the canary / partition-style closed loop is the generic one
    over `csLoop` (for every state and label; a panic on one side is a panic on the other).  The BatchRelease step goes through
    `executor_is_instance`: `RV.Executor.reconcile` is `reconcileX csPlane`. -/
theorem closedloop_is_instance (s : CS) (l : Label) :
    (RV.ClosedLoop.step s l).map ofCS = step csLoop (ofCS s) l := by
  cases l with
  | ro =>
    show (RV.ClosedLoop.stepRo s).map ofCS = stepRo csLoop (ofCS s)
    unfold RV.ClosedLoop.stepRo stepRo
    by_cases hg : s.gone = true
    · have : (ofCS s).gone = true := hg
      rw [if_pos hg, if_pos this]; rfl
    · have hg' : ¬ (ofCS s).gone = true := hg
      rw [if_neg hg, if_neg hg']
      have hw : roWorld csLoop (ofCS s) = some (RV.ClosedLoop.roWorld s) := rfl
      rw [hw]
      dsimp only
      cases RolloutSM.reconcile (RV.ClosedLoop.roWorld s) with
      | panic => rfl
      | val r =>
        dsimp only [Option.map_some]
        congr 1
        unfold RV.ClosedLoop.landRo landRo ofCS
        have key : ∀ (ob : Option CBr) (nb : Option RolloutSM.BR) (w : Option RV.ClosedLoop.CWl) (v : Option RolloutSM.WL),
            RV.ClosedLoop.landBR ob nb (RV.ClosedLoop.annoLand w v) = landBR csLoop ob nb (annoLand csLoop w v) := by
          intro ob nb w v
          cases ob <;> cases nb <;> cases w <;> cases v <;> rfl
        simp only [key]
  | br =>
    show (RV.ClosedLoop.stepBr s).map ofCS = stepBr csLoop (ofCS s)
    unfold RV.ClosedLoop.stepBr stepBr
    cases hb : s.br with
    | none =>
      have : (ofCS s).br = none := hb
      simp only [this]; rfl
    | some b =>
      have : (ofCS s).br = some b := hb
      simp only [this]
      rw [RV.Props.ExecutorX.executor_is_instance]
      have hp : csLoop.proj (ofCS s).world = s.wl.map RV.ClosedLoop.exWl := rfl
      rw [hp]
      have hpl : csLoop.plane = ExecutorX.csPlane := rfl
      rw [hpl]
      cases ExecutorX.reconcileX ExecutorX.csPlane (RV.ClosedLoop.exBr b) (s.wl.map RV.ClosedLoop.exWl) with
      | panic => rfl
      | val o => rfl
  | env => rfl
  | release rev => rfl
  | approve =>
    show (some (RV.ClosedLoop.approve s)).map ofCS = some (approve (ofCS s))
    unfold RV.ClosedLoop.approve approve
    simp only [Option.map_some, Option.some.injEq]
    by_cases hg : s.gone = true
    · have : (ofCS s).gone = true := hg
      rw [if_pos hg, if_pos this]
    · have hg' : ¬ (ofCS s).gone = true := hg
      rw [if_neg hg, if_neg hg']
      have hsub : (ofCS s).ro.sub = s.ro.sub := rfl
      rw [hsub]
      cases s.ro.sub with
      | none => rfl
      | some sub =>
        dsimp only
        split <;> rfl
  | tick => rfl
  | crash => rfl
  | delete =>
    show (some (RV.ClosedLoop.delete s)).map ofCS = some (delete (ofCS s))
    unfold RV.ClosedLoop.delete delete
    simp only [Option.map_some, Option.some.injEq]
    by_cases hg : s.gone = true
    · have : (ofCS s).gone = true := hg
      rw [if_pos hg, if_pos this]
    · have hg' : ¬ (ofCS s).gone = true := hg
      rw [if_neg hg, if_neg hg']
      have hf : (ofCS s).ro.hasFinalizer = s.ro.hasFinalizer := rfl
      rw [hf]
      split <;> rfl

/-! ## 1. histories, the initial states -/

/-- `Reach s0 ls s`: running the labels `ls` (any labels, in any order) from `s0` ends in `s` without a panic -/
inductive Reach : BS → List Label → BS → Prop
  | nil (s : BS) : Reach s [] s
  | snoc (s0 s s' : BS) (ls : List Label) (l : Label) : Reach s0 ls s → bgStep s l = some s' → Reach s0 (ls ++ [l]) s'

/-- the initial states: a Healthy blue-green Rollout with any plan over a CloneSet that runs one revision with the user's
    configuration `u` (any replicas, `minReadySeconds`, `maxSurge`, `maxUnavailable`, update-strategy type, HPAs), no
    BatchRelease, nothing left of an earlier release on the network.  `userOK`: the CloneSet is not paused and
    `minReadySeconds` is below `MaxReadySeconds`. -/
structure Init (u : User) (s : BS) : Prop where
  user : userOK u = true
  wl : s.world.wl = some (userWl u)
  rev : s.world.updateRevision = s.world.currentRevision
  hpa2 : s.world.hpaV2 = u.hpaV2
  hpa1 : s.world.hpaV1 = u.hpaV1
  anno : s.world.inProgressAnno = false
  br : s.br = none
  present : s.gone = false
  style : s.ro.style = .blueGreen
  phase : s.ro.phase = .healthy
  net : netClean s.net = true

theorem init_world (u : User) (s : BS) (h : Init u s) : worldInv u s.world = true := by
  have hu := h.user
  unfold userOK at hu
  simp only [Bool.and_eq_true, decide_eq_true_eq, Bool.not_eq_true'] at hu
  obtain ⟨⟨hp, _⟩, hR⟩ := hu
  unfold worldInv
  rw [h.wl]
  simp only [Bool.and_eq_true]
  constructor
  · refine cfgInv_of_parts u _ ?_ ?_ rfl
    · unfold cfgBase userWl; simp [hp]
    · unfold cfgSaved userWl userSetting; simp [userWl]
  · unfold podInv podBasic podKept podPart userWl
    simp only [Bool.and_eq_true, decide_eq_true_eq, Bool.or_eq_true, if_pos h.rev]
    refine ⟨⟨⟨⟨⟨trivial, trivial⟩, hR⟩, Int.le_refl _⟩, Int.le_refl _⟩, Or.inl (Or.inl rfl)⟩

/-! ## 2. the world invariant over every history -/

/-- one transition — any label — preserves the world invariant.  The Rollout controller reaches the CloneSet only through
    the in-progress annotation and the foreign-making of an old control annotation (`stepRo_world`); the executor only
    through the three patches of the blue-green control (`reconcileX_world`); the rest is the CloneSet controller and the
    admission webhook. -/
theorem world_step (u : User) (hu : userOK u = true) (s s' : BS) (l : Label) (h : worldInv u s.world = true)
    (hs : bgStep s l = some s') : worldInv u s'.world = true := by
  unfold bgStep at hs
  cases l with
  | ro =>
    rcases stepRo_world bgLoop s s' hs with e | ⟨a, e⟩ | e | ⟨a, e⟩ <;> rw [e]
    · exact h
    · exact setAnno_worldInv u a _ h
    · exact disown_worldInv u _ h
    · exact disown_worldInv u _ (setAnno_worldInv u a _ h)
  | br =>
    simp only [step, stepBr] at hs
    split at hs
    · injection hs with hs; subst hs; exact h
    · split at hs
      · cases hs
      · rename_i b _ o ho
        injection hs with hs; subst hs
        exact br_worldInv u _ s.world o h ho
  | env => simp only [step, Option.some.injEq] at hs; subst hs; exact env_worldInv u hu _ h
  | release rev => simp only [step, Option.some.injEq] at hs; subst hs; exact release_worldInv u hu rev _ h
  | approve =>
    simp only [step, Option.some.injEq] at hs; subst hs
    unfold approve; repeat' split
    all_goals exact h
  | tick => simp only [step, Option.some.injEq] at hs; subst hs; exact h
  | crash => simp only [step, Option.some.injEq] at hs; subst hs; exact h
  | delete =>
    simp only [step, Option.some.injEq] at hs; subst hs
    unfold delete; repeat' split
    all_goals exact h

/-- **`bg_world_inv`** (C05 / C06) — every state of every history from an initial state satisfies the world invariant:
    the CloneSet keeps the user's size, is neither paused nor deleted; either it carries no saved-settings annotation, has the
    user's `minReadySeconds` / `maxSurge` / `maxUnavailable` and no control-info, or the annotation holds exactly the user's
    settings and the blue-green hold (`minReadySeconds = MaxReadySeconds`, `maxUnavailable = 0`) is installed; the partition
    is absent or the webhook's 100 %; all pods are ready and at least `replicas` of them are of the stable revision. -/
theorem bg_world_inv (u : User) (s0 s : BS) (ls : List Label) (h0 : Init u s0) (hr : Reach s0 ls s) :
    worldInv u s.world = true := by
  induction hr with
  | nil => exact init_world u _ h0
  | snoc s s' ls l _ hs ih => exact world_step u h0.user s s' l ih hs

/-! ## 3. C01 / C04 — blue-green takes no capacity away -/

/-- **`bg_old_pods_kept`** (C01 / C04) — in every state of every history: while two revisions exist, at least `replicas`
    ready pods are of the stable (current) revision — under the hold and outside it (`stableKept` is the oracle the harness
    evaluates on the real controllers' states; it asks for it under the hold). -/
theorem bg_old_pods_kept (u : User) (s0 s : BS) (ls : List Label) (h0 : Init u s0) (hr : Reach s0 ls s) :
    stableKept u s.world = true ∧
    (∀ wl, s.world.wl = some wl → s.world.updateRevision ≠ s.world.currentRevision →
      u.replicas ≤ wl.status.ready - wl.status.updatedReady) := by
  have hw := bg_world_inv u s0 s ls h0 hr
  unfold worldInv at hw
  have key : ∀ wl, s.world.wl = some wl → s.world.updateRevision ≠ s.world.currentRevision →
      u.replicas ≤ wl.status.ready - wl.status.updatedReady := by
    intro wl hwl hne
    rw [hwl] at hw
    simp only [Bool.and_eq_true] at hw
    obtain ⟨p1, p2, _⟩ := podInv_parts u s.world wl hw.2
    rw [podBasic_iff] at p1
    unfold podKept at p2
    rw [if_neg hne] at p2
    simp only [decide_eq_true_eq] at p2
    omega
  refine ⟨?_, key⟩
  unfold stableKept
  cases hwl : s.world.wl with
  | none => rfl
  | some wl =>
    dsimp only
    split
    · rename_i hc
      simp only [decide_eq_true_eq]
      exact key wl hwl hc.2
    · rfl

/-- **`bg_no_promotion_while_held`** (C01 / C04) — … and they stay the stable revision: while the CloneSet is under the
    hold (saved-settings annotation present, or still at the webhook's partition 100 %) and has pods at all, no transition —
    in particular no round of the CloneSet controller — makes the update revision the current one.  Old pods are replaced
    only after `Finalize` has removed the annotation, i.e. (`bg_finalize_needs_resume`) after the Rollout controller has resumed
    the workload. -/
theorem bg_no_promotion_while_held (u : User) (s0 s s' : BS) (ls : List Label) (l : Label) (h0 : Init u s0) (hr : Reach s0 ls s)
    (hs : bgStep s l = some s') (wl : Workload) (hwl : s.world.wl = some wl) (hh : hold wl = true) (hR : 0 < u.replicas) :
    s'.world.currentRevision = s.world.currentRevision := by
  have hw := bg_world_inv u s0 s ls h0 hr
  unfold bgStep at hs
  cases l with
  | ro =>
    rcases stepRo_world bgLoop s s' hs with e | ⟨a, e⟩ | e | ⟨a, e⟩ <;> rw [e]
    · show (bgSetAnno a s.world).currentRevision = _; unfold bgSetAnno; split <;> rfl
    · rfl
    · show (bgDisown (bgSetAnno a s.world)).currentRevision = _; unfold bgDisown bgSetAnno; split <;> rfl
  | br =>
    simp only [step, stepBr] at hs
    split at hs
    · injection hs with hs; subst hs; rfl
    · split at hs
      · cases hs
      · injection hs with hs; subst hs; rfl
  | release rev =>
    simp only [step, Option.some.injEq] at hs; subst hs
    show (bgRelease rev s.world).currentRevision = _
    unfold bgRelease; repeat' split
    all_goals rfl
  | approve => simp only [step, Option.some.injEq] at hs; subst hs; unfold approve; repeat' split
               all_goals rfl
  | tick => simp only [step, Option.some.injEq] at hs; subst hs; rfl
  | crash => simp only [step, Option.some.injEq] at hs; subst hs; rfl
  | delete => simp only [step, Option.some.injEq] at hs; subst hs; unfold delete; repeat' split
              all_goals rfl
  | env =>
    simp only [step, Option.some.injEq] at hs; subst hs
    show (bgEnv s.world).currentRevision = _
    unfold worldInv at hw
    rw [hwl] at hw
    simp only [Bool.and_eq_true] at hw
    obtain ⟨hcfg, hpod⟩ := hw
    obtain ⟨c1, c2, c3⟩ := cfgInv_parts u wl hcfg
    obtain ⟨p1, _, p3⟩ := podInv_parts u s.world wl hpod
    rw [podBasic_iff] at p1
    unfold cfgBase at c1
    simp only [Bool.and_eq_true, decide_eq_true_eq, Bool.not_eq_true'] at c1
    obtain ⟨⟨⟨hrep, _⟩, _⟩, _⟩ := c1
    unfold podPart at p3
    simp only [Bool.or_eq_true, decide_eq_true_eq, Option.isNone_iff_eq_none] at p3
    unfold bgEnv
    rw [hwl]
    simp only [hrep]
    split
    · rfl
    · split
      · rename_i hne
        split
        · rfl
        · split
          · rfl
          · -- an ordinary minReadySeconds: then the saved-settings annotation is absent, so the partition is the webhook's
            rename_i hfree
            dsimp only
            have hpart : wl.partition = some (pct 100) := by
              unfold hold at hh
              simp only [Bool.or_eq_true, decide_eq_true_eq, ne_eq] at hh
              rcases hh with hh | hh
              · exfalso
                unfold cfgSaved at c2
                cases hsv : wl.saved with
                | none => exact hh hsv
                | bad => rw [hsv] at c2; cases c2
                | some sv =>
                  rw [hsv] at c2
                  simp only [Bool.and_eq_true] at c2
                  have := c2.2
                  unfold holdInstalled at this
                  simp only [Bool.and_eq_true, decide_eq_true_eq] at this
                  exact hfree (by rw [this.1.1]; exact Int.le_refl _)
              · exact hh
            have hupd : wl.status.updated = 0 := by
              rcases p3 with (p3 | p3) | p3
              · rw [hpart] at p3; cases p3
              · exact absurd p3 hne
              · exact p3
            have hR0 : (0 : Int) ≤ u.replicas := by omega
            have := (freeSync_spec u.replicas (u.replicas - keptBy wl.partition u.replicas) wl.status.updated (by omega) hR0).2.2.2.2
              (by rw [hpart, keptBy_pct100 _ hR0]; omega) hupd
            rw [if_neg (by omega)]
      · rfl

/-! ## 4. C05 — what every exit restores -/

/-- **`bg_settings_restored_partial`** (C05) — in every state of every history in which the CloneSet no longer carries the
    saved-settings annotation — in particular after every `Finalize` that ran its restoring patch, whatever the exit reason,
    whatever was interleaved — the settings are the user's again: `minReadySeconds`, `maxSurge`, `maxUnavailable`
    (`effSetting`), not paused, the update-strategy type, no control-info; and the partition is absent **or still the
    webhook's 100 %** (guard `csPartitionKept`: blue-green `Finalize` never clears it — `bg_settings_restored_full_FALSE_partition`).

    partial: (a) that every *terminal* state has the annotation removed is not part of this theorem — it was false before the
    cursor reset in `Reconcile` (fixed finding `bgCursorCarried`; regression example `bg_settings_restored_cursor_reset`) and
    needs the Rollout-side clean-up invariant lifted to this loop (judged by the oracle `settingsRestored` at full strength on the
    walks of the real controllers); (b) the HPA target and the network objects are judged by the oracle
    `settingsRestored` on the walks of the real controllers (plane-level theorem: `RV.Props.CtlBlueGreen.finalize_restores_hpa`). -/
theorem bg_settings_restored_partial (u : User) (s0 s : BS) (ls : List Label) (h0 : Init u s0) (hr : Reach s0 ls s)
    (wl : Workload) (hwl : s.world.wl = some wl) (hsaved : wl.saved = .none) :
    (wl.partition = none → wlRestored u wl = true) ∧ (wl.partition = none ∨ wl.partition = some (pct 100)) := by
  have hw := bg_world_inv u s0 s ls h0 hr
  unfold worldInv at hw
  rw [hwl] at hw
  simp only [Bool.and_eq_true] at hw
  obtain ⟨c1, c2, c3⟩ := cfgInv_parts u wl hw.1
  unfold cfgBase at c1
  simp only [Bool.and_eq_true, decide_eq_true_eq, Bool.not_eq_true'] at c1
  unfold cfgSaved at c2
  rw [hsaved] at c2
  simp only [Bool.and_eq_true, decide_eq_true_eq] at c2
  unfold cfgPart at c3
  simp only [Bool.or_eq_true, decide_eq_true_eq, Option.isNone_iff_eq_none] at c3
  have hup : u.paused = false := by
    have := h0.user; unfold userOK at this
    simp only [Bool.and_eq_true, decide_eq_true_eq, Bool.not_eq_true'] at this
    exact this.1.1
  refine ⟨fun hp => ?_, c3⟩
  unfold wlRestored
  simp only [Bool.and_eq_true, decide_eq_true_eq, Option.isNone_iff_eq_none]
  exact ⟨⟨⟨⟨⟨hsaved, c2.2⟩, c2.1⟩, by rw [c1.1.2, hup]⟩, c1.2⟩, hp⟩

/-! ## 5. C06 — crashes -/

/-- **`bg_crash`** (C06) — a crash of the controllers is a label of the loop: every theorem over `Reach` above holds with a
    crash at any point of the history.  What a crash does: it empties the in-memory grace expectations and nothing else — the
    Rollout, the BatchRelease, the CloneSet, the HPAs and the network objects are what they were, hence so are the world
    invariant, `stableKept` and `settingsRestored` (none of which reads the grace memory). -/
theorem bg_crash (u : User) (s : BS) :
    bgStep s .crash = some { s with mem := Mem.empty } ∧
    (worldInv u s.world = true → worldInv u ({ s with mem := Mem.empty } : BS).world = true) ∧
    stableKept u ({ s with mem := Mem.empty } : BS).world = stableKept u s.world ∧
    settingsRestored u { s with mem := Mem.empty } = settingsRestored u s ∧
    oldPodsKept { s with mem := Mem.empty } = oldPodsKept s :=
  ⟨rfl, id, rfl, rfl, rfl⟩

/-- … and a history with crashes anywhere is a history -/
theorem Reach.crash (s0 s : BS) (ls : List Label) (hr : Reach s0 ls s) : Reach s0 (ls ++ [.crash]) { s with mem := Mem.empty } :=
  Reach.snoc s0 s _ ls .crash hr rfl

/-! ## 6. C04 / C10 — the workload is handed back only after the Rollout controller resumed it -/

/-- **`bg_finalize_needs_resume`** (C04 / C10, the BatchRelease half of `bg_traffic_before_scale_down`) — for EVERY state
    (reachable or not): a BatchRelease reconcile removes the saved-settings annotation — i.e. restores `minReadySeconds` and
    `maxUnavailable`, after which the CloneSet controller may replace the old pods — only when the BatchRelease's
    `batchPartition` has been cleared, which only the Rollout controller's clean-up task `ResumeWorkload` does. -/
theorem bg_finalize_needs_resume (s s' : BS) (hs : bgStep s .br = some s') (hrel : settingsReleased s s' = true) :
    ∃ b, s.br = some b ∧ b.partition = none := by
  unfold bgStep at hs
  simp only [step, stepBr] at hs
  split at hs
  · -- no BatchRelease: nothing happens
    injection hs with hs; subst hs
    unfold settingsReleased at hrel
    cases hw : s.world.wl with
    | none => rw [hw] at hrel; cases hrel
    | some wl => rw [hw] at hrel; simp at hrel
  · rename_i b hb
    split at hs
    · cases hs
    · rename_i o ho
      injection hs with hs; subst hs
      refine ⟨b, hb, ?_⟩
      unfold settingsReleased at hrel
      cases hw : s.world.wl with
      | none => rw [hw] at hrel; cases hrel
      | some wl =>
        rw [hw] at hrel
        have hpw : (bgProj s.world).w.wl = some wl := hw
        have hland : ∀ p : ExecutorX.BGW, (bgLand s.world p).wl = p.w.wl := fun _ => rfl
        dsimp only at hrel
        rw [show (bgLoop.land s.world o.wl).wl = o.wl.w.wl from rfl] at hrel
        rcases reconcileX_world (ExecutorX.bgPlane .cloneSet) (RV.ClosedLoop.exBr b) (bgProj s.world) o ho with
          hsame | ⟨m, ms, r, hi⟩ | ⟨m, r, hu⟩ | ⟨r, hf⟩
        · rw [hsame, hpw] at hrel; simp at hrel
        · obtain ⟨out, hout, hw', _⟩ := RV.Props.ExecutorX.bg_init_inv .cloneSet _ m ms (bgProj s.world) o.wl r hi
          rw [hw'] at hrel
          rcases RV.Lemmas.CtlBlueGreen.initialize_wl .cloneSet _ _ _ out hout with ⟨hsm, _⟩ | ⟨wl0, sv, hw0, _, _, _, hnew⟩
          · rw [show ({ bgProj s.world with w := out.world } : ExecutorX.BGW).w.wl = out.world.wl from rfl, hsm, hpw] at hrel
            simp at hrel
          · rw [show ({ bgProj s.world with w := out.world } : ExecutorX.BGW).w.wl = out.world.wl from rfl, hnew] at hrel
            simp [CtlBlueGreen.initPatch] at hrel
        · obtain ⟨out, hout, hw', _⟩ := RV.Props.ExecutorX.bg_upgrade_inv .cloneSet _ m (bgProj s.world) o.wl r hu
          rw [hw'] at hrel
          rcases RV.Lemmas.CtlBlueGreen.upgrade_world .cloneSet _ _ _ out hout with ⟨hsm, _⟩ | ⟨wl0, R, e, hw0, _, _, _, _, _, _, _, hnew⟩
          · rw [show ({ bgProj s.world with w := out.world } : ExecutorX.BGW).w.wl = out.world.wl from rfl, hsm, hpw] at hrel
            simp at hrel
          · rw [hpw] at hw0; cases hw0
            rw [show ({ bgProj s.world with w := out.world } : ExecutorX.BGW).w.wl = out.world.wl from rfl, hnew] at hrel
            simp [CtlBlueGreen.upgradePatch] at hrel
            exact absurd (of_decide_eq_true hrel.2) hrel.1
        · obtain ⟨out, hout, hw', _⟩ := RV.Props.ExecutorX.bg_fin_inv .cloneSet _ (bgProj s.world) o.wl r hf
          rcases RV.Lemmas.CtlBlueGreen.finalize_wl .cloneSet _ _ _ out hout with hsm | ⟨wl0, sv, _, _, hpart, _, _⟩
          · rw [hw'] at hrel
            rw [show ({ bgProj s.world with w := out.world } : ExecutorX.BGW).w.wl = out.world.wl from rfl, hsm, hpw] at hrel
            simp at hrel
          · -- the restoring patch: `Finalize` saw no batch partition
            have : (ExecutorX.bgBR (Executor.withFinalizer (RV.ClosedLoop.exBr b))).partitioned = b.partition.isSome := rfl
            rw [this] at hpart
            cases hp : b.partition with
            | none => rfl
            | some p => rw [hp] at hpart; cases hpart

/-! ## 7. C10 — a newer revision is refused -/

theorem bgSetAnno_self (b : BW) : bgSetAnno b.inProgressAnno b = b := by
  unfold bgSetAnno; split <;> rfl

/-- a Rollout reconcile that leaves BatchRelease, workload and network as it read them lands as a change of the Rollout only -/
theorem landRo_frame (s : BS) (v : RolloutSM.WL) (r : StepResult) (hv : bgView s.world = some (some v))
    (hwl : r.w.wl = some v) (hbr : r.w.br = s.br.map RV.ClosedLoop.roBr) :
    (landRo bgLoop s r).world = s.world ∧ (landRo bgLoop s r).br = s.br := by
  have hanno : v.inProgressAnno = s.world.inProgressAnno := by
    unfold bgView at hv
    split at hv
    · cases hv
    · split at hv
      · cases hv
      · simp only [Option.some.injEq] at hv; rw [← hv]
  unfold landRo
  dsimp only
  rw [hwl, hbr]
  have ha : annoLand bgLoop s.world (some v) = s.world := by
    show bgSetAnno v.inProgressAnno s.world = s.world
    rw [hanno]; exact bgSetAnno_self _
  rw [ha]
  cases hb : s.br with
  | none => exact ⟨rfl, rfl⟩
  | some c =>
    simp only [Option.map_some, landBR, RV.Lemmas.ClosedLoop.updatedBr_id]
    exact ⟨trivial, trivial⟩

/-- what a Rollout reconcile of a superseded blue-green rollout returns: the world it read, with another Rollout status whose
    step index, step state and Progressing reason are the old ones; the object stays -/
theorem reconcile_superseded_core (w : World) (wl : WL) (os : Sub) (r : StepResult)
    (hph : w.ro.phase = .progressing) (hr : w.ro.reason = .inRolling) (hdel : w.ro.deleting = false)
    (hnp : w.ro.paused = false) (hbg : w.ro.style = .blueGreen) (hwl : w.wl = some wl) (hos : w.ro.sub = some os)
    (hne : os.canaryRev ≠ "") (hrev : wl.canaryRev ≠ os.canaryRev) (hnrb : wl.inRollback = false)
    (h : reconcileCore w = .val r) :
    r.w.wl = w.wl ∧ r.w.br = w.br ∧ r.w.net = w.net ∧ r.w.mem = w.mem ∧ r.roGone = false ∧ r.w.ro.reason = .inRolling ∧
    ∃ s', r.w.ro.sub = some s' ∧ s'.curIdx = os.curIdx ∧ s'.state = os.state := by
  have hgone : (handleFinalizer w.ro).2.1 = false := by
    unfold handleFinalizer; rw [if_neg (by simp [hdel])]; split <;> rfl
  have hfr := RV.Props.Reconcile.hf_frame w.ro
  cases hc : wl.consistent with
  | false =>
    -- the workload status is not consistent: the reconcile only waits
    unfold reconcileCore at h
    dsimp only at h
    have : calculateStatus (handleFinalizer w.ro).1 w.wl = none := by
      unfold calculateStatus
      rw [hfr]; dsimp only
      rw [if_neg (by simp [hdel]), hwl]
      dsimp only
      rw [if_pos (by simp [hc])]
    rw [this] at h
    cases h
    dsimp only
    refine ⟨rfl, rfl, rfl, rfl, hgone, ?_, os, ?_, rfl, rfl⟩
    · rw [hfr]; exact hr
    · rw [hfr]; exact hos
  | true =>
    obtain ⟨ns, s, hsame, hs, hcore, hreason, hrec⟩ := RV.Props.Reconcile.reconcile_inRolling_core w wl os hph hr hwl hc hos
    rw [hrec] at h
    have hbr : inRolling w w.ro ns s wl =
        .val { w := { w with ro := ns }, roGone := false, requeue := false, err := false, writes := [] } := by
      unfold inRolling
      dsimp only
      rw [hos]
      dsimp only
      rw [if_neg (by intro hh; rw [hnrb] at hh; exact Bool.false_ne_true hh.1), if_neg (by rw [hsame.2.2.2.1, hnp]; exact Bool.false_ne_true),
          if_neg (by intro hh; rw [hnrb] at hh; exact Bool.false_ne_true hh.1), if_pos ⟨hne, hrev, by rw [hnrb]; exact Bool.false_ne_true⟩,
          if_pos (by rw [hsame.2.2.1]; exact hbg)]
    rw [hbr] at h
    simp only [Bool.false_eq_true, if_false, RolloutSM.Out.val.injEq] at h
    subst h
    simp only [RV.Props.Reconcile.subCore, Prod.mk.injEq] at hcore
    exact ⟨rfl, rfl, rfl, rfl, hgone, by rw [hreason]; exact hr, s, hs, hcore.1, hcore.2.2.1⟩

/-- the same of the whole reconcile (body + cursor reset: nothing in the statement reads the clean-up cursor) -/
theorem reconcile_superseded (w : World) (wl : WL) (os : Sub) (r : StepResult)
    (hph : w.ro.phase = .progressing) (hr : w.ro.reason = .inRolling) (hdel : w.ro.deleting = false)
    (hnp : w.ro.paused = false) (hbg : w.ro.style = .blueGreen) (hwl : w.wl = some wl) (hos : w.ro.sub = some os)
    (hne : os.canaryRev ≠ "") (hrev : wl.canaryRev ≠ os.canaryRev) (hnrb : wl.inRollback = false)
    (h : reconcile w = .val r) :
    r.w.wl = w.wl ∧ r.w.br = w.br ∧ r.w.net = w.net ∧ r.w.mem = w.mem ∧ r.roGone = false ∧ r.w.ro.reason = .inRolling ∧
    ∃ s', r.w.ro.sub = some s' ∧ s'.curIdx = os.curIdx ∧ s'.state = os.state := by
  obtain ⟨r0, h0, rfl⟩ := RolloutSM.reconcile_val h
  obtain ⟨a1, a2, a3, a4, a5, a6, s', hs', b1, b2⟩ :=
    reconcile_superseded_core w wl os r0 hph hr hdel hnp hbg hwl hos hne hrev hnrb h0
  exact ⟨by rw [RolloutSM.resetOnExit_wl]; exact a1, by rw [RolloutSM.resetOnExit_br]; exact a2,
    by rw [RolloutSM.resetOnExit_net]; exact a3, by rw [RolloutSM.resetOnExit_mem]; exact a4,
    by rw [RolloutSM.resetOnExit_roGone]; exact a5, by rw [RolloutSM.resetOnExit_reason]; exact a6,
    _, RolloutSM.resetOnExit_sub_some _ _ _ hs', b1, b2⟩

/-- **`bg_refuses_continuous`, the Rollout controller** (C10) — for EVERY state (reachable or not): while the workload is on a
    revision newer than the one the blue-green rollout is releasing (and it is not the stable one: the user has not rolled back),
    a Rollout reconcile changes nothing that is exposed — not the CloneSet's settings and markers, not the HPAs, not a network
    object, not the BatchRelease's plan — and the rollout stays on its step, in its step state, InRolling. -/
theorem bg_refuses_continuous_ro (s s' : BS) (hsup : superseded s = true) (hs : bgStep s .ro = some s') :
    refusesContinuous s .ro s' = true := by
  unfold superseded at hsup
  simp only [Bool.and_eq_true, Bool.not_eq_true', decide_eq_true_eq, Option.isSome_iff_exists] at hsup
  obtain ⟨⟨⟨⟨⟨⟨⟨hgone, hstyle⟩, hph⟩, hr⟩, hdel⟩, hnp⟩, ⟨wl0, hwl0⟩⟩, hsub⟩ := hsup
  cases hos : s.ro.sub with
  | none => rw [hos] at hsub; cases hsub
  | some os =>
    rw [hos] at hsub
    simp only [Bool.and_eq_true, decide_eq_true_eq, ne_eq] at hsub
    obtain ⟨⟨hne, hrev⟩, hnotstable⟩ := hsub
    unfold bgStep at hs
    simp only [step, stepRo] at hs
    rw [if_neg (by simp [hgone])] at hs
    split at hs
    · cases hs
    · rename_i w hw
      split at hs
      · cases hs
      · rename_i r hrec
        injection hs with hs; subst hs
        -- the world the reconcile read
        unfold roWorld at hw
        split at hw
        · cases hw
        · rename_i v hv
          injection hw with hw; subst hw
          have hv' : bgLoop.view s.world = bgView s.world := rfl
          rw [hv'] at hv
          have hvfacts : ∃ wv, v = some wv ∧ wv.canaryRev = s.world.updateRevision ∧
              (wv.inRollback = true → s.world.currentRevision = s.world.updateRevision) := by
            unfold bgView at hv
            rw [hwl0] at hv
            dsimp only at hv
            split at hv
            · cases hv
            · simp only [Option.some.injEq] at hv
              refine ⟨_, hv.symm, rfl, ?_⟩
              intro h; simp only [Bool.and_eq_true, decide_eq_true_eq] at h; exact h.1.2
          obtain ⟨wv, hvs, hcan, hrb⟩ := hvfacts
          subst hvs
          have hnrb : wv.inRollback = false := by
            cases hb : wv.inRollback with
            | false => rfl
            | true => exact absurd (hrb hb).symm hnotstable
          obtain ⟨e1, e2, e3, e4, e5, e6, sx, e7, e8, e9⟩ :=
            reconcile_superseded _ wv os r hph hr hdel hnp hstyle.symm rfl hos hne (by rw [hcan]; exact fun e => hrev e.symm) hnrb hrec
          obtain ⟨f1, f2⟩ := landRo_frame s wv r hv e1 e2
          unfold refusesContinuous
          dsimp only
          rw [if_pos (by
            unfold superseded
            simp only [Bool.and_eq_true, Bool.not_eq_true', decide_eq_true_eq, Option.isSome_iff_exists, hos, ne_eq]
            exact ⟨⟨⟨⟨⟨⟨⟨hgone, hstyle⟩, hph⟩, hr⟩, hdel⟩, hnp⟩, ⟨wl0, hwl0⟩⟩, ⟨hne, hrev⟩, hnotstable⟩)]
          have hexp : exposureOf (landRo bgLoop s r) = exposureOf s := by
            unfold exposureOf
            rw [f1, f2]
            show _ = _
            congr 1
          rw [hos]
          have hsub' : (landRo bgLoop s r).ro.sub = some sx := e7
          have hreason' : (landRo bgLoop s r).ro.reason = .inRolling := e6
          have hgone' : (landRo bgLoop s r).gone = false := e5
          rw [hsub']
          simp only [hexp, decide_true, Bool.true_and, Bool.and_eq_true, decide_eq_true_eq, Bool.not_eq_true']
          exact ⟨⟨⟨e8.symm, e9.symm⟩, hreason'⟩, hgone'⟩

/-- the sync step of the executor stops when it finds the workload on another revision than the one it recorded (and the
    release is Progressing, not finalizing): whatever else it finds first — an unobserved generation, a changed plan, a cursor
    outside the plan, a scaling — either stops as well or changes the status, which is persisted before anything acts -/
theorem sync_stops_superseded (br : BR) (info : ExecutorX.Info) (hph : br.status.phase = .progressing)
    (hnf : isPlanFinalizing br = false) (hrev : br.status.updateRevision ≠ "")
    (hne : info.updateRevision ≠ br.status.updateRevision) (hcur : info.updateRevision ≠ info.currentRevision)
    (hnp : info.statusReplicas ≠ info.updated) :
    ((syncDecide br br.status (Executor.syncInfo br br.status (some info)).1 (Executor.syncInfo br br.status (some info)).2).2 ||
      decide (refreshStatus (syncDecide br br.status (Executor.syncInfo br br.status (some info)).1
        (Executor.syncInfo br br.status (some info)).2).1 (Executor.syncInfo br br.status (some info)).2 ≠ br.status)) = true := by
  have hdel : br.deleting = false := by
    unfold isPlanFinalizing at hnf
    simp only [Bool.or_eq_false_iff] at hnf
    exact hnf.1.1
  have hnc : ¬ br.status.phase = .completed := by rw [hph]; decide
  -- the three early cases of the chain either are not taken or change the status
  have early : ∀ (ev : Event) (i : Option ExecutorX.Info),
      (isPlanChanged br = true ∨ isPlanUnhealthy br = true) →
      decide (refreshStatus (syncDecide br br.status ev i).1 i ≠ br.status) = true := by
    intro ev i hc
    simp only [decide_eq_true_eq]
    unfold syncDecide
    rw [if_neg hnc, hnf]
    simp only [Bool.false_eq_true, if_false]
    by_cases hch : isPlanChanged br = true
    · rw [if_pos hch]
      intro heq
      have := congrArg (·.hash) heq
      unfold isPlanChanged at hch
      simp only [Bool.and_eq_true, bne_iff_ne, ne_eq, decide_eq_true_eq] at hch
      unfold refreshStatus signalRecalculate at this
      cases i <;> simp at this <;> exact hch.1 this.symm
    · rw [if_neg hch]
      have hun : isPlanUnhealthy br = true := by rcases hc with h | h; exact absurd h hch; exact h
      rw [if_pos hun]
      intro heq
      have := congrArg (·.phase) heq
      unfold refreshStatus resetStatus at this
      cases i <;> simp [hph] at this
  by_cases hearly : isPlanChanged br = true ∨ isPlanUnhealthy br = true
  · rw [early _ _ hearly]; exact Bool.or_true _
  · have h1 : ¬ isPlanChanged br = true := fun h => hearly (Or.inl h)
    have h2 : ¬ isPlanUnhealthy br = true := fun h => hearly (Or.inr h)
    unfold Executor.syncInfo
    rw [if_neg (by simp [hdel])]
    dsimp only
    split
    · -- the generation has not been observed
      unfold syncDecide
      simp [hnc, hnf, h1, h2, hph]
    · split
      · -- scaling: the recorded size changes
        rename_i hsc
        apply (Bool.or_eq_true _ _).mpr
        right
        simp only [decide_eq_true_eq]
        unfold syncDecide
        rw [if_neg hnc, hnf]
        simp only [Bool.false_eq_true, if_false, if_neg h1, if_neg h2, hph]
        simp only [reduceCtorEq, false_and, if_false, and_self, if_true, true_and]
        intro heq
        have := congrArg (·.observedReplicas) heq
        unfold refreshStatus at this
        simp at this
        exact hsc.2 this
      · split
        · rename_i hrb
          exact absurd hrb.2.1 hcur
        · rw [if_pos ⟨hrev, hne⟩]
          unfold syncDecide
          simp [hnc, hnf, h1, h2, hph]

theorem bgLand_proj (b : BW) : bgLand b (bgProj b) = b := by
  unfold bgLand bgProj
  cases hb : b.wl with
  | none => cases b; simp_all
  | some wl => cases b; simp_all

/-- **`bg_refuses_continuous`, the BatchRelease controller** (C10) — for EVERY state: while the workload is on a newer
    revision and the BatchRelease supervises the release it was created for (`brSupervises`), a BatchRelease reconcile stops
    after its sync step: nothing exposed changes.
    partial: outside `brSupervises` lies the open finding `supersedeBeforeInit` (the BatchRelease has not recorded its revision
    yet, or has recorded the newer one) — `bg_refuses_continuous_full_FALSE`. -/
theorem bg_refuses_continuous_br_partial (s s' : BS) (hsup : superseded s = true) (hg : brSupervises s = true)
    (hs : bgStep s .br = some s') : refusesContinuous s .br s' = true := by
  have hsup0 := hsup
  unfold superseded at hsup
  simp only [Bool.and_eq_true, Bool.not_eq_true', decide_eq_true_eq, Option.isSome_iff_exists] at hsup
  obtain ⟨⟨⟨⟨⟨⟨⟨hgone, _⟩, _⟩, hr⟩, _⟩, _⟩, ⟨wl, hwl⟩⟩, hsub⟩ := hsup
  cases hos : s.ro.sub with
  | none => rw [hos] at hsub; cases hsub
  | some os =>
    rw [hos] at hsub
    simp only [Bool.and_eq_true, decide_eq_true_eq, ne_eq] at hsub
    obtain ⟨_, hnotstable⟩ := hsub
    -- it suffices that the reconcile leaves the CloneSet / HPAs and the BatchRelease's plan alone
    suffices h : s'.world = s.world ∧ s'.net = s.net ∧ s'.ro = s.ro ∧ s'.gone = s.gone ∧
        s'.br.map (fun b => (b.batches, b.partition, b.deleting)) = s.br.map (fun b => (b.batches, b.partition, b.deleting)) by
      obtain ⟨h1, h2, h3, h4, h5⟩ := h
      unfold refusesContinuous
      dsimp only
      rw [if_pos hsup0, h3, hos]
      have hexp : exposureOf s' = exposureOf s := by
        unfold exposureOf
        rw [h1, h2]
        congr 1
        cases hb' : s'.br <;> cases hb : s.br <;> rw [hb', hb] at h5 <;> simp_all
      simp [hexp, hr, h4, hgone]
    unfold bgStep at hs
    simp only [step, stepBr] at hs
    split at hs
    · injection hs with hs; subst hs; exact ⟨rfl, rfl, rfl, rfl, rfl⟩
    · rename_i b hb
      split at hs
      · cases hs
      · rename_i o ho
        injection hs with hs; subst hs
        unfold brSupervises at hg
        rw [hb, hwl] at hg
        simp only [Bool.and_eq_true, Bool.not_eq_true', decide_eq_true_eq, ne_eq] at hg
        obtain ⟨⟨⟨⟨⟨hpart, hdel⟩, hphase⟩, hrec⟩, hnew⟩, hnprom⟩ := hg
        have hpl : bgLoop.plane = bgPlane .cloneSet := rfl
        have hpj : bgLoop.proj s.world = bgProj s.world := rfl
        rw [hpl, hpj] at ho
        rcases reconcileX_cases (bgPlane .cloneSet) (RV.ClosedLoop.exBr b) (bgProj s.world) o ho with
          ⟨hd, _⟩ | ⟨_, sy, hsync, hrest⟩
        · have : (RV.ClosedLoop.exBr b).deleting = b.deleting := rfl
          rw [this, hdel] at hd; cases hd
        · have hstop : sy.stop = true := by
            obtain ⟨ev, info, hinfo, _, hstop⟩ := syncStatusX_val _ _ _ _ sy hsync
            rw [hstop]
            -- the plane's SyncWorkloadInformation is the event chain on the parsed CloneSet
            have hinit : Executor.initializedStatus (RV.ClosedLoop.exBr b).status = (Executor.withFinalizer (RV.ClosedLoop.exBr b)).status := by
              unfold Executor.initializedStatus
              rw [if_neg (by show ¬ b.st.phase = .empty; rw [hphase]; decide)]
              rfl
            rw [hinit] at hinfo ⊢
            have hsi : (bgPlane .cloneSet).syncInfo (Executor.withFinalizer (RV.ClosedLoop.exBr b))
                (Executor.withFinalizer (RV.ClosedLoop.exBr b)).status (bgProj s.world) = .val (ev, info) := hinfo
            simp only [bgPlane, syncVia] at hsi
            rw [if_neg (by show ¬ b.deleting = true; rw [hdel]; decide)] at hsi
            cases hrep : wl.replicas with
            | none =>
              have hbi : bgInfo .cloneSet (bgProj s.world) = .panic := by
                unfold bgInfo; rw [show (bgProj s.world).w.wl = some wl from hwl]; simp only [hrep]
              rw [hbi] at hsi; cases hsi
            | some R0 =>
              have hbi : bgInfo .cloneSet (bgProj s.world) =
                  .val (some (mkInfo R0 s.world.generation s.world.observedGeneration wl.status.replicas wl.status.updated
                    wl.status.updatedReady s.world.updateRevision s.world.currentRevision)) := by
                unfold bgInfo; rw [show (bgProj s.world).w.wl = some wl from hwl]; simp only [hrep]; rfl
              rw [hbi] at hsi
              simp only [Executor.Out.val.injEq] at hsi
              have e1 := congrArg Prod.fst hsi
              have e2 := congrArg Prod.snd hsi
              simp only at e1 e2
              rw [← e1, ← e2]
              refine sync_stops_superseded (Executor.withFinalizer (RV.ClosedLoop.exBr b)) _ hphase ?_ hrec ?_ ?_ ?_
              · show (b.deleting || decide (b.st.phase = .finalizing) || b.partition.isNone) = false
                rw [hdel, hphase]; cases hp : b.partition <;> simp_all
              · exact fun e => hnew e.symm
              · exact fun e => hnotstable e
              · exact hnprom
          rcases hrest with ⟨_, hobr, hw⟩ | ⟨hns, _⟩
          · refine ⟨?_, rfl, rfl, rfl, ?_⟩
            · show bgLand s.world o.wl = s.world
              rw [hw]; exact bgLand_proj _
            · rw [hobr, hb]; rfl
          · rw [hstop] at hns; cases hns

/-! ## 9. C09 — no reachable state crashes a reconciler (partial) -/

/-- the ControllerFinder never crashes in a reachable state (`spec.replicas` is there) -/
theorem bg_finder_total (u : User) (s0 s : BS) (ls : List Label) (h0 : Init u s0) (hr : Reach s0 ls s) :
    ∃ w, roWorld bgLoop s = some w := by
  have hw := bg_world_inv u s0 s ls h0 hr
  unfold worldInv at hw
  cases hwl : s.world.wl with
  | none => rw [hwl] at hw; cases hw
  | some wl =>
    rw [hwl] at hw
    simp only [Bool.and_eq_true] at hw
    obtain ⟨c1, _, _⟩ := cfgInv_parts u wl hw.1
    unfold cfgBase at c1
    simp only [Bool.and_eq_true, decide_eq_true_eq, Bool.not_eq_true'] at c1
    unfold roWorld
    have : bgLoop.view s.world = bgView s.world := rfl
    rw [this]
    unfold bgView
    rw [hwl]
    simp only [c1.1.1.1]
    exact ⟨_, rfl⟩

/-- **`bg_total_partial`** (C09) — in every state of every history from an initial state:
    (i) no transition other than the two reconcilers can crash (for every state at all);
    (ii) the Rollout reconcile does not crash unless the world the finder hands it is `corrupted` in the sense of
         `RV.Props.Reconcile.reconcile_total` (a Progressing condition without reason, an InRolling rollout without sub-status or with a
         step index outside the plan, a BatchRelease without batch partition while rolling) — the finder itself never crashes;
    (iii) the BatchRelease reconcile can crash only in `UpgradeBatch` or the readiness check, and only when the persisted current batch
          lies outside the plan (`CalculateBatchContext` indexes `Batches[currentBatch]`).
    partial: that reachable states are never `corrupted` and that `0 ≤ currentBatch < #batches` whenever the executor indexes the plan
    needs the Rollout-side invariants (step index, partition = step − 1) lifted to this loop; on the walks of the real controllers the
    oracle `C09.bg_total` (no panic in any transition) is evaluated instead. -/
theorem bg_total_partial (u : User) (s0 s : BS) (ls : List Label) (h0 : Init u s0) (hr : Reach s0 ls s) :
    (∀ l, l ≠ .ro → l ≠ .br → bgStep s l ≠ none) ∧
    (∀ w, roWorld bgLoop s = some w → RV.Oracle.RolloutSM.corrupted w = false → bgStep s .ro ≠ none) ∧
    (bgStep s .br = none → ∃ b, s.br = some b ∧ entryOf (Executor.withFinalizer (RV.ClosedLoop.exBr b)) = none) := by
  refine ⟨?_, ?_, ?_⟩
  · intro l h1 h2
    cases l <;> first | exact absurd rfl h1 | exact absurd rfl h2 | (unfold bgStep; simp [step])
  · intro w hw hc
    unfold bgStep
    simp only [step, stepRo]
    split
    · simp
    · rw [hw]
      dsimp only
      have := RV.Props.Reconcile.reconcile_total w hc
      cases hrec : RolloutSM.reconcile w with
      | panic => exact absurd hrec this
      | val r => simp
  · intro hs
    unfold bgStep at hs
    simp only [step, stepBr] at hs
    split at hs
    · cases hs
    · rename_i b hb
      refine ⟨b, hb, ?_⟩
      split at hs
      · rename_i hpanic
        -- the world invariant: the CloneSet exists and has `spec.replicas`
        have hw := bg_world_inv u s0 s ls h0 hr
        unfold worldInv at hw
        cases hwl : s.world.wl with
        | none => rw [hwl] at hw; cases hw
        | some wl =>
          rw [hwl] at hw
          simp only [Bool.and_eq_true] at hw
          obtain ⟨c1, _, _⟩ := cfgInv_parts u wl hw.1
          unfold cfgBase at c1
          simp only [Bool.and_eq_true, decide_eq_true_eq, Bool.not_eq_true'] at c1
          have hrep : wl.replicas = some u.replicas := c1.1.1.1
          have hpw : (bgProj s.world).w.wl = some wl := hwl
          have hbi : bgInfo .cloneSet (bgProj s.world) =
              .val (some (mkInfo u.replicas s.world.generation s.world.observedGeneration wl.status.replicas wl.status.updated
                wl.status.updatedReady s.world.updateRevision s.world.currentRevision)) := by
            unfold bgInfo; rw [hpw]; simp only [hrep]; rfl
          have hpa : ∀ (op : CtlBlueGreen.Op) (x : CtlBlueGreen.BR), op ≠ .upgrade →
              RV.Oracle.CtlBlueGreen.panicAllowed op (bgProj s.world).w x = false := by
            intro op x hop
            unfold RV.Oracle.CtlBlueGreen.panicAllowed
            rw [hpw]
            simp [hrep, hop]
          cases he : entryOf (Executor.withFinalizer (RV.ClosedLoop.exBr b)) with
          | none => rfl
          | some e =>
          exfalso
          have hpl : bgLoop.plane = bgPlane .cloneSet := rfl
          have hpj : bgLoop.proj s.world = bgProj s.world := rfl
          rw [hpl, hpj] at hpanic
          rcases RV.Props.ExecutorX.x_panics_only_in_plane (bgPlane .cloneSet) _ _ hpanic with
            ⟨ns, h⟩ | ⟨ns, h⟩ | ⟨ns, h⟩ | ⟨ns, h⟩ | h
          · simp only [bgPlane, syncVia] at h
            split at h
            · cases h
            · rw [hbi] at h; cases h
          · simp only [bgPlane] at h
            obtain ⟨out, hout⟩ := RV.Lemmas.CtlBlueGreen.no_panic .cloneSet .init (bgProj s.world).w
              (bgBR (Executor.withFinalizer (RV.ClosedLoop.exBr b))) CtlBlueGreen.noFault (hpa _ _ (by decide))
            simp only [CtlBlueGreen.call] at hout
            rw [hout, hbi] at h
            dsimp only at h
            split at h <;> cases h
          · simp only [bgPlane] at h
            have hpu : RV.Oracle.CtlBlueGreen.panicAllowed .upgrade (bgProj s.world).w
                (bgBR (Executor.withFinalizer (RV.ClosedLoop.exBr b))) = false := by
              unfold RV.Oracle.CtlBlueGreen.panicAllowed
              rw [hpw]
              have : CtlBlueGreen.entryOf (bgBR (Executor.withFinalizer (RV.ClosedLoop.exBr b))) = some e := he
              simp [hrep, this]
            obtain ⟨out, hout⟩ := RV.Lemmas.CtlBlueGreen.no_panic .cloneSet .upgrade (bgProj s.world).w _ CtlBlueGreen.noFault hpu
            simp only [CtlBlueGreen.call] at hout
            rw [hout] at h
            cases h
          · simp only [bgPlane] at h
            have hready : ∃ v, bgReady .cloneSet (Executor.withFinalizer (RV.ClosedLoop.exBr b)) (bgProj s.world) = .val v := by
              unfold bgReady
              rw [hbi]
              dsimp only
              split
              · exact ⟨_, rfl⟩
              · rw [hpw]
                dsimp only
                unfold RV.BatchCtx.calcCtx
                rw [he]
                exact ⟨_, rfl⟩
            obtain ⟨v, hv⟩ := hready
            rw [hv] at h
            cases h
          · simp only [bgPlane] at h
            obtain ⟨out, hout⟩ := RV.Lemmas.CtlBlueGreen.no_panic .cloneSet .fin (bgProj s.world).w
              (bgBR (Executor.withFinalizer (RV.ClosedLoop.exBr b))) CtlBlueGreen.noFault (hpa _ _ (by decide))
            simp only [CtlBlueGreen.call] at hout
            rw [hout] at h
            cases h
      · cases hs

/-! ## 8. non-vacuity and witnesses: a concrete rollout, concrete histories (kernel evaluation of the model — tests, and the
    `_full_FALSE` witnesses of the findings; each witness history is replayed on the REAL controllers from `corpus/closedloopbg/`) -/

theorem reach_append (s0 s s' : BS) (ls ls' : List Label) (h1 : Reach s0 ls s) (h2 : bgRun s ls' = some s') :
    Reach s0 (ls ++ ls') s' := by
  induction ls' generalizing s ls with
  | nil =>
    simp only [bgRun, run, Option.some.injEq] at h2
    subst h2; simpa using h1
  | cons l rest ih =>
    simp only [bgRun, run] at h2
    split at h2
    · cases h2
    · rename_i t ht
      have := ih t (ls ++ [l]) (Reach.snoc s0 s t ls l h1 ht) h2
      simpa using this

/-- every run of the model is a history -/
theorem reach_of_run (s s' : BS) (ls : List Label) (h : bgRun s ls = some s') : Reach s ls s' := by
  simpa using reach_append s s s' [] ls (Reach.nil s) h

/-- the user's CloneSet: 4 replicas, minReadySeconds 5, maxSurge 25 %, maxUnavailable 1, one HPA -/
def exU : User :=
  { replicas := 4, minReadySeconds := 5, maxSurge := some (pct 25), maxUnavailable := some (int 1), paused := false,
    stype := .expected, hpaV2 := [{ av := .same, kindSame := true, name := some 0 }], hpaV1 := [] }

/-- a blue-green Rollout: 50 % of the pods with 50 % of the traffic (manual confirmation), then all pods without a traffic step -/
def exRo : RolloutSM.Rollout :=
  { style := .blueGreen, steps := [⟨.pct 50, some 50, .manual⟩, ⟨.pct 100, none, .short⟩], paused := false, disabled := false,
    deleting := false, hasFinalizer := true, hasTraffic := true, disableGen := false, rollbackInBatch := false, grace := 3,
    phase := .healthy, reason := .none, condAge := .none, succeeded := none, term := .none, sub := none, realPartition := true }

def exS0 : BS :=
  { gone := false, ro := exRo,
    world := { wl := some (userWl exU), hpaV2 := exU.hpaV2, hpaV1 := [], generation := 1, observedGeneration := 1,
               updateRevision := "v1", currentRevision := "v1", inProgressAnno := false },
    br := none, net := { stableExists := true, stableSel := none, canarySvc := none, stableIngress := true, canaryIng := none },
    mem := Mem.empty }

def exRound : List Label := [.ro, .br, .env, .approve, .tick]
def rounds (n : Nat) : List Label := (List.replicate n exRound).flatten

/-- the hypotheses of the history theorems are satisfiable -/
example : Init exU exS0 :=
  { user := by decide, wl := rfl, rev := rfl, hpa2 := rfl, hpa1 := rfl, anno := rfl, br := rfl, present := rfl, style := rfl,
    phase := rfl, net := by decide }

/-- test (`bg_world_inv`, `bg_old_pods_kept`, `bg_no_promotion_while_held` are about states like this one): 17 fair rounds after the
    release of `v2` the rollout waits at step 1 — the hold is installed (minReadySeconds = MaxReadySeconds, the HPA disabled), 2 surge pods of
    `v2` run next to the 4 pods of `v1`, half of the traffic goes to the canary Service -/
example : (bgRun exS0 (.release "v2" :: rounds 17)).map (fun s =>
      s.ro.reason == .inRolling && (match s.ro.sub with | some x => x.curIdx == 1 && x.state == .ready | none => false) &&
      (match s.world.wl with | some w => hold w && w.minReadySeconds == maxReady && w.status.replicas == 6 && w.status.updated == 2 | none => false) &&
      s.world.hpaV2.map (·.name) == [some 1] && s.net.canaryIng == some 50 && worldInv exU s.world && stableKept exU s.world && oldPodsKept s) =
    some true := by decide +kernel

/-- test (`bg_settings_restored_partial` applies: the annotation is gone): the whole rollout finishes within 50 fair rounds — Healthy, no
    BatchRelease, every setting the user's again, the HPA re-enabled, the network objects gone, all 4 pods on `v2` -/
example : (bgRun exS0 (.release "v2" :: rounds 50)).map (fun s =>
      s.ro.phase == .healthy && s.br.isNone && terminal s && settingsRestored exU s &&
      (match s.world.wl with | some w => w.status.replicas == 4 && w.status.updated == 4 | none => false) && s.world.currentRevision == "v2") =
    some true := by decide +kernel

/-- test: the same with a crash of the controllers after every round (`bg_crash`) -/
example : (bgRun exS0 (.release "v2" :: (List.replicate 50 (exRound ++ [.crash])).flatten)).map (fun s =>
      s.ro.phase == .healthy && terminal s && settingsRestored exU s) = some true := by decide +kernel

/-- test (`bg_refuses_continuous`): `v3` pushed while step 1 waits — superseded, the BatchRelease supervises — and 10 fair rounds later
    nothing that is exposed has changed; then the user rolls back to `v1` and the rollout is cancelled (Succeeded = false), everything restored
    but the partition -/
example : (bgRun exS0 (.release "v2" :: rounds 17 ++ [.release "v3", .env])).map exposureOf =
      (bgRun exS0 (.release "v2" :: rounds 17 ++ [.release "v3", .env] ++ rounds 10)).map exposureOf ∧
    (bgRun exS0 (.release "v2" :: rounds 17 ++ [.release "v3", .env])).map (fun s => superseded s && brSupervises s) = some true ∧
    (bgRun exS0 (.release "v2" :: rounds 17 ++ [.release "v3", .env] ++ rounds 10)).map (fun s => superseded s && brSupervises s) = some true := by
  decide +kernel

/-- **finding `csPartitionKept` in the closed loop — `bg_settings_restored_full_FALSE_partition`**: "every terminal state has the user's
    configuration back" is FALSE on the unchanged code.  Step 1 waits with 2 surge pods; the user rolls back to `v1` (the admission webhook
    holds the change back at partition 100 %); the rollback runs to its end — Healthy, Succeeded = false, BatchRelease gone, settings and HPA
    restored — and the CloneSet keeps `partition: 100%`: it will not follow its template until somebody clears it. -/
theorem bg_settings_restored_full_FALSE_partition :
    (bgRun exS0 (.release "v2" :: rounds 17 ++ [.release "v1"] ++ rounds 16)).map (fun s =>
      terminal s && s.ro.succeeded == some false && !settingsRestored exU s && gCsPartitionKept s &&
      (match s.world.wl with
       | some w => w.saved == .none && w.ctl == .none && w.minReadySeconds == 5 && w.partition == some (pct 100)
       | none => false)) = some true := by decide +kernel

/-- **fixed finding `bgCursorCarried` — regression example `bg_settings_restored_cursor_reset`** (was the witness
    `bg_settings_restored_full_FALSE_cursor` of the unrepaired code): the Rollout is deleted while its success clean-up waits at
    `ResumeWorkload` (the longest task: all pods have to be replaced).  Before the repair the deletion sequence continued from that
    cursor — `ResumeWorkload → ReleaseWorkloadControl → END` — and never ran what it has *before* `ResumeWorkload` in its own order
    (`RouteTrafficToStable`, `RemoveCanaryService`): the Rollout object was gone and the canary Ingress (weight 100) still there.
    With the cursor reset in `Reconcile` (`RV.RolloutSM.resetOnExit`) the reconcile that turns Progressing into Terminating clears the
    cursor; the deletion sequence runs from its first task, and ten rounds later the Rollout is gone with everything restored. -/
theorem bg_settings_restored_cursor_reset :
    -- the cursor when the user deletes the Rollout, and after the first reconcile that sees the deletion
    (bgRun exS0 (.release "v2" :: rounds 37)).map (fun s =>
      s.ro.phase == .progressing && s.ro.reason == .finalising && s.ro.sub.map (·.finStep) == some .resumeWorkload) = some true ∧
    (bgRun exS0 (.release "v2" :: rounds 37 ++ [.delete, .ro])).map (fun s =>
      s.ro.phase == .terminating && s.ro.sub.map (·.finStep) == some .empty) = some true ∧
    -- where the deletion ends
    (bgRun exS0 (.release "v2" :: rounds 37 ++ [.delete] ++ rounds 10)).map (fun s =>
      s.gone && terminal s && settingsRestored exU s && s.br.isNone && s.net.canaryIng.isNone && s.net.canarySvc.isNone) = some true := by
  decide +kernel

/-- **finding `bgRollbackNoSurge` — `bg_rollback_completes_full_FALSE`**: the user rolls back before the first pod of `v2` exists (the
    BatchRelease has just taken the CloneSet over).  No pod of another revision exists, so the finder reports no rollback
    (`updatedReplicas = replicas`); the Rollout controller takes `v1` for a *newer* revision, which blue-green refuses ("please rollback first").
    30 fair rounds later nothing has moved: InRolling, step 1 StepUpgrade, the hold still on the CloneSet, the HPA still disabled. -/
theorem bg_rollback_completes_full_FALSE :
    (bgRun exS0 (.release "v2" :: rounds 6 ++ [.release "v1"] ++ rounds 30)).map (fun s =>
      rollbackUnseen s && s.ro.phase == .progressing && s.ro.reason == .inRolling &&
      (match s.ro.sub with | some x => x.curIdx == 1 && x.state == .upgrade | none => false) && s.br.isSome &&
      (match s.world.wl with | some w => w.saved != .none && w.minReadySeconds == maxReady | none => false) &&
      s.world.hpaV2.map (·.name) == [some 1]) = some true := by decide +kernel

/-- **known finding `supersedeBeforeInit` in the blue-green loop — `bg_refuses_continuous_full_FALSE`**: `v3` is pushed when the
    BatchRelease for `v2` has just been created (nothing recorded: `brSupervises` fails).  `Initialize` records `v3`, `UpgradeBatch` raises
    the surge, the CloneSet controller starts 2 pods of `v3` — while the Rollout says step 1 of `v2` and refuses `v3`. -/
theorem bg_refuses_continuous_full_FALSE :
    (bgRun exS0 (.release "v2" :: rounds 5 ++ [.release "v3", .br, .env])).map (fun s => superseded s && !brSupervises s && adopted s) =
      some true ∧
    (bgRun exS0 (.release "v2" :: rounds 5 ++ [.release "v3", .br, .env, .br, .env, .br, .env, .br, .env])).map (fun s =>
      superseded s && s.world.updateRevision == "v3" &&
      (match s.world.wl with | some w => w.partition == none && w.status.updated == 2 | none => false) &&
      (match s.ro.sub with | some x => x.canaryRev == "v2" && x.curIdx == 1 | none => false)) = some true := by decide +kernel

end RV.Props.ClosedLoopBG
