import RV.Lemmas.CtlBlueGreen
/-!
# Theorems about the blue-green control planes (Deployment, CloneSet) and the HPA helper
(attached to C01, C05, C06, C09, C11)

Every statement quantifies over every abstract world (workload with any settings / annotations / status, any list
of ReplicaSets, any lists of HPAs), every BatchRelease (UID, plan, current batch, partition) and every API fault of
the call (k-th write fails, Get fails, HPA Lists fail).  `…_partial` theorems carry the explicit guard of a known
finding as hypothesis; the matching `…_full_FALSE` theorem shows the full-strength statement fails on the unchanged
code.  Model: `RV.CtlBlueGreen`; oracles: `RV.Oracle.CtlBlueGreen` (the same `Bool` functions the driver evaluates on
the implementation's output).
-/
namespace RV.Props.CtlBlueGreen
open RV.Arith IntOrPct RV.CtlBlueGreen RV.Oracle.CtlBlueGreen

/-! ## C05 — the saved original and its restoration -/

/-- **C05 (inductive step)** — every `Initialize`, `UpgradeBatch` and `Finalize`, under every API fault, preserves
    the invariant "the saved annotation (or, when there is none, the workload itself) holds the user's original
    settings" — for `Initialize` outside the known finding `savedMinReadyZero`. -/
theorem inv_preserved_partial (kind : Kind) (op : Op) (o : Orig) (w : World) (br : BR) (f : Fault) (out : CallOut)
    (h : call kind op w br f = .val out)
    (hG : op = .init → ∀ wl, w.wl = some wl → gSavedZero br wl = false) :
    invPreserved kind o w out = true :=
  RV.Lemmas.CtlBlueGreen.inv_preserved_partial kind op o w br f out h hG

/-- **C05 (round trip, first half)** — `Initialize` of a workload that carries no saved annotation records exactly
    the workload's own minReadySeconds / maxSurge / maxUnavailable / progressDeadlineSeconds (absent fields with
    the API defaults) and takes control, for every workload, HPA constellation and fault. -/
theorem init_saves_original (kind : Kind) (w : World) (br : BR) (f : Fault) (out : CallOut)
    (h : cpInitialize kind w br f = .val out) : initSavesOriginal kind w br out = true :=
  RV.Lemmas.CtlBlueGreen.init_saves_original kind w br f out h

/-- **C05 `finalize_restores_original` (one step, full strength)** — for every workload, saved setting, HPA
    constellation and fault: a `Finalize` that reports success with `batchPartition` cleared, from a world that
    satisfies the release invariant, leaves the workload with exactly the user's original minReadySeconds,
    maxSurge, maxUnavailable and progressDeadlineSeconds and with neither the saved-settings nor the control
    annotation. -/
theorem finalize_restores_original_step (kind : Kind) (o : Orig) (w : World) (br : BR) (f : Fault) (out : CallOut)
    (h : cpFinalize kind w br f = .val out) : finalizeRestores kind o w br out = true :=
  RV.Lemmas.CtlBlueGreen.finalize_restores_original_step kind o w br f out h

/-- **C05 (strategy type, partial)** — … and with the original strategy type, outside the known finding
    `origRecreate` (a Deployment whose original type was not `RollingUpdate`). -/
theorem finalize_restores_type_partial (kind : Kind) (o : Orig) (w : World) (br : BR) (f : Fault) (out : CallOut)
    (h : cpFinalize kind w br f = .val out) (hG : gOrigType kind o = false) :
    finalizeRestoresType kind o w br out = true :=
  RV.Lemmas.CtlBlueGreen.finalize_restores_type_partial kind o w br f out h hG

/-- **C05 (HPA, partial)** — … and the HPA that `findHPAForWorkload` associates with the workload targets it again
    (its `scaleTargetRef.name` carries no disabling suffix), outside the known finding `hpaListFault` (a List of
    HPAs failing in that very call is swallowed). -/
theorem finalize_restores_hpa_partial (kind : Kind) (w : World) (br : BR) (f : Fault) (out : CallOut)
    (h : cpFinalize kind w br f = .val out) (hG : gListFault f = false) :
    finalizeRestoresHPA w br out = true :=
  RV.Lemmas.CtlBlueGreen.finalize_restores_hpa_partial kind w br f out h hG

/-- **C05 (release, partial)** — … and the workload is handed back to its own controller (Deployment un-paused and
    without the stable-revision label; CloneSet without partition), outside the known findings
    `deployFinalizeRetry` (a Deployment that carries no saved annotation is not patched at all) and
    `csPartitionKept` (the CloneSet `Finalize` never clears the partition). -/
theorem finalize_releases_partial (kind : Kind) (w : World) (br : BR) (f : Fault) (out : CallOut)
    (h : cpFinalize kind w br f = .val out)
    (hG : ∀ wl, w.wl = some wl → gRestoredDeploy kind wl = false ∧ gCsPartition kind wl = false) :
    finalizeReleases kind w br out = true :=
  RV.Lemmas.CtlBlueGreen.finalize_releases_partial kind w br f out h hG

/-- a workload that carries neither annotation satisfies the invariant for its own settings -/
theorem inv_fresh (kind : Kind) (w : World) (wl : Workload) (hw : w.wl = some wl)
    (hs : wl.saved = .none) (hc : wl.ctl = .none) : inv kind (origOf kind wl) w = true :=
  RV.Lemmas.CtlBlueGreen.inv_fresh kind w wl hw hs hc

/-- **C05 (invariant over histories)** — along every finite history of control-plane calls (any operation order,
    any plan / batch / partition / BatchRelease UID, any API fault in any attempt), status changes and scalings,
    the release invariant holds at every point — outside the known finding `savedMinReadyZero`. -/
theorem inv_run_partial (kind : Kind) (o : Orig) (evs : List Ev) (w w' : World)
    (hi : inv kind o w = true) (hg : guardFree kind w evs = true) (hr : run kind w evs = some w') :
    inv kind o w' = true :=
  RV.Lemmas.CtlBlueGreen.inv_run_partial kind o evs w w' hi hg hr

/-- **C05 `finalize_restores_original`** — take any workload without rollout annotations, any HPAs and
    ReplicaSets; run any history `initialize ; (upgradeBatch | initialize | finalize)*` in any order, with API
    faults after any write of any attempt, status changes and scalings in between (and no `Initialize` inside the
    known finding `savedMinReadyZero`).  Whenever afterwards a `Finalize` — under any fault — reports success with
    `batchPartition` cleared, the workload has exactly the minReadySeconds, maxSurge, maxUnavailable and
    progressDeadlineSeconds it started with and neither the saved-settings nor the control annotation. -/
theorem finalize_restores_original (kind : Kind) (w0 : World) (wl0 : Workload) (evs : List Ev) (w : World)
    (br : BR) (f : Fault) (out : CallOut)
    (hw0 : w0.wl = some wl0) (hs0 : wl0.saved = .none) (hc0 : wl0.ctl = .none)
    (hg : guardFree kind w0 evs = true) (hr : run kind w0 evs = some w)
    (hfin : cpFinalize kind w br f = .val out) (hd : finalizeDone w br out = true) :
    ∃ wl', out.world.wl = some wl' ∧ wl'.saved = .none ∧ wl'.ctl = .none ∧
      effSetting kind wl' = effSetting kind wl0 :=
  RV.Lemmas.CtlBlueGreen.finalize_restores_original kind w0 wl0 evs w br f out hw0 hs0 hc0 hg hr hfin hd

/-- **C05 (the retry completes)** — from every world that satisfies the release invariant — in particular after any
    number of earlier attempts that were cut short by faults — one undisturbed `Finalize` (with `batchPartition`
    cleared, no HPA without `apiVersion` in the namespace) on a workload whose pods are all updated and ready
    with respect to the *original* settings reports success; by `finalize_restores_original_step` the workload
    then has its original settings. -/
theorem finalize_completes (kind : Kind) (o : Orig) (w : World) (br : BR) (wl : Workload)
    (hi : inv kind o w = true) (hw : w.wl = some wl) (hR : wl.replicas.isSome = true) (hp : br.partitioned = false)
    (hH : gNoApiVersion w = false) (hready : readyNow kind (finalizePatch kind o.setting wl) = true) :
    ∃ out, cpFinalize kind w br noFault = .val out ∧ out.res = .ok :=
  RV.Lemmas.CtlBlueGreen.finalize_completes kind o w br wl hi hw hR hp hH hready

/-! ## C06 / C11 — fault-safety of the calls -/

/-- **C06 / C11 (partial)** — a `Finalize` that reports success (with `batchPartition` cleared, on an existing
    workload) has evaluated its wait condition — every pod updated and ready, `maxUnavailable` respected — on the
    workload as it is after the call; outside the known finding `deployFinalizeRetry` (the Deployment control on an
    object without saved annotation evaluates the wait on an empty object). -/
theorem finalize_done_means_ready_partial (kind : Kind) (w : World) (br : BR) (f : Fault) (out : CallOut)
    (h : cpFinalize kind w br f = .val out)
    (hG : ∀ wl, w.wl = some wl → gRestoredDeploy kind wl = false) :
    finalizeDoneMeansReady kind w br out = true :=
  RV.Lemmas.CtlBlueGreen.finalize_done_means_ready_partial kind w br f out h hG

/-- **C06 (partial)** — `InitOriginalSetting` never overwrites what an earlier `Initialize` saved: whatever the call
    does, every field present in the saved annotation — and its `minReadySeconds` — is still there afterwards;
    outside the known finding `savedMinReadyZero`. -/
theorem init_keeps_saved_partial (kind : Kind) (w : World) (br : BR) (f : Fault) (out : CallOut)
    (h : cpInitialize kind w br f = .val out)
    (hG : ∀ wl, w.wl = some wl → gSavedZero br wl = false) :
    initKeepsSaved w out = true :=
  RV.Lemmas.CtlBlueGreen.init_keeps_saved_partial kind w br f out h hG

/-- **C06** — for every call, world and fault: a call that reports no successful write has left the whole object
    store (workload, ReplicaSets, every HPA) exactly as it was. -/
theorem no_write_no_change (kind : Kind) (op : Op) (w : World) (br : BR) (f : Fault) (out : CallOut)
    (h : call kind op w br f = .val out) : noWriteNoChange w out = true :=
  RV.Lemmas.CtlBlueGreen.no_write_no_change kind op w br f out h

/-- **C06 (convergence, partial)** — for each of the three calls, every world and every write / Get fault: if an
    attempt is cut short by the fault and the call is simply repeated (as the next reconcile does), the object
    store ends exactly where an undisturbed call would have put it, and the repeated call reports what the
    undisturbed one reports.  Outside the known findings `hpaListFault` (a failed List of HPAs is mistaken for
    "no HPA") and `deployFinalizeRetry` (the Deployment `Finalize` whose wait failed after its patch). -/
theorem retry_converges_partial (kind : Kind) (op : Op) (w : World) (br : BR) (f : Fault) (o1 o2 o3 : CallOut)
    (h1 : call kind op w br f = .val o1) (h2 : call kind op o1.world br noFault = .val o2)
    (h3 : call kind op w br noFault = .val o3)
    (hL : gListFault f = false) (hG : gFinalizeWaitFails kind op w br = false) :
    retryConverges o2 o3 = true :=
  RV.Lemmas.CtlBlueGreen.retry_converges_partial kind op w br f o1 o2 o3 h1 h2 h3 hL hG

/-- **C06 (no step twice with additional effect, partial)** — repeating an undisturbed call changes nothing and
    reports the same; after a success the repetition issues no write at all, except that `UpgradeBatch` re-sends its
    (identical) patch when the batch is exactly `1`.  Outside the known finding `deployFinalizeRetry`. -/
theorem idempotent_partial (kind : Kind) (op : Op) (w : World) (br : BR) (o3 o4 : CallOut)
    (h3 : call kind op w br noFault = .val o3) (h4 : call kind op o3.world br noFault = .val o4)
    (hG : gFinalizeWaitFails kind op w br = false) :
    idempotent op br o3 o4 = true :=
  RV.Lemmas.CtlBlueGreen.idempotent_partial kind op w br o3 o4 h3 h4 hG

/-! ## C01 — exposure of the new revision -/

/-- **C01 `upgrade_within_step`** — for every workload, plan (ints, percents, malformed entries), current batch, replica
    count and fault: after `UpgradeBatch` the workload's own controller may run at most as many pods of the new
    revision as before the call or as the current batch plans (`CalculateBatchReplicas`), whichever is larger —
    no slack (for a CloneSet under the hold `Initialize` installs). -/
theorem upgrade_within_step (kind : Kind) (w : World) (br : BR) (f : Fault) (out : CallOut)
    (h : cpUpgradeBatch kind w br f = .val out) : upgradeWithinStep kind w br out = true :=
  RV.Lemmas.CtlBlueGreen.upgrade_within_step kind w br f out h

/-- **C01 (monotone knob)** — `UpgradeBatch` never moves the workload back toward the old revision: on a held
    workload whose surge is set, the exposure after the call is at least the exposure before. -/
theorem upgrade_monotone (kind : Kind) (w : World) (br : BR) (f : Fault) (out : CallOut)
    (h : cpUpgradeBatch kind w br f = .val out) : upgradeMonotone kind w out = true :=
  RV.Lemmas.CtlBlueGreen.upgrade_monotone kind w br f out h

/-- **C01 (`Initialize`)** — `Initialize` exposes nothing of the new revision on a workload the admission webhook
    prepared (Deployment paused, CloneSet partition `100%`), and in general never more than one pod beyond what
    was already exposed — for every workload, HPA constellation and fault. -/
theorem init_exposure (kind : Kind) (w : World) (br : BR) (f : Fault) (out : CallOut)
    (h : cpInitialize kind w br f = .val out) : initExposure kind w out = true :=
  RV.Lemmas.CtlBlueGreen.init_exposure kind w br f out h

/-- **C01 (whole progressing phase)** — from any world in which the exposure is within a bound `B ≥ 1`, along every
    history of `Initialize` / `UpgradeBatch` calls (any order, any BatchRelease, any fault) and status changes in
    which every `UpgradeBatch` works on a batch that plans at most `B` pods: at every point the workload's own
    controller may run at most `B` pods of the new revision.  (`B` = what the current step of the Rollout plans;
    the executor invariant `currentBatch ≤ batchPartition` supplies the hypothesis on the batches.) -/
theorem exposure_within_plan (kind : Kind) (B : Int) (hB : 1 ≤ B) (evs : List Ev) (w w' : World)
    (hi : expInv kind B w = true) (hp : progressRun kind B w evs = true) (hr : run kind w evs = some w') :
    exposureW kind w' ≤ B :=
  RV.Lemmas.CtlBlueGreen.exposure_within_plan kind B hB evs w w' hi hp hr

/-- **C01 (`UpgradeBatch` keeps the hold)** — whenever `UpgradeBatch` writes, the patched workload still cannot make
    new pods available (`minReadySeconds = MaxReadySeconds`, update type accepted) and — Deployment — has
    `maxUnavailable = 0`: the surge is the only thing that lets pods of the new revision exist. -/
theorem upgrade_keeps_hold (kind : Kind) (w : World) (br : BR) (f : Fault) (out : CallOut)
    (h : cpUpgradeBatch kind w br f = .val out) : upgradeKeepsHold kind out = true :=
  RV.Lemmas.CtlBlueGreen.upgrade_keeps_hold kind w br f out h

/-- **C01 (`Initialize` installs the hold)** — a successful `Initialize` that takes control leaves `minReadySeconds =
    MaxReadySeconds`, `maxUnavailable = 0` and a surge that `CalculateBatchContext` reads as `0` ("nothing exposed
    yet"), and records the control-info of this BatchRelease — for every workload and fault. -/
theorem init_installs_hold (kind : Kind) (w : World) (br : BR) (f : Fault) (out : CallOut)
    (h : cpInitialize kind w br f = .val out) : initInstallsHold w br out = true :=
  RV.Lemmas.CtlBlueGreen.init_installs_hold kind w br f out h

/-- **C01 (`Initialize` disables the HPA, partial)** — after a successful `Initialize` that takes control, the HPA that
    `findHPAForWorkload` associates with the workload carries the disabling suffix, so it cannot scale the workload
    during the release; outside the known finding `hpaListFault`. -/
theorem init_disables_hpa_partial (kind : Kind) (w : World) (br : BR) (f : Fault) (out : CallOut)
    (h : cpInitialize kind w br f = .val out) (hG : gListFault f = false) : initDisablesHPA w br out = true :=
  RV.Lemmas.CtlBlueGreen.init_disables_hpa_partial kind w br f out h hG

/-! ## C09 — panics -/

/-- **C09 (partial)** — for every world, BatchRelease and fault: none of the three calls panics, unless the
    workload has no `spec.replicas`, or `UpgradeBatch` is asked for a batch outside the plan, or (known finding
    `hpaNoApiVersion`) some HPA of the namespace has a `scaleTargetRef` without `apiVersion`. -/
theorem no_panic_partial (kind : Kind) (op : Op) (w : World) (br : BR) (f : Fault)
    (hA : panicAllowed op w br = false) (hG : gNoApiVersion w = false) :
    ∃ out, call kind op w br f = .val out :=
  RV.Lemmas.CtlBlueGreen.no_panic_partial kind op w br f hA hG

/-! ## witnesses: the full-strength statements are false on the unchanged code -/

def st (r rd u a ur : Int) : Status := { replicas := r, ready := rd, updated := u, available := a, updatedReady := ur }

/-- the user's settings of the witnesses: maxSurge 25%, maxUnavailable 25%, minReadySeconds 0, progressDeadline 600 -/
def userSetting : Setting :=
  { maxUnavailable := some (pct 25), maxSurge := some (pct 25), minReadySeconds := 0, progressDeadlineSeconds := some 600 }

/-- a Deployment as `Initialize` of BatchRelease 0 left it (10 replicas, all pods ready, 3 updated) -/
def wlInitialised : Workload :=
  { replicas := some 10, deleting := false, paused := false, minReadySeconds := maxReady,
    progressDeadlineSeconds := some maxProgress, stype := .expected,
    ru := some { maxSurge := some (pct 50), maxUnavailable := some (int 0) }, partition := none,
    saved := .some userSetting, ctl := .uid 0, stableLabel := true, status := st 13 13 3 10 0 }

def brOf (uid : Nat) : BR := { uid := uid, batches := [pct 50, pct 100], currentBatch := 0, partitioned := false }

def worldOf (wl : Workload) (v2 v1 : List HPA) : World := { wl := some wl, rss := [], hpaV2 := v2, hpaV1 := v1 }

def theHPA (k : Nat) : HPA := { av := .same, kindSame := true, name := some k }

def outOf : Out CallOut → CallOut
  | .val o => o
  | .panic => ⟨default, .err, 0, none⟩

/-- **`savedMinReadyZero`** — BatchRelease 1 initialises a workload that still carries the settings BatchRelease 0
    saved (`minReadySeconds: 0`): the saved value becomes `MaxReadySeconds`, which `Finalize` will later "restore". -/
theorem init_keeps_saved_full_FALSE :
    let w := worldOf wlInitialised [] []
    gSavedZero (brOf 1) wlInitialised = true ∧
    initKeepsSaved w (outOf (cpInitialize .deployment w (brOf 1) noFault)) = false ∧
    invPreserved .deployment ⟨userSetting, .expected⟩ w (outOf (cpInitialize .deployment w (brOf 1) noFault)) = false := by
  decide

/-- **`origRecreate`** — a Deployment whose strategy type was `Recreate` (here: "not RollingUpdate"): `Initialize`
    has set the type to `RollingUpdate`, and a successful `Finalize` leaves it there. -/
theorem finalize_restores_type_full_FALSE :
    let wl := { wlInitialised with status := st 10 10 10 10 0 }
    let w := worldOf wl [] []
    let o : Orig := ⟨userSetting, .other⟩
    gOrigType .deployment o = true ∧ inv .deployment o w = true ∧
    finalizeRestoresType .deployment o w (brOf 0) (outOf (cpFinalize .deployment w (brOf 0) noFault)) = false := by
  decide

/-- the same through a whole history: fresh `Recreate` Deployment ; `Initialize` ; `Finalize` — the type is not back -/
def wlRecreate : Workload :=
  { wlInitialised with
    saved := .none, ctl := .none, stype := .other, ru := none, minReadySeconds := 0,
    progressDeadlineSeconds := some 600, paused := true, status := st 10 10 10 10 0 }

example :
    (run .deployment (worldOf wlRecreate [] []) [.call .init (brOf 0) noFault, .call .fin (brOf 0) noFault]).map
      (fun w => w.wl.map (fun wl => (wl.stype, wl.saved, wl.paused))) = some (some (SType.expected, Saved.none, false)) := by
  decide

/-- **`hpaListFault`** — `Finalize` on a restored Deployment while the List of `autoscaling/v1` HPAs fails: it reports
    success and the HPA keeps pointing at `wl-DisableByRollout`. -/
theorem finalize_restores_hpa_full_FALSE :
    let wl := { wlInitialised with saved := .none, ctl := .none, status := st 10 10 10 10 0 }
    let w := worldOf wl [] [theHPA 1]
    let f : Fault := { noFault with listV1 := true }
    gListFault f = true ∧
    finalizeRestoresHPA w (brOf 0) (outOf (cpFinalize .deployment w (brOf 0) f)) = false := by
  decide

/-- **`deployFinalizeRetry`** (release) — `Finalize` of a Deployment that was paused by the webhook but never
    initialised: success is reported and the Deployment stays paused, stable-revision label included. -/
theorem finalize_releases_full_FALSE_deployment :
    let wl := { wlInitialised with saved := .none, ctl := .none, paused := true, status := st 10 10 10 10 0 }
    let w := worldOf wl [] []
    gRestoredDeploy .deployment wl = true ∧
    finalizeReleases .deployment w (brOf 0) (outOf (cpFinalize .deployment w (brOf 0) noFault)) = false := by
  decide

def wlCloneSet : Workload :=
  { wlInitialised with
    partition := some (pct 100), progressDeadlineSeconds := none,
    saved := .some { userSetting with progressDeadlineSeconds := none }, status := st 10 10 0 10 10 }

/-- **`csPartitionKept`** — `Finalize` of a CloneSet before any `UpgradeBatch`: the partition `100%` the webhook set
    is still there after the successful call. -/
theorem finalize_releases_full_FALSE_cloneSet :
    let w := worldOf wlCloneSet [] []
    gCsPartition .cloneSet wlCloneSet = true ∧
    finalizeReleases .cloneSet w (brOf 0) (outOf (cpFinalize .cloneSet w (brOf 0) noFault)) = false := by
  decide

/-- **`deployFinalizeRetry`** (wait) — the second `Finalize` attempt on a Deployment: 10 of 13 pods available, 3 updated —
    the first attempt restored the settings and asked for a retry; the second reports success. -/
theorem finalize_done_means_ready_full_FALSE :
    let w := worldOf wlInitialised [] []
    let o1 := outOf (cpFinalize .deployment w (brOf 0) noFault)
    let o2 := outOf (cpFinalize .deployment o1.world (brOf 0) noFault)
    o1.res = .retry ∧ o2.res = .ok ∧
    (match o1.world.wl with
     | some wl1 => gRestoredDeploy .deployment wl1
     | none => false) = true ∧
    finalizeDoneMeansReady .deployment o1.world (brOf 0) o2 = false := by
  decide

/-- … hence repeating the call does not end where the undisturbed call ended, and is not idempotent -/
theorem retry_converges_full_FALSE_finalize :
    let w := worldOf wlInitialised [] [theHPA 1]
    let o3 := outOf (cpFinalize .deployment w (brOf 0) noFault)
    let o4 := outOf (cpFinalize .deployment o3.world (brOf 0) noFault)
    gFinalizeWaitFails .deployment .fin w (brOf 0) = true ∧
    retryConverges o4 o3 = false ∧ idempotent .fin (brOf 0) o3 o4 = false := by
  decide

def wlUser : Workload :=
  { wlInitialised with
    saved := .none, ctl := .none, minReadySeconds := 0, paused := true,
    progressDeadlineSeconds := some 600, ru := some ⟨some (pct 25), some (pct 25)⟩ }

/-- **`hpaListFault`** (Initialize) — the List of `autoscaling/v2` HPAs fails during `Initialize`: the workload is
    taken under control with its HPA still active, and no later attempt disables it. -/
theorem retry_converges_full_FALSE_listFault :
    let w := worldOf wlUser [theHPA 0] []
    let f : Fault := { noFault with listV2 := true }
    let o1 := outOf (cpInitialize .deployment w (brOf 0) f)
    let o2 := outOf (cpInitialize .deployment o1.world (brOf 0) noFault)
    let o3 := outOf (cpInitialize .deployment w (brOf 0) noFault)
    gListFault f = true ∧ o1.res = .ok ∧ retryConverges o2 o3 = false ∧
    o2.world.hpaV2 = [theHPA 0] ∧ o3.world.hpaV2 = [theHPA 1] := by
  decide

/-- **`hpaListFault`** (Initialize, one call) — … the successful `Initialize` itself leaves the HPA enabled -/
theorem init_disables_hpa_full_FALSE :
    let w := worldOf wlUser [theHPA 0] []
    let f : Fault := { noFault with listV2 := true }
    gListFault f = true ∧ initDisablesHPA w (brOf 0) (outOf (cpInitialize .deployment w (brOf 0) f)) = false := by
  decide

/-- **`hpaNoApiVersion`** — an HPA of the namespace whose `scaleTargetRef` has no `apiVersion` (it targets some other
    workload): `Initialize` panics. -/
theorem no_panic_full_FALSE :
    let wl := { wlInitialised with saved := .none, ctl := .none }
    let w := worldOf wl [] [{ av := .absent, kindSame := false, name := none }]
    gNoApiVersion w = true ∧ panicAllowed .init w (brOf 0) = false ∧
    (match cpInitialize .deployment w (brOf 0) noFault with
     | .panic => true
     | .val _ => false) = true := by
  decide

/-! ## non-vacuity (tests on literals) -/

/-- a complete release on a Deployment with an HPA and a stable ReplicaSet: `Initialize` under a fault after its
    first write, `Initialize` again, two `UpgradeBatch`es, `Finalize` while pods are not ready (retry), pods become
    ready … the hypotheses of `finalize_restores_original` hold and its conclusion is the non-trivial one -/
def exampleFresh : Workload :=
  { replicas := some 10, deleting := false, paused := true, minReadySeconds := 5, progressDeadlineSeconds := some 600,
    stype := .expected, ru := some { maxSurge := some (pct 20), maxUnavailable := some (int 1) }, partition := none,
    saved := .none, ctl := .none, stableLabel := true, status := st 10 10 0 10 0 }

def exampleWorld : World := { wl := some exampleFresh, rss := [⟨false, 0⟩, ⟨false, 0⟩], hpaV2 := [theHPA 0], hpaV1 := [] }

def exampleHistory : List Ev :=
  [.call .init (brOf 0) { noFault with write := some 1 }, .call .init (brOf 0) noFault,
   .call .upgrade (brOf 0) noFault, .status (st 15 10 5 10 0),
   .call .upgrade { brOf 0 with currentBatch := 1 } noFault, .status (st 20 20 10 10 0)]

example : guardFree .deployment exampleWorld exampleHistory = true := by decide

/-- after the history: surge `100%`, un-paused, HPA disabled, stable ReplicaSet held -/
example : (run .deployment exampleWorld exampleHistory).map
    (fun w => (w.wl.map (fun wl => (wl.paused, ruSurge wl.ru, wl.minReadySeconds == maxReady)), w.hpaV2, w.rss)) =
    some (some (false, some (pct 100), true), [theHPA 1], [⟨false, maxReady⟩, ⟨false, 0⟩]) := by decide

/-- `Finalize` with pods still unavailable asks for a retry; once they are available a repeated `Finalize` — here the
    CloneSet control, which re-reads the status — reports success with everything restored -/
example :
    let w := outOf (match run .deployment exampleWorld exampleHistory with
      | some w => .val ⟨w, .ok, 0, none⟩
      | none => .panic)
    (outOf (cpFinalize .deployment w.world { brOf 0 with currentBatch := 1 } noFault)).res = .retry := by decide

example : finalizeDone exampleWorld (brOf 0) ⟨exampleWorld, .ok, 0, none⟩ = true := by decide

/-- `UpgradeBatch` really writes (the C01 theorems are not about no-ops only) -/
example : (outOf (cpUpgradeBatch .deployment (worldOf wlInitialised [] [])
    { brOf 0 with currentBatch := 1 } noFault)).writes = 1 := by decide

/-- the hypotheses of `exposure_within_plan` on the example: bound 5 = what batch `50%` of 10 plans -/
example : expInv .deployment 5 exampleWorld = true ∧
    progressRun .deployment 5 exampleWorld (exampleHistory.take 4) = true := by decide

/-- `retry_converges_partial` on a concrete faulty attempt that really is cut short and really is completed -/
example :
    let f : Fault := { noFault with write := some 1 }
    let o1 := outOf (cpInitialize .deployment exampleWorld (brOf 0) f)
    let o2 := outOf (cpInitialize .deployment o1.world (brOf 0) noFault)
    let o3 := outOf (cpInitialize .deployment exampleWorld (brOf 0) noFault)
    o1.res = .err ∧ o1.writes = 1 ∧ o2.res = .ok ∧ o2.writes = 2 ∧ retryConverges o2 o3 = true := by decide

end RV.Props.CtlBlueGreen
