import RV.Lemmas.CtlBlueGreen
namespace RV.Props.CtlBlueGreen
open RV.Arith IntOrPct RV.CtlBlueGreen RV.Oracle.CtlBlueGreen RV.Lemmas.CtlBlueGreen

/-- a complete setting is a fixed point of `InitOriginalSetting` unless its `minReadySeconds` is the sentinel `0` -/
theorem initSetting_complete (kind : Kind) (s : Setting) (wl : Workload) (hc : complete kind s = true)
    (hz : s.minReadySeconds = 0 → wl.minReadySeconds = 0) : initSetting kind s wl = s := by
  obtain ⟨mu, ms, mr, pd⟩ := s
  cases kind <;> cases mu <;> cases ms <;> cases pd <;>
    simp [complete] at hc <;> simp [initSetting] <;> intro h0 <;> simp at hz <;> rw [h0, hz h0]

theorem effSetting_complete (kind : Kind) (wl : Workload) : complete kind (effSetting kind wl) = true := by
  cases kind <;> simp [effSetting, initSetting, complete, emptySetting]

/-- the restoring patch followed by a fresh read gives back a complete setting -/
theorem effSetting_finalizePatch (kind : Kind) (s : Setting) (wl : Workload) (hc : complete kind s = true) :
    effSetting kind (finalizePatch kind s wl) = s := by
  obtain ⟨mu, ms, mr, pd⟩ := s
  cases kind <;> cases mu <;> cases ms <;> cases pd <;>
    simp [complete] at hc <;> simp [effSetting, initSetting, finalizePatch, emptySetting, ruSurge, ruUnavailable]

/-! ## C05 — the invariant of a release -/

theorem invWl_none (kind : Kind) (o : Orig) (wl : Workload) (h : wl.saved = .none) :
    invWl kind o wl = true ↔
      (effSetting kind wl = o.setting ∧ wl.ctl = .none) ∧ (gOrigType kind o = true ∨ wl.stype = o.stype) := by
  unfold invWl
  simp only [h, Bool.and_eq_true, Bool.or_eq_true, decide_eq_true_eq]

theorem invWl_some (kind : Kind) (o : Orig) (wl : Workload) (s : Setting) (h : wl.saved = .some s) :
    invWl kind o wl = true ↔ s = o.setting ∧ (gOrigType kind o = true ∨ wl.stype = o.stype) := by
  unfold invWl
  simp only [h, Bool.and_eq_true, Bool.or_eq_true, decide_eq_true_eq]

theorem invWl_bad (kind : Kind) (o : Orig) (wl : Workload) (h : wl.saved = .bad) : invWl kind o wl = false := by
  unfold invWl
  simp only [h, Bool.false_and]

/-- a Deployment patch that sets the strategy type to `RollingUpdate` keeps the type clause of the invariant -/
theorem type_clause_expected (o : Orig) (t : SType)
    (_h : gOrigType .deployment o = true ∨ t = o.stype) :
    gOrigType .deployment o = true ∨ SType.expected = o.stype := by
  by_cases hg : gOrigType .deployment o = true
  · left; exact hg
  · right
    simp only [gOrigType, decide_true, Bool.true_and, ne_eq, decide_not, Bool.not_eq_true', decide_eq_false_iff_not,
      Decidable.not_not] at hg
    exact hg.symm

theorem invWl_initPatch (kind : Kind) (o : Orig) (br : BR) (wl : Workload) (s : Setting)
    (hc : complete kind o.setting = true) (hi : invWl kind o wl = true) (hgs : getSetting wl.saved = some s)
    (hz : gSavedZero br wl = false) (hctl : controlled br wl = false) :
    invWl kind o (initPatch kind br (initSetting kind s wl) wl) = true := by
  have hsv' : (initPatch kind br (initSetting kind s wl) wl).saved = .some (initSetting kind s wl) := by cases kind <;> rfl
  rw [invWl_some kind o _ _ hsv']
  cases hsv : wl.saved with
  | none =>
    rw [invWl_none kind o wl hsv] at hi
    rw [hsv] at hgs
    simp only [getSetting, Option.some.injEq] at hgs
    subst hgs
    refine ⟨hi.1.1, ?_⟩
    cases kind
    · exact type_clause_expected o _ hi.2
    · exact hi.2
  | bad => rw [invWl_bad kind o wl hsv] at hi; cases hi
  | some s0 =>
    rw [invWl_some kind o wl s0 hsv] at hi
    rw [hsv] at hgs
    simp only [getSetting, Option.some.injEq] at hgs
    subst hgs
    have hfix : initSetting kind s0 wl = s0 := by
      apply initSetting_complete kind s0 wl (hi.1 ▸ hc)
      intro h0
      unfold gSavedZero at hz
      rw [hsv] at hz
      simp only [h0, decide_true, Bool.true_and, hctl, Bool.not_false, Bool.and_true, decide_eq_false_iff_not,
        Decidable.not_not] at hz
      exact hz
    rw [hfix]
    refine ⟨hi.1, ?_⟩
    cases kind
    · exact type_clause_expected o _ hi.2
    · exact hi.2

theorem invWl_upgradePatch (kind : Kind) (o : Orig) (wl : Workload) (e : IntOrPct)
    (hi : invWl kind o wl = true) (hv : validate kind wl = true) :
    invWl kind o (upgradePatch kind e wl) = true := by
  have hctl : wl.ctl ≠ .none := by
    cases kind <;> simp only [validate, Bool.and_eq_true, ne_eq, decide_not, Bool.not_eq_true', decide_eq_false_iff_not] at hv
    · exact hv.1.1.1.1
    · exact hv.1.1
  cases hsv : wl.saved with
  | none => rw [invWl_none kind o wl hsv] at hi; exact absurd hi.1.2 hctl
  | bad => rw [invWl_bad kind o wl hsv] at hi; cases hi
  | some s0 =>
    rw [invWl_some kind o wl s0 hsv] at hi
    have hsv' : (upgradePatch kind e wl).saved = .some s0 := by cases kind <;> exact hsv
    rw [invWl_some kind o _ s0 hsv']
    refine ⟨hi.1, ?_⟩
    cases kind
    · exact type_clause_expected o _ hi.2
    · exact hi.2

theorem invWl_finalizePatch (kind : Kind) (o : Orig) (wl : Workload) (s : Setting)
    (hc : complete kind o.setting = true) (hi : invWl kind o wl = true) (hr : restored wl = false)
    (hgs : getSetting wl.saved = some s) :
    invWl kind o (finalizePatch kind s wl) = true ∧ s = o.setting := by
  cases hsv : wl.saved with
  | none => simp [restored, hsv] at hr
  | bad => rw [invWl_bad kind o wl hsv] at hi; cases hi
  | some s0 =>
    rw [invWl_some kind o wl s0 hsv] at hi
    rw [hsv] at hgs
    simp only [getSetting, Option.some.injEq] at hgs
    subst hgs
    have heff := effSetting_finalizePatch kind s0 wl (hi.1 ▸ hc)
    have hs : (finalizePatch kind s0 wl).saved = .none ∧ (finalizePatch kind s0 wl).ctl = .none ∧
        (finalizePatch kind s0 wl).stype = wl.stype := by
      cases kind <;> exact ⟨rfl, rfl, rfl⟩
    rw [invWl_none kind o _ hs.1, hs.2.2]
    exact ⟨⟨⟨heff.trans hi.1, hs.2.1⟩, hi.2⟩, hi.1⟩

theorem inv_of_wl (kind : Kind) (o : Orig) (w w' : World) (h : w'.wl = w.wl) : inv kind o w' = inv kind o w := by
  unfold inv; rw [h]

/-- **C05 (inductive step)** — every `Initialize`, `UpgradeBatch` and `Finalize`, under every API fault, preserves
    the invariant "the saved annotation (or, when there is none, the workload itself) holds the user's original
    settings" — for `Initialize` outside the known finding `savedMinReadyZero`. -/
theorem inv_preserved_partial (kind : Kind) (op : Op) (o : Orig) (w : World) (br : BR) (f : Fault) (out : CallOut)
    (h : call kind op w br f = .val out)
    (hG : op = .init → ∀ wl, w.wl = some wl → gSavedZero br wl = false) :
    invPreserved kind o w out = true := by
  unfold invPreserved
  split
  · rename_i hi
    unfold inv at hi ⊢
    simp only [Bool.and_eq_true] at hi ⊢
    refine ⟨hi.1, ?_⟩
    cases op with
    | init =>
      rcases initialize_wl kind w br f out h with ⟨hw, _⟩ | ⟨wl, s, hw, hctl, hgs, _, hw'⟩
      · rw [hw]; exact hi.2
      · rw [hw']
        rw [hw] at hi
        exact invWl_initPatch kind o br wl s hi.1 hi.2 hgs (hG rfl wl hw) hctl
    | upgrade =>
      rcases upgrade_world kind w br f out h with ⟨hw, _⟩ | ⟨wl, R, e, hw, _, _, _, hv, _, _, _, hw'⟩
      · rw [hw]; exact hi.2
      · rw [hw']
        rw [hw] at hi
        exact invWl_upgradePatch kind o wl e hi.2 hv
    | fin =>
      rcases finalize_wl kind w br f out h with hw | ⟨wl, s, hw, hr, _, hgs, hw'⟩
      · rw [hw]; exact hi.2
      · rw [hw']
        rw [hw] at hi
        exact (invWl_finalizePatch kind o wl s hi.1 hi.2 hr hgs).1
  · rfl

/-- **C05 (round trip, first half)** — `Initialize` of a workload that carries no saved annotation records exactly
    the workload's own minReadySeconds / maxSurge / maxUnavailable / progressDeadlineSeconds (absent fields with
    the API defaults) and takes control, for every workload, HPA constellation and fault. -/
theorem init_saves_original (kind : Kind) (w : World) (br : BR) (f : Fault) (out : CallOut)
    (h : cpInitialize kind w br f = .val out) : initSavesOriginal kind w br out = true := by
  unfold initSavesOriginal
  rcases initialize_wl kind w br f out h with ⟨hw, hok⟩ | ⟨wl, s, hw, hctl, hgs, _, hw'⟩
  · rw [hw]
    cases hwl : w.wl with
    | none => rfl
    | some wl =>
      simp only []
      split
      · rename_i hc
        obtain ⟨wl', hw2, hc2⟩ := hok hc.2.2
        rw [hwl] at hw2; cases hw2
        exact absurd hc2 hc.2.1
      · rfl
  · rw [hw, hw']
    simp only []
    split
    · rename_i hc
      rw [hc.1] at hgs
      simp only [getSetting, Option.some.injEq] at hgs
      subst hgs
      cases kind <;> simp [initPatch, effSetting, controlled]
    · rfl

/-! ## C05 — what a successful `Finalize` leaves behind -/

theorem finalizeDone_iff (w : World) (br : BR) (out : CallOut) :
    finalizeDone w br out = true ↔
      out.res = .ok ∧ br.partitioned = false ∧ ∃ wl, w.wl = some wl ∧ wl.deleting = false := by
  unfold finalizeDone
  cases hw : w.wl with
  | none => simp
  | some wl => simp [and_assoc]

/-- the facts about a successful, releasing `Finalize` every clause below starts from -/
theorem finalize_done_facts (kind : Kind) (w : World) (br : BR) (f : Fault) (out : CallOut)
    (h : cpFinalize kind w br f = .val out) (hd : finalizeDone w br out = true) :
    ∃ wl d w1 n, w.wl = some wl ∧ wl.deleting = false ∧
      ((wl.saved = .none ∧ d = emptyDeployment ∧ w1 = w ∧ n = 0 ∧ out.world.wl = some wl) ∨
       (restored wl = false ∧ ∃ s, getSetting wl.saved = some s ∧ d = finalizePatch kind s wl ∧
          w1 = { w with wl := some d } ∧ n = 1 ∧ out.world.wl = some d)) ∧
      waitStep kind wl d = .val true ∧ finishHPA w1 f n = .val out := by
  obtain ⟨hok, hp, wl, hw, hdel⟩ := (finalizeDone_iff w br out).1 hd
  obtain ⟨d, w1, n, hpath, hwait, hfin⟩ := finalize_done kind w br f out wl h hw hp hok
  refine ⟨wl, d, w1, n, hw, hdel, ?_, hwait, hfin⟩
  have hwl := finishHPA_wl w1 f n out hfin
  rcases hpath with ⟨hr, hd', hw1, hn⟩ | ⟨hr, s, hgs, hd', hw1, hn⟩
  · left
    have hs : wl.saved = .none := by
      simp only [restored, hdel, Bool.false_or, decide_eq_true_eq] at hr; exact hr
    subst hw1
    exact ⟨hs, hd', rfl, hn, hwl.trans hw⟩
  · right
    subst hw1
    exact ⟨hr, s, hgs, hd', rfl, hn, hwl⟩

/-- **C05 `finalize_restores_original` (one step, full strength)** — for every workload, saved setting, HPA
    constellation and fault: a `Finalize` that reports success with `batchPartition` cleared, from a world that
    satisfies the release invariant, leaves the workload with exactly the user's original minReadySeconds,
    maxSurge, maxUnavailable and progressDeadlineSeconds and with neither the saved-settings nor the control
    annotation. -/
theorem finalize_restores_original_step (kind : Kind) (o : Orig) (w : World) (br : BR) (f : Fault) (out : CallOut)
    (h : cpFinalize kind w br f = .val out) : finalizeRestores kind o w br out = true := by
  unfold finalizeRestores
  split
  · rename_i hc
    obtain ⟨hi, hd⟩ := hc
    obtain ⟨wl, d, w1, n, hw, _, hpath, _, _⟩ := finalize_done_facts kind w br f out h hd
    unfold inv at hi
    rw [hw] at hi
    simp only [Bool.and_eq_true] at hi
    rcases hpath with ⟨hs, _, _, _, hout⟩ | ⟨hr, s, hgs, hd', _, _, hout⟩
    · rw [hout]
      have := (invWl_none kind o wl hs).1 hi.2
      simp only [decide_eq_true_eq]
      exact ⟨hs, this.1.2, this.1.1⟩
    · rw [hout, hd']
      obtain ⟨_, hso⟩ := invWl_finalizePatch kind o wl s hi.1 hi.2 hr hgs
      have heff := effSetting_finalizePatch kind s wl (hso ▸ hi.1)
      simp only [decide_eq_true_eq]
      refine ⟨?_, ?_, heff.trans hso⟩ <;> cases kind <;> rfl
  · rfl

/-- **C05 (strategy type, partial)** — … and with the original strategy type, outside the known finding
    `origRecreate` (a Deployment whose original type was not `RollingUpdate`). -/
theorem finalize_restores_type_partial (kind : Kind) (o : Orig) (w : World) (br : BR) (f : Fault) (out : CallOut)
    (h : cpFinalize kind w br f = .val out) (hG : gOrigType kind o = false) :
    finalizeRestoresType kind o w br out = true := by
  unfold finalizeRestoresType
  split
  · rename_i hc
    obtain ⟨hi, hd⟩ := hc
    obtain ⟨wl, d, w1, n, hw, _, hpath, _, _⟩ := finalize_done_facts kind w br f out h hd
    unfold inv at hi
    rw [hw] at hi
    simp only [Bool.and_eq_true] at hi
    have htype : wl.stype = o.stype := by
      have := hi.2
      unfold invWl at this
      simp only [Bool.and_eq_true, Bool.or_eq_true, decide_eq_true_eq, hG, Bool.false_eq_true, false_or] at this
      exact this.2
    rcases hpath with ⟨_, _, _, _, hout⟩ | ⟨_, s, _, hd', _, _, hout⟩
    · rw [hout]; simp only [decide_eq_true_eq]; exact htype
    · rw [hout, hd']
      simp only [decide_eq_true_eq]
      rw [← htype]
      cases kind <;> rfl
  · rfl

theorem findHPA_wl_irrel (w : World) (x : Option Workload) (f : Fault) : findHPA { w with wl := x } f = findHPA w f := rfl

/-- **C05 (HPA, partial)** — … and the HPA that `findHPAForWorkload` associates with the workload targets it again
    (its `scaleTargetRef.name` carries no disabling suffix), outside the known finding `hpaListFault` (a List of
    HPAs failing in that very call is swallowed). -/
theorem finalize_restores_hpa_partial (kind : Kind) (w : World) (br : BR) (f : Fault) (out : CallOut)
    (h : cpFinalize kind w br f = .val out) (hG : gListFault f = false) :
    finalizeRestoresHPA w br out = true := by
  unfold finalizeRestoresHPA
  split
  · rename_i hd
    obtain ⟨hok, _⟩ := (finalizeDone_iff w br out).1 hd
    obtain ⟨wl, d, w1, n, hw, _, hpath, _, hfin⟩ := finalize_done_facts kind w br f out h hd
    simp only [gListFault, Bool.or_eq_false_iff] at hG
    have hnl : ∀ w', findHPA w' f = findHPA w' noFault := fun w' => findHPA_noList w' f hG.1 hG.2
    unfold hpaRestored
    rcases (finishHPA_spec w1 f n out hfin).2 with ⟨hw1, _, _, hall⟩ | ⟨_, _, _, v, k, _, hf, hw1⟩
    · rw [hw1]
      have := hall hok
      rw [hnl] at this
      split
      · rename_i v k hf; simp only [decide_eq_true_eq]; exact this v k hf
      · rfl
    · rw [hw1]
      rw [hnl] at hf
      rw [findHPA_setHPA w1 v k 0 hf]
      rfl
  · rfl

/-- **C05 (release, partial)** — … and the workload is handed back to its own controller (Deployment un-paused and
    without the stable-revision label; CloneSet without partition), outside the known findings
    `deployFinalizeRetry` (a Deployment that carries no saved annotation is not patched at all) and
    `csPartitionKept` (the CloneSet `Finalize` never clears the partition). -/
theorem finalize_releases_partial (kind : Kind) (w : World) (br : BR) (f : Fault) (out : CallOut)
    (h : cpFinalize kind w br f = .val out)
    (hG : ∀ wl, w.wl = some wl → gRestoredDeploy kind wl = false ∧ gCsPartition kind wl = false) :
    finalizeReleases kind w br out = true := by
  unfold finalizeReleases
  split
  · rename_i hd
    obtain ⟨wl, d, w1, n, hw, _, hpath, _, _⟩ := finalize_done_facts kind w br f out h hd
    obtain ⟨hg1, hg2⟩ := hG wl hw
    rcases hpath with ⟨hs, _, _, _, hout⟩ | ⟨_, s, _, hd', _, _, hout⟩
    · rw [hout]
      cases kind
      · simp [gRestoredDeploy, restored, hs] at hg1
      · simp only [gCsPartition, decide_true, Bool.true_and] at hg2
        simp only []
        cases hp : wl.partition with
        | none => rfl
        | some p => rw [hp] at hg2; cases hg2
    · rw [hout, hd']
      cases kind
      · rfl
      · simp only [gCsPartition, decide_true, Bool.true_and] at hg2
        simp only [finalizePatch]
        cases hp : wl.partition with
        | none => rfl
        | some p => rw [hp] at hg2; cases hg2
  · rfl

/-! ## C06 / C11 — fault-safety of the single calls -/

/-- **C06 / C11 (partial)** — a `Finalize` that reports success (with `batchPartition` cleared, on an existing
    workload) has evaluated its wait condition — every pod updated and ready, `maxUnavailable` respected — on the
    workload as it is after the call; outside the known finding `deployFinalizeRetry` (the Deployment control on an
    object without saved annotation evaluates the wait on an empty object). -/
theorem finalize_done_means_ready_partial (kind : Kind) (w : World) (br : BR) (f : Fault) (out : CallOut)
    (h : cpFinalize kind w br f = .val out)
    (hG : ∀ wl, w.wl = some wl → gRestoredDeploy kind wl = false) :
    finalizeDoneMeansReady kind w br out = true := by
  unfold finalizeDoneMeansReady
  split
  · rename_i hd
    obtain ⟨wl, d, w1, n, hw, _, hpath, hwait, _⟩ := finalize_done_facts kind w br f out h hd
    have hg1 := hG wl hw
    rcases hpath with ⟨hs, _, _, _, hout⟩ | ⟨_, s, _, hd', _, _, hout⟩
    · rw [hout]
      cases kind
      · simp [gRestoredDeploy, restored, hs] at hg1
      · simp only [waitStep, Out.val.injEq] at hwait
        exact hwait
    · rw [hout]
      subst hd'
      cases kind
      · simp only [waitStep] at hwait
        simp only [readyNow, hwait]
      · simp only [waitStep, Out.val.injEq] at hwait
        exact hwait
  · rfl

/-- **C06 (partial)** — `InitOriginalSetting` never overwrites what an earlier `Initialize` saved: whatever the call
    does, every field present in the saved annotation — and its `minReadySeconds` — is still there afterwards;
    outside the known finding `savedMinReadyZero`. -/
theorem init_keeps_saved_partial (kind : Kind) (w : World) (br : BR) (f : Fault) (out : CallOut)
    (h : cpInitialize kind w br f = .val out)
    (hG : ∀ wl, w.wl = some wl → gSavedZero br wl = false) :
    initKeepsSaved w out = true := by
  unfold initKeepsSaved
  rcases initialize_wl kind w br f out h with ⟨hw, _⟩ | ⟨wl, s, hw, hctl, hgs, _, hw'⟩
  · rw [hw]
    cases hwl : w.wl with
    | none => rfl
    | some wl =>
      simp only []
      cases hs : wl.saved with
      | some s => simp
      | none => rfl
      | bad => rfl
  · rw [hw, hw']
    simp only []
    cases hs : wl.saved with
    | none => rfl
    | bad => rfl
    | some s0 =>
      rw [hs] at hgs
      simp only [getSetting, Option.some.injEq] at hgs
      subst hgs
      have hz := hG wl hw
      unfold gSavedZero at hz
      rw [hs] at hz
      simp only [hctl, Bool.not_false, Bool.and_true, Bool.and_eq_false_iff, decide_eq_false_iff_not, Decidable.not_not] at hz
      have hsv : (initPatch kind br (initSetting kind s0 wl) wl).saved = .some (initSetting kind s0 wl) := by cases kind <;> rfl
      rw [hsv]
      simp only [Bool.and_eq_true, Bool.or_eq_true, decide_eq_true_eq]
      obtain ⟨mu, ms, mr, pd⟩ := s0
      refine ⟨⟨⟨?_, ?_⟩, ?_⟩, ?_⟩
      · cases ms <;> cases kind <;> simp [initSetting]
      · cases mu <;> cases kind <;> simp [initSetting]
      · cases pd <;> cases kind <;> simp [initSetting]
      · simp only at hz
        have key : (if mr = 0 then wl.minReadySeconds else mr) = mr := by
          split
          · rename_i h0
            rcases hz with hz | hz
            · exact absurd h0 hz
            · rw [hz, h0]
          · rfl
        cases kind <;> exact key

/-- **C06** — for every call, world and fault: a call that reports no successful write has left the whole object
    store (workload, ReplicaSets, every HPA) exactly as it was. -/
theorem no_write_no_change (kind : Kind) (op : Op) (w : World) (br : BR) (f : Fault) (out : CallOut)
    (h : call kind op w br f = .val out) : noWriteNoChange w out = true := by
  unfold noWriteNoChange
  split
  · rename_i h0
    simp only [decide_eq_true_eq]
    cases op with
    | init =>
      rcases initialize_cases kind w br f out h with ⟨_, ho⟩ | ⟨_, _, ho⟩ | ⟨wl, R, _, hw, _, hc⟩
      · subst ho; rfl
      · subst ho; rfl
      · rcases hc with ⟨_, ho⟩ | ⟨_, w1, b1, n1, hd, hrest⟩
        · subst ho; rfl
        · have h1 := disableHPA_spec w f 0 w1 b1 n1 hd
          rcases hrest with ⟨_, ho⟩ | ⟨_, w2, b2, n2, hs, hrest⟩
          · subst ho
            simp only at h0 ⊢
            rcases h1 with ⟨e, _⟩ | ⟨e, _⟩
            · exact e
            · omega
          · have h2 := stableRSStep_spec kind w1 f n1 w2 b2 n2 hs
            have key : n2 = 0 → w2 = w := by
              intro hn
              rcases h2 with ⟨e2, en2⟩ | ⟨en2, _⟩
              · rcases h1 with ⟨e1, _⟩ | ⟨en1, _⟩
                · rw [e2, e1]
                · omega
              · omega
            rcases hrest with ⟨_, ho⟩ | ⟨_, hset⟩
            · subst ho; exact key h0
            · rcases hset with ⟨_, ho⟩ | ⟨s, _, hwr⟩
              · subst ho; exact key h0
              · rcases hwr with ⟨_, ho⟩ | ⟨_, ho⟩
                · subst ho; simp at h0
                · subst ho; exact key h0
    | upgrade =>
      rcases upgrade_world kind w br f out h with ⟨hw, _⟩ | ⟨_, _, _, _, _, _, _, _, _, _, h1, _⟩
      · exact hw
      · rw [h1] at h0; cases h0
    | fin =>
      rcases finalize_cases kind w br f out h with ⟨_, ho⟩ | ⟨_, _, ho⟩ | ⟨wl, R, _, hw, _, hc⟩
      · subst ho; rfl
      · subst ho; rfl
      · rcases hc with ⟨_, ho⟩ | ⟨_, hc⟩
        · subst ho; rfl
        · have fin0 : ∀ w1 n, n ≠ 0 → finishHPA w1 f n = .val out → False := by
            intro w1 n hn hf
            rcases (finishHPA_spec w1 f n out hf).2 with ⟨_, e, _⟩ | ⟨e, _⟩ <;> omega
          rcases hc with ⟨_, hfw⟩ | ⟨_, hc⟩
          · rcases hfw with ⟨_, ho⟩ | ⟨_, hfin⟩
            · subst ho; rfl
            · rcases (finishHPA_spec w f 0 out hfin).2 with ⟨e, _⟩ | ⟨e, _⟩
              · exact e
              · omega
          · rcases hc with ⟨_, ho⟩ | ⟨s, _, hc⟩
            · subst ho; rfl
            · rcases hc with ⟨_, ho⟩ | ⟨_, hfw⟩
              · subst ho; rfl
              · rcases hfw with ⟨_, ho⟩ | ⟨_, hfin⟩
                · subst ho; simp at h0
                · exact absurd hfin (fun hf => fin0 _ 1 (by decide) hf)
  · rfl

end RV.Props.CtlBlueGreen
