import RV.Lemmas.CtlBlueGreen
/-!
# Theorems about the blue-green control planes (Deployment, CloneSet) and the HPA helper
(attached to C01, C05, C06, C09, C11)

Every statement quantifies over every abstract world (workload with any settings / annotations / status, any list
of ReplicaSets, any lists of HPAs), every BatchRelease (UID, plan, current batch, partition) and every API fault of
the call (k-th write fails, Get fails, HPA Lists fail).  The model (`RV.CtlBlueGreen`) is the code after the repairs
4f836ab (checked type assertions in the HPA helper), 5ba1baa (a failed HPA List is an error), 7d83f2b (a saved
`minReadySeconds` of 0 is kept) and 9aad3d8 (the Deployment `Finalize` keeps the saved annotation until it is done):
the theorems that used to carry the guards `hpaNoApiVersion`, `hpaListFault`, `savedMinReadyZero` and the retry part
of `deployFinalizeRetry` are stated at full strength.  Three findings stay open; their `…_partial` theorems carry the
guard as hypothesis and a `…_full_FALSE` theorem shows the full-strength statement fails on the code:
`deployFinalizeRetry` (what is left: a Deployment without saved annotation is neither patched nor really waited
for), `csPartitionKept`, `origRecreate`.  Oracles: `RV.Oracle.CtlBlueGreen` (the same `Bool` functions the driver
evaluates on the implementation's output); proofs: `RV.Lemmas.CtlBlueGreen`.
-/
namespace RV.Props.CtlBlueGreen
open RV.Arith IntOrPct RV.CtlBlueGreen RV.Oracle.CtlBlueGreen

/-! ## C05 — the saved original and its restoration -/

/-- **C05 (inductive step)** — every `Initialize`, `UpgradeBatch` and `Finalize`, under every API fault, preserves
    the invariant "the saved annotation (or, when there is none, the workload itself) holds the user's original
    settings" — including an `Initialize` by a BatchRelease that does not control the workload yet. -/
theorem inv_preserved (kind : Kind) (op : Op) (o : Orig) (w : World) (br : BR) (f : Fault) (out : CallOut)
    (h : call kind op w br f = .val out) :
    invPreserved kind o w out = true :=
  RV.Lemmas.CtlBlueGreen.inv_preserved kind op o w br f out h

/-- **C05 (round trip, first half)** — `Initialize` of a workload that carries no saved annotation records exactly
    the workload's own minReadySeconds / maxSurge / maxUnavailable / progressDeadlineSeconds (absent fields with
    the API defaults) and takes control, for every workload, HPA constellation and fault. -/
theorem init_saves_original (kind : Kind) (w : World) (br : BR) (f : Fault) (out : CallOut)
    (h : cpInitialize kind w br f = .val out) : initSavesOriginal kind w br out = true :=
  RV.Lemmas.CtlBlueGreen.init_saves_original kind w br f out h

/-- **C05 `finalize_restores_original` (one step, full strength)** — for every workload, saved setting, HPA
    constellation and fault: a `Finalize` that reports success with `batchPartition` cleared, from a world that
    satisfies the release invariant, leaves the workload with exactly the user's original minReadySeconds,
    maxSurge, maxUnavailable and progressDeadlineSeconds and with neither the saved-settings nor the control
    annotation. -/
theorem finalize_restores_original_step (kind : Kind) (o : Orig) (w : World) (br : BR) (f : Fault) (out : CallOut)
    (h : cpFinalize kind w br f = .val out) : finalizeRestores kind o w br out = true :=
  RV.Lemmas.CtlBlueGreen.finalize_restores_original_step kind o w br f out h

/-- **C05 (strategy type, partial)** — … and with the original strategy type, outside the known finding
    `origRecreate` (a Deployment whose original type was not `RollingUpdate`). -/
theorem finalize_restores_type_partial (kind : Kind) (o : Orig) (w : World) (br : BR) (f : Fault) (out : CallOut)
    (h : cpFinalize kind w br f = .val out) (hG : gOrigType kind o = false) :
    finalizeRestoresType kind o w br out = true :=
  RV.Lemmas.CtlBlueGreen.finalize_restores_type_partial kind o w br f out h hG

/-- **C05 (HPA, full strength)** — … and the HPA that `lookupHPAForWorkload` associates with the workload targets it
    again (its `scaleTargetRef.name` carries no disabling suffix) — under every fault, List faults included: a
    `Finalize` whose HPA lookup fails does not report success. -/
theorem finalize_restores_hpa (kind : Kind) (w : World) (br : BR) (f : Fault) (out : CallOut)
    (h : cpFinalize kind w br f = .val out) :
    finalizeRestoresHPA w br out = true :=
  RV.Lemmas.CtlBlueGreen.finalize_restores_hpa kind w br f out h

/-- **C05 (release, partial)** — … and the workload is handed back to its own controller (Deployment un-paused and
    without the stable-revision label; CloneSet without partition), outside the known findings
    `deployFinalizeRetry` (a Deployment that carries no saved annotation is not patched at all) and
    `csPartitionKept` (the CloneSet `Finalize` never clears the partition). -/
theorem finalize_releases_partial (kind : Kind) (w : World) (br : BR) (f : Fault) (out : CallOut)
    (h : cpFinalize kind w br f = .val out)
    (hG : ∀ wl, w.wl = some wl → gRestoredDeploy kind wl = false ∧ gCsPartition kind wl = false) :
    finalizeReleases kind w br out = true :=
  RV.Lemmas.CtlBlueGreen.finalize_releases_partial kind w br f out h hG

/-- a workload that carries neither annotation satisfies the invariant for its own settings -/
theorem inv_fresh (kind : Kind) (w : World) (wl : Workload) (hw : w.wl = some wl)
    (hs : wl.saved = .none) (hc : wl.ctl = .none) : inv kind (origOf kind wl) w = true :=
  RV.Lemmas.CtlBlueGreen.inv_fresh kind w wl hw hs hc

/-- **C05 (invariant over histories, full strength)** — along every finite history of control-plane calls (any
    operation order, any plan / batch / partition / BatchRelease UID, any API fault in any attempt), status changes
    and scalings, the release invariant holds at every point. -/
theorem inv_run (kind : Kind) (o : Orig) (evs : List Ev) (w w' : World)
    (hi : inv kind o w = true) (hr : run kind w evs = some w') :
    inv kind o w' = true :=
  RV.Lemmas.CtlBlueGreen.inv_run kind o evs w w' hi hr

/-- **C05 `finalize_restores_original`** — take any workload without rollout annotations, any HPAs and
    ReplicaSets; run any history `initialize ; (upgradeBatch | initialize | finalize)*` in any order, by any
    BatchReleases, with API faults after any write of any attempt, status changes and scalings in between.
    Whenever afterwards a `Finalize` — under any fault — reports success with `batchPartition` cleared, the workload
    has exactly the minReadySeconds, maxSurge, maxUnavailable and progressDeadlineSeconds it started with and
    neither the saved-settings nor the control annotation. -/
theorem finalize_restores_original (kind : Kind) (w0 : World) (wl0 : Workload) (evs : List Ev) (w : World)
    (br : BR) (f : Fault) (out : CallOut)
    (hw0 : w0.wl = some wl0) (hs0 : wl0.saved = .none) (hc0 : wl0.ctl = .none)
    (hr : run kind w0 evs = some w)
    (hfin : cpFinalize kind w br f = .val out) (hd : finalizeDone w br out = true) :
    ∃ wl', out.world.wl = some wl' ∧ wl'.saved = .none ∧ wl'.ctl = .none ∧
      effSetting kind wl' = effSetting kind wl0 :=
  RV.Lemmas.CtlBlueGreen.finalize_restores_original kind w0 wl0 evs w br f out hw0 hs0 hc0 hr hfin hd

/-- **C05 (the retry completes)** — from every world that satisfies the release invariant — in particular after any
    number of earlier attempts that were cut short by faults — one undisturbed `Finalize` (with `batchPartition`
    cleared) on a workload whose pods are all updated and ready with respect to the *original* settings reports
    success; by `finalize_restores_original_step` the workload then has its original settings. -/
theorem finalize_completes (kind : Kind) (o : Orig) (w : World) (br : BR) (wl : Workload)
    (hi : inv kind o w = true) (hw : w.wl = some wl) (hR : wl.replicas.isSome = true) (hp : br.partitioned = false)
    (hready : readyNow kind (finalizePatch kind o.setting wl) = true) :
    ∃ out, cpFinalize kind w br noFault = .val out ∧ out.res = .ok :=
  RV.Lemmas.CtlBlueGreen.finalize_completes kind o w br wl hi hw hR hp hready

/-- the same as a run-time oracle (evaluated on the implementation's output for every undisturbed `Finalize` of a walk) -/
theorem finalize_completes_oracle (kind : Kind) (o : Orig) (w : World) (br : BR) (f : Fault) (out : CallOut)
    (h : cpFinalize kind w br f = .val out) : finalizeCompletes kind o w br f out = true :=
  RV.Lemmas.CtlBlueGreen.finalize_completes_oracle kind o w br f out h

/-- **C05 (the restoring patch releases)** — whenever `Finalize` changes a Deployment that carries a saved annotation, the
    Deployment is un-paused afterwards and carries neither the stable-revision label nor the control-info — on every
    attempt, whether or not the wait then passes. -/
theorem finalize_patch_releases (kind : Kind) (w : World) (br : BR) (f : Fault) (out : CallOut)
    (h : cpFinalize kind w br f = .val out) : finalizePatchReleases kind w out = true :=
  RV.Lemmas.CtlBlueGreen.finalize_patch_releases kind w br f out h

/-! ## C06 / C11 — fault-safety of the calls -/

/-- **C06 / C11 (partial)** — a `Finalize` that reports success (with `batchPartition` cleared, on an existing
    workload) has evaluated its wait condition — every pod updated and ready, `maxUnavailable` respected — on the
    workload as it is after the call, on every attempt of a release (the Deployment keeps its saved annotation
    until then); outside what is left of the known finding `deployFinalizeRetry`: a Deployment *without* saved
    annotation (never initialised, or already completely finalised) is waited for on an empty object. -/
theorem finalize_done_means_ready_partial (kind : Kind) (w : World) (br : BR) (f : Fault) (out : CallOut)
    (h : cpFinalize kind w br f = .val out)
    (hG : ∀ wl, w.wl = some wl → gRestoredDeploy kind wl = false) :
    finalizeDoneMeansReady kind w br out = true :=
  RV.Lemmas.CtlBlueGreen.finalize_done_means_ready_partial kind w br f out h hG

/-- **C06 (full strength)** — `InitOriginalSetting` never overwrites what an earlier `Initialize` saved: whatever the
    call does and whoever calls it, every field present in the saved annotation — and its `minReadySeconds`, `0`
    included — is still there afterwards. -/
theorem init_keeps_saved (kind : Kind) (w : World) (br : BR) (f : Fault) (out : CallOut)
    (h : cpInitialize kind w br f = .val out) :
    initKeepsSaved w out = true :=
  RV.Lemmas.CtlBlueGreen.init_keeps_saved kind w br f out h

/-- **C06** — for every call, world and fault: a call that reports no successful write has left the whole object
    store (workload, ReplicaSets, every HPA) exactly as it was. -/
theorem no_write_no_change (kind : Kind) (op : Op) (w : World) (br : BR) (f : Fault) (out : CallOut)
    (h : call kind op w br f = .val out) : noWriteNoChange w out = true :=
  RV.Lemmas.CtlBlueGreen.no_write_no_change kind op w br f out h

/-- **C06 (convergence, full strength)** — for each of the three calls, every world and every fault (write, Get and
    List faults): if an attempt is cut short and the call is simply repeated (as the next reconcile does), the
    object store ends exactly where an undisturbed call would have put it, and the repeated call reports what the
    undisturbed one reports. -/
theorem retry_converges (kind : Kind) (op : Op) (w : World) (br : BR) (f : Fault) (o1 o2 o3 : CallOut)
    (h1 : call kind op w br f = .val o1) (h2 : call kind op o1.world br noFault = .val o2)
    (h3 : call kind op w br noFault = .val o3) :
    retryConverges o2 o3 = true :=
  RV.Lemmas.CtlBlueGreen.retry_converges kind op w br f o1 o2 o3 h1 h2 h3

/-- **C06 (no step twice with additional effect, full strength)** — repeating an undisturbed call changes nothing and
    reports the same; after a success the repetition issues no write at all, except that `UpgradeBatch` re-sends its
    (identical) patch when the batch is exactly `1`. -/
theorem idempotent_calls (kind : Kind) (op : Op) (w : World) (br : BR) (o3 o4 : CallOut)
    (h3 : call kind op w br noFault = .val o3) (h4 : call kind op o3.world br noFault = .val o4) :
    idempotent op br o3 o4 = true :=
  RV.Lemmas.CtlBlueGreen.idempotent_calls kind op w br o3 o4 h3 h4

/-! ## C01 — exposure of the new revision -/

/-- **C01 `upgrade_within_step`** — for every workload, plan (ints, percents, malformed entries), current batch, replica
    count and fault: after `UpgradeBatch` the workload's own controller may run at most as many pods of the new
    revision as before the call or as the current batch plans (`CalculateBatchReplicas`), whichever is larger —
    no slack (for a CloneSet under the hold `Initialize` installs). -/
theorem upgrade_within_step (kind : Kind) (w : World) (br : BR) (f : Fault) (out : CallOut)
    (h : cpUpgradeBatch kind w br f = .val out) : upgradeWithinStep kind w br out = true :=
  RV.Lemmas.CtlBlueGreen.upgrade_within_step kind w br f out h

/-- **C01 (monotone knob)** — `UpgradeBatch` never moves the workload back toward the old revision: on a held
    workload whose surge is set, the exposure after the call is at least the exposure before. -/
theorem upgrade_monotone (kind : Kind) (w : World) (br : BR) (f : Fault) (out : CallOut)
    (h : cpUpgradeBatch kind w br f = .val out) : upgradeMonotone kind w out = true :=
  RV.Lemmas.CtlBlueGreen.upgrade_monotone kind w br f out h

/-- **C01 (`Initialize`)** — `Initialize` exposes nothing of the new revision on a workload the admission webhook
    prepared (Deployment paused, CloneSet partition `100%`), and in general never more than one pod beyond what
    was already exposed — for every workload, HPA constellation and fault. -/
theorem init_exposure (kind : Kind) (w : World) (br : BR) (f : Fault) (out : CallOut)
    (h : cpInitialize kind w br f = .val out) : initExposure kind w out = true :=
  RV.Lemmas.CtlBlueGreen.init_exposure kind w br f out h

/-- **C01 (whole progressing phase)** — from any world in which the exposure is within a bound `B ≥ 1`, along every
    history of `Initialize` / `UpgradeBatch` calls (any order, any BatchRelease, any fault) and status changes in
    which every `UpgradeBatch` works on a batch that plans at most `B` pods: at every point the workload's own
    controller may run at most `B` pods of the new revision.  (`B` = what the current step of the Rollout plans;
    the executor invariant `currentBatch ≤ batchPartition` supplies the hypothesis on the batches.) -/
theorem exposure_within_plan (kind : Kind) (B : Int) (hB : 1 ≤ B) (evs : List Ev) (w w' : World)
    (hi : expInv kind B w = true) (hp : progressRun kind B w evs = true) (hr : run kind w evs = some w') :
    exposureW kind w' ≤ B :=
  RV.Lemmas.CtlBlueGreen.exposure_within_plan kind B hB evs w w' hi hp hr

/-- **C01 (`UpgradeBatch` keeps the hold)** — whenever `UpgradeBatch` writes, the patched workload still cannot make
    new pods available (`minReadySeconds = MaxReadySeconds`, update type accepted) and — Deployment — has
    `maxUnavailable = 0`: the surge is the only thing that lets pods of the new revision exist. -/
theorem upgrade_keeps_hold (kind : Kind) (w : World) (br : BR) (f : Fault) (out : CallOut)
    (h : cpUpgradeBatch kind w br f = .val out) : upgradeKeepsHold kind out = true :=
  RV.Lemmas.CtlBlueGreen.upgrade_keeps_hold kind w br f out h

/-- **C01 (`Initialize` installs the hold)** — a successful `Initialize` that takes control leaves `minReadySeconds =
    MaxReadySeconds`, `maxUnavailable = 0` and a surge that `CalculateBatchContext` reads as `0` ("nothing exposed
    yet"), and records the control-info of this BatchRelease — for every workload and fault. -/
theorem init_installs_hold (kind : Kind) (w : World) (br : BR) (f : Fault) (out : CallOut)
    (h : cpInitialize kind w br f = .val out) : initInstallsHold w br out = true :=
  RV.Lemmas.CtlBlueGreen.init_installs_hold kind w br f out h

/-- **C01 (`Initialize` disables the HPA, full strength)** — after a successful `Initialize` that takes control, the HPA
    that `lookupHPAForWorkload` associates with the workload carries the disabling suffix, so it cannot scale the
    workload during the release — under every fault: an `Initialize` whose HPA lookup fails does not succeed. -/
theorem init_disables_hpa (kind : Kind) (w : World) (br : BR) (f : Fault) (out : CallOut)
    (h : cpInitialize kind w br f = .val out) : initDisablesHPA w br out = true :=
  RV.Lemmas.CtlBlueGreen.init_disables_hpa kind w br f out h

/-! ## C09 — panics -/

/-- **C09 (full strength for the HPA helper)** — for every world — any HPAs, with or without `apiVersion` in their
    `scaleTargetRef` —, every BatchRelease and every fault: none of the three calls panics, unless the workload has no
    `spec.replicas` (the API servers default it) or `UpgradeBatch` is asked for a batch outside the plan (the
    executor checks the index first). -/
theorem no_panic (kind : Kind) (op : Op) (w : World) (br : BR) (f : Fault)
    (hA : panicAllowed op w br = false) :
    ∃ out, call kind op w br f = .val out :=
  RV.Lemmas.CtlBlueGreen.no_panic kind op w br f hA

/-! ## witnesses: the full-strength statements of the open findings are false on the code -/

def st (r rd u a ur : Int) : Status := { replicas := r, ready := rd, updated := u, available := a, updatedReady := ur }

/-- the user's settings of the witnesses: maxSurge 25%, maxUnavailable 25%, minReadySeconds 0, progressDeadline 600 -/
def userSetting : Setting :=
  { maxUnavailable := some (pct 25), maxSurge := some (pct 25), minReadySeconds := 0, progressDeadlineSeconds := some 600 }

/-- a Deployment as `Initialize` of BatchRelease 0 left it (10 replicas, 10 of 13 pods available, 3 updated) -/
def wlInitialised : Workload :=
  { replicas := some 10, deleting := false, paused := false, minReadySeconds := maxReady,
    progressDeadlineSeconds := some maxProgress, stype := .expected,
    ru := some { maxSurge := some (pct 50), maxUnavailable := some (int 0) }, partition := none,
    saved := .some userSetting, ctl := .uid 0, stableLabel := true, status := st 13 13 3 10 0 }

def brOf (uid : Nat) : BR := { uid := uid, batches := [pct 50, pct 100], currentBatch := 0, partitioned := false }

def worldOf (wl : Workload) (v2 v1 : List HPA) : World := { wl := some wl, rss := [], hpaV2 := v2, hpaV1 := v1 }

def theHPA (k : Nat) : HPA := { av := .same, kindSame := true, name := some k }

def outOf : Out CallOut → CallOut
  | .val o => o
  | .panic => ⟨default, .err, 0, none⟩

/-- **`origRecreate`** — a Deployment whose strategy type was `Recreate` (here: "not RollingUpdate"): `Initialize`
    has set the type to `RollingUpdate`, and a successful `Finalize` leaves it there. -/
theorem finalize_restores_type_full_FALSE :
    let wl := { wlInitialised with status := st 10 10 10 10 0 }
    let w := worldOf wl [] []
    let o : Orig := ⟨userSetting, .other⟩
    gOrigType .deployment o = true ∧ inv .deployment o w = true ∧
    finalizeRestoresType .deployment o w (brOf 0) (outOf (cpFinalize .deployment w (brOf 0) noFault)) = false := by
  decide

def wlRecreate : Workload :=
  { wlInitialised with
    saved := .none, ctl := .none, stype := .other, ru := none, minReadySeconds := 0,
    progressDeadlineSeconds := some 600, paused := true, status := st 10 10 10 10 0 }

/-- the same through a whole history: fresh `Recreate` Deployment ; `Initialize` ; `Finalize` — the type is not back -/
example :
    (run .deployment (worldOf wlRecreate [] []) [.call .init (brOf 0) noFault, .call .fin (brOf 0) noFault]).map
      (fun w => w.wl.map (fun wl => (wl.stype, wl.saved, wl.paused))) = some (some (SType.expected, Saved.none, false)) := by
  decide

/-- a Deployment that was paused by the webhook but never initialised; 3 of 10 pods updated -/
def wlNeverInitialised : Workload :=
  { wlInitialised with
    saved := .none, ctl := .none, paused := true, minReadySeconds := 0, progressDeadlineSeconds := some 600,
    ru := some ⟨some (pct 25), some (pct 25)⟩, status := st 10 10 3 10 0 }

/-- **`deployFinalizeRetry`** (release) — `Finalize` of a Deployment that was never initialised: success is
    reported and the Deployment stays paused, stable-revision label included. -/
theorem finalize_releases_full_FALSE_deployment :
    let w := worldOf wlNeverInitialised [] []
    gRestoredDeploy .deployment wlNeverInitialised = true ∧
    finalizeReleases .deployment w (brOf 0) (outOf (cpFinalize .deployment w (brOf 0) noFault)) = false := by
  decide

/-- **`deployFinalizeRetry`** (wait) — … and the success is reported with 3 of 10 pods updated: the wait ran on an
    empty object. -/
theorem finalize_done_means_ready_full_FALSE :
    let w := worldOf wlNeverInitialised [] []
    gRestoredDeploy .deployment wlNeverInitialised = true ∧
    (outOf (cpFinalize .deployment w (brOf 0) noFault)).res = .ok ∧
    finalizeDoneMeansReady .deployment w (brOf 0) (outOf (cpFinalize .deployment w (brOf 0) noFault)) = false := by
  decide

def wlCloneSet : Workload :=
  { wlInitialised with
    partition := some (pct 100), progressDeadlineSeconds := none,
    saved := .some { userSetting with progressDeadlineSeconds := none }, status := st 10 10 0 10 10 }

/-- **`csPartitionKept`** — `Finalize` of a CloneSet before any `UpgradeBatch`: the partition `100%` the webhook set
    is still there after the successful call. -/
theorem finalize_releases_full_FALSE_cloneSet :
    let w := worldOf wlCloneSet [] []
    gCsPartition .cloneSet wlCloneSet = true ∧
    finalizeReleases .cloneSet w (brOf 0) (outOf (cpFinalize .cloneSet w (brOf 0) noFault)) = false := by
  decide

/-! ## regression: the repaired defects on their former witnesses (tests on literals) -/

/-- 9aad3d8: the second `Finalize` attempt on a Deployment (10 of 13 pods available, 3 updated) asks for a retry again —
    the saved annotation is still there — and repeating is idempotent -/
example :
    let w := worldOf wlInitialised [] [theHPA 1]
    let o1 := outOf (cpFinalize .deployment w (brOf 0) noFault)
    let o2 := outOf (cpFinalize .deployment o1.world (brOf 0) noFault)
    o1.res = .retry ∧ o2.res = .retry ∧ o2.world = o1.world ∧ o1.world.hpaV1 = [theHPA 1] ∧
    (o1.world.wl.map (·.saved)) = some (Saved.some userSetting) := by
  decide

/-- … and once the pods are updated and ready it completes: settings restored, annotation gone, HPA enabled -/
example :
    let w := worldOf { wlInitialised with status := st 10 10 10 10 0 } [] [theHPA 1]
    let o := outOf (cpFinalize .deployment w (brOf 0) noFault)
    o.res = .ok ∧ o.writes = 3 ∧ o.world.hpaV1 = [theHPA 0] ∧
    (o.world.wl.map (fun wl => (wl.saved, wl.ctl, wl.minReadySeconds, ruSurge wl.ru))) =
      some (Saved.none, Ctl.none, 0, some (pct 25)) := by
  decide

/-- 7d83f2b: BatchRelease 1 initialises a workload that still carries the settings BatchRelease 0 saved
    (`minReadySeconds: 0`): the saved value stays `0` -/
example :
    let w := worldOf wlInitialised [] []
    let o := outOf (cpInitialize .deployment w (brOf 1) noFault)
    o.res = .ok ∧ (o.world.wl.map (·.saved)) = some (Saved.some userSetting) ∧
    (o.world.wl.map (·.ctl)) = some (Ctl.uid 1) := by
  decide

def wlUser : Workload :=
  { wlInitialised with
    saved := .none, ctl := .none, minReadySeconds := 0, paused := true,
    progressDeadlineSeconds := some 600, ru := some ⟨some (pct 25), some (pct 25)⟩ }

/-- 5ba1baa: a failing List of HPAs makes `Initialize` / `Finalize` fail instead of skipping the HPA -/
example :
    let f : Fault := { noFault with listV2 := true }
    (outOf (cpInitialize .deployment (worldOf wlUser [theHPA 0] []) (brOf 0) f)).res = .err ∧
    (outOf (cpInitialize .deployment (worldOf wlUser [theHPA 0] []) (brOf 0) f)).writes = 0 ∧
    (outOf (cpFinalize .deployment (worldOf { wlUser with paused := false } [] [theHPA 1]) (brOf 0)
      { noFault with listV1 := true })).res = .err := by
  decide

/-- 4f836ab: an HPA of the namespace without `apiVersion` is simply not a match -/
example :
    let w := worldOf wlUser [] [{ av := .absent, kindSame := false, name := none }, theHPA 0]
    let o := outOf (cpInitialize .deployment w (brOf 0) noFault)
    o.res = .ok ∧ o.world.hpaV1 = [{ av := .absent, kindSame := false, name := none }, theHPA 1] := by
  decide

/-! ## non-vacuity (tests on literals) -/

/-- a complete release on a Deployment with an HPA and a stable ReplicaSet: `Initialize` under a fault after its
    first write, `Initialize` again, two `UpgradeBatch`es with status changes in between -/
def exampleFresh : Workload :=
  { replicas := some 10, deleting := false, paused := true, minReadySeconds := 5, progressDeadlineSeconds := some 600,
    stype := .expected, ru := some { maxSurge := some (pct 20), maxUnavailable := some (int 1) }, partition := none,
    saved := .none, ctl := .none, stableLabel := true, status := st 10 10 0 10 0 }

def exampleWorld : World := { wl := some exampleFresh, rss := [⟨false, 0⟩, ⟨false, 0⟩], hpaV2 := [theHPA 0], hpaV1 := [] }

def exampleHistory : List Ev :=
  [.call .init (brOf 0) { noFault with write := some 1 }, .call .init (brOf 0) noFault,
   .call .upgrade (brOf 0) noFault, .status (st 15 10 5 10 0),
   .call .upgrade { brOf 0 with currentBatch := 1 } noFault, .status (st 20 20 10 10 0)]

/-- after the history: surge `100%`, un-paused, HPA disabled, stable ReplicaSet held -/
example : (run .deployment exampleWorld exampleHistory).map
    (fun w => (w.wl.map (fun wl => (wl.paused, ruSurge wl.ru, wl.minReadySeconds == maxReady)), w.hpaV2, w.rss)) =
    some (some (false, some (pct 100), true), [theHPA 1], [⟨false, maxReady⟩, ⟨false, 0⟩]) := by decide

/-- `Finalize` with pods still unavailable asks for a retry (the hypotheses of `finalize_restores_original` /
    `finalize_completes` are about worlds like this one) -/
example :
    let w := outOf (match run .deployment exampleWorld exampleHistory with
      | some w => .val ⟨w, .ok, 0, none⟩
      | none => .panic)
    (outOf (cpFinalize .deployment w.world { brOf 0 with currentBatch := 1 } noFault)).res = .retry := by decide

/-- … and after the pods became available it succeeds with the original `20%` / `1` / `5` back and the HPA enabled -/
example :
    let r := run .deployment exampleWorld (exampleHistory ++ [.status (st 10 10 10 10 0),
        .call .fin { brOf 0 with currentBatch := 1 } noFault])
    r.map (fun w => w.wl.map (fun wl => (wl.saved, wl.minReadySeconds, ruSurge wl.ru, ruUnavailable wl.ru))) =
      some (some (Saved.none, 5, some (pct 20), some (int 1))) ∧
    r.map (·.hpaV2) = some [theHPA 0] := by decide

example : finalizeDone exampleWorld (brOf 0) ⟨exampleWorld, .ok, 0, none⟩ = true := by decide

/-- `UpgradeBatch` really writes (the C01 theorems are not about no-ops only) -/
example : (outOf (cpUpgradeBatch .deployment (worldOf wlInitialised [] [])
    { brOf 0 with currentBatch := 1 } noFault)).writes = 1 := by decide

/-- the hypotheses of `exposure_within_plan` on the example: bound 5 = what batch `50%` of 10 plans -/
example : expInv .deployment 5 exampleWorld = true ∧
    progressRun .deployment 5 exampleWorld (exampleHistory.take 4) = true := by decide

/-- `retry_converges` on a concrete faulty attempt that really is cut short and really is completed -/
example :
    let f : Fault := { noFault with write := some 1 }
    let o1 := outOf (cpInitialize .deployment exampleWorld (brOf 0) f)
    let o2 := outOf (cpInitialize .deployment o1.world (brOf 0) noFault)
    let o3 := outOf (cpInitialize .deployment exampleWorld (brOf 0) noFault)
    o1.res = .err ∧ o1.writes = 1 ∧ o2.res = .ok ∧ o2.writes = 2 ∧ retryConverges o2 o3 = true := by decide

/-- … and on a `Finalize` whose second patch fails: the retry removes the annotation -/
example :
    let w := worldOf { wlInitialised with status := st 10 10 10 10 0 } [] [theHPA 1]
    let f : Fault := { noFault with write := some 2 }
    let o1 := outOf (cpFinalize .deployment w (brOf 0) f)
    let o2 := outOf (cpFinalize .deployment o1.world (brOf 0) noFault)
    let o3 := outOf (cpFinalize .deployment w (brOf 0) noFault)
    o1.res = .err ∧ o1.writes = 2 ∧ o2.res = .ok ∧ retryConverges o2 o3 = true := by decide

end RV.Props.CtlBlueGreen
