import RV.Lemmas.Conversion
/-!
# C20 — API versions convert without losing what the user wrote

Model: `RV/Model/Conversion.lean` (literal transcription of `api/v1alpha1/conversion.go`
after `fixes/C20-1.patch`).  Predicates: `RV/Oracle/C20.lean`.

* (iii) **totality** — none of the four conversions dereferences nil, on any object
* (i)  **v1alpha1 → v1beta1 → v1alpha1 keeps the meaning** — for *every* v1alpha1 Rollout /
  BatchRelease; for Rollouts the read-back object *is* the normal form `meaningRollout a`
* (ii) **v1beta1 → v1alpha1 → v1beta1 is the identity up to the two carrier annotations** —
  for every v1alpha1-expressible (`expressibleRollout` / `expressibleBR`) object

All quantifiers range over the whole (unbounded) model types: any number of steps, traffic
routings, matches, conditions, any strings, any int32 weight.
-/
namespace RV.Props.C20
open RV.Conversion RV.Oracle.C20 RV.Lemmas.C20

/-! ## (iii) totality -/

/-- **C20.iii** `(*Rollout).ConvertTo` never panics — every v1alpha1 Rollout, in particular
    without `workloadRef` and/or without `canary`. -/
theorem rolloutTo_total (a : A.Rollout) : total (rolloutTo a) = true := rfl

/-- **C20.iii** `(*Rollout).ConvertFrom` never panics — every v1beta1 Rollout, in particular one
    whose strategy has neither `canary` nor `blueGreen` (on which `GetRollingStyle` itself would). -/
theorem rolloutFrom_total (b : B.Rollout) : total (rolloutFrom b) = true := by
  unfold rolloutFrom
  rw [blueGreenOnly_eq]
  cases b.spec.strategy.blueGreen <;> rfl

/-- **C20.iii** `(*BatchRelease).ConvertTo` never panics (also without `targetReference.workloadRef`). -/
theorem brTo_total (a : A.BatchRelease) : total (brTo a) = true := rfl

/-- **C20.iii** `(*BatchRelease).ConvertFrom` never panics. -/
theorem brFrom_total (b : B.BatchRelease) : total (brFrom b) = true := rfl

/-- `GetRollingStyle` *does* dereference `Canary`: totality of `ConvertFrom` is not an artefact
    of a totalised model. -/
example : B.Strategy.getRollingStyle { paused := false, canary := none, blueGreen := none } = .panic := rfl

/-! ## (i) v1alpha1 → v1beta1 → v1alpha1 -/

/-- **weights**: every int32 weight `w` is stored as the string `"<w>%"` (`%d`) and read back
    (HasSuffix "%", `strconv.Atoi`, ⌈v·100/100⌉, `int32(…)`) as exactly `w`. -/
theorem weight_roundtrip (w : Int32) : goTrafficWeight (fmtPercent w.toInt) = w :=
  goTrafficWeight_fmtPercent w

/-- **C20.i (Rollout), strongest form**: writing any v1alpha1 Rollout and reading it back yields
    exactly its normal form `meaningRollout a` — every field verbatim except: absent workloadRef
    ↦ empty one, absent step replicas ↦ "<weight>%", style annotation ↦ `partition`/`canary`,
    deprecated `rolloutID` ↦ dropped. -/
theorem rollout_readback (a : A.Rollout) :
    (rolloutTo a).bind rolloutFrom = .ok (meaningRollout a) := by
  obtain ⟨md, ⟨wref, ⟨paused, canary⟩, rid, dis⟩, st⟩ := a
  cases canary with
  | none =>
    cases wref <;>
      simp [rolloutTo, rolloutFrom, Outcome.bind, blueGreenOnly_eq,
        meaningRollout, normRef, emptyRef, zeroRef, statusFrom_statusTo]
  | some c =>
    cases wref <;>
      simp [rolloutTo, rolloutFrom, Outcome.bind, blueGreenOnly_eq,
        meaningRollout, normRef, emptyRef, zeroRef, statusFrom_statusTo, canaryFrom_canaryTo,
        mdFrom_canaryTo]

/-- **C20.i (Rollout)** — the oracle the driver evaluates on the implementation's read-back:
    for every v1alpha1 Rollout, `ConvertFrom (ConvertTo a)` has the meaning of `a`. -/
theorem rollout_meaning_roundtrip (a : A.Rollout) :
    meaningHoldsRollout a ((rolloutTo a).bind rolloutFrom) = true := by
  rw [rollout_readback]
  simp [meaningHoldsRollout, meaningRollout_idem]

/-! ### BatchRelease -/

/-- what a v1alpha1 BatchRelease reads back as -/
theorem br_readback (a : A.BatchRelease) :
    (brTo a).bind brFrom =
      .ok { md := { a.md with annStyle := some (lowerAscii (storedStyle a)) }
            spec := { workloadRef := normRef a.spec.workloadRef
                      plan := { a.spec.plan with rollingStyle := storedStyle a } }
            status := a.status } := by
  obtain ⟨md, ⟨wref, plan⟩, st⟩ := a
  cases wref <;>
    simp [brTo, brFrom, Outcome.bind, planFrom_planTo, brStatusFrom_brStatusTo, storedStyle, normRef,
      emptyRef, zeroRef]

/-- **C20.i (BatchRelease)**: for every v1alpha1 BatchRelease — with or without
    `targetReference.workloadRef`, style given by annotation, by `spec.releasePlan.rollingStyle`,
    by both or by neither — `ConvertFrom (ConvertTo a)` has the meaning of `a`. -/
theorem br_meaning_roundtrip (a : A.BatchRelease) :
    meaningHoldsBR a ((brTo a).bind brFrom) = true := by
  rw [br_readback]
  have hs : ∀ (a' : A.BatchRelease), a'.md.annStyle = some (lowerAscii (storedStyle a)) →
      a'.spec.plan.rollingStyle = storedStyle a → brStyle a' = canonStyle (storedStyle a) := by
    intro a' h1 h2
    show (match styleNamed (annGet a'.md.annStyle) with
          | some k => k
          | none => canonStyle a'.spec.plan.rollingStyle) = _
    rw [h1, h2]
    simp only [annGet, styleNamed_lowerAscii]
    cases h : styleNamed (storedStyle a) <;> simp [canonStyle, h]
  simp only [meaningHoldsBR, beq_iff_eq]
  unfold meaningBR
  rw [hs _ rfl rfl, canon_storedStyle]
  obtain ⟨md, ⟨wref, plan⟩, st⟩ := a
  cases wref <;> rfl

/-- With a case-canonical style field the stored style is *exactly* the requested one
    (no case normalisation involved). -/
theorem br_style_exact (a : A.BatchRelease) (h : canonStyle a.spec.plan.rollingStyle = a.spec.plan.rollingStyle) :
    storedStyle a = brStyle a := by
  unfold storedStyle brStyle
  rw [planTo_style, h]
  rfl

/-! ## (ii) v1beta1 → v1alpha1 → v1beta1 -/

/-- **C20.ii (Rollout)**: every canary-strategy v1beta1 Rollout restricted to v1alpha1-expressible
    fields (`expressibleRollout`, stated in full in RV/Oracle/C20.lean) survives
    ConvertFrom ; ConvertTo: the result is the object itself with the two carrier annotations
    (re)written (`stampRollout`). -/
theorem rollout_rmw (b : B.Rollout) (h : expressibleRollout b = true) :
    (rolloutFrom b).bind rolloutTo = .ok (stampRollout b) := by
  obtain ⟨md, ⟨wref, ⟨paused, canary, bg⟩, dis⟩, st⟩ := b
  simp only [expressibleRollout, Bool.and_eq_true, Option.isNone_iff_eq_none, beq_iff_eq] at h
  obtain ⟨⟨⟨⟨hbg, hc⟩, hbgs⟩, hcur⟩, hstate⟩ := h
  subst hbg
  cases canary with
  | none => simp at hc
  | some c =>
    simp only [Bool.and_eq_true, Bool.or_eq_true, bne_iff_ne, ne_eq, beq_iff_eq] at hc
    obtain ⟨hsteps, htr⟩ := hc
    obtain ⟨steps, trs, ft, patch, extra, ref, noSvc⟩ := c
    obtain ⟨rest, sty, tr, oth⟩ := md
    have hst := statusTo_statusFrom st hbgs hcur hstate
    have hsteps' : (steps.map stepFrom).map stepTo = steps := by
      rw [List.map_map]
      exact map_id_of_all stepExpressible _ stepTo_stepFrom steps hsteps
    have hextra := eqFold_stamp extra
    have href : (if annGet (if ref != "" then some ref else tr) != "" then annGet (if ref != "" then some ref else tr) else "") = ref := by
      by_cases hr : ref = ""
      · subst hr
        rcases htr with htr | htr
        · exact absurd rfl htr
        · simp [htr]
      · simp [hr, annGet]
    by_cases hr : ref = ""
    · subst hr
      have htr' : annGet tr = "" := by
        rcases htr with htr | htr
        · exact absurd rfl htr
        · exact htr
      cases extra <;>
        simp_all [rolloutFrom, rolloutTo, Outcome.bind, blueGreenOnly_eq, stampRollout, mdFrom, canaryFrom,
          canaryTo]
    · cases extra <;>
        simp_all [rolloutFrom, rolloutTo, Outcome.bind, blueGreenOnly_eq, stampRollout, mdFrom, canaryFrom,
          canaryTo, annGet]

/-- **C20.ii (Rollout)** — the oracle the driver evaluates on the implementation's output -/
theorem rollout_rmw_holds (b : B.Rollout) :
    rmwHoldsRollout b ((rolloutFrom b).bind rolloutTo) = true := by
  unfold rmwHoldsRollout
  cases h : expressibleRollout b with
  | false => rfl
  | true => simp [rollout_rmw b h]

/-- **C20.ii (BatchRelease)** -/
theorem br_rmw (b : B.BatchRelease) (h : expressibleBR b = true) :
    (brFrom b).bind brTo = .ok (stampBR b) := by
  obtain ⟨md, ⟨wref, plan⟩, st⟩ := b
  simp only [expressibleBR, Bool.and_eq_true, beq_iff_eq] at h
  simp [brFrom, brTo, Outcome.bind, stampBR, planTo_planFrom plan h.1, brStatusTo_brStatusFrom st h.2]

theorem br_rmw_holds (b : B.BatchRelease) : rmwHoldsBR b ((brFrom b).bind brTo) = true := by
  unfold rmwHoldsBR
  cases h : expressibleBR b with
  | false => rfl
  | true => simp [br_rmw b h]

/-- the stamp only touches the two carrier annotations -/
theorem stampRollout_frame (b : B.Rollout) :
    (stampRollout b).spec = b.spec ∧ (stampRollout b).status = b.status ∧
    (stampRollout b).md.rest = b.md.rest ∧ (stampRollout b).md.annOthers = b.md.annOthers := by
  unfold stampRollout
  cases b.spec.strategy.canary <;> simp

/-- … and is a no-op on an object that went through the round trip once -/
theorem stampRollout_idem (b : B.Rollout) : stampRollout (stampRollout b) = stampRollout b := by
  obtain ⟨md, ⟨wref, ⟨paused, canary, bg⟩, dis⟩, st⟩ := b
  cases canary with
  | none => rfl
  | some c =>
    by_cases h : c.trafficRoutingRef = "" <;> simp [stampRollout, h]

/-! ## non-vacuity, and what is *not* carried (tests on literals — not the ∀ claims) -/

def md0 : Meta := { rest := "{\"name\":\"demo\"}", annStyle := some "Partition", annTR := some "tr-demo", annOthers := "{}" }
def ref0 : Ref := { apiVersion := "apps/v1", kind := "Deployment", name := "web" }
def cs0 : CanaryStatus :=
  { observedWorkloadGeneration := 3, observedRolloutID := "1", rolloutHash := "h", stableRevision := "s",
    canaryRevision := "c", podTemplateHash := "p", canaryReplicas := 2, canaryReadyReplicas := 1,
    nextStepIndex := 2, currentStepIndex := 1, currentStepState := "StepPaused", message := "",
    lastUpdateTime := some "2024-01-01T00:00:00Z", finalisingStep := "" }

/-- weight-only step, replicas step with header match, a traffic routing, status cursor -/
def a0 : A.Rollout :=
  { md := md0
    spec := { workloadRef := some ref0
              strategy := { paused := false
                            canary := some
                              { steps := [ { tr := { weight := some 20, requestHeaderModifier := none, mts := [] }
                                             replicas := none, pause := { duration := some 60 } },
                                           { tr := { weight := none, requestHeaderModifier := some "{}", mts := [{ headers := ["h1"] }] }
                                             replicas := some (.int 5), pause := { duration := none } } ]
                                trafficRoutings := [ { service := "svc", gracePeriodSeconds := 3
                                                       ingress := some { classType := "nginx", name := "ing" }
                                                       gateway := none, customNetworkRefs := [ref0] } ]
                                failureThreshold := some (.str "10%")
                                patch := some { annotations := [("a", "b")], labels := [] }
                                disableGenerateCanaryService := true } }
              rolloutID := "id-7", disabled := false }
    status := { observedGeneration := 4, canaryStatus := some cs0, conditions := [], phase := "Progressing", message := "m" } }

/-- non-vacuity of (i): the stored object really differs in shape (traffic "20%", synthesised replicas) -/
example : (match rolloutTo a0 with
    | .ok b => (b.spec.strategy.canary.map fun c => c.steps.map fun s => (s.tr.traffic, s.replicas))
    | .panic => none) = some [(some "20%", some (.str "20%")), (none, some (.int 5))] := by decide

example : meaningHoldsRollout a0 ((rolloutTo a0).bind rolloutFrom) = true := by decide

/-- what (i) does not promise: the deprecated `spec.rolloutID` has no v1beta1 field and is dropped -/
theorem rolloutID_not_carried :
    (match (rolloutTo a0).bind rolloutFrom with | .ok a' => a'.spec.rolloutID | .panic => "?") = "" := by decide

/-- `meaningRollout` distinguishes what it should: another weight is another meaning -/
example : meaningRollout a0 ≠ meaningRollout { a0 with spec := { a0.spec with disabled := true } } := by decide

/-- the Rollouts of defect #13 (no workloadRef / no canary) now convert and read back -/
def aBare : A.Rollout := { md := { md0 with annStyle := none, annTR := none }, spec := A.Spec.zero, status := A.Status.zero }
example : (rolloutTo aBare).isOk = true ∧ meaningHoldsRollout aBare ((rolloutTo aBare).bind rolloutFrom) = true := by decide

/-- an expressible canary-strategy v1beta1 Rollout (non-vacuity of (ii)) -/
def b0 : B.Rollout :=
  { md := { md0 with annStyle := none, annTR := none }
    spec := { workloadRef := ref0
              strategy := { paused := true
                            canary := some
                              { steps := [ { tr := { traffic := some "20%", requestHeaderModifier := none
                                                     mts := [{ path := none, headers := ["h"], queryParams := [] }] }
                                             replicas := some (.str "20%"), pause := { duration := none } } ]
                                trafficRoutings := [], failureThreshold := none, patch := none
                                enableExtraWorkloadForCanary := true, trafficRoutingRef := "tr-1"
                                disableGenerateCanaryService := true }
                            blueGreen := none }
              disabled := false }
    status := { observedGeneration := 1, canaryStatus := some cs0, blueGreenStatus := none, conditions := [],
                phase := "Progressing", message := "", currentStepIndex := 0, currentStepState := "" } }

example : expressibleRollout b0 = true := by decide
example : (rolloutFrom b0).bind rolloutTo = .ok (stampRollout b0) ∧ stampRollout b0 ≠ b0 := by decide

/-- outside the expressible fragment the round trip does change the object
    (traffic "5" is not a percentage: read as weight 0, written back as "0%") -/
def cBadTraffic : B.Canary :=
  { steps := [ { tr := { traffic := some "5", requestHeaderModifier := none, mts := [] }
                 replicas := some (.int 1), pause := { duration := none } } ]
    trafficRoutings := [], failureThreshold := none, patch := none
    enableExtraWorkloadForCanary := false, trafficRoutingRef := "", disableGenerateCanaryService := false }
def bBadTraffic : B.Rollout :=
  { b0 with spec := { b0.spec with strategy := { b0.spec.strategy with canary := some cBadTraffic } } }
example : expressibleRollout bBadTraffic = false ∧
    (rolloutFrom bBadTraffic).bind rolloutTo ≠ .ok (stampRollout bBadTraffic) := by decide

def plan0 : ReleasePlan :=
  { batches := [.str "50%", .int 3], batchPartition := some 0, rolloutID := "1", failureThreshold := none,
    finalizingPolicy := "WaitResume", patch := none, rollingStyle := "Canary", enableExtraWorkloadForCanary := false }
def brcs0 : BRCanaryStatus :=
  { currentBatchState := "Ready", currentBatch := 1, batchReadyTime := none,
    updatedReplicas := 2, updatedReadyReplicas := 2, noNeedUpdateReplicas := none }
def brStatus0 : A.BRStatus :=
  { conditions := [], canaryStatus := brcs0,
    stableRevision := "s", updateRevision := "u", observedGeneration := 2, observedRolloutID := "1",
    observedWorkloadReplicas := 4, collisionCount := none, observedReleasePlanHash := "h", phase := "Progressing" }

/-- defect #14 witness, now preserved: style given only by `spec.releasePlan.rollingStyle` -/
def abr0 : A.BatchRelease :=
  { md := { md0 with annStyle := none }, spec := { workloadRef := none, plan := plan0 }, status := brStatus0 }
example : (match brTo abr0 with | .ok b => b.spec.plan.rollingStyle | .panic => "?") = "Canary" := by decide
example : meaningHoldsBR abr0 ((brTo abr0).bind brFrom) = true := by decide

/-- the annotation, when it names a style, takes precedence over the field -/
example : storedStyle { abr0 with md := { md0 with annStyle := some "PARTITION" } } = "Partition" := by decide

/-- residual corner (see report): a *non-canonically cased* style field with no style annotation is
    stored verbatim and comes back with the lower-cased annotation, which names the canonical style;
    `meaningBR` identifies the two (style names are case-insensitive in v1alpha1). -/
example : storedStyle { abr0 with spec := { abr0.spec with plan := { plan0 with rollingStyle := "canary" } } } = "canary" ∧
    brStyle { abr0 with spec := { abr0.spec with plan := { plan0 with rollingStyle := "canary" } } } = "Canary" := by decide

def bbr0 : B.BatchRelease :=
  { md := md0, spec := { workloadRef := ref0, plan := { plan0 with rollingStyle := "Rolling" } }
    status := { conditions := [], canaryStatus := brcs0, stableRevision := "s", updateRevision := "u",
                observedGeneration := 2, observedRolloutID := "1", observedWorkloadReplicas := 4, collisionCount := some 1,
                observedReleasePlanHash := "h", phase := "Progressing", message := "" } }
example : expressibleBR bbr0 = true ∧ (brFrom bbr0).bind brTo = .ok (stampBR bbr0) := by decide
example : expressibleBR { bbr0 with spec := { bbr0.spec with plan := { plan0 with rollingStyle := "canary" } } } = false := by decide

end RV.Props.C20
