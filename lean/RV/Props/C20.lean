import RV.Oracle.C20
/-!
# C20 — API versions convert without losing what the user wrote

PRE-FIX STATE (code as it is): the model transcribes the unchanged conversion.go.
Only the defect witnesses are stated here; the full theorems follow with the fix.
-/
namespace RV.Props.C20
open RV.Conversion RV.Oracle.C20

def md0 : Meta := { rest := "{}", annStyle := none, annTR := none, annOthers := "{}" }

/-- a schema-valid v1alpha1 Rollout: `spec.objectRef: {}` (workloadRef is optional in the CRD) -/
def aNoWorkloadRef : A.Rollout :=
  { md := md0
    spec := { workloadRef := none
              strategy := { paused := false, canary := some { steps := [], trafficRoutings := [], failureThreshold := none, patch := none, disableGenerateCanaryService := false } }
              rolloutID := "", disabled := false }
    status := A.Status.zero }

/-- defect #13 (code as it is): ConvertTo dereferences the absent workloadRef -/
theorem prefix_rolloutTo_panics : rolloutTo aNoWorkloadRef = .panic := by decide

end RV.Props.C20
