/-
  Canary-style Deployment rollouts (`v1beta1.IsRealPartition(rollout) = false`: workloadRef apps/v1 Deployment with
  `canary.enableExtraWorkloadForCanary`) in the model of one Rollout reconcile.

  C03.iv  the first step (with traffic) leaves `StepInit` towards the upgrade only with the stable Service pinned to
          the stable revision — whatever the step's replicas (model level `initStep`, and for a whole reconcile)
  C04     the full-replica handling (`RestoreStableService` in `StepInit`, the bypass past `StepTrafficRouting`
          after `StepUpgrade`) is partition-style only: a canary-style step never takes it
-/
import RV.Oracle.RolloutSM
import RV.Props.ReconcileThms
namespace RV.Props.CanaryStyle
open RV.Arith RV.Traffic RV.RolloutSM RV.Oracle.RolloutSM RV.Props.Rollout RV.Props.Reconcile

/-! ### the traffic Manager's `PatchStableService` -/

theorem selOf_getD (r : String) : (selOf r).getD "" = r := by
  unfold selOf
  split
  · rename_i h; simp [h]
  · rfl

/-- `PatchStableService` with a traffic routing ref and canary Service generation enabled: unless it reports an
    error, the stable Service exists and selects the stable revision afterwards. -/
theorem ps_spec (c : TCtx) (n : Net) (m : Mem) (href : c.hasRef = true) (hdg : c.disableGen = false)
    (herr : (patchStableService c n m).err = false) :
    (patchStableService c n m).net.stableExists = true ∧ (patchStableService c n m).net.stableSel.getD "" = c.stableRev := by
  unfold patchStableService at herr ⊢
  simp only [href, hdg, not_true_eq_false, if_false, Bool.false_eq_true] at herr ⊢
  by_cases hex : n.stableExists = true
  · simp only [hex, not_true_eq_false, if_false]
    by_cases hm : n.stableSel.getD "" = c.stableRev
    · simp [hm, hex]
    · simp [hm, hex, selOf_getD]
  · simp [hex] at herr

/-- the run-time oracle `patchMeansPinned` holds of the model's `PatchStableService`, for every context, network state and memory -/
theorem patch_means_pinned (c : TCtx) (n : Net) (m : Mem) :
    RV.Oracle.Traffic.patchMeansPinned c (patchStableService c n m) = true := by
  unfold RV.Oracle.Traffic.patchMeansPinned
  by_cases h : (c.hasRef && !c.disableGen && !(patchStableService c n m).err) = true
  · simp only [Bool.and_eq_true, Bool.not_eq_true'] at h
    obtain ⟨⟨href, hdg⟩, herr⟩ := h
    obtain ⟨h1, h2⟩ := ps_spec c n m href hdg herr
    simp [href, hdg, herr, h1, h2]
  · simp only [Bool.not_eq_true] at h
    simp [h]

theorem trCtx_fields (ro : Rollout) (s : Sub) (t : TCtx) (h : trCtx ro s = some t) :
    t.hasRef = ro.hasTraffic ∧ t.disableGen = ro.disableGen ∧ t.stableRev = s.stableRev := by
  unfold trCtx at h
  split at h
  · cases h
  · simp only [Option.some.injEq] at h
    subst h
    exact ⟨rfl, rfl, rfl⟩

/-- a Manager call leaves the recorded stable revision alone -/
theorem callTM_stableRev (f : TCtx → Net → Mem → TOut) (c c' : Ctx) (cb d e : Bool) (h : callTM f c cb = some (c', d, e)) :
    c'.sub.stableRev = c.sub.stableRev := by
  unfold callTM at h
  split at h
  · cases h
  · simp only [Option.some.injEq, Prod.mk.injEq] at h
    obtain ⟨hc, _, _⟩ := h
    subst hc
    dsimp only
    split <;> rfl

theorem upgradeStep_stableRev (ro : Rollout) (step : Step) (c c' : Ctx) (err : Bool)
    (h : upgradeStep ro step c = .ok c' err) : c'.sub.stableRev = c.sub.stableRev := by
  unfold upgradeStep at h
  dsimp only at h
  split at h
  · simp only [RunOut.ok.injEq] at h
    obtain ⟨hc, _⟩ := h
    subst hc
    rfl
  · simp only [RunOut.ok.injEq] at h
    obtain ⟨hc, _⟩ := h
    subst hc
    rfl

/-! ### C03.iv — the first step of a canary-style rollout -/

/-- **C03.iv (`BeforeStepUpgrade`)** — for every canary rollout that generates its canary Service, every step with
    traffic that is not a partition-style full step, and every context at step index 1: when `StepInit` is left
    (the batch is handed to the BatchRelease), the stable Service exists and selects the stable revision recorded in
    the status. -/
theorem initStep_first_pins_of_not_full (ro : Rollout) (step : Step) (c c' : Ctx) (err : Bool)
    (hstyle : ro.style = .canary) (hdg : ro.disableGen = false)
    (hnf : ¬ (scaledV step.replicas c.wl.replicas true ≥ c.wl.replicas ∧ ro.realPartition = true))
    (htr : stepHasTraffic step = true) (hro : c.ro = ro) (hhas : ro.hasTraffic = true)
    (hidx : c.sub.curIdx = 1) (hinit : c.sub.state = .init)
    (h : initStep ro step c = .ok c' err) (hleft : c'.sub.state ≠ .init) :
    c'.net.stableExists = true ∧ c'.net.stableSel.getD "" = c'.sub.stableRev := by
  unfold initStep at h
  simp only [hstyle, if_true, htr, not_true_eq_false, if_false, hnf, Bool.false_eq_true, not_false_eq_true,
    true_and, hdg] at h
  -- no RestoreStableService: the first call is skipped
  obtain ⟨c1, rt, e, hcall, hcase⟩ := afterRetryCall_spec _ _ _ _ h
  simp only [Option.some.injEq, Prod.mk.injEq] at hcall
  obtain ⟨hc1, hrt, he⟩ := hcall
  subst hc1
  rcases hcase with ⟨_, hx⟩ | ⟨_, hx⟩ | ⟨_, _, hk⟩
  · rcases hx with hx | hx
    · rw [← he] at hx; cases hx
    · rw [← hrt] at hx; cases hx
  · rw [← hrt] at hx; cases hx
  · -- PatchStableService
    rw [if_pos (by simp [hidx])] at hk
    obtain ⟨c2, rt2, e2, hcall2, hcase2⟩ := afterRetryCall_spec _ _ _ _ hk
    have hsub := callTM_sub _ _ _ _ _ _ hcall2
    have hrev := callTM_stableRev _ _ _ _ _ _ hcall2
    rcases hcase2 with ⟨hc, _⟩ | ⟨hc, _⟩ | ⟨he2, _, hup⟩
    · subst hc; exact absurd (hsub.2.1.trans hinit) hleft
    · subst hc; exact absurd (hsub.2.1.trans hinit) hleft
    · have hnet : c2.net.stableExists = true ∧ c2.net.stableSel.getD "" = c.sub.stableRev := by
        unfold callTM at hcall2
        split at hcall2
        · cases hcall2
        · rename_i t ht
          simp only [Option.some.injEq, Prod.mk.injEq] at hcall2
          obtain ⟨hc, _, herr⟩ := hcall2
          subst hc
          dsimp only
          obtain ⟨f1, f2, f3⟩ := trCtx_fields _ _ _ ht
          have := ps_spec { t with hasRevKey := c.wlSeen } c.net c.mem (by simp [f1, hro, hhas]) (by simp [f2, hro, hdg])
            (by rw [herr]; exact he2)
          rw [← f3]
          exact this
      obtain ⟨_, _, hn, _⟩ := upgradeStep_spec _ _ _ _ _ hup
      have hs := upgradeStep_stableRev _ _ _ _ _ hup
      rw [hn, hs]
      dsimp only
      rw [hrev]
      exact hnet

/-- **C03.iv (`BeforeStepUpgrade`, canary style)** — for every canary-style rollout (`realPartition = false`) that
    generates its canary Service, every step with traffic — *whatever its replicas* — and every context at step
    index 1: when `StepInit` is left, the stable Service exists and selects the stable revision. -/
theorem initStep_first_pins (ro : Rollout) (step : Step) (c c' : Ctx) (err : Bool)
    (hstyle : ro.style = .canary) (hreal : ro.realPartition = false) (hdg : ro.disableGen = false)
    (htr : stepHasTraffic step = true) (hro : c.ro = ro) (hhas : ro.hasTraffic = true)
    (hidx : c.sub.curIdx = 1) (hinit : c.sub.state = .init)
    (h : initStep ro step c = .ok c' err) (hleft : c'.sub.state ≠ .init) :
    c'.net.stableExists = true ∧ c'.net.stableSel.getD "" = c'.sub.stableRev :=
  initStep_first_pins_of_not_full ro step c c' err hstyle hdg (by simp [hreal]) htr hro hhas hidx hinit h hleft

/-- non-vacuity: a canary-style first step of 100 % with traffic, stable Service un-pinned, no grace period:
    the step leaves `StepInit` and the Service is pinned to `v1`. (A test on one input, not the ∀ claim.) -/
example :
    let step : Step := { replicas := .pct 100, weight := some 20, pause := .manual }
    let ro : Rollout := { (default : Rollout) with style := .canary, steps := [step], hasTraffic := true, grace := 0, phase := .progressing, reason := .inRolling, realPartition := false }
    let sub : Sub := { (default : Sub) with curIdx := 1, nextIdx := -1, state := .init, stableRev := "v1", canaryRev := "v2", lastUpdate := .elapsed }
    let wl : WL := { consistent := true, inProgressAnno := true, canaryRev := "v2", stableRev := "v1", inRollback := false, replicas := 5, generation := 2, podTemplateHash := "" }
    let net : Net := { stableExists := true, stableSel := none, canarySvc := none, stableIngress := true, canaryIng := none }
    let c : Ctx := { ro := ro, sub := sub, wl := wl, br := none, net := net, mem := Mem.empty }
    (match initStep ro step c with
     | .ok c' _ => some (c'.sub.state, c'.net.stableSel)
     | .panic => none) = some (.upgrade, some "v1") := by
  decide

/-! ### which code runs when a reconcile leaves `StepInit` -/

/-- a `runCanary` round that starts in `StepInit` of a step with traffic and ends in a later sub-state ran
    `BeforeStepUpgrade` (`initStep`) of that step, on the context after `syncBatchRelease` -/
theorem runCanary_init_left (c0 c' : Ctx) (err : Bool) (step : Step) (h : runCanary c0 = .ok c' err)
    (hinit : c0.sub.state = .init)
    (hleft : c'.sub.state = .upgrade ∨ c'.sub.state = .trafficRouting ∨ c'.sub.state = .metricsAnalysis)
    (hstep : c0.ro.steps[(c0.sub.curIdx - 1).toNat]? = some step) (htraffic : stepHasTraffic step = true) :
    ∃ c3 : Ctx, initStep c0.ro step c3 = .ok c' err ∧ c3.ro = c0.ro ∧ c3.sub.curIdx = c0.sub.curIdx ∧
      c3.sub.state = .init ∧ c3.wl = c0.wl := by
  obtain ⟨y1, y2, y3, y4, y5⟩ := syncStep_sub c0
  have hne : c'.sub.state ≠ .init := by rcases hleft with h1 | h1 | h1 <;> rw [h1] <;> simp
  unfold runCanary at h
  dsimp only at h
  split at h
  · cases h
  · -- a jump lands in StepInit or StepTrafficRouting of the target step; from StepInit only in StepInit
    rename_i s2 hj
    cases h
    obtain ⟨_, j2⟩ := jump_spec _ _ _ _ hj
    obtain ⟨_, _, _, _, _, jst, jup⟩ := j2 rfl
    dsimp only at hne hleft
    rcases jst with jst | jst
    · have := jup jst
      rw [y3, hinit] at this
      unfold Upgraded at this
      simp at this
    · exact absurd jst hne
  · rename_i s2 hj
    obtain ⟨j1, _⟩ := jump_spec _ _ _ _ hj
    have hs2 := j1 rfl
    subst hs2
    split at h
    · cases h
    · rename_i step' hstep'
      have hsame : step' = step := by
        rw [y1, hstep] at hstep'
        exact (Option.some.inj hstep').symm
      subst hsame
      have hpre : preStep step' { syncStep c0 with sub := (syncStep c0).sub } = some ({ syncStep c0 with sub := (syncStep c0).sub }, true, false) := by
        unfold preStep; simp [htraffic]
      rw [hpre] at h
      dsimp only at h
      simp only [Bool.false_eq_true, if_false, not_true_eq_false] at h
      unfold stateStep at h
      dsimp only at h
      rw [y3, hinit] at h
      dsimp only at h
      exact ⟨_, h, y4, y1, by dsimp only; rw [y3]; exact hinit, y5⟩

/-- the in-rolling dispatch (`doProgressingInRolling`) moves a status out of `StepInit` / `StepUpgrade` into a later
    one of the sub-states up to `StepMetricsAnalysis` only through the release manager's `runCanary` (normal
    rolling): not through the rollback, pause, continuous-release or plan-change branches -/
theorem inRolling_progress (w : World) (old ns : Rollout) (s os : Sub) (wl : WL) (r : StepResult) (s' : Sub)
    (hold : old.sub = some os) (hns : ns.sub = some s)
    (h : inRolling w old ns s wl = .val r) (hs' : r.w.ro.sub = some s')
    (hfrom : s.state = .init ∨ s.state = .upgrade)
    (hleft : s'.state = .upgrade ∨ s'.state = .trafficRouting ∨ s'.state = .metricsAnalysis)
    (hne : s'.state ≠ s.state) :
    ∃ (c0 c' : Ctx) (err : Bool), runCanary c0 = .ok c' err ∧ c0.ro = ns ∧ c0.wl = wl ∧ c0.sub.curIdx = s.curIdx ∧
      c0.sub.state = s.state ∧ c'.sub = s' ∧ c'.net = r.w.net := by
  have stay : ∀ (P : Prop), s'.state = s.state → P := fun P h2 => absurd h2 hne
  have hnu : ¬ Upgraded s.state := by
    unfold Upgraded
    rcases hfrom with hf | hf <;> rw [hf] <;> simp
  unfold inRolling at h
  dsimp only at h
  rw [hold] at h
  dsimp only at h
  split at h
  · cases h; dsimp only at hs'; cases hs'; exact stay _ rfl
  · split at h
    · cases h; dsimp only at hs'; rw [hns] at hs'; cases hs'; exact stay _ rfl
    · split at h
      · cases h; dsimp only at hs'; cases hs'
        dsimp only at hleft; rcases hleft with h1 | h1 | h1 <;> cases h1
      · split at h
        · split at h
          · cases h; dsimp only at hs'; rw [hns] at hs'; cases hs'; exact stay _ rfl
          · split at h
            · cases h
            · rename_i c d e hreset
              obtain ⟨_, _, st⟩ := reset_next _ _ _ _ hreset
              unfold toCtx at st
              dsimp only at st
              split at h
              · cases h; unfold ofCtx at hs'; dsimp only at hs'; cases hs'; exact stay _ st
              · split at h
                · cases h; unfold ofCtx at hs'; dsimp only at hs'; cases hs'
                · cases h; unfold ofCtx at hs'; dsimp only at hs'; cases hs'; exact stay _ st
        · split at h
          · split at h
            · cases h
            · split at h
              · cases h; dsimp only at hs'; cases hs'
                dsimp only at hleft; rcases hleft with h1 | h1 | h1 <;> cases h1
              · split at h
                · cases h
                · rename_i s2 j hj
                  cases h; dsimp only at hs'; cases hs'
                  obtain ⟨j1, j2⟩ := jump_spec _ _ _ _ hj
                  cases j with
                  | false => have := j1 rfl; subst this; exact stay _ rfl
                  | true =>
                    obtain ⟨_, _, _, _, _, jst, jup⟩ := j2 rfl
                    rcases jst with jst | jst
                    · exact absurd (jup jst) hnu
                    · rw [jst] at hleft; rcases hleft with h1 | h1 | h1 <;> cases h1
          · split at h
            · rename_i hcomp
              rcases hfrom with hf | hf <;> rw [hf] at hcomp <;> cases hcomp
            · split at h
              · cases h
              · rename_i c e hrun
                cases h
                unfold ofCtx at hs' ⊢; dsimp only at hs' ⊢; cases hs'
                generalize hs0 : (if s.nextIdx ≤ 0 ∨ s.nextIdx > (ns.steps.length : Int) then
                    { s with nextIdx := nextBatchIndex ns.steps.length s.curIdx } else s) = s0 at hrun
                have hc0 : s0.curIdx = s.curIdx := by rw [← hs0]; split <;> rfl
                have hst0 : s0.state = s.state := by rw [← hs0]; split <;> rfl
                exact ⟨_, _, _, hrun, by unfold toCtx; rfl, by unfold toCtx; rfl, by unfold toCtx; exact hc0,
                  by unfold toCtx; exact hst0, rfl, rfl⟩

/-- how a reconcile of a rolling rollout with a readable workload that moves the status out of `StepInit` /
    `StepUpgrade` (to a later sub-state up to `StepMetricsAnalysis`) is computed: by one `runCanary` round on the
    rollout's own configuration -/
theorem reconcile_progress_core (w : World) (r : StepResult) (h : reconcileCore w = .val r) (os s' : Sub) (wl : WL)
    (hos : w.ro.sub = some os) (hs' : r.w.ro.sub = some s') (hw : w.wl = some wl)
    (hnow : inRollingNow w.ro = true) (hcons : wl.consistent = true)
    (hfrom : os.state = .init ∨ os.state = .upgrade)
    (hleft : s'.state = .upgrade ∨ s'.state = .trafficRouting ∨ s'.state = .metricsAnalysis)
    (hne : s'.state ≠ os.state) :
    ∃ (c0 c' : Ctx) (err : Bool), runCanary c0 = .ok c' err ∧ Same w.ro c0.ro ∧ c0.wl = wl ∧ c0.sub.curIdx = os.curIdx ∧
      c0.sub.state = os.state ∧ c'.sub = s' ∧ c'.net = r.w.net := by
  unfold inRollingNow at hnow
  simp only [Bool.and_eq_true, decide_eq_true_eq, Bool.not_eq_true'] at hnow
  obtain ⟨⟨hph, hr⟩, hndel⟩ := hnow
  obtain ⟨ns, s, hsame, hs, hcore, hreason, hrec⟩ := reconcile_inRolling_core w wl os hph hr hw hcons hos
  simp only [subCore, Prod.mk.injEq] at hcore
  obtain ⟨c1, _, c3, _⟩ := hcore
  rw [hrec] at h
  split at h
  · cases h
  · rename_i r0 hir
    split at h
    · cases h
      exfalso
      dsimp only at hs'; rw [hf_frame w.ro] at hs'; dsimp only at hs'; rw [hos] at hs'; cases hs'
      exact hne rfl
    · cases h
      obtain ⟨c0, c', err, hrun, hro, hwl, hidx, hst, hsub, hnet⟩ :=
        inRolling_progress w w.ro ns s os wl r0 s' hos hs hir hs' (by rw [c3]; exact hfrom) hleft (by rw [c3]; exact hne)
      exact ⟨c0, c', err, hrun, by rw [hro]; exact hsame, hwl, by rw [hidx, c1], by rw [hst, c3], hsub, hnet⟩

/-! ### C03.iv — whole reconcile -/

/-- **C03.iv (whole reconcile)** — for every world with a readable workload: when one reconcile moves a rolling
    canary rollout (traffic routing configured, canary Service generation enabled) out of `StepInit` of its first
    step, a step with traffic — i.e. hands the first batch to the BatchRelease, before which no canary pod exists —
    the stable Service exists and selects the stable revision afterwards.  For a canary-style rollout
    (`realPartition = false`) whatever the step's replicas; for a partition-style one unless the step replaces every
    stable pod (the case of `full_step_unpins_first`). -/
theorem first_step_pins_stable_core (w : World) (r : StepResult) (h : reconcileCore w = .val r) :
    firstStepPinsStable w r = true := by
  unfold firstStepPinsStable
  cases hos : w.ro.sub with
  | none => rfl
  | some os =>
  cases hs' : r.w.ro.sub with
  | none => rfl
  | some s' =>
  cases hw : w.wl with
  | none => rfl
  | some wl =>
  dsimp only
  split
  · rename_i hc
    obtain ⟨hnow, hrr, hhas, hcons, hinit, hleft, hcur, hfirst⟩ := hc
    obtain ⟨c0, c', err, hrun, hsame, hwl, hidx, hst, hsub, hnet⟩ :=
      reconcile_progress_core w r h os s' wl hos hs' hw hnow hcons (Or.inl hinit) hleft
        (by rw [hinit]; rcases hleft with h1 | h1 | h1 <;> rw [h1] <;> simp)
    unfold pinnedFirstStep at hfirst
    split at hfirst
    · rename_i st hstep
      simp only [Bool.and_eq_true, decide_eq_true_eq, Bool.not_eq_true', Bool.and_eq_false_imp] at hfirst
      obtain ⟨⟨⟨⟨hstyle, hdg⟩, htr⟩, hone⟩, hnf⟩ := hfirst
      have hstep0 : c0.ro.steps[(c0.sub.curIdx - 1).toNat]? = some st := by
        rw [hidx, hsame.1]; exact hstep
      obtain ⟨c3', hin, e1, e2, e3, e4⟩ :=
        runCanary_init_left c0 c' err st hrun (by rw [hst]; exact hinit) (by rw [hsub]; exact hleft) hstep0 htr
      have hpin := initStep_first_pins_of_not_full c0.ro st c3' c' err (by rw [hsame.2.2.1]; exact hstyle)
        (by rw [hsame.2.2.2.2.2.1]; exact hdg)
        (by
          rw [e4, hwl, hsame.2.2.2.2.2.2.2.2.2]
          intro hx
          have := hnf hx.1
          rw [hx.2] at this
          cases this)
        htr e1 (by rw [hsame.2.1]; exact hhas) (by rw [e2, hidx]; exact hone) e3 hin
        (by rw [hsub]; rcases hleft with h1 | h1 | h1 <;> rw [h1] <;> simp)
      rw [← hnet, ← hsub]
      simp [hpin.1, hpin.2]
    · cases hfirst
  · rfl

/-! ### C03 / C04 — the bypass past `StepTrafficRouting` is partition-style only -/

/-- **C04 (scope of the full-step clause)** — a step counts as "replaces every stable pod" only for a partition-style
    canary rollout: `full_step_unpins_first` demands an un-pinned stable Service of no canary-style rollout. -/
theorem fullStep_partition_only (ro : Rollout) (s : Sub) (wl : WL) (h : fullStep ro s wl = true) :
    ro.style = .canary ∧ ro.realPartition = true := by
  unfold fullStep at h
  split at h
  · simp only [Bool.and_eq_true, decide_eq_true_eq] at h
    exact ⟨h.1.1.1, h.2⟩
  · cases h

/-- `StepUpgrade` ends in the same sub-state, in `StepTrafficRouting`, or — only for a partition-style canary rollout
    on a step whose replicas cover the whole workload — in `StepMetricsAnalysis` -/
theorem upgradeStep_bypass (ro : Rollout) (step : Step) (c c' : Ctx) (err : Bool)
    (h : upgradeStep ro step c = .ok c' err) :
    c'.sub.state = c.sub.state ∨ c'.sub.state = .trafficRouting ∨
    (c'.sub.state = .metricsAnalysis ∧ ro.style = .canary ∧ ro.realPartition = true ∧
      scaledV step.replicas c.wl.replicas true ≥ c.wl.replicas) := by
  unfold upgradeStep at h
  dsimp only at h
  split at h
  · simp only [RunOut.ok.injEq] at h
    obtain ⟨hc, _⟩ := h
    subst hc
    dsimp only
    split
    · rename_i hb; exact Or.inr (Or.inr ⟨rfl, hb.1, hb.2.2, hb.2.1⟩)
    · exact Or.inr (Or.inl rfl)
  · simp only [RunOut.ok.injEq] at h
    obtain ⟨hc, _⟩ := h
    subst hc
    exact Or.inl rfl

/-- `BeforeStepUpgrade` never ends in `StepMetricsAnalysis` except for a partition-style canary rollout -/
theorem initStep_bypass (ro : Rollout) (step : Step) (c c' : Ctx) (err : Bool) (hst : c.sub.state = .init)
    (h : initStep ro step c = .ok c' err) :
    c'.sub.state ≠ .metricsAnalysis ∨ (ro.style = .canary ∧ ro.realPartition = true) := by
  have hk : ∀ c1 : Ctx,
      upgradeStep ro step { c1 with sub := { c1.sub with state := .upgrade, lastUpdate := .fresh } } = .ok c' err →
      (c'.sub.state ≠ .metricsAnalysis ∨ (ro.style = .canary ∧ ro.realPartition = true)) := by
    intro c1 hu
    rcases upgradeStep_bypass _ _ _ _ _ hu with hx | hx | hx
    · left; rw [hx]; simp
    · left; rw [hx]; simp
    · right; exact ⟨hx.2.1, hx.2.2.1⟩
  have hstop : ∀ c1 : Ctx, c1.sub.state = c.sub.state → (c' = c1 ∨ c' = { c1 with requeue := true }) →
      (c'.sub.state ≠ .metricsAnalysis ∨ (ro.style = .canary ∧ ro.realPartition = true)) := by
    intro c1 h2 hc
    left
    have e1 : c'.sub = c1.sub := by rcases hc with hc | hc <;> rw [hc]
    rw [e1, h2, hst]; simp
  unfold initStep at h
  dsimp only at h
  split at h
  · split at h
    · simp only [RunOut.ok.injEq] at h
      obtain ⟨hc, _⟩ := h; subst hc
      left; simp
    · obtain ⟨c1, rt, e, hr1, hcase⟩ := afterRetryCall_spec _ _ c' err h
      have hc1 : c1.sub.state = c.sub.state := by
        split at hr1
        · exact (callTM_sub _ _ _ _ _ _ hr1).2.1
        · simp only [Option.some.injEq, Prod.mk.injEq] at hr1; rw [← hr1.1]
      rcases hcase with ⟨hc, _⟩ | ⟨hc, _⟩ | ⟨_, _, hcont⟩
      · exact hstop c1 hc1 (Or.inl hc)
      · exact hstop c1 hc1 (Or.inr hc)
      · obtain ⟨c2, rt2, e2, hr2, hcase2⟩ := afterRetryCall_spec _ _ c' err hcont
        have hc2 : c2.sub.state = c.sub.state := by
          split at hr2
          · rw [(callTM_sub _ _ _ _ _ _ hr2).2.1, hc1]
          · simp only [Option.some.injEq, Prod.mk.injEq] at hr2; rw [← hr2.1]; exact hc1
        rcases hcase2 with ⟨hc, _⟩ | ⟨hc, _⟩ | ⟨_, _, hcont2⟩
        · exact hstop c2 hc2 (Or.inl hc)
        · exact hstop c2 hc2 (Or.inr hc)
        · exact hk c2 hcont2
  · obtain ⟨c1, rt, e, hr1, hcase⟩ := afterRetryCall_spec _ _ c' err h
    have hc1 : c1.sub.state = c.sub.state := by
      split at hr1
      · exact (callTM_sub _ _ _ _ _ _ hr1).2.1
      · simp only [Option.some.injEq, Prod.mk.injEq] at hr1; rw [← hr1.1]
    rcases hcase with ⟨hc, _⟩ | ⟨hc, _⟩ | ⟨_, _, hcont⟩
    · exact hstop c1 hc1 (Or.inl hc)
    · exact hstop c1 hc1 (Or.inr hc)
    · exact hk c1 hcont

/-- **C03 / C04 (one `runCanary`)** — for every context: a round of the release manager that starts in `StepInit` or
    `StepUpgrade` and ends in `StepMetricsAnalysis` — i.e. skips `StepTrafficRouting` — belongs to a partition-style
    canary rollout.  A canary-style rollout (`realPartition = false`) never skips it. -/
theorem runCanary_bypass (c0 c' : Ctx) (err : Bool) (h : runCanary c0 = .ok c' err)
    (hfrom : c0.sub.state = .init ∨ c0.sub.state = .upgrade) (hto : c'.sub.state = .metricsAnalysis) :
    c0.ro.style = .canary ∧ c0.ro.realPartition = true := by
  obtain ⟨y1, y2, y3, y4, y5⟩ := syncStep_sub c0
  have hnm : c0.sub.state ≠ .metricsAnalysis := by rcases hfrom with hf | hf <;> rw [hf] <;> simp
  unfold runCanary at h
  dsimp only at h
  split at h
  · cases h
  · rename_i s2 hj
    cases h
    obtain ⟨_, j2⟩ := jump_spec _ _ _ _ hj
    obtain ⟨_, _, _, _, _, jst, _⟩ := j2 rfl
    dsimp only at hto
    rcases jst with jst | jst <;> (rw [jst] at hto; cases hto)
  · rename_i s2 hj
    obtain ⟨j1, _⟩ := jump_spec _ _ _ _ hj
    have hs2 := j1 rfl
    subst hs2
    split at h
    · cases h
    · rename_i step hstep
      split at h
      · cases h
      · rename_i c3 done e hpre
        have hc3 : c3.sub.state = c0.sub.state := by
          unfold preStep at hpre
          split at hpre
          · rw [(callTM_sub _ _ _ _ _ _ hpre).2.1]; exact y3
          · simp only [Option.some.injEq, Prod.mk.injEq] at hpre; rw [← hpre.1]; exact y3
        split at h
        · simp only [RunOut.ok.injEq] at h
          rw [← h.1, hc3] at hto
          exact absurd hto hnm
        · split at h
          · simp only [RunOut.ok.injEq] at h
            rw [← h.1] at hto
            dsimp only at hto
            rw [hc3] at hto
            exact absurd hto hnm
          · unfold stateStep at h
            dsimp only at h
            rcases hfrom with hf | hf
            · rw [hc3, hf] at h
              dsimp only at h
              rcases initStep_bypass _ _ _ _ _ (hc3.trans hf) h with hx | hx
              · exact absurd hto hx
              · exact hx
            · rw [hc3, hf] at h
              dsimp only at h
              rcases upgradeStep_bypass _ _ _ _ _ h with hx | hx | hx
              · rw [hx, hc3] at hto; exact absurd hto hnm
              · rw [hx] at hto; cases hto
              · exact ⟨hx.2.1, hx.2.2.1⟩

/-- **C03 / C04 (whole reconcile)** — for every world with a readable workload: a reconcile that takes a rolling
    rollout from `StepInit` / `StepUpgrade` straight to `StepMetricsAnalysis` (the step's traffic routing is skipped)
    is a reconcile of a partition-style canary rollout; a canary-style rollout always passes `StepTrafficRouting`. -/
theorem bypass_partition_only_core (w : World) (r : StepResult) (h : reconcileCore w = .val r) :
    bypassPartitionOnly w r = true := by
  unfold bypassPartitionOnly
  cases hos : w.ro.sub with
  | none => rfl
  | some os =>
  cases hs' : r.w.ro.sub with
  | none => rfl
  | some s' =>
  cases hw : w.wl with
  | none => rfl
  | some wl =>
  dsimp only
  split
  · rename_i hc
    obtain ⟨hnow, hrr, hcons, hfrom, hto⟩ := hc
    obtain ⟨c0, c', err, hrun, hsame, hwl, hidx, hst, hsub, hnet⟩ :=
      reconcile_progress_core w r h os s' wl hos hs' hw hnow hcons hfrom (Or.inr (Or.inr hto))
        (by rw [hto]; rcases hfrom with hf | hf <;> rw [hf] <;> simp)
    have hb := runCanary_bypass c0 c' err hrun (by rw [hst]; exact hfrom) (by rw [hsub]; exact hto)
    rw [hsame.2.2.1, hsame.2.2.2.2.2.2.2.2.2] at hb
    simp [hb.1, hb.2]
  · rfl

/-- non-vacuity of the bypass statement: a partition-style 100 % step whose batch is reported ready does skip
    `StepTrafficRouting`; the same world as a canary-style rollout does not. (A test on two inputs.) -/
example :
    let step : Step := { replicas := .pct 100, weight := some 20, pause := .manual }
    let ro : Rollout := { (default : Rollout) with style := .canary, steps := [step], hasTraffic := true, grace := 0, phase := .progressing, reason := .inRolling }
    let sub : Sub := { (default : Sub) with curIdx := 1, nextIdx := -1, state := .upgrade, stableRev := "v1", canaryRev := "v2", lastUpdate := .elapsed }
    let wl : WL := { consistent := true, inProgressAnno := true, canaryRev := "v2", stableRev := "v1", inRollback := false, replicas := 5, generation := 2 }
    let br : BR := { (desiredBR ro "v2" 0 false) with batchReady := true, hashSame := true }
    let net : Net := { stableExists := true, stableSel := some "v1", canarySvc := none, stableIngress := true, canaryIng := none }
    let c : Ctx := { ro := ro, sub := sub, wl := wl, br := some br, net := net, mem := Mem.empty }
    let st (o : RunOut) : Option StepState := match o with | .ok c' _ => some c'.sub.state | .panic => none
    st (upgradeStep ro step c) = some .metricsAnalysis ∧
    st (upgradeStep { ro with realPartition := false } step { c with ro := { ro with realPartition := false } }) = some .trafficRouting := by
  decide

/-! ### C03 — the recorded pod-template hash is the workload's -/

theorem upgradeStep_podHash (ro : Rollout) (step : Step) (c c' : Ctx) (err : Bool)
    (h : upgradeStep ro step c = .ok c' err) :
    c'.sub.state = c.sub.state ∨ c'.sub.podHash = c.wl.podTemplateHash := by
  unfold upgradeStep at h
  dsimp only at h
  split at h
  · simp only [RunOut.ok.injEq] at h
    obtain ⟨hc, _⟩ := h
    subst hc
    exact Or.inr rfl
  · simp only [RunOut.ok.injEq] at h
    obtain ⟨hc, _⟩ := h
    subst hc
    exact Or.inl rfl

theorem initStep_podHash (ro : Rollout) (step : Step) (c c' : Ctx) (err : Bool) (hst : c.sub.state = .init)
    (h : initStep ro step c = .ok c' err) :
    c'.sub.state = .init ∨ c'.sub.state = .upgrade ∨ c'.sub.podHash = c.wl.podTemplateHash := by
  have hk : ∀ c1 : Ctx, c1.wl = c.wl →
      upgradeStep ro step { c1 with sub := { c1.sub with state := .upgrade, lastUpdate := .fresh } } = .ok c' err →
      (c'.sub.state = .init ∨ c'.sub.state = .upgrade ∨ c'.sub.podHash = c.wl.podTemplateHash) := by
    intro c1 hw hu
    rcases upgradeStep_podHash _ _ _ _ _ hu with hx | hx
    · exact Or.inr (Or.inl hx)
    · right; right; rw [hx]; dsimp only; rw [hw]
  have hstop : ∀ c1 : Ctx, c1.sub.state = c.sub.state → (c' = c1 ∨ c' = { c1 with requeue := true }) →
      (c'.sub.state = .init ∨ c'.sub.state = .upgrade ∨ c'.sub.podHash = c.wl.podTemplateHash) := by
    intro c1 h2 hc
    left
    have e1 : c'.sub = c1.sub := by rcases hc with hc | hc <;> rw [hc]
    rw [e1, h2, hst]
  unfold initStep at h
  dsimp only at h
  split at h
  · split at h
    · simp only [RunOut.ok.injEq] at h
      obtain ⟨hc, _⟩ := h; subst hc
      exact Or.inr (Or.inl rfl)
    · obtain ⟨c1, rt, e, hr1, hcase⟩ := afterRetryCall_spec _ _ c' err h
      have hc1 : c1.sub.state = c.sub.state ∧ c1.wl = c.wl := by
        split at hr1
        · exact ⟨(callTM_sub _ _ _ _ _ _ hr1).2.1, (callTM_sub _ _ _ _ _ _ hr1).2.2.2.2.1⟩
        · simp only [Option.some.injEq, Prod.mk.injEq] at hr1; rw [← hr1.1]; exact ⟨rfl, rfl⟩
      rcases hcase with ⟨hc, _⟩ | ⟨hc, _⟩ | ⟨_, _, hcont⟩
      · exact hstop c1 hc1.1 (Or.inl hc)
      · exact hstop c1 hc1.1 (Or.inr hc)
      · obtain ⟨c2, rt2, e2, hr2, hcase2⟩ := afterRetryCall_spec _ _ c' err hcont
        have hc2 : c2.sub.state = c.sub.state ∧ c2.wl = c.wl := by
          split at hr2
          · exact ⟨by rw [(callTM_sub _ _ _ _ _ _ hr2).2.1, hc1.1], by rw [(callTM_sub _ _ _ _ _ _ hr2).2.2.2.2.1, hc1.2]⟩
          · simp only [Option.some.injEq, Prod.mk.injEq] at hr2; rw [← hr2.1]; exact hc1
        rcases hcase2 with ⟨hc, _⟩ | ⟨hc, _⟩ | ⟨_, _, hcont2⟩
        · exact hstop c2 hc2.1 (Or.inl hc)
        · exact hstop c2 hc2.1 (Or.inr hc)
        · exact hk c2 hc2.2 hcont2
  · obtain ⟨c1, rt, e, hr1, hcase⟩ := afterRetryCall_spec _ _ c' err h
    have hc1 : c1.sub.state = c.sub.state ∧ c1.wl = c.wl := by
      split at hr1
      · exact ⟨(callTM_sub _ _ _ _ _ _ hr1).2.1, (callTM_sub _ _ _ _ _ _ hr1).2.2.2.2.1⟩
      · simp only [Option.some.injEq, Prod.mk.injEq] at hr1; rw [← hr1.1]; exact ⟨rfl, rfl⟩
    rcases hcase with ⟨hc, _⟩ | ⟨hc, _⟩ | ⟨_, _, hcont⟩
    · exact hstop c1 hc1.1 (Or.inl hc)
    · exact hstop c1 hc1.1 (Or.inr hc)
    · exact hk c1 hc1.2 hcont

/-- **C03 (one `runCanary`)** — for every context: a round of the release manager that starts in `StepInit` /
    `StepUpgrade` and ends in `StepTrafficRouting` / `StepMetricsAnalysis` (the step's pods were reported ready)
    records the workload's current `PodTemplateHash` — the canary ReplicaSet's hash for a canary-style Deployment. -/
theorem runCanary_podHash (c0 c' : Ctx) (err : Bool) (h : runCanary c0 = .ok c' err)
    (hfrom : c0.sub.state = .init ∨ c0.sub.state = .upgrade)
    (hto : c'.sub.state = .trafficRouting ∨ c'.sub.state = .metricsAnalysis) :
    c'.sub.podHash = c0.wl.podTemplateHash := by
  obtain ⟨y1, y2, y3, y4, y5⟩ := syncStep_sub c0
  have hnu : ¬ Upgraded c0.sub.state := by
    unfold Upgraded
    rcases hfrom with hf | hf <;> rw [hf] <;> simp
  have hnt : ∀ st : StepState, st = c0.sub.state → (st = .trafficRouting ∨ st = .metricsAnalysis) → False := by
    intro st e hx
    rw [e] at hx
    rcases hfrom with hf | hf <;> rw [hf] at hx <;> rcases hx with hx | hx <;> cases hx
  unfold runCanary at h
  dsimp only at h
  split at h
  · cases h
  · rename_i s2 hj
    cases h
    obtain ⟨_, j2⟩ := jump_spec _ _ _ _ hj
    obtain ⟨_, _, _, _, _, jst, jup⟩ := j2 rfl
    dsimp only at hto
    rcases jst with jst | jst
    · have := jup jst
      rw [y3] at this
      exact absurd this hnu
    · rw [jst] at hto; rcases hto with hx | hx <;> cases hx
  · rename_i s2 hj
    obtain ⟨j1, _⟩ := jump_spec _ _ _ _ hj
    have hs2 := j1 rfl
    subst hs2
    split at h
    · cases h
    · rename_i step hstep
      split at h
      · cases h
      · rename_i c3 done e hpre
        have hc3 : c3.sub.state = c0.sub.state ∧ c3.wl = c0.wl := by
          unfold preStep at hpre
          split at hpre
          · exact ⟨by rw [(callTM_sub _ _ _ _ _ _ hpre).2.1]; exact y3, by rw [(callTM_sub _ _ _ _ _ _ hpre).2.2.2.2.1]; exact y5⟩
          · simp only [Option.some.injEq, Prod.mk.injEq] at hpre; rw [← hpre.1]; exact ⟨y3, y5⟩
        split at h
        · simp only [RunOut.ok.injEq] at h
          rw [← h.1] at hto
          exact (hnt _ hc3.1 hto).elim
        · split at h
          · simp only [RunOut.ok.injEq] at h
            rw [← h.1] at hto
            dsimp only at hto
            exact (hnt _ hc3.1 hto).elim
          · unfold stateStep at h
            dsimp only at h
            rcases hfrom with hf | hf
            · rw [hc3.1, hf] at h
              dsimp only at h
              rcases initStep_podHash _ _ _ _ _ (hc3.1.trans hf) h with hx | hx | hx
              · rw [hx] at hto; rcases hto with hx | hx <;> cases hx
              · rw [hx] at hto; rcases hto with hx | hx <;> cases hx
              · rw [hx, hc3.2]
            · rw [hc3.1, hf] at h
              dsimp only at h
              rcases upgradeStep_podHash _ _ _ _ _ h with hx | hx
              · rw [hx] at hto; exact (hnt _ hc3.1 hto).elim
              · rw [hx, hc3.2]

/-- **C03 (whole reconcile)** — for every world with a readable workload: a reconcile that finds the step's pods ready
    (status from `StepInit` / `StepUpgrade` to `StepTrafficRouting` / `StepMetricsAnalysis`) records the workload's
    `PodTemplateHash` as reported by the finder in this very reconcile. -/
theorem upgrade_records_pod_hash_core (w : World) (r : StepResult) (h : reconcileCore w = .val r) :
    upgradeRecordsPodHash w r = true := by
  unfold upgradeRecordsPodHash
  cases hos : w.ro.sub with
  | none => rfl
  | some os =>
  cases hs' : r.w.ro.sub with
  | none => rfl
  | some s' =>
  cases hw : w.wl with
  | none => rfl
  | some wl =>
  dsimp only
  split
  · rename_i hc
    obtain ⟨hnow, hrr, hcons, hfrom, hto⟩ := hc
    obtain ⟨c0, c', err, hrun, hsame, hwl, hidx, hst, hsub, hnet⟩ :=
      reconcile_progress_core w r h os s' wl hos hs' hw hnow hcons hfrom
        (by rcases hto with hx | hx
            · exact Or.inr (Or.inl hx)
            · exact Or.inr (Or.inr hx))
        (by rcases hto with hx | hx <;> rw [hx] <;> rcases hfrom with hf | hf <;> rw [hf] <;> simp)
    have hb := runCanary_podHash c0 c' err hrun (by rw [hst]; exact hfrom) (by rw [hsub]; exact hto)
    rw [hsub, hwl] at hb
    simp [hb]
  · rfl

/-! ### the whole reconcile (body + cursor reset, see `RV.Props.Reconcile`, section Transfer) -/

theorem firstStepPinsStable_reset (w : World) (r : StepResult) : firstStepPinsStable w (resetOnExit w r) = firstStepPinsStable w r := by
  unfold firstStepPinsStable; reset_frame
  cases w.ro.sub <;> cases r.w.ro.sub <;> cases w.wl <;> rfl

theorem bypassPartitionOnly_reset (w : World) (r : StepResult) : bypassPartitionOnly w (resetOnExit w r) = bypassPartitionOnly w r := by
  unfold bypassPartitionOnly; reset_frame
  cases w.ro.sub <;> cases r.w.ro.sub <;> cases w.wl <;> rfl

theorem upgradeRecordsPodHash_reset (w : World) (r : StepResult) :
    upgradeRecordsPodHash w (resetOnExit w r) = upgradeRecordsPodHash w r := by
  unfold upgradeRecordsPodHash; reset_frame
  cases w.ro.sub <;> cases r.w.ro.sub <;> cases w.wl <;> rfl

/-- **C03.iv (whole reconcile)** — see `first_step_pins_stable_core` -/
theorem first_step_pins_stable (w : World) (r : StepResult) (h : reconcile w = .val r) : firstStepPinsStable w r = true :=
  transfer firstStepPinsStable firstStepPinsStable_reset first_step_pins_stable_core w r h

/-- **C03 / C04 (whole reconcile)** — see `bypass_partition_only_core` -/
theorem bypass_partition_only (w : World) (r : StepResult) (h : reconcile w = .val r) : bypassPartitionOnly w r = true :=
  transfer bypassPartitionOnly bypassPartitionOnly_reset bypass_partition_only_core w r h

/-- **C03 (whole reconcile)** — see `upgrade_records_pod_hash_core` -/
theorem upgrade_records_pod_hash (w : World) (r : StepResult) (h : reconcile w = .val r) : upgradeRecordsPodHash w r = true :=
  transfer upgradeRecordsPodHash upgradeRecordsPodHash_reset upgrade_records_pod_hash_core w r h

end RV.Props.CanaryStyle
