import RV.Props.PauseThms
/-!
# C02 / C03 — the natural advance starts the next step from its beginning

`runCanary_natural_advance_starts_init`: one round of the release manager (canary and blue-green, partition and canary
style) that starts in `StepReady` of step k without a jump request and ends at step k+1 ends in `StepInit`
(BeforeStepUpgrade) of that step: the next step's pods are upgraded and reported ready before it routes any traffic, whatever
its replicas are (a "traffic-only" step with the replicas of its predecessor included).  Every plan, status, workload,
BatchRelease and network state.  The whole-reconcile form is the clause `C02.natural_advance_starts_init`, evaluated on
every real reconcile of suite `rolloutsm`.
-/
namespace RV.Props.Advance
open RV.Arith RV.Traffic RV.RolloutSM RV.Oracle.RolloutSM RV.Props.Rollout RV.Props.Reconcile RV.Props.CanaryStyle RV.Props.Pause

theorem runCanary_natural_advance_starts_init (c0 c' : Ctx) (err : Bool) (h : runCanary c0 = .ok c' err)
    (hst : c0.sub.state = .ready) (hnj : jumpRequested c0.ro c0.sub = false)
    (hadv : c'.sub.curIdx = c0.sub.curIdx + 1) : c'.sub.state = .init := by
  obtain ⟨y1, y2, y3, y4, y5⟩ := syncStep_sub c0
  unfold runCanary at h
  dsimp only at h
  split at h
  · cases h
  · -- a jump needs a jump request
    rename_i s2 hj
    obtain ⟨_, hjs⟩ := jump_spec _ _ _ _ hj
    obtain ⟨j1, j2, j3, _⟩ := hjs rfl
    rw [y1, y2] at j1
    rw [y2] at j2 j3
    unfold jumpRequested at hnj
    simp only [decide_eq_false_iff_not] at hnj
    exact absurd ⟨j1, by omega, j3⟩ hnj
  · rename_i s2 hj
    obtain ⟨hsame, _⟩ := jump_spec _ _ _ _ hj
    have hs2 : s2 = (syncStep c0).sub := hsame rfl
    subst hs2
    split at h
    · cases h
    · rename_i step hstep
      split at h
      · cases h
      · rename_i c3 done e hpre
        have hc3 : c3.sub.curIdx = c0.sub.curIdx ∧ c3.sub.state = .ready ∧ c3.ro = c0.ro := by
          unfold preStep at hpre
          split at hpre
          · obtain ⟨a, b, _, r, _, _, _⟩ := callTM_sub _ _ _ _ _ _ hpre
            dsimp only at a b r
            exact ⟨by rw [a, y1], by rw [b, y3, hst], by rw [r, y4]⟩
          · simp only [Option.some.injEq, Prod.mk.injEq] at hpre
            rw [← hpre.1]; exact ⟨y1, by rw [y3, hst], y4⟩
        split at h
        · simp only [RunOut.ok.injEq] at h; obtain ⟨hc, _⟩ := h
          rw [← hc, hc3.1] at hadv; omega
        · split at h
          · simp only [RunOut.ok.injEq] at h; obtain ⟨hc, _⟩ := h
            rw [← hc] at hadv; dsimp only at hadv; rw [hc3.1] at hadv; omega
          · simp only [stateStep, hc3.2.1] at h
            split at h
            · simp only [RunOut.ok.injEq] at h; obtain ⟨hc, _⟩ := h
              rw [← hc]
            · simp only [RunOut.ok.injEq] at h; obtain ⟨hc, _⟩ := h
              rw [← hc] at hadv; dsimp only at hadv; rw [hc3.1] at hadv; omega

/-- non-vacuity: a two-step plan whose second step keeps the replicas of the first, in `StepReady` of step 1 -/
example :
    let ro : Rollout := { (default : Rollout) with steps := [{ replicas := .int 3, weight := some 5, pause := .manual },
                                                             { replicas := .int 3, weight := some 50, pause := .manual }] }
    let s : Sub := { (default : Sub) with curIdx := 1, nextIdx := 2, state := .ready }
    jumpRequested ro s = false := by decide

end RV.Props.Advance
