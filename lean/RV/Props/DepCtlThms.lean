import RV.Lemmas.DepCtl
/-!
# The advanced Deployment controller around `syncDeployment` (slice `depctl`; attached to C17, C07, C08, C06)

`w` ranges over *all* worlds one `ReconcileDeployment.Reconcile` can start from: any combination of control-info
annotation, strategy type, `spec.paused`, strategy annotation (absent / unparsable / parsed with any rolling style,
partition, fenceposts, paused flag), selector, webhook configuration (present / absent / terminating), status as
read, extra-status annotation, ReplicaSets of any number / sizes / statuses (the state of `RV.DepSync`), and any
injected API fault.  `reconcile w` is the model of one Reconcile (`RV.Model.DepCtl`, tied to the Go code by suite
`depctl`), `post w` the world the next Reconcile reads.  The clause predicates are the `Bool` functions of
`RV.Oracle.DepCtl`, the same ones the driver evaluates on the *implementation's* outcome.

| clause | theorems |
|---|---|
| 1 only ours | `gate_characterised`, `only_ours`, `only_ours_frame` |
| 2 admission protection | `protection_restores_native`, `protection_one_write`, `protection_idempotent` |
| 3 extra status | `extra_status_exact`, `expected_is_partition_limit`, `extra_status_fixed_point` |
| 4 requeue | `satisfied_iff`, `requeue_until_satisfied`, `requeue_drives_progress` |
| 5 errors | `errors_aggregated_partial` (guard `swallowedScaleDown`), `errors_aggregated_full_FALSE`, `swallow_region_is_old_scale_down`, `both_attempted` |
| 6 paused / deleting | `paused_scales_only`, `deleting_status_only` |
| watches | `watch_passes_relevant_updates`, `watch_drops_foreign`, `hook_event_wakes_protected` |
-/
namespace RV.Props.DepCtl
open RV.Arith RV.DepSync RV.DepCtl RV.Oracle.DepCtl RV.Oracle.C17 RV.Lemmas.DepCtl

/-! ## 1. only ours -/

/-- who is "ours": exactly a Deployment with the control-info annotation, strategy type `Recreate`, `spec.paused`,
    a parsable strategy annotation and a rolling style other than `Canary`. -/
theorem gate_characterised (w : World) :
    newController w = true ↔
      w.ctrl = true ∧ w.stype = .recreate ∧ w.specPaused = true ∧ w.anno = .ok ∧ w.style ≠ .canary :=
  newController_iff w

/-- **only ours**: a Deployment that does not exist, is not under rollout control, has an absent / unparsable
    strategy annotation, or rolls in canary style gets no write at all. -/
theorem only_ours (w : World) : onlyOurs w (reconcile w) = true := by
  unfold onlyOurs
  by_cases hg : w.fault.getD = true
  · simp [ignoredW, reachesGate, hg]
  · have hg' : w.fault.getD = false := by simpa using hg
    by_cases hp : w.present = true
    · by_cases hc : newController w = true
      · simp [ignoredW, reachesGate, hg', hp, hc]
      · have hc' : newController w = false := by simpa using hc
        rw [reconcile_ignored w hg' hp hc']
        simp [quiet, sameSizes]
    · have hp' : w.present = false := by simpa using hp
      rw [reconcile_notFound w hg' hp']
      simp [quiet, sameSizes]

/-- the same, spelled out as a frame over everything the model tracks: no API write, and the next Reconcile
    reads the same object and the same ReplicaSets. -/
theorem only_ours_frame (w : World) (hg : w.fault.getD = false) (hp : w.present = true)
    (hc : newController w = false) :
    (reconcile w).calls = [] ∧ (reconcile w).untouched = true ∧ (reconcile w).res = .ok ∧
    (reconcile w).stype = w.stype ∧ (reconcile w).ru = w.ru ∧ (reconcile w).extra = w.extra ∧
    (reconcile w).new = w.s.new ∧ (reconcile w).olds = w.s.olds ∧
    (reconcile w).statusReplicas = w.s.statusReplicas ∧ (reconcile w).statusUpdated = w.statusUpdated ∧
    (reconcile w).obsGen = w.obsGen := by
  rw [reconcile_ignored w hg hp hc]
  simp [quiet]

-- non-vacuity: a canary-style Deployment with old pods to roll is ignored; the same Deployment in partition style is scaled
private def wEx : World :=
  { present := true, ctrl := true, stype := .recreate, ru := none, specPaused := true, anno := .ok, style := .partition,
    sel := .normal, hook := .present, gen := 2, obsGen := 2, statusUpdated := 2, newReady := 1, extra := .absent, fault := {},
    s := { replicas := 10, partition := .int 4, rolling := true, maxSurge := some (.int 2), maxUnavailable := some (.pct 20),
           paused := false, deleting := false, statusReplicas := 10, now := 3,
           new := some { idx := -1, name := [1], created := 1, revision := 2, spec := 2, pods := 2, avail := 2, desired := some 10, maxAnno := some 12 },
           olds := [{ idx := 0, name := [0], created := 0, revision := 1, spec := 8, pods := 8, avail := 8, desired := some 10, maxAnno := some 12 }] } }
example : ignoredW { wEx with style := .canary } = true ∧ (reconcile { wEx with style := .canary }).calls = [] := by decide
example : ignoredW wEx = false ∧ (reconcile wEx).calls = [.scale (-1) 4 true, .extra (.canon 1 4) true] := by decide

/-! ## 2. admission protection -/

/-- **protection restores the native strategy**: webhook configuration absent or terminating ⇒ the only write is the
    strategy patch; it sets `type: RollingUpdate` with the saved rollingUpdate parameters; no ReplicaSet is scaled,
    the extra status is not touched; a failed patch is returned as an error. -/
theorem protection_restores_native (w : World) : protection w (reconcile w) = true := by
  unfold protection
  by_cases hpw : protectionW w = true
  · rw [reconcile_of_protectionW w hpw]
    obtain ⟨_, _, hc, _, _⟩ := protectionW_elim w hpw
    have hst : w.stype = .recreate := ((newController_iff w).mp hc).2.1
    simp only [hpw, Bool.not_true, Bool.false_or]
    unfold protectOut
    simp only [hst]
    cases hf : w.fault.protect <;> simp [quiet, sameSizes, hst]
  · simp [hpw]

/-- at most one write in that Reconcile, and it is the strategy patch -/
theorem protection_one_write (w : World) (h : protectionW w = true) :
    (reconcile w).calls.length ≤ 1 ∧ ∀ c ∈ (reconcile w).calls, c.isProtect = true := by
  rw [reconcile_of_protectionW w h]
  unfold protectOut
  split
  · simp [quiet]
  · split <;> simp [Call.isProtect]

/-- idempotent: once the patch went through, the next Reconcile finds a `RollingUpdate` Deployment — not ours —
    and writes nothing. -/
theorem protection_idempotent (w : World) (h : protectionW w = true) (hf : w.fault.protect = false) :
    ignoredW (post w) = true ∧ (reconcile (post w)).calls = [] ∧ (reconcile (post w)).untouched = true := by
  obtain ⟨_, hp, hc, _, _⟩ := protectionW_elim w h
  have hst : w.stype = .recreate := ((newController_iff w).mp hc).2.1
  have hpost : (post w).stype = .rollingUpdate ∧ (post w).present = true ∧ (post w).fault = {} := by
    simp only [DepCtl.post, reconcile_of_protectionW w h, protectOut, hst, hf, hp]
    simp [quiet]
  have hnc : newController (post w) = false := by
    unfold newController underControl
    simp [hpost.1]
  have hg : (post w).fault.getD = false := by rw [hpost.2.2]
  refine ⟨by simp [ignoredW, reachesGate, hg, hpost.2.1, hnc], ?_, ?_⟩ <;>
    rw [reconcile_ignored (post w) hg hpost.2.1 hnc] <;> simp [quiet]

example : protectionW { wEx with hook := .absent } = true ∧
    (reconcile { wEx with hook := .absent }).calls = [.protect true] ∧
    (reconcile { wEx with hook := .absent }).ru = some (some (.int 2), some (.pct 20)) := by decide

/-! ## 3. extra status -/

/-- **extra status exact**: on the sync path the annotation afterwards is (ready pods of the new ReplicaSet or 0,
    `NewRSReplicasLimit(partition)`), and it is patched exactly when the text differs — whatever `syncDeployment`
    returned; only a failing patch leaves the old text. -/
theorem extra_status_exact (w : World) : extraExact w (reconcile w) = true := by
  unfold extraExact
  by_cases hn : normalW w = true
  · by_cases hs : w.sel = .bad
    · simp [hs]
    · rw [reconcile_of_normalW w hn, normalOut_extraCalls]
      have hs' : (w.sel != .bad) = true := by simpa using hs
      simp only [hn, hs', Bool.and_self, Bool.not_true, Bool.false_or, Bool.and_eq_true, beq_iff_eq]
      simp only [normalOut, needPatch, hs', Bool.true_and, extraAfter]
      by_cases he : w.extra = wantExtra w
      · simp [he]
      · have : (w.extra != wantExtra w) = true := by simpa using he
        cases hf : w.fault.extra <;> simp [he, this]
  · simp [hn]

/-- the expected number in the annotation is the partition limit of `RV.DepSync` (what C17 scales the new
    ReplicaSet towards) and the ready number is the new ReplicaSet's `status.readyReplicas` -/
theorem expected_is_partition_limit (w : World) (hn : normalW w = true) (hs : w.sel ≠ .bad)
    (hf : w.fault.extra = false) :
    (reconcile w).extra = .canon (match w.s.new with | none => 0 | some _ => w.newReady) (RV.DepSync.limit w.s) := by
  have h := extra_status_exact w
  have hs' : (w.sel != .bad) = true := by simpa using hs
  simp only [extraExact, hn, hs', Bool.and_self, Bool.not_true, Bool.false_or, Bool.and_eq_true, beq_iff_eq,
    extraAfter, hf] at h
  rw [h.2]; rfl

example : (reconcile wEx).extra = .canon 1 4 := by decide

/-- **fixed point**: after a Reconcile on the sync path whose extra-status patch (if any) went through, the next
    Reconcile — nothing else having moved — issues no extra-status write (`written only when it differs`). -/
theorem extra_status_fixed_point (w : World) (hn : normalW w = true) (hs : w.sel ≠ .bad)
    (hf : w.fault.extra = false) : extraFixedPoint (reconcile (post w)) = true := by
  obtain ⟨_, hp, hc, _, hh⟩ := normalW_elim w hn
  have hs' : (w.sel != .bad) = true := by simpa using hs
  have hrec := reconcile_of_normalW w hn
  -- the next world
  have e1 : (post w).present = true := by simp [DepCtl.post, hp]
  have e2 : (post w).fault = {} := by simp [DepCtl.post]
  have e3 : (post w).hook = .present := by simp [DepCtl.post, hh]
  have e4 : (post w).sel = w.sel := by simp [DepCtl.post]
  have e5 : newController (post w) = true := by
    have : (post w).stype = w.stype := by simp [DepCtl.post, hrec, normalOut]
    rw [newController_iff] at hc ⊢
    simp only [this]
    simpa [DepCtl.post] using hc
  have hn2 : normalW (post w) = true := by
    simp [normalW, reachesHook, reachesGate, e1, e2, e3, e5]
  -- its annotation is what it wants
  have hextra : (post w).extra = wantExtra w := by
    simp only [DepCtl.post, hrec, normalOut, hf, needPatch, hs', Bool.true_and, Bool.not_false, Bool.and_true]
    by_cases he : w.extra = wantExtra w
    · simp [he]
    · have : (w.extra != wantExtra w) = true := by simpa using he
      simp [this]
  have hwant : wantExtra (post w) = wantExtra w := by
    have hl : limit (post w).s = limit w.s := by simp [DepCtl.post, limit]
    have hr : readyOf (post w) = readyOf w := by
      cases hnew : w.s.new with
      | none =>
        have : (post w).newReady = 0 := by simp [DepCtl.post, hnew]
        simp only [readyOf, hnew, this]
        split <;> rfl
      | some r =>
        have h1 : (post w).newReady = w.newReady := by simp [DepCtl.post, hnew]
        have h2 : (post w).s.new.isSome = true := by
          have : (post w).s.new = (syncPart w).new := by simp [DepCtl.post, hrec, normalOut]
          rw [this]; exact syncPart_new_isSome w (by simp [hnew])
        simp only [readyOf, hnew, h1]
        cases h3 : (post w).s.new with
        | none => simp [h3] at h2
        | some _ => rfl
    simp only [wantExtra, hl, hr]
  rw [reconcile_of_normalW _ hn2]
  unfold extraFixedPoint
  rw [normalOut_extraCalls]
  have : needPatch (post w) = false := by
    simp only [needPatch, hextra, hwant, bne_self_eq_false, Bool.and_false]
  simp [this]

example : normalW wEx = true ∧ (reconcile wEx).calls.any (·.isExtra) = true ∧
    (reconcile (post wEx)).calls.any (·.isExtra) = false := by decide

/-! ## 4. requeue -/

/-- `DeploymentRolloutSatisfied` succeeds exactly when the status *as read* has observed the generation, counts
    `spec.replicas` pods and at least the partition limit of updated ones. -/
theorem satisfied_iff (w : World) :
    satisfied w = true ↔ w.gen ≤ w.obsGen ∧ w.s.statusReplicas = w.s.replicas ∧ limit w.s ≤ w.statusUpdated := by
  unfold satisfied
  constructor
  · intro h
    split at h
    · cases h
    · split at h
      · cases h
      · split at h
        · cases h
        · rename_i a b c
          refine ⟨by omega, ?_, by omega⟩
          simpa using b
  · intro ⟨a, b, c⟩
    have h1 : ¬ w.obsGen < w.gen := by omega
    have h2 : (w.s.statusReplicas != w.s.replicas) = false := by simp [b]
    have h3 : ¬ w.statusUpdated < limit w.s := by omega
    simp [h1, h2, h3]

/-- **requeue until satisfied**: without an error the Reconcile asks for `RequeueAfter` exactly when
    `DeploymentRolloutSatisfied` fails; and with a fresh status it never reports "done, no requeue" while the new
    ReplicaSet has fewer pods than the partition limit or the pod total differs from `spec.replicas`. -/
theorem requeue_until_satisfied (w : World) : requeueUntilSatisfied w (reconcile w) = true := by
  unfold requeueUntilSatisfied requeueExact requeueDrives
  by_cases hn : normalW w = true
  · rw [reconcile_of_normalW w hn]
    simp only [hn, Bool.not_true, Bool.false_or, Bool.true_and, Bool.and_eq_true, Bool.or_eq_true, beq_iff_eq,
      Bool.not_eq_true', bne_iff_ne, ne_eq, decide_eq_true_eq]
    have hres : (normalOut w).res = .err ∨ ((normalOut w).res = if satisfied w then .ok else .requeue) := by
      rw [normalOut_res]
      cases (normalOut w).errs.isEmpty
      · left; rfl
      · right; rfl
    refine ⟨hres, ?_⟩
    by_cases hfr : fresh w = true
    · simp only [fresh, Bool.and_eq_true, decide_eq_true_eq, beq_iff_eq] at hfr
      obtain ⟨⟨f1, f2⟩, f3⟩ := hfr
      by_cases hlow : optPods w.s.new < limit w.s ∨ ¬ (sumPods w.s.olds + optPods w.s.new = w.s.replicas)
      · right
        rcases hres with e | e
        · rw [e]; simp
        · rw [e]
          have hns : satisfied w = false := by
            cases hsat : satisfied w with
            | false => rfl
            | true =>
              have := (satisfied_iff w).mp hsat
              rcases hlow with h | h
              · omega
              · exact absurd (by omega) h
          simp [hns]
      · left
        simp only [fresh, f1, f2, f3, decide_true, beq_self_eq_true, Bool.and_self, Bool.true_and, Bool.and_eq_false_imp]
        simp only [not_or, Decidable.not_not] at hlow
        simp only [Bool.or_eq_false_iff, decide_eq_false_iff_not, bne_eq_false_iff_eq]
        exact ⟨hlow.1, hlow.2⟩
    · left
      have : fresh w = false := by simpa using hfr
      simp [this]
  · simp [hn]

/-- the same in plain words: on the sync path, a Reconcile that ends with "done, no requeue" from a fresh status
    has found the partition's worth of updated pods and exactly `spec.replicas` pods — so as long as C17 (v)'s
    progress is still due (new ReplicaSet below the limit, old ones above their reserve) the Reconcile keeps
    itself scheduled. -/
theorem requeue_drives_progress (w : World) (hn : normalW w = true) (hf : fresh w = true)
    (hok : (reconcile w).res = .ok) :
    limit w.s ≤ optPods w.s.new ∧ sumPods w.s.olds + optPods w.s.new = w.s.replicas := by
  have h := requeue_until_satisfied w
  simp only [requeueUntilSatisfied, requeueDrives, hn, hf, hok, Bool.and_eq_true, Bool.or_eq_true,
    Bool.not_eq_true', Bool.and_eq_false_imp, bne_self_eq_false, Bool.or_false, Bool.true_and] at h
  have h2 := h.2
  simp only [Bool.or_eq_false_iff, decide_eq_false_iff_not, bne_eq_false_iff_eq, forall_const] at h2
  obtain ⟨a, b⟩ := h2
  exact ⟨by omega, b⟩

example : normalW wEx = true ∧ fresh wEx = true ∧ (reconcile wEx).res = .requeue := by decide
example : (reconcile { wEx with statusUpdated := 4 }).res = .ok ∧ fresh { wEx with statusUpdated := 4 } = false := by decide

/-! ## 5. errors -/

-- full strength (FALSE on the unchanged code, see `errors_aggregated_full_FALSE`):
--   theorem errors_aggregated (w : World) : errorsReported w (reconcile w) = true

/-- **errors aggregated** (partial: outside guard `swallowedScaleDown`): every failed API call — the Get of the
    Deployment or of the webhook configuration, the protection patch, any ReplicaSet size write, the extra-status
    patch — makes the Reconcile return an error (retry); sync and extra-status errors are both listed. -/
theorem errors_aggregated_partial (w : World) (hg : swallowRegion w = false) :
    errorsReported w (reconcile w) = true := by
  unfold errorsReported errorsReportedCore
  by_cases h1 : w.fault.getD = true
  · rw [reconcile_getErr w h1]; simp [quiet]
  have h1' : w.fault.getD = false := by simpa using h1
  by_cases h2 : w.present = true
  case neg =>
    have h2' : w.present = false := by simpa using h2
    rw [reconcile_notFound w h1' h2']; simp [quiet, reachesHook, reachesGate, h1', h2']
  by_cases h3 : newController w = true
  case neg =>
    have h3' : newController w = false := by simpa using h3
    rw [reconcile_ignored w h1' h2 h3']; simp [quiet, reachesHook, reachesGate, h1', h2, h3']
  by_cases h4 : w.fault.getW = true
  · rw [reconcile_hookErr w h1' h2 h3 h4]; simp [quiet]
  have h4' : w.fault.getW = false := by simpa using h4
  by_cases h5 : w.hook = .present
  case neg =>
    rw [reconcile_protect w h1' h2 h3 h4' h5]
    have hst : w.stype = .recreate := ((newController_iff w).mp h3).2.1
    unfold protectOut
    simp only [hst]
    cases hf : w.fault.protect <;> simp [quiet, h1', h4', Call.isProtect, Call.isExtra, Call.isScale, Call.failed]
  -- the sync path
  rw [reconcile_normal w h1' h2 h3 h4' h5]
  have hnw : normalW w = true := by simp [normalW, reachesHook, reachesGate, h1', h2, h3, h4', h5]
  simp only [h1', h4', Bool.false_eq_true, Bool.not_false, Bool.true_or, Bool.and_false, Bool.true_and, Bool.and_eq_true,
    Bool.or_eq_true, Bool.not_eq_true', beq_iff_eq]
  have hscale : ∀ c ∈ (syncPart w).calls, c.isProtect = false ∧ c.isExtra = false :=
    fun c hc => ⟨isProtect_of_isScale c (syncPart_calls_scale w c hc), isExtra_of_isScale c (syncPart_calls_scale w c hc)⟩
  -- a failing sync write is reported (outside the guard)
  have hsync : (syncPart w).fired = true → (normalOut w).res = .err ∧ (normalOut w).errs.contains .sync = true := by
    intro hf
    rcases syncPart_cases w with ⟨a, _, _⟩ | ⟨_, b, c⟩
    · rw [a] at hf; cases hf
    · have hsw : (syncPart w).swallowed = false := by
        have : syncPart w = syncF w.s w.fault.scaleAt := by simp [syncPart, c]
        simp only [swallowRegion, hnw, c, beq_self_eq_true, Bool.true_and] at hg
        rw [this]; exact hg
      exact normalOut_err_of_sync w (by rw [b, hsw]; rfl)
  refine ⟨⟨⟨?_, ?_⟩, ?_⟩, ?_⟩
  · -- no protection patch on this path
    left
    rw [normalOut_calls]
    simp only [List.any_append, Bool.or_eq_false_iff]
    constructor
    · rw [List.any_eq_false]; intro c hc; simp [(hscale c hc).1]
    · split <;> simp [Call.isProtect]
  · -- extra-status patch
    by_cases hx : needPatch w = true ∧ w.fault.extra = true
    · right; exact normalOut_err_of_extra w hx.1 hx.2
    · left
      rw [normalOut_calls]
      simp only [List.any_append, Bool.or_eq_false_iff]
      constructor
      · rw [List.any_eq_false]; intro c hc; simp [(hscale c hc).2]
      · split
        · rename_i hnp
          have : w.fault.extra = false := by
            cases hfe : w.fault.extra with
            | false => rfl
            | true => exact absurd ⟨hnp, hfe⟩ hx
          simp [Call.isExtra, Call.failed, this]
        · simp
  · -- ReplicaSet size writes
    by_cases hf : (syncPart w).fired = true
    · right; exact hsync hf
    · left
      rw [normalOut_calls]
      simp only [List.any_append, Bool.or_eq_false_iff]
      constructor
      · rcases syncPart_cases w with ⟨_, _, c⟩ | ⟨a, _, _⟩
        · rw [List.any_eq_false]; intro x hx; simp [c x hx]
        · exact absurd a hf
      · split <;> simp [Call.isScale]
  · -- whatever fault fired
    by_cases hf : (normalOut w).fired = true
    · right
      rw [normalOut_fired] at hf
      simp only [Bool.or_eq_true, Bool.and_eq_true] at hf
      rcases hf with hf | hf
      · exact (hsync hf).1
      · exact (normalOut_err_of_extra w hf.1 hf.2).1
    · left
      have : (normalOut w).fired = false := by simpa using hf
      simp [this]

/-- the guard is not empty on the unchanged code: `reconcileOldReplicaSets` drops the errors of
    `cleanupUnhealthyReplicas` and `scaleDownOldReplicaSetsForRollingUpdate` (`if err != nil { return false, nil }`).
    Witness: new RS at the partition limit, old RS above its reserve, the scale-down write fails — the Reconcile
    reports no error (and here, with a status that looks settled, not even a requeue). -/
theorem errors_aggregated_full_FALSE :
    ∃ w : World, swallowRegion w = true ∧ errorsReported w (reconcile w) = false ∧ (reconcile w).res = .ok := by
  refine ⟨{ wEx with statusUpdated := 4, fault := { scaleAt := some 0 },
                     s := { wEx.s with new := some { idx := -1, name := [1], created := 1, revision := 2, spec := 4, pods := 4, avail := 4,
                                                     desired := some 10, maxAnno := some 12 } } }, ?_⟩
  decide

/-- a failing `syncDeployment` does not keep `patchExtraStatus` from being attempted -/
theorem both_attempted (w : World) : bothAttempted w (reconcile w) = true := by
  unfold bothAttempted
  by_cases hn : normalW w = true
  · by_cases hs : w.sel = .normal
    · rw [reconcile_of_normalW w hn, normalOut_extraCalls]
      have : needPatch w = (w.extra != wantExtra w) := by simp [needPatch, hs]
      rw [this]
      by_cases he : w.extra = wantExtra w
      · simp [he]
      · have h' : (w.extra != wantExtra w) = true := by simpa using he
        simp [he, h']
    · simp [hs]
  · simp [hn]

example : swallowRegion wEx = false ∧
    (reconcile { wEx with fault := { scaleAt := some 0, extra := true } }).errs = [.sync, .extra] := by decide

/-! ## 6. paused / deleting -/

/-- **paused scales only**: with `strategy.paused` (and no deletion) the rolling path is not taken — no ReplicaSet
    is created, and when the sizes already add up to `spec.replicas` no size is written at all (in particular the
    new ReplicaSet is not grown towards the partition); **deleting**: with a deletion timestamp no ReplicaSet size
    is written.  Holds under every injected fault. -/
theorem paused_scales_only (w : World) : pausedScalesOnly w (reconcile w) = true := by
  unfold pausedScalesOnly
  by_cases hn : normalW w = true
  case neg => simp [hn]
  rw [reconcile_of_normalW w hn]
  simp only [hn, Bool.true_and, Bool.and_eq_true, Bool.or_eq_true, Bool.not_eq_true', beq_iff_eq]
  have hnoScale : (syncPart w).calls = [] → noScale (normalOut w) = true := by
    intro h
    simp only [noScale, normalOut_calls, h, List.nil_append]
    split <;> simp [Call.isScale]
  constructor
  · by_cases hc : w.sel = .normal ∧ w.s.paused = true ∧ w.s.deleting = false
    case neg =>
      left
      by_cases a : w.sel = .normal
      · by_cases b : w.s.paused = true
        · have : w.s.deleting = true := by
            cases hd : w.s.deleting with
            | true => rfl
            | false => exact absurd ⟨a, b, hd⟩ hc
          simp [this]
        · simp [b]
      · simp [a]
    · right
      obtain ⟨hs, hp, hd⟩ := hc
      have hsp : syncPart w = syncF w.s w.fault.scaleAt := by simp [syncPart, hs]
      constructor
      · -- no creation
        by_cases hnone : w.s.new.isNone = true ∧ idxOk w.s = true
        · right
          have hn0 : w.s.new = none := by
            cases h : w.s.new with
            | none => rfl
            | some _ => simp [h] at hnone
          have hsc : (sync w.s).new = none := by
            rw [sync_paused w.s hd hp]; exact syncScale_new_none w.s hn0 hnone.2
          have : (normalOut w).new = (syncF w.s w.fault.scaleAt).new := by simp [normalOut, hsp]
          rw [this]
          unfold syncF
          cases w.fault.scaleAt with
          | none => simp [hsc]
          | some k =>
            simp only
            split
            · simp [hsc]
            · simp only [pathOf_paused w.s hd hp]
              have : (getNewRS w.s false).1 = none := by simp [getNewRS, hn0]
              rw [this, applyWrites_fst_none]; rfl
        · left
          simp only [not_and, Bool.not_eq_true] at hnone
          cases h1 : w.s.new.isNone with
          | false => simp
          | true => simp [hnone h1]
      · -- sizes that add up are left alone
        by_cases hq : invCore w.s = true ∧ totalSpec w.s = w.s.replicas
        · right
          apply hnoScale
          rw [hsp]
          have : (sync w.s).writes = [] := by
            rw [sync_paused w.s hd hp]; exact syncScale_quiet w.s hq.1 hq.2
          exact (syncF_of_nowrites w.s _ this).1
        · left
          simp only [not_and] at hq
          cases h1 : invCore w.s with
          | false => simp
          | true => simpa using hq h1
  · by_cases hd : w.s.deleting = true
    · right
      apply hnoScale
      unfold syncPart
      cases w.sel with
      | bad => rfl
      | all => rfl
      | normal => exact (syncF_of_nowrites w.s _ (sync_deleting_writes w.s hd)).1
    · left; simpa using hd

/-- the deletion half on its own -/
theorem deleting_status_only (w : World) (hn : normalW w = true) (hd : w.s.deleting = true) :
    ∀ c ∈ (reconcile w).calls, c.isScale = false := by
  have h := paused_scales_only w
  simp only [pausedScalesOnly, hn, hd, Bool.true_and, Bool.and_eq_true, Bool.not_true, Bool.false_or, noScale,
    Bool.not_eq_true', List.any_eq_false] at h
  intro c hc
  simpa using h.2 c hc

-- non-vacuity: the same world grows the new RS when not paused, and leaves every size alone when paused
example : (reconcile wEx).calls.any (·.isScale) = true ∧
    normalW { wEx with s := { wEx.s with paused := true } } = true ∧ invCore wEx.s = true ∧ totalSpec wEx.s = wEx.s.replicas ∧
    (reconcile { wEx with s := { wEx.s with paused := true } }).calls.any (·.isScale) = false := by decide
example : (reconcile { wEx with s := { wEx.s with deleting := true } }).calls = [.extra (.canon 1 4) true] := by decide

/-- the requeue decision reads the status *as fetched*; this is the link that makes it speak about real pods: after a
    Reconcile on the rolling path (no ReplicaSet write fault) the status the next Reconcile reads is fresh. -/
theorem status_fresh_after_rolling (w : World) (hn : normalW w = true) (hs : w.sel = .normal)
    (hsc : inScope w.s = true) (hok : ∀ r ∈ w.s.olds, rsOk r = true) (hk : w.fault.scaleAt = none) :
    fresh (post w) = true := by
  have hrec := reconcile_of_normalW w hn
  have hsp : syncPart w = syncF w.s none := by simp [syncPart, hs, hk]
  have hsy : sync w.s = rolloutRolling w.s := sync_inScope w.s hsc
  have hso : (syncF w.s none).synced = true ∧ (syncF w.s none).new = (rolloutRolling w.s).new ∧
      (syncF w.s none).olds = (rolloutRolling w.s).olds ∧
      (syncF w.s none).statusReplicas = (rolloutRolling w.s).statusReplicas := by
    have herr : (rolloutRolling w.s).err = false := by
      unfold rolloutRolling
      obtain ⟨nw, wr, hg, _, _⟩ := getNewRS_create w.s
      rw [hg]; simp only; split <;> rfl
    simp [syncF, hsy, herr]
  obtain ⟨y1, y2, y3, y4⟩ := hso
  have hst : (rolloutRolling w.s).statusReplicas = sumPods w.s.olds + optPods w.s.new := by
    unfold rolloutRolling
    obtain ⟨nw, wr, hg, f1, f2⟩ := getNewRS_create w.s
    rw [hg]; simp only
    have : nw.pods = optPods w.s.new := by
      cases hnew : w.s.new with
      | none => simp [optPods, (f2 hnew).2.2]
      | some r => simp [optPods, (f1 r hnew).2.2]
    split <;> simp [this]
  obtain ⟨nw, f1, f2, f3⟩ := rolling_summary w.s
  have hnwp : nw.pods = optPods w.s.new := by
    cases hnew : w.s.new with
    | none => simp [optPods, (f2 hnew).2.2]
    | some r => simp [optPods, (f1 r hnew).2.2]
  have hsum : sumPods (rolloutRolling w.s).olds + optPods (rolloutRolling w.s).new = sumPods w.s.olds + optPods w.s.new := by
    rcases f3 with ⟨rn, g1, g2, _, _, g5, _⟩ | ⟨g1, g2, _⟩
    · rw [g1, g2]; simp [optPods, g5, hnwp]
    · rw [g1, g2, (reconcileOld_facts w.s w.s.olds nw hok).2.1]; simp [optPods, hnwp]
  simp only [fresh, DepCtl.post, hrec, normalOut, hsp, y1, y2, y3, y4, if_true, Bool.true_or, Bool.and_eq_true,
    decide_eq_true_eq, beq_iff_eq]
  refine ⟨⟨Int.le_refl _, ?_⟩, trivial⟩
  rw [hst, hsum]

example : inScope wEx.s = true ∧ fresh (post wEx) = true ∧ (reconcile (post wEx)).res = .requeue := by decide

/-! ## watches (`add`) -/

/-- what a Reconcile reads from the Deployment object itself is its spec (generation), its annotations and its
    deletion timestamp: an update of a Deployment under rollout control that changes any of them passes the predicate -/
theorem watch_passes_relevant_updates (e : DepEvt) (hu : e.evt = .update)
    (hc : e.newCtrl = true ∧ e.newStype = .recreate ∧ e.newPaused = true)
    (hch : e.oldGen ≠ e.newGen ∨ e.newDeleting = true ∨ e.annoSame = false) : depPredicate e = true := by
  unfold depPredicate
  simp only [hu, hc.1, hc.2.1, hc.2.2, beq_self_eq_true, Bool.and_self, Bool.not_true, Bool.false_eq_true, if_false]
  rcases hch with h | h | h
  · have : (e.oldGen != e.newGen) = true := by simpa using h
    simp [this]
  · simp [h]
  · simp [h]

/-- an update of a Deployment that is not under rollout control never wakes the controller -/
theorem watch_drops_foreign (e : DepEvt) (hu : e.evt = .update)
    (hc : ¬ (e.newCtrl = true ∧ e.newStype = .recreate ∧ e.newPaused = true)) : depPredicate e = false := by
  unfold depPredicate
  simp only [hu]
  have : (e.newCtrl && e.newStype == .recreate && e.newPaused) = false := by
    cases h1 : e.newCtrl <;> cases h2 : e.newPaused <;> cases h3 : e.newStype <;> simp_all
  simp [this]

/-- a status-only update (what the controller's own status writes produce) does not wake it: no self-triggered loop -/
theorem watch_drops_status_only (e : DepEvt) (hu : e.evt = .update) (hg : e.oldGen = e.newGen)
    (hd : e.newDeleting = false) (ha : e.annoSame = true) : depPredicate e = false := by
  unfold depPredicate
  simp only [hu, hg, hd, ha]
  split <;> simp

/-- a ReplicaSet event wakes the Deployment that controls it -/
theorem rs_event_wakes_owner (pre post : List Owner) (o : Owner) (hpre : ∀ x ∈ pre, x.controller = false)
    (hc : o.controller = true) (hd : o.isDeployment = true) (ha : o.isApps = true) :
    ownerRequests (pre ++ o :: post) = [o.name] := by
  unfold ownerRequests
  have : (pre ++ o :: post).find? (·.controller) = some o := by
    induction pre with
    | nil => simp [List.find?, hc]
    | cons x t ih =>
      have hx := hpre x (by simp)
      simp only [List.cons_append, List.find?, hx]
      exact ih (fun y hy => hpre y (by simp [hy]))
  simp [this, hd, ha]

/-- when the webhook configuration is deleted (or gets a deletion timestamp) every labelled Deployment that still
    has strategy type `Recreate` — in particular every Deployment `reconcile` would protect — is enqueued -/
theorem hook_event_wakes_protected (evt : Evt) (deleting : Bool) (deps : List HookDep) (d : HookDep)
    (he : evt = .delete ∨ deleting = true) (hd : d ∈ deps) (hl : d.labelled = true) (hs : d.stype = .recreate) :
    d.name ∈ hookRequests evt true deleting false deps := by
  unfold hookRequests
  have h1 : (evt != Evt.delete && !deleting) = false := by
    rcases he with h | h
    · simp [h]
    · simp [h]
  simp only [Bool.not_true, Bool.false_eq_true, if_false, h1, List.mem_map, List.mem_filter]
  exact ⟨d, ⟨hd, by simp [hl, hs]⟩, rfl⟩

-- non-vacuity of the watch theorems
example : depPredicate { evt := .update, newCtrl := true, newStype := .recreate, newPaused := true, oldGen := 2, newGen := 2,
                         newDeleting := false, annoSame := false } = true := by decide
example : depPredicate { evt := .update, newCtrl := true, newStype := .recreate, newPaused := true, oldGen := 2, newGen := 2,
                         newDeleting := false, annoSame := true } = false := by decide
example : depPredicate { evt := .update, newCtrl := true, newStype := .rollingUpdate, newPaused := true, oldGen := 2, newGen := 3,
                         newDeleting := false, annoSame := false } = false := by decide
example : ownerRequests [⟨true, true, "x", false⟩, ⟨true, true, "d", true⟩] = ["d"] ∧
    ownerRequests [⟨false, true, "sts", true⟩, ⟨true, true, "d", false⟩] = [] := by decide
example : hookRequests .update true true false [⟨"a", true, .recreate⟩, ⟨"b", true, .rollingUpdate⟩, ⟨"c", false, .recreate⟩] = ["a"] ∧
    hookRequests .update true false false [⟨"a", true, .recreate⟩] = [] ∧
    hookRequests .delete true false false [⟨"a", true, .recreate⟩] = ["a"] := by decide

/-- … and a Deployment under rollout control has that strategy type -/
theorem under_control_is_recreate (w : World) (h : newController w = true) : w.stype = .recreate :=
  ((newController_iff w).mp h).2.1

end RV.Props.DepCtl
