import RV.Props.C15
import RV.Lemmas.CustomHist
/-!
# C15 on histories that contain events by others and API faults

Model: `RV/Model/CustomHist.lean`.  A history is a list of `Event`s applied to the empty `World`:

* `addRef f o` — a ref (script `f`) to a pristine object `o` is appended to `customNetworkRefs`;
* `step b s` / `fin b` — the provider's `EnsureRoutes s` / `Finalise`, where the API server refuses the
  `b`-th write of the call and every later one (`b = none`: no fault) — the call dies part-way;
* `userWrite i o` — the user deletes and re-creates / `kubectl replace`s the object of ref `i` from a
  manifest `o` (so it has no original-configuration annotation while its siblings may have one);
* `delete i`, `removeRef i` (the object stays as the provider left it), `readd j`.

`users evs` is what the user last wrote for each ref — a function of the events alone.
The only hypotheses are `EvOK`: a manifest the *user* writes does not carry the provider's annotation,
and the Env assumption on `encoding/json` at that manifest (`Codec.LawfulOn`, as in `RV.Props.C15`).

All theorems are by induction over the event list with the invariant `WInv`:
*the stored original of every annotated ref is the user's last configuration of that ref, and a ref
without the annotation is at the user's last configuration* (`hist_invariant` exposes it as the
oracle `origKeptOK`, which the driver evaluates on the implementation after every event).
-/
namespace RV.Props.C15
open RV.Custom RV.Oracle.C15

/-- admissible events. -/
def EvOK (c : Codec) : Event → Prop
  | .userWrite _ o => noOrig o = true ∧ c.LawfulOn (dataOf o)
  | .addRef _ o => noOrig o = true ∧ c.LawfulOn (dataOf o)
  | _ => True

/-- the world / the user's configurations after a history that starts with nothing. -/
abbrev worldAfter (c : Codec) (evs : List Event) : World := run c evs World.empty
abbrev usersAfter (evs : List Event) : Users := users evs Users.empty

/-! ## the fault model extends the fault-free model -/

/-- with no fault injected, `ensureRoutesF` is the `ensureRoutes` of `RV.Props.C15`. -/
theorem budget_none_ensure (c : Codec) (s : Strategy) (st : List Ref) :
    ensureRoutesF c none s st = ensureRoutes c s st := ensureRoutesF_none c s st

theorem budget_none_finalise (c : Codec) (st : List Ref) : finaliseF c none st = finalise c st :=
  finaliseF_none c st

/-- a call that returns success under *any* fault budget did exactly what the fault-free call does. -/
theorem ensure_ok_under_budget (c : Codec) (b : Option Nat) (s : Strategy) (st : List Ref)
    (h : (ensureRoutesF c b s st).2 ≠ .err) : ensureRoutesF c b s st = ensureRoutes c s st :=
  ensureRoutesF_ok h

theorem finalise_ok_under_budget (c : Codec) (b : Option Nat) (st : List Ref)
    (h : (finaliseF c b st).2 ≠ .err) : finaliseF c b st = finalise c st :=
  finaliseF_ok h

/-- provider calls never touch the objects of refs that are not in the list. -/
theorem hist_parked_untouched (c : Codec) (b : Option Nat) (s : Strategy) (w : World) :
    (runEv c (.step b s) w).1.parked = w.parked ∧ (runEv c (.fin b) w).1.parked = w.parked := ⟨rfl, rfl⟩

/-! ## the invariant -/

/-- every ref — listed or removed — satisfies `HInv` against the user's last configuration of it. -/
def WInv (c : Codec) (u : Users) (w : World) : Prop :=
  All2 (HInv c) u.active w.active ∧ All2 (HInv c) u.parked w.parked

private theorem hinv_new {c : Codec} {f : Option Script} {o : Obj} (h : noOrig o = true ∧ c.LawfulOn (dataOf o)) :
    HInv c (f, o) ⟨f, some o⟩ :=
  ⟨h, rfl, fun x hx => by simp only [Option.some.injEq] at hx; subst hx; exact .inl rfl⟩

theorem runEv_inv (c : Codec) (e : Event) (he : EvOK c e) (u : Users) (w : World) (h : WInv c u w) :
    WInv c (usersEv e u) (runEv c e w).1 := by
  obtain ⟨ha, hp⟩ := h
  cases e with
  | step b s => exact ⟨ensureRoutesF_inv b s ha, hp⟩
  | fin b => exact ⟨finaliseF_inv b ha, hp⟩
  | userWrite i o =>
    refine ⟨?_, hp⟩
    exact ha.modifyAt (f := fun p => (p.1, o)) (g := fun r => { r with obj := some o })
      (fun p r hpr => ⟨he, hpr.2.1, fun x hx => by
        simp only [Option.some.injEq] at hx; subst hx; exact .inl rfl⟩) i
  | delete i =>
    refine ⟨?_, hp⟩
    have := ha.modifyAt (f := id) (g := fun r => { r with obj := none })
      (fun p r hpr => ⟨hpr.1, hpr.2.1, fun x hx => by simp at hx⟩) i
    rw [modifyAt_id] at this
    exact this
  | addRef f o => exact ⟨ha.append (.cons (hinv_new he) .nil), hp⟩
  | removeRef i =>
    simp only [runEv, usersEv]
    rcases ha.getAt i with ⟨h1, h2⟩ | ⟨a, r, h1, h2, hr⟩
    · simp only [h1, h2]; exact ⟨ha, hp⟩
    · simp only [h1, h2]; exact ⟨ha.removeAt i, hp.append (.cons hr .nil)⟩
  | readd j =>
    simp only [runEv, usersEv]
    rcases hp.getAt j with ⟨h1, h2⟩ | ⟨a, r, h1, h2, hr⟩
    · simp only [h1, h2]; exact ⟨ha, hp⟩
    · simp only [h1, h2]; exact ⟨ha.append (.cons hr .nil), hp.removeAt j⟩

theorem run_inv (c : Codec) (evs : List Event) (hev : ∀ e, e ∈ evs → EvOK c e) (u : Users) (w : World)
    (h : WInv c u w) : WInv c (users evs u) (run c evs w) := by
  induction evs generalizing u w with
  | nil => exact h
  | cons e es ih =>
    exact ih (fun e' he' => hev e' (by simp [he'])) _ _ (runEv_inv c e (hev e (by simp)) u w h)

private theorem inv_after (c : Codec) (evs : List Event) (hev : ∀ e, e ∈ evs → EvOK c e) :
    WInv c (usersAfter evs) (worldAfter c evs) :=
  run_inv c evs hev _ _ ⟨.nil, .nil⟩

/-- **C15 history invariant.**  After *any* history — provider calls that succeed, fail or die
    part-way, objects re-created by the user, refs added, removed and added again — for every ref
    (listed or removed) that exists: if the object carries the original-configuration annotation, its
    value is the dump of what the user last wrote for that ref (a stored original is never replaced
    by a modified configuration, nor by an outdated one); if it does not, the object *is* what the
    user last wrote (up to `normalise` after a restore). -/
theorem hist_invariant (c : Codec) (evs : List Event) (hev : ∀ e, e ∈ evs → EvOK c e) :
    origKeptOK c ((usersAfter evs).active.map (·.2)) ((worldAfter c evs).active.map (·.obj)) = true
    ∧ origKeptOK c ((usersAfter evs).parked.map (·.2)) ((worldAfter c evs).parked.map (·.obj)) = true :=
  ⟨origKeptOK_of_inv (inv_after c evs hev).1, origKeptOK_of_inv (inv_after c evs hev).2⟩

/-! ## (i) statelessness across foreign events and faults -/

/-- **C15 (i) on histories.**  After any history `pre`, if `EnsureRoutes s` returns success (under
    any fault budget), then every listed ref exists, every script succeeds on the configuration the
    user last wrote for *its own* ref (`freshAll` on `usersAfter pre`), and every object carries
    exactly that result plus the annotation holding that configuration (`statelessOK`) — never a
    result computed from an already modified spec, whatever happened before: earlier steps, a call
    that died part-way, a Finalise that restored only some refs, a sibling re-created without the
    annotation, refs added or removed. -/
theorem hist_stateless (c : Codec) (pre : List Event) (hpre : ∀ e, e ∈ pre → EvOK c e)
    (b : Option Nat) (s : Strategy)
    (hok : (runEv c (.step b s) (worldAfter c pre)).2 ≠ some .err) :
    ∃ ds, freshAll s (usersAfter pre).active = some ds ∧
      statelessOK c ((usersAfter pre).active.map (·.2)) ds
        ((runEv c (.step b s) (worldAfter c pre)).1.active.map (·.obj)) = true := by
  have hinv := (inv_after c pre hpre).1
  simp only [runEv, ne_eq, Option.some.injEq] at hok ⊢
  have heq := ensureRoutesF_ok hok
  rw [heq] at hok ⊢
  exact ensureRoutes_stateless s hinv hok

/-- … in particular two different histories that agree on what the user last wrote lead to
    pointwise equivalent objects after the same successful step. -/
theorem hist_history_independent (c : Codec) (pre₁ pre₂ : List Event)
    (h₁ : ∀ e, e ∈ pre₁ → EvOK c e) (h₂ : ∀ e, e ∈ pre₂ → EvOK c e)
    (hu : (usersAfter pre₁).active = (usersAfter pre₂).active)
    (b₁ b₂ : Option Nat) (s : Strategy)
    (ok₁ : (runEv c (.step b₁ s) (worldAfter c pre₁)).2 ≠ some .err)
    (ok₂ : (runEv c (.step b₂ s) (worldAfter c pre₂)).2 ≠ some .err) :
    ∃ ds, statelessOK c ((usersAfter pre₁).active.map (·.2)) ds
            ((runEv c (.step b₁ s) (worldAfter c pre₁)).1.active.map (·.obj)) = true
        ∧ statelessOK c ((usersAfter pre₁).active.map (·.2)) ds
            ((runEv c (.step b₂ s) (worldAfter c pre₂)).1.active.map (·.obj)) = true := by
  obtain ⟨ds₁, hf₁, hs₁⟩ := hist_stateless c pre₁ h₁ b₁ s ok₁
  obtain ⟨ds₂, hf₂, hs₂⟩ := hist_stateless c pre₂ h₂ b₂ s ok₂
  rw [← hu] at hf₂ hs₂
  have : ds₁ = ds₂ := by rw [hf₁] at hf₂; exact Option.some.inj hf₂
  subst this
  exact ⟨ds₁, hs₁, hs₂⟩

/-! ## (ii) restore across foreign events and faults -/

/-- **C15 (ii) on histories.**  After any history `pre`, if `Finalise` returns success (under any
    fault budget) then for every listed ref (`histRestoreOK`): a missing object stays missing; an
    object without the annotation is not touched; an object with it is `normalise` of what the user
    last wrote for that ref; in every case the object is the user's last configuration and no longer
    carries the annotation.  `modified` is reported iff some object carried the annotation. -/
theorem hist_restore (c : Codec) (pre : List Event) (hpre : ∀ e, e ∈ pre → EvOK c e) (b : Option Nat)
    (hok : (runEv c (.fin b) (worldAfter c pre)).2 ≠ some .err) :
    histRestoreOK ((usersAfter pre).active.map (·.2)) ((worldAfter c pre).active.map (·.obj))
        ((runEv c (.fin b) (worldAfter c pre)).1.active.map (·.obj)) = true
    ∧ (runEv c (.fin b) (worldAfter c pre)).2
        = some (.ok (anyAnnotated ((worldAfter c pre).active.map (·.obj)))) := by
  have hinv := (inv_after c pre hpre).1
  simp only [runEv, ne_eq, Option.some.injEq] at hok ⊢
  rw [finaliseF_ok hok]
  exact finalise_restores_of_inv hinv

/-- what `histRestoreOK` says about one ref, in plain terms. -/
theorem histRestore1_spec (u : Obj) (b a : Option Obj) (h : histRestore1 u b a = true) :
    (b = none ∧ a = none) ∨ ∃ y, a = some y ∧ b.isSome = true ∧ (y = u ∨ y = normalise u) ∧ noOrig y = true := by
  unfold histRestore1 at h
  cases b with
  | none => cases a <;> simp_all
  | some x =>
    cases a with
    | none => simp at h
    | some y =>
      simp only [Bool.and_eq_true, Bool.or_eq_true, decide_eq_true_eq] at h
      exact .inr ⟨y, rfl, rfl, h.1.2, h.2⟩

/-! ## (iii) idempotence across foreign events and faults -/

/-- **C15 (iii) on histories.**  From *any* state (hence after any history): when `EnsureRoutes s`
    returns success under any fault budget, the same call made again (fault-free) writes nothing
    to the objects and reports `done = true`. -/
theorem hist_idempotent (c : Codec) (w : World) (b : Option Nat) (s : Strategy)
    (hok : (runEv c (.step b s) w).2 ≠ some .err) :
    runEv c (.step none s) (runEv c (.step b s) w).1 = ((runEv c (.step b s) w).1, some (.ok true)) := by
  simp only [runEv, ne_eq, Option.some.injEq] at hok ⊢
  have heq := ensureRoutesF_ok hok
  rw [heq] at hok ⊢
  rw [ensureRoutesF_none]
  cases hr : (ensureRoutes c s w.active).2 with
  | err => exact absurd hr hok
  | ok f =>
    have := ensure_idempotent c s w.active (ensureRoutes c s w.active).1 f (by rw [← hr])
    rw [this]

/-- **C15 (iii), no write at all.**  The repeated call does not merely leave the objects unchanged:
    it issues no `Update` — it succeeds, with `done = true`, even when the API server refuses every
    write (fault budget 0). -/
theorem hist_idempotent_no_write (c : Codec) (w : World) (b b' : Option Nat) (s : Strategy)
    (hok : (runEv c (.step b s) w).2 ≠ some .err) :
    runEv c (.step b' s) (runEv c (.step b s) w).1 = ((runEv c (.step b s) w).1, some (.ok true)) := by
  have h := hist_idempotent c w b s hok
  simp only [runEv, Prod.mk.injEq, Option.some.injEq] at h ⊢
  rw [ensureRoutesF_none] at h
  have hfix : ensureRoutes c s (ensureRoutesF c b s w.active).1 = ((ensureRoutesF c b s w.active).1, .ok true) := by
    apply Prod.ext
    · have := congrArg World.active h.1; simpa using this
    · exact h.2
  rw [ensureRoutesF_fix hfix b']
  exact ⟨rfl, rfl⟩

/-! ## non-vacuity: concrete histories satisfying every hypothesis
    (these `decide`s are *tests* on literals, not the ∀ claims) -/

/-- a DestinationRule and a second VirtualService manifest (what the user replaces `exObj` with). -/
def exDR : Obj :=
  { spec := some (.obj [("host", .str "svc"), ("subsets", .arr [.obj [("name", .str "v1")]])])
    labels := none, annotations := some [("team", "a")] }

def exObj' : Obj :=
  { spec := some (.obj [("http", .arr [.obj [("route", .arr [.obj [("destination", .obj [("host", .str "svc")])]]),
                                              ("timeout", .str "5s")]])])
    labels := none, annotations := none }

/-- a codec satisfying the round-trip assumption at the three manifests. -/
def exCodec3 : Codec where
  enc d := if d = dataOf exObj then "vs" else if d = dataOf exDR then "dr"
           else if d = dataOf exObj' then "vs'" else "other"
  dec s := if s = "vs" then dataOf exObj else if s = "dr" then dataOf exDR
           else if s = "vs'" then dataOf exObj' else ⟨.null, [], []⟩

def exStep (p : Int) : Strategy := ⟨.pct p, [], none⟩

/-- two refs; a 20 % step; the user re-creates the VirtualService from a *new* manifest (no annotation,
    the DestinationRule still has one); a 50 % step dies after its first write and is retried. -/
def exHist : List Event :=
  [.addRef (some (vsScript "svc" "svc-canary")) exObj, .addRef (some drScript) exDR,
   .step none (exStep 20), .userWrite 0 exObj', .step (some 1) (exStep 50)]

example : ∀ e, e ∈ exHist → EvOK exCodec3 e := by
  intro e he
  simp only [exHist, List.mem_cons, List.mem_nil_iff, or_false] at he
  rcases he with h | h | h | h | h <;> subst h
  · exact ⟨by decide, by decide, by decide⟩
  · exact ⟨by decide, by decide, by decide⟩
  · trivial
  · exact ⟨by decide, by decide, by decide⟩
  · trivial

/-- the faulty step stored the re-created object's original (write 1) and died: result `err`, the
    VirtualService carries its *new* manifest as original, the DestinationRule keeps the old one. -/
example : (runEv exCodec3 (.step (some 1) (exStep 50)) (worldAfter exCodec3 exHist.dropLast)).2 = some .err := by
  decide

example : (worldAfter exCodec3 exHist).active.map (fun r => r.obj.map origOf) = [some "vs'", some "dr"] := by
  decide

/-- the retry succeeds (hypothesis of `hist_stateless`) and writes the split of the *new* manifest. -/
example : (runEv exCodec3 (.step none (exStep 50)) (worldAfter exCodec3 exHist)).2 = some (.ok false) := by
  decide

example :
    (runEv exCodec3 (.step none (exStep 50)) (worldAfter exCodec3 exHist)).1.active.map (·.obj)
    = [some { spec := some (.obj [("http", .arr [.obj [("route", .arr [
                  .obj [("destination", .obj [("host", .str "svc")]), ("weight", .int 50)],
                  .obj [("destination", .obj [("host", .str "svc-canary")]), ("weight", .int 50)]]),
                  ("timeout", .str "5s")]])]),
              labels := none, annotations := some [(origKey, "vs'")] },
       some { spec := some (.obj [("host", .str "svc"),
                  ("subsets", .arr [.obj [("name", .str "v1")], canarySubset])]),
              labels := none, annotations := some [("team", "a"), (origKey, "dr")] }] := by
  decide

/-- a Finalise that dies after its first write: the VirtualService is restored, the DestinationRule
    is not; `err`.  A step after that stores the VirtualService again — from the restored object — and
    the retried Finalise (hypothesis of `hist_restore`) puts both back. -/
def exHist2 : List Event := exHist ++ [.step none (exStep 50), .fin (some 1), .step none (exStep 30)]

example : (runEv exCodec3 (.fin (some 1)) (worldAfter exCodec3 (exHist ++ [.step none (exStep 50)]))).2 = some .err := by
  decide

example : (worldAfter exCodec3 (exHist ++ [.step none (exStep 50), .fin (some 1)])).active.map (fun r => r.obj.map noOrig)
    = [some true, some false] := by decide

example : (runEv exCodec3 (.fin none) (worldAfter exCodec3 exHist2)).2 = some (.ok true) := by decide

example : (runEv exCodec3 (.fin none) (worldAfter exCodec3 exHist2)).1.active.map (·.obj)
    = [some (normalise exObj'), some (normalise exDR)] := by decide

end RV.Props.C15
