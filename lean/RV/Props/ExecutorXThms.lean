import RV.Lemmas.ExecutorX
import RV.Oracle.ExecutorXPlanes
import RV.Props.ExecutorThms
/-!
# The BatchRelease executor over **every** control plane (C01.3, C06, C07, C09, C11, C18)

`RV.ExecutorX.reconcileX P` is one `BatchReleaseReconciler.Reconcile` written over a record `P : Plane W` of the five
calls of `control.Interface`.  The theorems below are proved **once, for every lawful plane** (`Laws P`): every
BatchRelease (any plan, partition, status — corrupted phases / states included), every world of the plane.
The laws are proved for each concrete plane in `RV.Props.ExecutorXPlanes` from that plane's own model.

`executor_is_instance`: the CloneSet executor `RV.Executor.reconcile` (theorems `RV.Props.Executor.*`) is the instance
for the CloneSet plane.
-/
namespace RV.Props.ExecutorX
open RV.Arith RV.BatchCtx RV.Executor RV.ExecutorX RV.Oracle.ExecutorX

variable {W : Type}

/-- **Plane laws.**  What the executor relies on, stated with the plane's *own* predicates `Q : Preds W`
    (`ready`: the batch the persisted status points at has its pods, as the plane counts them; `released`: the workload is
    no longer under this BatchRelease's control), for every world the API server can hold (`Q.wf`). -/
structure Laws (P : Plane W) (Q : Preds W) : Prop where
  /-- `EnsureBatchPodsReadyAndLabeled` returns nil exactly when the plane's readiness predicate holds (never from the new status) -/
  ensure_ok_iff : ∀ br ns w, Q.wf w = true → (P.ensure br ns w = .val .ok ↔ Q.ready br w = true)
  /-- `Finalize` returning nil means released -/
  fin_ok_released : ∀ br w w', Q.wf w = true → P.fin br w = .val (w', .ok) → Q.released br w' = true
  /-- `Initialize` records revisions / replicas / no-need-update only -/
  init_frame : InitFrame P
  /-- a successful `Initialize` leaves the workload claimed the way this plane claims it -/
  init_ok_claimed : ∀ br ns w w' ns', Q.wf w = true → P.init br ns w = .val (w', ns', .ok) → Q.claimed br w w' = true

/-- **Exposure laws** of a plane (`exposure`: how many pods of the new revision the world lets run, `allowed`: what the plan entry
    of the current batch allows), inside the region `expoOK` in which the plane's own exposure theorems hold. -/
structure ExposureLaws (P : Plane W) (Q : Preds W) : Prop where
  /-- `Initialize` exposes nothing -/
  init_exposes_nothing : ∀ br ns w w' ns' r, Q.wf w = true → Q.expoOK br w = true →
    P.init br ns w = .val (w', ns', r) → Q.exposure w' ≤ Q.exposure w
  /-- `UpgradeBatch` never lowers the exposure … -/
  upgrade_monotone : ∀ br ns w w' r, Q.wf w = true → Q.expoOK br w = true →
    P.upgrade br ns w = .val (w', r) → Q.exposure w ≤ Q.exposure w'
  /-- … and raises it at most to what the current batch allows -/
  upgrade_within : ∀ br ns w w' r, Q.wf w = true → Q.expoOK br w = true →
    P.upgrade br ns w = .val (w', r) → Q.exposure w' ≤ max (Q.exposure w) (Q.allowed br w)
  /-- a failed `UpgradeBatch` changed nothing -/
  upgrade_err_same : ∀ br ns w w', P.upgrade br ns w = .val (w', .err) → w' = w

/-- the `UpgradeBatch` part of the exposure laws: all that `x_write_within_batch` needs -/
structure UpgradeLaws (P : Plane W) (Q : Preds W) : Prop where
  upgrade_monotone : ∀ br ns w w' r, Q.wf w = true → Q.expoOK br w = true →
    P.upgrade br ns w = .val (w', r) → Q.exposure w ≤ Q.exposure w'
  upgrade_within : ∀ br ns w w' r, Q.wf w = true → Q.expoOK br w = true →
    P.upgrade br ns w = .val (w', r) → Q.exposure w' ≤ max (Q.exposure w) (Q.allowed br w)
  upgrade_err_same : ∀ br ns w w', P.upgrade br ns w = .val (w', .err) → w' = w

theorem ExposureLaws.upgradeLaws {P : Plane W} {Q : Preds W} (E : ExposureLaws P Q) : UpgradeLaws P Q :=
  ⟨E.upgrade_monotone, E.upgrade_within, E.upgrade_err_same⟩

/-- the readiness verdict the oracles use: the plane's predicate for the release as the executor holds it -/
abbrev readyNow (Q : Preds W) (br : BR) (w : W) : Bool := Q.ready (withFinalizer br) w

/-! ## the CloneSet executor is an instance -/

/-- **`RV.Executor.reconcile` is `reconcileX` for the CloneSet plane** — by unfolding both reconcilers down to the calls of the
    plane; the special-case chain (`syncDecide`), `refreshStatus`, `moveToNextBatch` are shared definitions and are not
    unfolded.  Every theorem of `RV.Props.Executor` is therefore a theorem about `reconcileX csPlane`. -/
theorem executor_is_instance (br : BR) (wl : Option Workload) :
    reconcile br wl = mapOut StepOutX.toStepOut (reconcileX csPlane br wl) := by
  have hprog : ∀ b ns w, execProgressing b ns w = execProgressingX csPlane b ns w := by
    intro b ns w
    unfold execProgressing execProgressingX
    dsimp only
    cases (normState ns).batchState <;> dsimp only [csPlane]
    · generalize upgradeBatch b (normState ns) w = r; rcases r with ⟨w', _ | _⟩ | _ <;> rfl
    · generalize ensureReady b (normState ns) w = r; rcases r with (_ | _) | _ <;> rfl
    · generalize ensureReady b (normState ns) w = r; rcases r with (_ | _) | _ <;> rfl
  have hexec : ∀ b ns w, execute b ns w = executeX csPlane b ns w := by
    intro b ns w
    unfold execute executeX
    dsimp only
    cases (normPhase ns).phase <;> dsimp only
    · rfl
    · exact hprog b _ w
    · rfl
  have hsync : ∀ b ns w, syncStatusX csPlane b ns w = .val (syncStatus b ns w) := fun _ _ _ => rfl
  unfold reconcile reconcileX
  split
  · rfl
  · unfold reconcileBody reconcileBodyX
    rw [hsync]
    dsimp only
    split
    · rfl
    · rw [← hexec]
      generalize execute (withFinalizer br) _ wl = r
      rcases r with ⟨ns', w', rq, er⟩ | _ <;> rfl

/-! ## theorems for every lawful plane -/

/-- **C18 `x_finalizer_guards_teardown`** — for every plane: the controller drops its own finalizer only while the object is
    being deleted *and* its phase is `Completed`; in every other reconcile the finalizer is present afterwards. -/
theorem x_finalizer_guards_teardown (P : Plane W) (br : BR) (w : W) (o : StepOutX W)
    (h : reconcileX P br w = .val o) : goneOnlyWhenCompleted br o.br = true := by
  unfold goneOnlyWhenCompleted RV.Oracle.Executor.goneOnlyWhenCompleted
  rcases reconcileX_cases P br w o h with ⟨hd, hp, _, hb, _⟩ | ⟨_, s, _, hrest⟩
  · simp [hb, hd, hp]
  · rcases hrest with ⟨_, hb, _⟩ | ⟨_, _, _, _, _, _, hb, _⟩ <;> simp [hb, withFinalizer]

/-- **C06 / C01 `x_no_act_before_persist`** — for every plane: a phase / batch-state / cursor change decided by the sync step is
    persisted *before* anything acts on it: when the reconcile stops after the sync, the plane's world is not written. -/
theorem x_no_act_before_persist [DecidableEq W] (P : Plane W) (br : BR) (w : W) (o : StepOutX W)
    (h : reconcileX P br w = .val o) : noActBeforePersist (stoppedX P br w) w o.wl = true := by
  unfold noActBeforePersist
  split
  · rename_i hs
    rcases reconcileX_cases P br w o h with ⟨_, _, _, _, hw⟩ | ⟨_, s, hsync, hrest⟩
    · simp [hw]
    · rcases hrest with ⟨_, _, hw⟩ | ⟨hstop, _⟩
      · simp [hw]
      · rw [stoppedX_of_sync P br w s hsync, hstop] at hs; cases hs
  · rfl

/-- **C11.i `x_ready_only_if_ready`** — for every lawful plane: whenever the executor acts on a `Progressing` release and leaves
    the batch state `Ready`, `EnsureBatchPodsReadyAndLabeled` passed in this very reconcile, i.e. the plane's own readiness
    predicate holds of the world as it was observed. -/
theorem x_ready_only_if_ready (P : Plane W) (Q : Preds W) (L : Laws P Q) (br : BR) (w : W) (o : StepOutX W) (b : BR)
    (h : reconcileX P br w = .val o) (hb : o.br = some b) (hwf : Q.wf w = true) :
    readyOnlyIfReady (stoppedX P br w) (readyNow Q br w) br b = true := by
  unfold readyOnlyIfReady
  split
  · rename_i hc
    obtain ⟨hns, hp, hp', hs'⟩ := hc
    have hns' : stoppedX P br w = false := by simpa using hns
    obtain ⟨ns', w', rq, er, hex, hb', _⟩ := reconcileX_exec P br w o h hns'
    rw [hb'] at hb; simp only [Option.some.injEq] at hb; subst hb
    simp only at hp' hs'
    rcases executeX_cases P L.init_frame _ _ _ _ _ _ _ hex with ⟨_, hpr⟩ | ⟨hnp, _⟩
    · rcases execProgressingX_cases P _ _ _ _ _ _ _ hpr with ⟨_, _, hr, _⟩ | ⟨hmv, _⟩
      · exact (L.ensure_ok_iff _ _ _ hwf).mp (hr hs').2
      · rw [hmv] at hs'; simp [moveToNextBatch] at hs'
    · exact absurd hp hnp
  · rfl

/-- **C11.ii / C01.3 `x_within_partition`** — for every lawful plane: the executor never works on a batch beyond its
    `batchPartition`: if `currentBatch ≤ batchPartition` held before a reconcile of a release that is (still) Progressing,
    it holds after it — across plan recalculation, restart, scaling and normal advancement. -/
theorem x_within_partition (P : Plane W) (Q : Preds W) (L : Laws P Q) (br : BR) (w : W) (o : StepOutX W) (b : BR)
    (h : reconcileX P br w = .val o) (hb : o.br = some b) (hwf : Q.wf w = true) (hne : br.status.phase ≠ .empty) :
    withinPartition br b = true := by
  unfold withinPartition RV.Oracle.Executor.withinPartition
  cases hpart : br.partition with
  | none => rfl
  | some p =>
    simp only []
    split
    · rename_i hc
      obtain ⟨hp', hle, h0⟩ := hc
      apply decide_eq_true
      by_cases hs : stoppedX P br w = true
      · obtain ⟨ev, info, hst, _⟩ := stoppedX_status P br w o b h hb hs
        rw [hst]
        simp only [refresh_currentBatch, initialized_id _ hne]
        exact syncDecide_within (withFinalizer br) br.status _ _ p hpart h0 hle
      · have hns : stoppedX P br w = false := by simpa using hs
        obtain ⟨ns', w', rq, er, hex, hb', _⟩ := reconcileX_exec P br w o h hns
        rw [hb'] at hb; simp only [Option.some.injEq] at hb; subst hb
        simp only at hp' ⊢
        rcases executeX_cases P L.init_frame _ _ _ _ _ _ _ hex with ⟨_, hpr⟩ | ⟨_, hcb, _⟩
        · rcases execProgressingX_cases P _ _ _ _ _ _ _ hpr with ⟨hcb, _⟩ | ⟨hmv, _⟩
          · omega
          · rw [hmv]
            simp only [moveToNextBatch, withFinalizer, hpart, normState_currentBatch]
            split <;> omega
        · omega
    · rfl

/-- **C11.ii / C01.3 `x_batch_advance_guarded`** — for every lawful plane: with an unchanged, healthy plan, `currentBatch` rises
    only by exactly one, only from batch state `Ready`, only with the plane's readiness predicate true in this reconcile, and
    only while `batchPartition` is strictly above it. -/
theorem x_batch_advance_guarded (P : Plane W) (Q : Preds W) (L : Laws P Q) (br : BR) (w : W) (o : StepOutX W) (b : BR)
    (h : reconcileX P br w = .val o) (hb : o.br = some b) (hwf : Q.wf w = true) :
    batchAdvanceGuarded (readyNow Q br w) br b = true := by
  unfold batchAdvanceGuarded
  split
  · rename_i hc
    obtain ⟨hgt, hp, hh, hu⟩ := hc
    have hne : br.status.phase ≠ .empty := by rw [hp]; decide
    have hchg : isPlanChanged (withFinalizer br) = false := by
      simp [isPlanChanged, withFinalizer, hh]
    have hunh : isPlanUnhealthy (withFinalizer br) = false := by
      have : isPlanUnhealthy (withFinalizer br) = isPlanUnhealthy br := rfl
      rw [this]; simpa using hu
    by_cases hs : stoppedX P br w = true
    · exfalso
      obtain ⟨ev, info, hst, _⟩ := stoppedX_status P br w o b h hb hs
      rw [hst] at hgt
      simp only [refresh_currentBatch, initialized_id _ hne] at hgt
      rw [syncDecide_currentBatch _ _ _ _ hchg hunh] at hgt
      omega
    · have hns : stoppedX P br w = false := by simpa using hs
      obtain ⟨ns', w', rq, er, hex, hb', _⟩ := reconcileX_exec P br w o h hns
      rw [hb'] at hb; simp only [Option.some.injEq] at hb; subst hb
      simp only at hgt
      rcases executeX_cases P L.init_frame _ _ _ _ _ _ _ hex with ⟨_, hpr⟩ | ⟨_, hcb, _⟩
      · rcases execProgressingX_cases P _ _ _ _ _ _ _ hpr with ⟨hcb, _⟩ | ⟨hmv, hrd, hok, hnp, _⟩
        · omega
        · have hready : readyNow Q br w = true := (L.ensure_ok_iff _ _ _ hwf).mp hok
          rw [hmv] at hgt ⊢
          simp only [moveToNextBatch, withFinalizer, normState_currentBatch] at hgt ⊢
          cases hpart : br.partition with
          | none =>
            -- a release without partition is finalizing: the sync step would have stopped
            exfalso
            rcases reconcileX_cases P br w o h with ⟨_, hpc, _, _, _⟩ | ⟨_, s, hsync, _⟩
            · rw [hp] at hpc; cases hpc
            · have hstop : s.stop = false := by rw [← stoppedX_of_sync P br w s hsync]; exact hns
              rw [initialized_id _ hne] at hsync
              have hfin : isPlanFinalizing (withFinalizer br) = true := by
                simp [isPlanFinalizing, withFinalizer, hpart]
              have := nostopX_progressing_partitioned P (withFinalizer br) w s hsync hstop hp
              rw [hfin] at this; cases this
          | some p =>
            simp only [hpart] at hgt ⊢
            split at hgt
            · rename_i hlt
              simp [hrd, hready, hlt]
            · omega
      · omega
  · rfl

/-- **C11.iii / C18 `x_completed_means_released`** — for every lawful plane and **every attempt** (any world a previous attempt
    left): phase `Completed` is entered only from `Finalizing`, in a reconcile in which the plane's `Finalize` returned
    without error, and then the plane's `released` predicate holds of the world that call left. -/
theorem x_completed_means_released (P : Plane W) (Q : Preds W) (L : Laws P Q) (br : BR) (w : W) (o : StepOutX W) (b : BR)
    (h : reconcileX P br w = .val o) (hb : o.br = some b) (hwf : Q.wf w = true) (hne : br.status.phase ≠ .empty) :
    completedMeansReleased (Q.released (withFinalizer br) o.wl) br b = true := by
  unfold completedMeansReleased
  split
  · rename_i hc
    obtain ⟨hc', hnc⟩ := hc
    by_cases hs : stoppedX P br w = true
    · exfalso
      obtain ⟨ev, info, hst, _⟩ := stoppedX_status P br w o b h hb hs
      rw [hst] at hc'
      simp only [refresh_phase, initialized_id _ hne] at hc'
      exact syncDecide_not_completed _ _ _ _ hnc hc'
    · have hns : stoppedX P br w = false := by simpa using hs
      obtain ⟨ns', w', rq, er, hex, hb', hw⟩ := reconcileX_exec P br w o h hns
      rw [hb'] at hb; simp only [Option.some.injEq] at hb; subst hb
      simp only at hc'
      rcases executeX_cases P L.init_frame _ _ _ _ _ _ _ hex with ⟨hp, hpr⟩ | ⟨_, _, hfin⟩
      · exfalso
        rcases execProgressingX_cases P _ _ _ _ _ _ _ hpr with ⟨_, hph, _⟩ | ⟨hmv, _⟩
        · rw [hph, hp] at hc'; cases hc'
        · rw [hmv] at hc'
          have : (normState br.status).phase = br.status.phase := by unfold normState; split <;> rfl
          simp only [moveToNextBatch, this] at hc'
          rw [hp] at hc'; cases hc'
      · obtain ⟨hf, hfin'⟩ := hfin hc' hnc
        rw [hw]
        simp only [hf, decide_true, Bool.true_and]
        exact L.fin_ok_released _ _ _ hwf hfin'
  · rfl

/-- the converse direction, for C18: the executor writes `Completed` **only** in a reconcile whose `Finalize` returned nil
    (stated on the call, for planes without laws too). -/
theorem x_completed_only_after_finalize (P : Plane W) (hI : InitFrame P) (br : BR) (w : W) (o : StepOutX W) (b : BR)
    (h : reconcileX P br w = .val o) (hb : o.br = some b) (hne : br.status.phase ≠ .empty)
    (hc : b.status.phase = .completed) (hnc : br.status.phase ≠ .completed) :
    br.status.phase = .finalizing ∧ P.fin (withFinalizer br) w = .val (o.wl, .ok) := by
  by_cases hs : stoppedX P br w = true
  · exfalso
    obtain ⟨ev, info, hst, _⟩ := stoppedX_status P br w o b h hb hs
    rw [hst] at hc
    simp only [refresh_phase, initialized_id _ hne] at hc
    exact syncDecide_not_completed _ _ _ _ hnc hc
  · have hns : stoppedX P br w = false := by simpa using hs
    obtain ⟨ns', w', rq, er, hex, hb', hw⟩ := reconcileX_exec P br w o h hns
    rw [hb'] at hb; simp only [Option.some.injEq] at hb; subst hb
    simp only at hc
    rcases executeX_cases P hI _ _ _ _ _ _ _ hex with ⟨hp, hpr⟩ | ⟨_, _, hfin⟩
    · exfalso
      rcases execProgressingX_cases P _ _ _ _ _ _ _ hpr with ⟨_, hph, _⟩ | ⟨hmv, _⟩
      · rw [hph, hp] at hc; cases hc
      · rw [hmv] at hc
        have : (normState br.status).phase = br.status.phase := by unfold normState; split <;> rfl
        simp only [moveToNextBatch, this] at hc
        rw [hp] at hc; cases hc
    · obtain ⟨hf, hfin'⟩ := hfin hc hnc
      rw [hw]; exact ⟨hf, hfin'⟩

/-- **C11.iv `x_falls_back`** — for every lawful plane: if the plane's readiness predicate fails while the batch state is
    `Verifying` or `Ready`, the state falls back to `Upgrading` (and a recorded ready time is cleared) rather than staying `Ready`. -/
theorem x_falls_back (P : Plane W) (Q : Preds W) (L : Laws P Q) (br : BR) (w : W) (o : StepOutX W) (b : BR)
    (h : reconcileX P br w = .val o) (hb : o.br = some b) (hwf : Q.wf w = true) :
    fallsBack (stoppedX P br w) (readyNow Q br w) br b = true := by
  unfold fallsBack
  split
  · rename_i hc
    obtain ⟨hns, hp, hst, hnr⟩ := hc
    have hns' : stoppedX P br w = false := by simpa using hns
    obtain ⟨ns', w', rq, er, hex, hb', _⟩ := reconcileX_exec P br w o h hns'
    rw [hb'] at hb; simp only [Option.some.injEq] at hb; subst hb
    dsimp only
    rcases executeX_cases P L.init_frame _ _ _ _ _ _ _ hex with ⟨_, hpr⟩ | ⟨hnp, _⟩
    · have hnorm : normState br.status = br.status := by
        unfold normState; rcases hst with h1 | h1 <;> simp [h1]
      unfold execProgressingX at hpr
      dsimp only at hpr
      rw [hnorm] at hpr
      have hnok : P.ensure (withFinalizer br) br.status w ≠ .val .ok := by
        intro hok; exact hnr ((L.ensure_ok_iff _ _ _ hwf).mp hok)
      rcases hst with h1 | h1
      · simp only [h1] at hpr
        split at hpr
        · cases hpr
        · rename_i hok; exact absurd hok hnok
        · simp only [Out.val.injEq, Prod.mk.injEq] at hpr
          obtain ⟨hh, _⟩ := hpr; subst hh
          simp [h1]
      · simp only [h1] at hpr
        split at hpr
        · cases hpr
        · simp only [Out.val.injEq, Prod.mk.injEq] at hpr
          obtain ⟨hh, _⟩ := hpr; subst hh
          simp
        · rename_i hok; exact absurd hok hnok
    · exact absurd hp hnp
  · rfl

/-- **C11.iv `x_plan_change_falls_back`** — for every plane: a plan change found while `Progressing` is acknowledged only as
    `Upgrading` with the ready time cleared; `Ready` is never kept across a plan edit. -/
theorem x_plan_change_falls_back (P : Plane W) (br : BR) (w : W) (o : StepOutX W) (b : BR)
    (h : reconcileX P br w = .val o) (hb : o.br = some b) :
    planChangeFallsBack br b = true := by
  unfold planChangeFallsBack RV.Oracle.Executor.planChangeFallsBack
  split
  · rename_i hc
    obtain ⟨hp, hh, hnf⟩ := hc
    have hnf' : isPlanFinalizing (withFinalizer br) = false := by
      have : isPlanFinalizing (withFinalizer br) = isPlanFinalizing br := rfl
      rw [this]; simpa using hnf
    have hch : isPlanChanged (withFinalizer br) = true := by simp [isPlanChanged, withFinalizer, hp, hh]
    have hinit : initializedStatus br.status = br.status := by simp [initializedStatus, hp]
    have hdec : ∀ ev info, syncDecide (withFinalizer br) br.status ev info = (signalRecalculate (withFinalizer br) br.status, false) := by
      intro ev info
      unfold syncDecide
      have hpc : (withFinalizer br).status.phase ≠ .completed := by simp [withFinalizer, hp]
      simp only [hpc, if_false, hnf', hch, if_true, Bool.false_eq_true]
    have hfields : ∀ i, (refreshStatus (signalRecalculate (withFinalizer br) br.status) i).batchState = .upgrading ∧
        (refreshStatus (signalRecalculate (withFinalizer br) br.status) i).hasReadyTime = false ∧
        (refreshStatus (signalRecalculate (withFinalizer br) br.status) i).hash = .same := by
      intro i; unfold refreshStatus signalRecalculate; cases i <;> simp
    rcases reconcileX_cases P br w o h with ⟨_, hpc, _, _, _⟩ | ⟨_, s, hsync, hrest⟩
    · rw [hp] at hpc; cases hpc
    · rw [hinit] at hsync
      obtain ⟨ev, info, _, hst, hstop⟩ := syncStatusX_val P _ _ w s hsync
      rw [hdec] at hst hstop
      have hstop' : s.stop = true := by
        rw [hstop]
        simp only [Bool.false_or, decide_eq_true_eq]
        intro heq
        have := congrArg Status.hash heq
        rw [(hfields _).2.2] at this
        exact hh (by simpa [withFinalizer] using this.symm)
      rcases hrest with ⟨_, hb', _⟩ | ⟨hns, _⟩
      · rw [hb'] at hb; simp only [Option.some.injEq] at hb; subst hb
        dsimp only
        rw [hst]
        obtain ⟨f1, f2, f3⟩ := hfields info
        simp [f1, f2, f3]
      · rw [hstop'] at hns; cases hns
  · rfl

/-- the special-case chain never makes a release `Progressing` by itself -/
theorem syncDecide_progressing (br : BR) (ns : Status) (ev : Event) (info : Option Workload)
    (h : (syncDecide br ns ev info).1.phase = .progressing) : ns.phase = .progressing := by
  generalize hr : syncDecide br ns ev info = r at h
  unfold syncDecide at hr
  dsimp only at hr
  repeat' split at hr
  all_goals
    subst hr
    first
      | exact h
      | (simp only [signalRecalculate] at h; exact h)
      | (simp only [resetStatus] at h; cases h)
      | (cases h)

/-- **C01 / C11 `x_init_claims`** — for every lawful plane: a release becomes `Progressing` only in a reconcile that executed the
    plane's `Initialize` successfully from a persisted `Preparing` (or unknown) phase — never through the sync step — and then the
    workload is claimed the way the serving plane claims it (the plane's own post-condition, on the worlds before / after). -/
theorem x_init_claims (P : Plane W) (Q : Preds W) (L : Laws P Q) (br : BR) (w : W) (o : StepOutX W) (b : BR)
    (h : reconcileX P br w = .val o) (hb : o.br = some b) (hwf : Q.wf w = true) :
    initClaims (Q.claimed (withFinalizer br) w o.wl) br b = true := by
  unfold initClaims
  split
  · rename_i hc
    obtain ⟨hnp, hp'⟩ := hc
    by_cases hs : stoppedX P br w = true
    · exfalso
      obtain ⟨ev, info, hst, _⟩ := stoppedX_status P br w o b h hb hs
      rw [hst, refresh_phase] at hp'
      have := syncDecide_progressing _ _ _ _ hp'
      unfold initializedStatus at this
      split at this
      · simp [resetStatus] at this
      · exact hnp this
    · have hns : stoppedX P br w = false := by simpa using hs
      obtain ⟨ns', w', rq, er, hex, hb', hw⟩ := reconcileX_exec P br w o h hns
      rw [hb'] at hb; simp only [Option.some.injEq] at hb; subst hb
      simp only at hp'
      -- not Progressing before: `executeX` ran `Initialize`, `Finalize` or nothing
      unfold executeX at hex
      dsimp only at hex
      have hprep : ∀ m : Status, execPreparingX P (withFinalizer br) m w = .val (ns', w', rq, er) → m.phase ≠ .progressing →
          ns'.phase = .progressing → Q.claimed (withFinalizer br) w w' = true := by
        intro m hh hm hpr
        unfold execPreparingX at hh
        split at hh
        · cases hh
        · rename_i r hr
          split at hh
          · rename_i hok
            simp only [Out.val.injEq, Prod.mk.injEq] at hh
            obtain ⟨_, h2, _⟩ := hh; subst h2
            have : P.init (withFinalizer br) m w = .val (r.1, r.2.1, .ok) := by
              rw [hr]; congr 1; exact Prod.ext rfl (Prod.ext rfl hok)
            exact L.init_ok_claimed _ _ _ _ _ hwf this
          · simp only [Out.val.injEq, Prod.mk.injEq] at hh
            obtain ⟨h1, _⟩ := hh; subst h1
            obtain ⟨f1, _⟩ := L.init_frame _ _ _ _ _ _ hr
            rw [f1] at hpr; exact absurd hpr hm
      rw [hw]
      cases hph : br.status.phase
      case progressing => exact absurd hph hnp
      case preparing =>
        have hn : normPhase br.status = br.status := by unfold normPhase; simp [hph]
        rw [hn] at hex; simp only [hph] at hex
        exact hprep _ hex (by rw [hph]; decide) hp'
      case finalizing =>
        exfalso
        have hn : normPhase br.status = br.status := by unfold normPhase; simp [hph]
        rw [hn] at hex; simp only [hph] at hex
        unfold execFinalizingX at hex
        split at hex
        · cases hex
        · split at hex <;> simp only [Out.val.injEq, Prod.mk.injEq] at hex <;> obtain ⟨h1, _⟩ := hex <;> subst h1
          · cases hp'
          · rw [hph] at hp'; cases hp'
      case completed =>
        exfalso
        have hn : normPhase br.status = br.status := by unfold normPhase; simp [hph]
        rw [hn] at hex; simp only [hph] at hex
        simp only [Out.val.injEq, Prod.mk.injEq] at hex
        obtain ⟨h1, _⟩ := hex; subst h1
        rw [hph] at hp'; cases hp'
      case empty =>
        have hn : normPhase br.status = { br.status with phase := .preparing } := by unfold normPhase; simp [hph]
        rw [hn] at hex; dsimp only at hex
        exact hprep _ hex (by intro hc; cases hc) hp'
      case other =>
        have hn : normPhase br.status = { br.status with phase := .preparing } := by unfold normPhase; simp [hph]
        rw [hn] at hex; dsimp only at hex
        exact hprep _ hex (by intro hc; cases hc) hp'
  · rfl

/-- **C11.iv `x_scaling_restarts`** — for every plane: when the plane's `SyncWorkloadInformation` reports the scaling event for a
    `Progressing` release whose plan is neither finalizing, changed nor unhealthy, the reconcile restarts the batch (`Upgrading`,
    ready time cleared), records the new size, keeps phase and cursor, and does not act in this round. -/
theorem x_scaling_restarts (P : Plane W) (br : BR) (w : W) (o : StepOutX W) (b : BR)
    (h : reconcileX P br w = .val o) (hb : o.br = some b) :
    scalingRestarts (scaledX P br w) br b = true ∧
    (∀ r, scaledX P br w = some r → br.status.phase = .progressing → isPlanFinalizing br = false → isPlanChanged br = false →
      isPlanUnhealthy br = false → br.status.observedReplicas ≠ r → o.wl = w) := by
  have key : ∀ r, scaledX P br w = some r → br.status.phase = .progressing → isPlanFinalizing br = false →
      isPlanChanged br = false → isPlanUnhealthy br = false → br.status.observedReplicas ≠ r →
      (b.status.batchState = .upgrading ∧ b.status.hasReadyTime = false ∧ b.status.observedReplicas = r ∧
       b.status.phase = .progressing ∧ b.status.currentBatch = br.status.currentBatch) ∧ o.wl = w := by
    intro r hsc hp hf hc hu hne
    -- the plane reported the scaling event with `r` replicas
    unfold scaledX at hsc
    have hev : ∃ i, P.syncInfo (withFinalizer br) (initializedStatus br.status) w = .val (.replicasChanged, some i) ∧ i.replicas = r := by
      split at hsc
      · rename_i i hi; simp only [Option.some.injEq] at hsc; exact ⟨i, hi, hsc⟩
      · cases hsc
    obtain ⟨i, hi, hir⟩ := hev
    have hinit : initializedStatus br.status = br.status := by simp [initializedStatus, hp]
    rcases reconcileX_cases P br w o h with ⟨_, hpc, _, _, _⟩ | ⟨_, s, hsync, hrest⟩
    · rw [hp] at hpc; cases hpc
    · obtain ⟨ev, info, hsi, hst, hstop⟩ := syncStatusX_val P _ _ w s hsync
      rw [hi] at hsi
      simp only [Out.val.injEq, Prod.mk.injEq] at hsi
      obtain ⟨hev, hinfo⟩ := hsi
      subst hev; subst hinfo
      have hf' : isPlanFinalizing (withFinalizer br) = false := hf
      have hc' : isPlanChanged (withFinalizer br) = false := hc
      have hu' : isPlanUnhealthy (withFinalizer br) = false := hu
      have hdec : syncDecide (withFinalizer br) br.status .replicasChanged (some i) =
          ({ br.status with hasReadyTime := false, batchState := .upgrading, observedReplicas := i.replicas }, false) := by
        unfold syncDecide
        have hpc : (withFinalizer br).status.phase ≠ .completed := by simp [withFinalizer, hp]
        have hp1 : (withFinalizer br).status.phase = .progressing := hp
        simp [hf', hc', hu', hp1]
      rw [hinit, hdec] at hst hstop
      have hobs : s.status.observedReplicas = r := by
        rw [hst]; unfold refreshStatus; simp [hir]
      have hdiff : s.status ≠ br.status := by
        intro heq; rw [heq] at hobs; exact hne hobs
      rcases hrest with ⟨_, hb', hw⟩ | ⟨hns, _⟩
      · rw [hb'] at hb; simp only [Option.some.injEq] at hb; subst hb
        dsimp only
        refine ⟨?_, hw⟩
        rw [hst]
        unfold refreshStatus
        simp [hir, hp]
      · exfalso
        rw [hstop] at hns
        simp only [Bool.false_or, decide_eq_false_iff_not, ne_eq, Decidable.not_not] at hns
        rw [← hst] at hns
        exact hdiff (by simpa [withFinalizer] using hns)
  constructor
  · unfold scalingRestarts
    cases hsc : scaledX P br w with
    | none => rfl
    | some r =>
      simp only []
      split
      · rename_i hc
        obtain ⟨hp, hf, hc', hu, hne⟩ := hc
        obtain ⟨⟨f1, f2, f3, f4, f5⟩, _⟩ := key r hsc hp (by simpa using hf) (by simpa using hc') (by simpa using hu) hne
        simp [f1, f2, f3, f4, f5]
      · rfl
  · intro r hsc hp hf hc hu hne
    exact (key r hsc hp hf hc hu hne).2

/-- **C07 `x_verifying_becomes_ready`** — for every lawful plane: when the plane's readiness predicate holds, a reconcile in
    `Verifying` reports `Ready` (with the ready time set) and touches nothing. -/
theorem x_verifying_becomes_ready (P : Plane W) (Q : Preds W) (L : Laws P Q) (br : BR) (w : W) (o : StepOutX W)
    (h : reconcileX P br w = .val o) (hwf : Q.wf w = true) (hns : stoppedX P br w = false)
    (hp : br.status.phase = .progressing) (hst : br.status.batchState = .verifying) (hr : readyNow Q br w = true) :
    ∃ b, o.br = some b ∧ b.status.batchState = .ready ∧ b.status.hasReadyTime = true ∧
      b.status.currentBatch = br.status.currentBatch ∧ o.wl = w := by
  obtain ⟨ns', w', rq, er, hex, hb, hw⟩ := reconcileX_exec P br w o h hns
  rcases executeX_cases P L.init_frame _ _ _ _ _ _ _ hex with ⟨_, hpr⟩ | ⟨hnp, _⟩
  · unfold execProgressingX at hpr
    dsimp only at hpr
    have hnorm : normState br.status = br.status := by unfold normState; simp [hst]
    rw [hnorm] at hpr
    simp only [hst] at hpr
    rw [(L.ensure_ok_iff _ _ _ hwf).mpr hr] at hpr
    simp only [Out.val.injEq, Prod.mk.injEq] at hpr
    obtain ⟨h1, h2, _, _⟩ := hpr
    refine ⟨_, hb, ?_, ?_, ?_, ?_⟩
    · rw [← h1]
    · rw [← h1]
    · rw [← h1]
    · rw [hw, ← h2]
  · exact absurd hp hnp

/-- **C07 `x_ready_is_fixed_point`** — for every lawful plane: a batch that is `Ready`, whose pods still satisfy the plane's
    readiness predicate and whose partition does not ask for more, is a fixed point: neither the status nor the world changes. -/
theorem x_ready_is_fixed_point (P : Plane W) (Q : Preds W) (L : Laws P Q) (br : BR) (w : W) (o : StepOutX W)
    (h : reconcileX P br w = .val o) (hwf : Q.wf w = true) (hns : stoppedX P br w = false)
    (hp : br.status.phase = .progressing) (hst : br.status.batchState = .ready) (hr : readyNow Q br w = true)
    (hpart : isPartitioned br = true) :
    o.br = some (withFinalizer br) ∧ o.wl = w := by
  obtain ⟨ns', w', rq, er, hex, hb, hw⟩ := reconcileX_exec P br w o h hns
  rcases executeX_cases P L.init_frame _ _ _ _ _ _ _ hex with ⟨_, hpr⟩ | ⟨hnp, _⟩
  · unfold execProgressingX at hpr
    dsimp only at hpr
    have hnorm : normState br.status = br.status := by unfold normState; simp [hst]
    rw [hnorm] at hpr
    simp only [hst] at hpr
    rw [(L.ensure_ok_iff _ _ _ hwf).mpr hr] at hpr
    have hpart' : isPartitioned (withFinalizer br) = true := hpart
    simp only [hpart', not_true_eq_false, if_false, Out.val.injEq, Prod.mk.injEq] at hpr
    obtain ⟨h1, h2, _, _⟩ := hpr
    refine ⟨?_, by rw [hw, ← h2]⟩
    rw [hb, ← h1]
    rfl
  · exact absurd hp hnp

/-- **C07 `x_settles`** (the oracle form of the two theorems above) -/
theorem x_settles [DecidableEq W] (P : Plane W) (Q : Preds W) (L : Laws P Q) (br : BR) (w : W) (o : StepOutX W) (b : BR)
    (h : reconcileX P br w = .val o) (hb : o.br = some b) (hwf : Q.wf w = true) :
    settles (stoppedX P br w) (readyNow Q br w) br b w o.wl = true := by
  unfold settles
  split
  · rename_i hc
    obtain ⟨hns, hp, hr⟩ := hc
    have hns' : stoppedX P br w = false := by simpa using hns
    split
    · rename_i hv
      obtain ⟨b', hb', f1, f2, f3, f4⟩ := x_verifying_becomes_ready P Q L br w o h hwf hns' hp hv hr
      rw [hb'] at hb; simp only [Option.some.injEq] at hb; subst hb
      simp [f1, f2, f3, f4]
    · split
      · rename_i hrd
        obtain ⟨f1, f2⟩ := x_ready_is_fixed_point P Q L br w o h hwf hns' hp hrd.1 hr hrd.2
        rw [f1] at hb; simp only [Option.some.injEq] at hb; subst hb
        simp [withFinalizer, f2]
      · rfl
  · rfl

/-- **C01 `x_write_within_batch`** — for every lawful plane: a reconcile of a release that is and stays `Progressing` changes the
    exposure of the new revision only upwards and at most to what the plan entry of the batch the *persisted* status points at
    allows; every other such reconcile leaves the exposure as it is. -/
theorem x_write_within_batch (P : Plane W) (Q : Preds W) (L : Laws P Q) (E : UpgradeLaws P Q) (br : BR) (w : W)
    (o : StepOutX W) (b : BR) (h : reconcileX P br w = .val o) (hb : o.br = some b)
    (hwf : Q.wf w = true) (hok : Q.expoOK (withFinalizer br) w = true) :
    writeWithinBatch (Q.exposure w) (Q.exposure o.wl) (Q.allowed (withFinalizer br) w) br b = true := by
  unfold writeWithinBatch
  split
  · rename_i hc
    obtain ⟨hp, hp'⟩ := hc
    have same : ∀ w', w' = w → (decide (Q.exposure w ≤ Q.exposure w') &&
        decide (Q.exposure w' ≤ max (Q.exposure w) (Q.allowed (withFinalizer br) w))) = true := by
      intro w' hw; subst hw
      simp only [Int.le_refl, decide_true, Bool.true_and, decide_eq_true_eq]
      omega
    by_cases hs : stoppedX P br w = true
    · obtain ⟨_, _, _, hw⟩ := stoppedX_status P br w o b h hb hs
      exact same _ hw
    · have hns : stoppedX P br w = false := by simpa using hs
      obtain ⟨ns', w', rq, er, hex, hb', hw⟩ := reconcileX_exec P br w o h hns
      rw [hb'] at hb; simp only [Option.some.injEq] at hb; subst hb
      rcases executeX_cases P L.init_frame _ _ _ _ _ _ _ hex with ⟨_, hpr⟩ | ⟨hnp, _⟩
      · rcases execProgressingX_cases P _ _ _ _ _ _ _ hpr with ⟨_, _, _, hw' | ⟨r, hu⟩⟩ | ⟨_, _, _, _, hw'⟩
        · exact same _ (by rw [hw, hw'])
        · rw [hw]
          have m := E.upgrade_monotone _ _ _ _ _ hwf hok hu
          have wi := E.upgrade_within _ _ _ _ _ hwf hok hu
          simp only [Bool.and_eq_true, decide_eq_true_eq]
          exact ⟨m, wi⟩
        · exact same _ (by rw [hw, hw'])
      · exact absurd hp hnp
  · rfl

/-- **C09 `x_panics_only_in_plane`** — the executor itself never crashes (no indexing, no dereference of its own: `isPlanUnhealthy`
    restarts a release whose cursor left the plan before anything indexes it): if a reconcile over the plane `P` crashes, then one of
    the plane's five calls crashed — on the release as the executor holds it and the world as observed. -/
theorem x_panics_only_in_plane (P : Plane W) (br : BR) (w : W) (h : reconcileX P br w = .panic) :
    (∃ ns, P.syncInfo (withFinalizer br) ns w = .panic) ∨ (∃ ns, P.init (withFinalizer br) ns w = .panic) ∨
    (∃ ns, P.upgrade (withFinalizer br) ns w = .panic) ∨ (∃ ns, P.ensure (withFinalizer br) ns w = .panic) ∨
    P.fin (withFinalizer br) w = .panic := by
  unfold reconcileX at h
  split at h
  · cases h
  · unfold reconcileBodyX at h
    split at h
    · rename_i hs
      left
      unfold syncStatusX at hs
      split at hs
      · rename_i hp; exact ⟨_, hp⟩
      · cases hs
    · rename_i s hs
      split at h
      · cases h
      · split at h
        · rename_i hex
          right
          unfold executeX at hex
          dsimp only at hex
          split at hex
          · unfold execPreparingX at hex
            split at hex
            · rename_i hp; left; exact ⟨_, hp⟩
            · split at hex <;> cases hex
          · unfold execProgressingX at hex
            dsimp only at hex
            split at hex
            · split at hex
              · rename_i hp; right; left; exact ⟨_, hp⟩
              · cases hex
              · cases hex
            · split at hex
              · rename_i hp; right; right; left; exact ⟨_, hp⟩
              · cases hex
              · cases hex
            · split at hex
              · rename_i hp; right; right; left; exact ⟨_, hp⟩
              · cases hex
              · split at hex <;> cases hex
            · cases hex
          · unfold execFinalizingX at hex
            split at hex
            · rename_i hp; right; right; right; exact hp
            · split at hex <;> cases hex
          · cases hex
        · cases h

/-! ## `getReleaseController` -/

/-- **`x_dispatch`** — which plane serves which workload reference and rolling style (`getReleaseController`, all cases):
    blue-green serves CloneSet and Deployment with their blue-green planes; canary serves the Deployment with the
    canary-style plane and *falls through* to the partition arm for every other kind; the partition arm (also the empty style)
    picks the CloneSet / DaemonSet / Deployment partition planes; whatever is left ends at the StatefulSet-like plane **only if it is
    a StatefulSet** (native or Advanced) — every other combination gets no plane; `enableExtraWorkloadForCanary` matters only when
    the style is empty. -/
theorem x_dispatch (k : RefKind) (s : Style) (e : Bool) :
    dispatch k s e =
      (match effectiveStyle s e, k with
       | _, .unsupported => none
       | .blueGreen, .cloneSet => some .csBlueGreen
       | .blueGreen, .deployment => some .depBlueGreen
       | .canary, .deployment => some .depCanary
       | .blueGreen, .nativeSts | .blueGreen, .advancedSts => some .stsLike
       | .blueGreen, _ => none
       | .other, .nativeSts | .other, .advancedSts => some .stsLike
       | .other, _ => none
       | _, .cloneSet => some .csPartition
       | _, .daemonSet => some .dsPartition
       | _, .deployment => some .depPartition
       | _, .nativeSts | _, .advancedSts => some .stsLike
       | _, _ => none) ∧
    (s ≠ .empty → dispatch k s e = dispatch k s false) ∧
    (dispatch k .empty true = dispatch k .canary false) := by
  refine ⟨?_, ?_, ?_⟩
  · cases k <;> cases s <;> cases e <;> rfl
  · intro hs; cases k <;> cases s <;> cases e <;> first | rfl | exact absurd rfl hs
  · cases k <;> rfl

/-- a partition-style CloneSet plane is never handed a blue-green release, and vice versa (the dispatch separates the styles) -/
theorem x_dispatch_styles_disjoint (k : RefKind) (e : Bool) :
    dispatch k .blueGreen e ≠ some .csPartition ∧ dispatch k .blueGreen e ≠ some .depPartition ∧
    dispatch k .blueGreen e ≠ some .depCanary ∧
    dispatch k .partition e ≠ some .csBlueGreen ∧ dispatch k .partition e ≠ some .depBlueGreen ∧
    dispatch k .partition e ≠ some .depCanary := by
  cases k <;> cases e <;> decide

/-- **`x_dispatch` (the StatefulSet-like control gets StatefulSets only)** — the control whose helpers panic on every other typed
    object (`GetReplicas`, `GetStatefulSetPartition`, `IsStatefulSetUnorderedUpdate`) is built for native and Advanced StatefulSets
    and for nothing else; a DaemonSet plane serves DaemonSets only, a Deployment plane Deployments only, a CloneSet plane CloneSets only. -/
theorem x_dispatch_kind_matches (k : RefKind) (s : Style) (e : Bool) (id : PlaneId) (h : dispatch k s e = some id) :
    match id with
    | .stsLike => k = .nativeSts ∨ k = .advancedSts
    | .dsPartition => k = .daemonSet
    | .csPartition | .csBlueGreen => k = .cloneSet
    | .depPartition | .depCanary | .depBlueGreen => k = .deployment := by
  cases k <;> cases s <;> cases e <;> cases id <;> revert h <;> decide

/-- **`x_dispatch` (who gets no plane)** — exactly: an unsupported group/kind; an apps/v1 ReplicaSet under any style; a CloneSet,
    Deployment or DaemonSet under an unknown style; a DaemonSet under blue-green. -/
theorem x_dispatch_refused (k : RefKind) (s : Style) (e : Bool) :
    dispatch k s e = none ↔
      (k = .unsupported ∨ k = .replicaSet ∨
       (effectiveStyle s e = .other ∧ (k = .cloneSet ∨ k = .deployment ∨ k = .daemonSet)) ∨
       (effectiveStyle s e = .blueGreen ∧ k = .daemonSet)) := by
  cases k <;> cases s <;> cases e <;> decide

/-- **`x_unsupported_kind_is_inert` / `x_no_panic` without a plane (full strength)** — whenever `getReleaseController` hands out no
    plane (see `x_dispatch_refused`), the reconcile never crashes and never touches anything but the status: the initialised status is
    persisted (an empty phase becomes `Preparing`), the finalizer handling is the usual one, nothing is executed, no error is returned
    — whatever objects the workload reference names. -/
theorem x_unsupported_kind_is_inert (br : BR) (w : W) :
    ∃ o, reconcileNoPlane br w = .val o ∧ o.wl = w ∧ o.err = false ∧ goneOnlyWhenCompleted br o.br = true ∧
      (∀ b, o.br = some b → b.status = initializedStatus br.status ∧ b.status.phase ≠ .empty) := by
  unfold reconcileNoPlane
  split
  · rename_i hc
    refine ⟨_, rfl, rfl, rfl, ?_, ?_⟩
    · simp [goneOnlyWhenCompleted, RV.Oracle.Executor.goneOnlyWhenCompleted, hc.1, hc.2.1]
    · intro b hb; cases hb
  · refine ⟨_, rfl, rfl, rfl, ?_, ?_⟩
    · simp [goneOnlyWhenCompleted, RV.Oracle.Executor.goneOnlyWhenCompleted, withFinalizer]
    · intro b hb
      simp only [Option.some.injEq] at hb; subst hb
      refine ⟨rfl, ?_⟩
      dsimp only
      unfold initializedStatus
      split
      · simp [resetStatus]
      · assumption

/-- **C09 `x_no_panic` (no plane)** — the reconcile of a BatchRelease that gets no plane does not crash. -/
theorem x_no_panic_without_plane (br : BR) (w : W) : reconcileNoPlane br w ≠ .panic := by
  obtain ⟨o, ho, _⟩ := x_unsupported_kind_is_inert br w
  rw [ho]; intro h; cases h

/-! ### non-vacuity (tests on literals) -/

/-- the advance happens through `reconcileX` on the CloneSet plane exactly as through `reconcile` -/
example : (match reconcileX csPlane RV.Props.Executor.exampleBR (some RV.Props.Executor.exampleWL) with
    | .val o => (o.br.map (·.status.currentBatch), o.br.map (·.status.batchState))
    | .panic => (none, none)) = (some 1, some BState.upgrading) := by decide

/-- the hypotheses of `x_verifying_becomes_ready` are satisfiable on the CloneSet plane -/
example : stoppedX csPlane { RV.Props.Executor.exampleBR with status := { RV.Props.Executor.exampleBR.status with batchState := .verifying } }
      (some RV.Props.Executor.exampleWL) = false ∧
    readyNow csPreds { RV.Props.Executor.exampleBR with status := { RV.Props.Executor.exampleBR.status with batchState := .verifying } }
      (some RV.Props.Executor.exampleWL) = true := by decide

/-- dispatch examples: blue-green CloneSet, canary Deployment (by style and by the deprecated flag), canary falls through
    for a CloneSet, a StatefulSet under blue-green, an unsupported kind -/
example : dispatch .cloneSet .blueGreen false = some .csBlueGreen ∧ dispatch .deployment .canary false = some .depCanary ∧
    dispatch .deployment .empty true = some .depCanary ∧ dispatch .cloneSet .canary false = some .csPartition ∧
    dispatch .nativeSts .blueGreen true = some .stsLike ∧ dispatch .unsupported .partition false = none := by decide

/-- regression examples of the repaired finding `stsPlaneForeignKind`: a ReplicaSet reference, a CloneSet / Deployment / DaemonSet
    under an unknown style and a DaemonSet under blue-green get no plane (they used to be handed to the StatefulSet-like control,
    whose helpers panic on them) -/
example : dispatch .replicaSet .partition false = none ∧ dispatch .replicaSet .empty true = none ∧
    dispatch .cloneSet .other false = none ∧ dispatch .deployment .other true = none ∧ dispatch .daemonSet .other false = none ∧
    dispatch .daemonSet .blueGreen false = none ∧ dispatch .advancedSts .other false = some .stsLike := by decide

end RV.Props.ExecutorX
