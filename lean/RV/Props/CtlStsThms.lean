import RV.Lemmas.CtlSts
import RV.Props.C11
/-!
# The partition-style StatefulSet-like and DaemonSet control planes (attached to C08, C01, C05, C06, C07, C11)

Every statement quantifies over **every** workload of the four Go representations (typed apps/v1 StatefulSet, typed
Advanced StatefulSet, any other StatefulSet-like workload through `unstructured`, typed Advanced DaemonSet), every
shape of `spec.updateStrategy` (absent / not an object / with, without or with a malformed `rollingUpdate` block /
with, without or with a non-integer partition; ordered and unordered), every leftover of earlier releases, every
BatchRelease plan and no-need-update count, every API fault, and — for the walk theorems — every finite sequence of
controller calls and user updates.  The oracles are those of `RV/Oracle/CtlSts.lean`, which the driver evaluates on
the snapshots of the real code.

One defect found by this slice (`dsNoRollingUpdate`: nil dereference in the DaemonSet `CalculateBatchContext`) is
repaired in the code; the model is of the repaired code (`no_crash`).  Two further facts are visible as explicit
The last section (C11 / C07) is about **the pods behind `status.updatedReadyReplicas`**: for these workloads the number
is not a status field — `BuildController` lists the pods and counts; the theorems there quantify over every list of
pods (any length, any order, any mix of owners, phases, labels and conditions).

hypotheses / witnesses rather than findings:
`MaxInt16` holds back every pod only of a workload with at most `MaxInt16` replicas (`sizeOK`, witness
`hold_beyond_maxInt16_FALSE`), and a repeated `Finalize` re-issues its (then ineffective) patch.
-/
set_option linter.unusedSimpArgs false
namespace RV.Props.CtlSts
open RV.Arith IntOrPct RV.Webhook RV.CtlSts RV.BatchCtx RV.Oracle.Batch RV.Oracle.CtlSts

/-! ## C08 / C01 — the webhook holds back, `Initialize` exposes nothing, `UpgradeBatch` stays within its step -/

/-- **C08 / C01 `submit_holds_back`** — for every workload kind and **every representation of the update strategy**
    (typed native / Advanced StatefulSet / Advanced DaemonSet; unstructured with, without or with a null or non-object
    `rollingUpdate` block, with a non-integer partition; absent or non-object `updateStrategy`), every user update and
    every world: a relevant change (new template of a RollingUpdate workload with replicas, referenced by a Rollout) is
    admitted only with partition `MaxInt16` — no pod can move while the size is at most `MaxInt16` — **and** marked
    in-progress, the submitted object otherwise as the user sent it (type, `paused`, `unorderedUpdate` kept; an absent
    strategy becomes `RollingUpdate`); it is rejected only for a DaemonSet without `rollingUpdate` (handler panic,
    failurePolicy Fail); every other update is admitted exactly as submitted; no object is ever newly marked
    in-progress without being held. -/
theorem submit_holds_back (c : Cfg) (d : Option Wl) (s : Step) (o : StepOut)
    (hcall : s.call = .submit) (h : step c d s = .val o) :
    submitHoldsBack c.world d s o = true := by
  unfold submitHoldsBack
  cases d with
  | none => simp only [step, hcall, Out.val.injEq] at h; subst h; rfl
  | some d0 =>
    simp only
    rcases submit_step_cases c d0 s o hcall h with ⟨hr, hn, ho⟩ | ⟨hr, hn, ho⟩ | ⟨hr, ho⟩ <;> subst ho
    · simp [hr, hn]
    · generalize applyEdit d0 s.edit = new at *
      have h1 : held (heldOf new) = true := by simp [held, heldOf, curPart_setPartition]
      have h2 : (heldOf new).inProgress = true := rfl
      have h3 := holdFrame_heldOf new
      simp only [hr, if_true, h1, h2, h3, hn, Bool.not_false, Bool.true_and, Bool.and_true]
      have h5 : replicasOf (heldOf new) = replicasOf new := replicasOf_congr rfl rfl
      rw [h5]
      cases hrep : replicasOf new with
      | none => simp
      | some r =>
        simp only
        by_cases hs : sizeOK r = true
        · simp [hs, exposure_heldOf new r hrep hs]
        · simp [hs]
    · simp [hr]

/-- **C08 (what the webhook does, exactly)** — a user's update is rejected iff it is a relevant change of a DaemonSet
    without `rollingUpdate`; it is admitted held (partition `MaxInt16`) and marked iff it is a relevant change of anything
    else; otherwise it is admitted as submitted. -/
theorem submit_characterised (w : World) (d : Wl) (e : Edit) :
    submit w d e =
      if relevant w d (applyEdit d e) = true then
        (if dsNoRU (applyEdit d e) = true then none else some (heldOf (applyEdit d e)))
      else some (applyEdit d e) := submit_spec w d e

/-- **C01 `initialize_exposes_nothing`** — for every prior state of the workload (in particular one that still carries
    the partition of an earlier BatchRelease, or the control-info of another one): a successful `Initialize` either
    finds it already claimed by this BatchRelease and leaves it untouched, or claims it with partition `MaxInt16`
    (DaemonSet: its size) and `paused` not true, nothing else changed: for sizes up to `MaxInt16` no pod may move until
    `UpgradeBatch` says so. -/
theorem initialize_exposes_nothing (c : Cfg) (d : Option Wl) (s : Step) (o : StepOut)
    (hcall : s.call = .initialize) (h : step c d s = .val o) :
    initExposesNothing d o = true := by
  have hc : s.call ≠ .submit := by rw [hcall]; decide
  unfold initExposesNothing
  split
  · rename_i hok
    rcases ctrl_step_cases c d s o hc h with ⟨_, hr, _⟩ | ⟨_, _, _, _, _, hr⟩ |
        ⟨w, r, hd, hrep, _, ⟨_, hr, _⟩ | ⟨_, hrest⟩⟩
    · rw [hr] at hok; cases hok
    · have := hr.mp hok; rw [hcall] at this; cases this
    · rw [hr] at hok; cases hok
    · subst hd
      have hw : writeOf c.rel s w r = ctrlInitialize w r := by simp [writeOf, hcall]
      rw [hw] at hrest
      rcases hrest with ⟨hn, _, hwl, _⟩ | ⟨w', _, _, hr, _⟩ | ⟨w', hsome, _, _, hwl, _⟩
      · simp [hwl, ctrlInitialize_none hn]
      · rw [hr] at hok; cases hok
      · obtain ⟨hnt, hw'⟩ := ctrlInitialize_some hsome
        have hw'' : w' = claimed w r := hw'
        subst hw''
        have h1 : (claimed w r).control = .this := rfl
        have h2 : sameButKnobs w (claimed w r) = true := by
          have : ({ claimed w r with us := w.us, control := w.control } : Wl) = w := by cases w; rfl
          simp [sameButKnobs, this]
        have h3 : usPaused (claimed w r).us ≠ some true := usPaused_merge_false _ _ _
        have h4 : currentPartition (claimed w r).us = initPartition w r := by
          simp only [claimed, curPart_norm, curPart_merge_int]
        have h5 : effType (claimed w r).us = effType w.us := by simp only [claimed, effType_norm, effType_merge]
        have h6 : isUnordered (claimed w r).kind (claimed w r).us = isUnordered w.kind w.us := by
          simp only [claimed, isUnordered_norm, isUnordered_merge]
        simp only [hwl, hnt, if_false, h1, h2, h4, h5, h6, hrep, beq_self_eq_true, Bool.true_and, Bool.and_true]
        have h3' : (usPaused (claimed w r).us != some true) = true := by simpa using h3
        simp only [h3', Bool.true_and]
        by_cases hs : sizeOK r = true
        · simp [hs, exposure_claimed w r hrep hs]
        · simp [hs]
  · rfl

/-- **C01 `upgradeBatch_within_step`** — after `UpgradeBatch` for batch `i` (any outcome, any fault) the workload is
    unchanged or only its partition moved, strictly down, to exactly what `CalculateBatchContext` asks for step `i`
    (ordered: `replicas − planned`; unordered, DaemonSet and the no-need-update variants as coded); for sizes `≥ 0` and a
    no-need-update count within the size, the pods it lets move are at most the larger of what could already move and
    what step `i` allows (`CalculateBatchReplicas`, no-need-update pods counted as updated). -/
theorem upgradeBatch_within_step (c : Cfg) (d : Option Wl) (s : Step) (o : StepOut)
    (hcall : s.call = .upgradeBatch) (h : step c d s = .val o) :
    upgradeWithinStep c.rel s.batch d o = true := by
  have hc : s.call ≠ .submit := by rw [hcall]; decide
  rcases ctrl_step_cases c d s o hc h with ⟨_, _, hwl, _⟩ | ⟨_, hd, hwl, _⟩ |
      ⟨w, r, hd, hrep, _, ⟨_, _, hwl, _⟩ | ⟨_, hrest⟩⟩
  · cases d with
    | none => simp [upgradeWithinStep, hwl]
    | some w => exact self_withinStep _ _ w o hwl
  · subst hd; simp [upgradeWithinStep, hwl]
  · subst hd; exact self_withinStep _ _ w o hwl
  · subst hd
    rcases hrest with ⟨_, _, hwl, _⟩ | ⟨w', _, _, _, hwl, _⟩ | ⟨w', hsome, _, _, hwl, _⟩
    · exact self_withinStep _ _ w o hwl
    · exact self_withinStep _ _ w o hwl
    · obtain ⟨_, e, he, hlt, hw'⟩ := upgrade_write hcall hsome
      subst hw'
      obtain ⟨f1, f2, f3, f4⟩ := upgraded_facts w r e c.rel.noNeedUpdate
      simp only [upgradeWithinStep, hwl, hrep, he, f3, f4, beq_self_eq_true, Bool.true_and, hlt, decide_true]
      apply Bool.or_eq_true_iff.mpr
      right
      split
      · rename_i hv
        simp only [Bool.and_eq_true, decide_eq_true_eq] at hv
        have hb := desired_exposure_bound w r e c.rel.noNeedUpdate hv.1 hv.2
        have : exposureW (upgraded w r e c.rel.noNeedUpdate) = exposure (int (desiredPartition w r e c.rel.noNeedUpdate)) r := by
          simp only [exposureW, f1, hrep, f2]
        rw [this]
        apply decide_eq_true
        omega
      · rfl

/-- **C01.2 / C11 (monotone)** — `UpgradeBatch` never lowers the exposure: when the partition already lets at least
    as many pods move as the step wants, it is a no-op. -/
theorem upgradeBatch_monotone (c : Cfg) (d : Option Wl) (s : Step) (o : StepOut)
    (hcall : s.call = .upgradeBatch) (h : step c d s = .val o) :
    upgradeMonotone d o = true := by
  have hc : s.call ≠ .submit := by rw [hcall]; decide
  unfold upgradeMonotone
  rcases ctrl_step_cases c d s o hc h with ⟨_, _, hwl, _⟩ | ⟨_, hd, hwl, _⟩ |
      ⟨w, r, hd, hrep, _, ⟨_, _, hwl, _⟩ | ⟨_, hrest⟩⟩
  · cases d <;> simp [hwl]
  · subst hd; simp [hwl]
  · subst hd; simp [hwl]
  · subst hd
    rcases hrest with ⟨_, _, hwl, _⟩ | ⟨w', _, _, _, hwl, _⟩ | ⟨w', hsome, _, _, hwl, _⟩
    · simp [hwl]
    · simp [hwl]
    · obtain ⟨_, e, _, hlt, hw'⟩ := upgrade_write hcall hsome
      subst hw'
      obtain ⟨f1, f2, _, _⟩ := upgraded_facts w r e c.rel.noNeedUpdate
      simp only [hwl, exposureW, f1, hrep, f2, decide_eq_true_eq]
      exact exposure_anti r (by omega)

/-! ## C07 — what is written suffices -/

/-- **C07 `upgradeBatch_suffices`** — an `UpgradeBatch` that returns ok (non-empty workload, valid no-need-update count)
    leaves a partition that lets the workload reach the batch's `DesiredUpdatedReplicas` — for an ordered update with `k`
    no-need-update pods together with those `k` pods, which already run the target revision — so `IsBatchReady` can pass
    once the pods are ready (`ready_when_exposed`). -/
theorem upgradeBatch_suffices (c : Cfg) (d : Option Wl) (s : Step) (o : StepOut)
    (hcall : s.call = .upgradeBatch) (h : step c d s = .val o) :
    upgradeSuffices c.rel s.batch d o = true := by
  have hc : s.call ≠ .submit := by rw [hcall]; decide
  unfold upgradeSuffices
  split
  · rename_i hok
    rcases ctrl_step_cases c d s o hc h with ⟨_, hr, _⟩ | ⟨_, hd, hwl, _⟩ |
        ⟨w, r, hd, hrep, _, ⟨_, hr, _⟩ | ⟨_, hrest⟩⟩
    · rw [hr] at hok; cases hok
    · subst hd; simp [hwl]
    · rw [hr] at hok; cases hok
    · subst hd
      -- it suffices that the partition in force is at most the desired one
      have key : ∀ w' e, o.wl = some w' → replicasOf w' = some r → entryOf c.rel s.batch = some e →
          (r ≠ 0 → currentPartition w'.us ≤ desiredPartition w r e c.rel.noNeedUpdate) →
          (match some w, o.wl with
            | some d, some d' =>
              (match replicasOf d, entryOf c.rel s.batch with
               | some r, some e =>
                 if r ≠ 0 ∧ 0 ≤ r ∧ nnOK r c.rel.noNeedUpdate = true then
                   decide (desiredOf (bkind d) r e c.rel.noNeedUpdate ≤ exposureW d' + orderedExtra d c.rel.noNeedUpdate)
                 else true
               | _, _ => true)
            | _, _ => true) = true := by
        intro w' e h1 h2 h3 h4
        simp only [h1, hrep, h3]
        split
        · rename_i hcond
          obtain ⟨hr0, hr1, hnn⟩ := hcond
          have hs := desired_suffices w r e c.rel.noNeedUpdate hr1 hnn
          have ha := exposure_anti r (h4 hr0)
          simp only [exposureW, h2, decide_eq_true_eq]
          omega
        · rfl
      cases he : entryOf c.rel s.batch with
      | none =>
        cases hwl : o.wl <;> simp [hrep]
      | some e =>
        rcases hrest with ⟨hn, _, hwl, _⟩ | ⟨w', _, _, hr, _⟩ | ⟨w', hsome, _, _, hwl, _⟩
        · have := key w e hwl hrep he (fun hr0 => upgrade_nowrite hcall hr0 he hn)
          rw [he] at this; exact this
        · rw [hr] at hok; cases hok
        · obtain ⟨_, e', he', _, hw'⟩ := upgrade_write hcall hsome
          rw [he] at he'; cases he'
          subst hw'
          obtain ⟨f1, f2, _, _⟩ := upgraded_facts w r e c.rel.noNeedUpdate
          have := key _ e hwl (by rw [f1]; exact hrep) he (fun _ => by rw [f2]; exact Int.le_refl _)
          rw [he] at this; exact this
  · rfl

/-- **C07 (… and then the batch can become ready)** — the context `CalculateBatchContext` builds for the batch has
    `DesiredUpdatedReplicas = desiredOf`; once the workload controller has used the partition `upgradeBatch_suffices`
    guarantees (that many pods updated and ready), `IsBatchReady` passes, whatever the (non-negative) failure threshold. -/
theorem ready_when_exposed (k : RV.BatchCtx.Kind) (r upd : Int) (e cur des : IntOrPct) (nn : Option Int) (ft : Option IntOrPct)
    (h : desiredOf k r e nn ≤ upd) (hft : 0 ≤ allowedUnavailable ft upd) :
    isBatchReady
      { replicas := r, updated := upd, updatedReady := upd, planned := plannedOf k r e nn,
        desired := desiredOf k r e nn, knobCur := cur, knobDes := des, failureThreshold := ft } none = .ok := by
  unfold isBatchReady
  simp only
  have h1 : ¬ upd < desiredOf k r e nn := by omega
  have h2 : ¬ allowedUnavailable ft upd + upd < desiredOf k r e nn := by omega
  have h3 : ¬ (desiredOf k r e nn > 0 ∧ upd = 0) := by omega
  simp only [h1, h2, h3, if_false]

/-! ## C05 — `Finalize` releases -/

/-- **C05 `finalize_releases`** — a successful `Finalize` of an existing workload (whatever it carried, whoever claimed
    it) removes the control-info; with `batchPartition = nil` it also removes the partition (partition nil: every pod
    may move, the workload is promoted), creates an empty `rollingUpdate` block where there was none, and un-pauses a
    DaemonSet; without, the update strategy stays as it is (partition kept); nothing else changes. -/
theorem finalize_releases (c : Cfg) (d : Option Wl) (s : Step) (o : StepOut)
    (hcall : s.call = .finalize) (h : step c d s = .val o) :
    finalizeReleases s d o = true := by
  have hc : s.call ≠ .submit := by rw [hcall]; decide
  unfold finalizeReleases
  split
  · rename_i hok
    rcases ctrl_step_cases c d s o hc h with ⟨_, hr, _⟩ | ⟨_, hd, hwl, _⟩ |
        ⟨w, r, hd, _, _, ⟨_, hr, _⟩ | ⟨_, hrest⟩⟩
    · rw [hr] at hok; cases hok
    · subst hd; simp [hwl]
    · rw [hr] at hok; cases hok
    · subst hd
      have hw : writeOf c.rel s w r = some (ctrlFinalize w s.bpNil) := by simp [writeOf, hcall]
      rw [hw] at hrest
      rcases hrest with ⟨hn, _⟩ | ⟨w', _, _, hr, _⟩ | ⟨w', hsome, _, _, hwl, _⟩
      · cases hn
      · rw [hr] at hok; cases hok
      · simp only [Option.some.injEq] at hsome
        subst hsome
        obtain ⟨f1, f2, f3, f4⟩ := finalize_facts w s.bpNil
        simp only [hwl, f1, f2, beq_self_eq_true, Bool.true_and]
        cases hb : s.bpNil
        · have g := f3 hb
          rw [hb] at g
          simp [g]
        · obtain ⟨g1, g2, g3, g4⟩ := f4 hb
          rw [hb] at g1 g2 g3 g4
          simp only [if_true, g1, g2, g3, beq_self_eq_true, Bool.true_and]
          by_cases hk : w.kind = .daemonSet
          · simp [hk]
          · simp [g4 hk]
  · rfl

/-! ## C06 — API faults and repetition -/

/-- **C06 (fault safety)** — a controller call hit by an API fault leaves the workload exactly as it was: a failed Get
    and a failed List of the pods (when the pods are listed) are errors without any write; a call whose write fails
    returns an error, it returns ok under a write fault only when it had nothing to write; and an error never comes
    with a change. -/
theorem fault_safe (c : Cfg) (d : Option Wl) (s : Step) (o : StepOut) (h : step c d s = .val o) :
    faultSafe s d o = true := by
  unfold faultSafe
  by_cases hc : s.call = .submit
  · simp [hc]
  · simp only [hc, if_false]
    rcases ctrl_step_cases c d s o hc h with ⟨hf, hr, hwl, hw⟩ | ⟨hf, hd, hwl, hw, hrj, _⟩ |
        ⟨w, r, hd, _, hf, ⟨hrf, hr, hwl, hw⟩ | ⟨hrf, hrest⟩⟩
    · subst hwl
      cases hd : o.wl <;> simp [hf, hr, hw, readFails]
    · subst hd
      simp only [hwl, hw, hf]
      cases hres : o.res <;> cases hfa : s.fault <;> simp_all
    · subst hd
      obtain ⟨h1, h2⟩ := hrf
      simp [hr, hwl, hw, h1, h2]
    · subst hd
      have hnl : ¬ (s.fault = .list ∧ needsList w = true) := hrf
      rcases hrest with ⟨_, hr, hwl, hw⟩ | ⟨w', _, hfw, hr, hwl, hw⟩ | ⟨w', _, hfw, hr, hwl, hw⟩
      · simp [hr, hwl, hw, hf, hnl]
      · simp [hr, hwl, hw, hf, hfw]
      · simp [hr, hwl, hw, hf, hfw, hnl]

/-- **C06 (a call that returns ok has its effect)** — after a successful `Initialize` the workload carries this
    BatchRelease's control-info; after a successful `Finalize` it carries none and, with `batchPartition = nil`, it is
    `released` (no partition; DaemonSet `paused: false`).  (`UpgradeBatch`: `upgradeBatch_suffices`.) -/
theorem ok_has_effect (c : Cfg) (d : Option Wl) (s : Step) (o : StepOut) (h : step c d s = .val o) :
    okHasEffect s d o = true := by
  unfold okHasEffect
  split
  · rename_i hok
    cases hcall : s.call
    · -- initialize
      have hc : s.call ≠ .submit := by rw [hcall]; decide
      rcases ctrl_step_cases c d s o hc h with ⟨_, hr, _⟩ | ⟨_, _, _, _, _, hr⟩ |
          ⟨w, r, hd, _, _, ⟨_, hr, _⟩ | ⟨_, hrest⟩⟩
      · rw [hr] at hok; cases hok
      · have := hr.mp hok; rw [hcall] at this; cases this
      · rw [hr] at hok; cases hok
      · subst hd
        have hw : writeOf c.rel s w r = ctrlInitialize w r := by simp [writeOf, hcall]
        rw [hw] at hrest
        rcases hrest with ⟨hn, _, hwl, _⟩ | ⟨w', _, _, hr, _⟩ | ⟨w', hsome, _, _, hwl, _⟩
        · simp [hwl, ctrlInitialize_none hn]
        · rw [hr] at hok; cases hok
        · obtain ⟨_, hw'⟩ := ctrlInitialize_some hsome
          subst hw'
          simp [hwl]
    · cases d <;> cases o.wl <;> rfl
    · -- finalize
      have hc : s.call ≠ .submit := by rw [hcall]; decide
      rcases ctrl_step_cases c d s o hc h with ⟨_, hr, _⟩ | ⟨_, hd, hwl, _⟩ |
          ⟨w, r, hd, _, _, ⟨_, hr, _⟩ | ⟨_, hrest⟩⟩
      · rw [hr] at hok; cases hok
      · subst hd; simp [hwl]
      · rw [hr] at hok; cases hok
      · subst hd
        have hw : writeOf c.rel s w r = some (ctrlFinalize w s.bpNil) := by simp [writeOf, hcall]
        rw [hw] at hrest
        rcases hrest with ⟨hn, _⟩ | ⟨w', _, _, hr, _⟩ | ⟨w', hsome, _, _, hwl, _⟩
        · cases hn
        · rw [hr] at hok; cases hok
        · simp only [Option.some.injEq] at hsome
          subst hsome
          simp only [hwl]
          cases hb : s.bpNil
          · simp [ctrlFinalize_eq]
          · simp only [Bool.not_true, Bool.false_or, released_finalize, Bool.and_true]
            simp [ctrlFinalize_eq]
    · cases d <;> cases o.wl <;> rfl
  · rfl

/-- **frame** — every step leaves the user's view alone (kind, size, template, effective strategy type,
    `unorderedUpdate`, everything outside the model); an admitted user update changes it exactly as the user asked; a
    controller call never touches the in-progress marker and issues at most one write; the webhook never touches the
    control-info. -/
theorem step_frame (c : Cfg) (d : Option Wl) (s : Step) (o : StepOut) (h : step c d s = .val o) :
    frame s d o = true := by
  unfold frame
  by_cases hc : s.call = .submit
  · cases d with
    | none => simp only [step, hc, Out.val.injEq] at h; subst h; rfl
    | some d0 =>
      obtain ⟨f1, _, _, _⟩ := applyEdit_frame d0 s.edit
      have hv := view_applyEdit d0 s.edit
      rcases submit_step_cases c d0 s o hc h with ⟨_, _, ho⟩ | ⟨_, _, ho⟩ | ⟨_, ho⟩ <;> subst ho
      · simp [viewStep, hc]
      · have hvh : view (heldOf (applyEdit d0 s.edit)) = view (applyEdit d0 s.edit) := view_setPartition _ maxInt16 true
        have hch : (heldOf (applyEdit d0 s.edit)).control = d0.control := f1
        simp [viewStep, hc, hvh, hv, hch]
      · simp [viewStep, hc, hv, f1]
  · have hvs : ∀ v, viewStep v s o = v := by intro v; simp [viewStep, hc]
    simp only [hvs, hc, if_false]
    rcases ctrl_step_cases c d s o hc h with ⟨_, _, hwl, hw⟩ | ⟨_, hd, hwl, hw, _⟩ |
        ⟨w, r, hd, _, _, ⟨_, _, hwl, hw⟩ | ⟨_, hrest⟩⟩
    · subst hwl; cases o.wl <;> simp [hw]
    · subst hd; simp [hwl, hw]
    · subst hd; simp [hwl, hw]
    · subst hd
      rcases hrest with ⟨_, _, hwl, hw⟩ | ⟨w', _, _, _, hwl, hw⟩ | ⟨w', hsome, _, _, hwl, hw⟩
      · simp [hwl, hw]
      · simp [hwl, hw]
      · obtain ⟨h1, h2, _⟩ := writeOf_frame c.rel s w w' r hsome
        simp [hwl, hw, h1, h2]

/-- **C06 (idempotence)** — `initialize ∘ initialize = initialize`, `upgradeBatch ∘ upgradeBatch = upgradeBatch` (same
    batch), `finalize ∘ finalize = finalize`: repeating a successful call returns ok and changes nothing; `Initialize`
    and `UpgradeBatch` issue no write the second time, `Finalize` re-issues its patch, which changes nothing. -/
theorem idempotent_calls (c : Cfg) (d : Option Wl) (a b : Step) (oa ob : StepOut)
    (ha : step c d a = .val oa) (hb : step c oa.wl b = .val ob) :
    idempotent a b oa ob = true := by
  unfold idempotent
  split
  · rename_i hcond
    obtain ⟨hsame, hok⟩ := hcond
    simp only [sameCall, Bool.and_eq_true, beq_iff_eq, bne_iff_ne, ne_eq, Bool.or_eq_true] at hsame
    obtain ⟨⟨⟨⟨⟨hcall, hca⟩, hfa⟩, hfb⟩, hbatch⟩, hbp⟩ := hsame
    have hcb : b.call ≠ .submit := by rw [← hcall]; exact hca
    have hfbg : b.fault ≠ .get := by rw [hfb]; decide
    have hfag : a.fault ≠ .get := by rw [hfa]; decide
    have hnrf : ∀ w, ¬ readFails b.fault w := by intro w hh; rw [hfb] at hh; cases hh.1
    have hnrfa : ∀ w, ¬ readFails a.fault w := by intro w hh; rw [hfa] at hh; cases hh.1
    -- the second call on workload `w1` of size `r`
    have second : ∀ w1 r, oa.wl = some w1 → replicasOf w1 = some r →
        (writeOf c.rel b w1 r = none ∨ (a.call = .finalize ∧ writeOf c.rel b w1 r = some w1)) →
        (ob.res == .ok && ob.wl == oa.wl && (a.call == .finalize || ob.writes == 0)) = true := by
      intro w1 r h1 hrep hwr
      rw [h1] at hb
      rcases ctrl_step_cases c (some w1) b ob hcb hb with ⟨hg, _⟩ | ⟨_, hd, _⟩ |
          ⟨w0, r0, hd, hrep0, _, ⟨hrf, _⟩ | ⟨_, hrest⟩⟩
      · exact absurd hg hfbg
      · cases hd
      · exact absurd hrf (hnrf w0)
      · simp only [Option.some.injEq] at hd; subst hd
        rw [hrep] at hrep0; cases hrep0
        rcases hwr with hwn | ⟨hfin, hws⟩
        · rcases hrest with ⟨_, hres, hwl, hw⟩ | ⟨w', hs, _⟩ | ⟨w', hs, _⟩
          · simp [hres, hwl, hw, h1]
          · rw [hwn] at hs; cases hs
          · rw [hwn] at hs; cases hs
        · rcases hrest with ⟨hn, _⟩ | ⟨w', _, hfw, _⟩ | ⟨w', hs, _, hres, hwl, _⟩
          · rw [hws] at hn; cases hn
          · rw [hfb] at hfw; cases hfw
          · rw [hws] at hs; cases hs
            simp [hres, hwl, h1, hfin]
    rcases ctrl_step_cases c d a oa hca ha with ⟨hg, _⟩ | ⟨_, hd, hwl, _, _, hr⟩ |
        ⟨w, r, hd, hrep, _, ⟨hrf, _⟩ | ⟨_, hrest⟩⟩
    · exact absurd hg hfag
    · -- no workload: only finalize returns ok, and it does so again
      subst hd
      rw [hwl] at hb
      rcases ctrl_step_cases c none b ob hcb hb with ⟨hg, _⟩ | ⟨_, _, hwlb, hwb, _, hrb⟩ | ⟨w0, r0, hd, _⟩
      · exact absurd hg hfbg
      · have hfin : a.call = .finalize := hr.mp hok
        have : b.call = .finalize := by rw [← hcall]; exact hfin
        simp [hrb.mpr this, hwlb, hwl, hfin]
      · cases hd
    · exact absurd hrf (hnrfa w)
    · subst hd
      have hwab : ∀ x, writeOf c.rel b x r = writeOf c.rel a x r := by
        intro x
        unfold writeOf
        rw [← hcall]
        cases hcc : a.call
        · rfl
        · have : a.batch = b.batch := by rcases hbatch with h | h; exact absurd hcc h; exact h
          simp only [this]
        · have : a.bpNil = b.bpNil := by rcases hbp with h | h; exact absurd hcc h; exact h
          simp only [this]
        · rfl
      rcases hrest with ⟨hn, _, hwl, _⟩ | ⟨w', _, _, hres, _⟩ | ⟨w', hsome, _, _, hwl, _⟩
      · -- nothing to write the first time: nothing the second time
        exact second w r hwl hrep (Or.inl (by rw [hwab]; exact hn))
      · rw [hres] at hok; cases hok
      · -- written the first time: the result needs no further write (Finalize: the same patch again)
        obtain ⟨_, _, fk, fr, _, _⟩ := writeOf_frame c.rel a w w' r hsome
        have hrep' : replicasOf w' = some r := by rw [replicasOf_congr fk fr]; exact hrep
        apply second w' r hwl hrep'
        rw [hwab]
        cases hcc : a.call
        · left
          simp only [writeOf, hcc] at hsome ⊢
          obtain ⟨_, hw'⟩ := ctrlInitialize_some hsome
          have : w'.control = .this := by subst hw'; rfl
          simp [ctrlInitialize, this]
        · left
          obtain ⟨hr0, e, he, _, hw'⟩ := upgrade_write hcc hsome
          obtain ⟨_, f2, _, _⟩ := upgraded_facts w r e c.rel.noNeedUpdate
          simp only [writeOf, hcc, hr0, if_false, he]
          have hbk : bkind w' = bkind w := by
            subst hw'
            simp only [bkind, upgraded, isUnordered_norm, isUnordered_merge]
          have hdp : desiredPartition w' r e c.rel.noNeedUpdate = desiredPartition w r e c.rel.noNeedUpdate := by
            unfold desiredPartition; rw [hbk]
          have hcp : currentPartition w'.us = desiredPartition w r e c.rel.noNeedUpdate := by subst hw'; exact f2
          simp [ctrlUpgradeBatch, hdp, hcp]
        · right
          refine ⟨rfl, ?_⟩
          simp only [writeOf, hcc, Option.some.injEq] at hsome ⊢
          subst hsome
          rw [ctrlFinalize_eq, ctrlFinalize_eq]
          cases a.bpNil
          · rfl
          · simp only [if_true]
            have := merge_idem w.kind w.us .absent (finPaused w.kind)
            simp only [this]
        · exact absurd hcc hca
  · rfl

/-! ## walks -/

/-- the driver evaluates the walk oracles on `valsOf` of the implementation's results; for the model's own results
    that is `runV`, the list the walk theorems speak about -/
theorem valsOf_run (c : Cfg) (steps : List Step) : ∀ d, valsOf (run c d steps) = runV c d steps := by
  induction steps with
  | nil => intro d; rfl
  | cons s ss ih =>
    intro d
    simp only [run, runV]
    cases step c d s with
    | panic => rfl
    | val o => simp only [valsOf, ih]

/-- a step on an existing workload leaves a workload -/
theorem step_some (c : Cfg) (d : Wl) (s : Step) (o : StepOut) (h : step c (some d) s = .val o) :
    ∃ d', o.wl = some d' ∧ view d' = viewStep (view d) s o := by
  have hf := step_frame c (some d) s o h
  unfold frame at hf
  cases hwl : o.wl with
  | none => rw [hwl] at hf; simp at hf
  | some d' =>
    rw [hwl] at hf
    simp only [Bool.and_eq_true, beq_iff_eq] at hf
    exact ⟨d', rfl, hf.1⟩

/-- **C05 round trip** — for every workload, every plan and every finite walk of controller calls (any faults) and
    user updates: after every step the workload has the view its user gave it, and after every successful complete
    `Finalize` the knobs of the rollout are released. -/
theorem round_trip (c : Cfg) (steps : List Step) :
    ∀ d : Wl, walkOK (view d) steps (runV c (some d) steps) = true := by
  induction steps with
  | nil => intro d; rfl
  | cons s ss ih =>
    intro d
    simp only [runV]
    cases hst : step c (some d) s with
    | panic => rfl
    | val o =>
      simp only
      obtain ⟨d', hwl, hv⟩ := step_some c d s o hst
      simp only [walkOK, hwl, hv, beq_self_eq_true, Bool.true_and]
      rw [← hv]
      simp only [ih d', Bool.and_true]
      split
      · rename_i hrel
        simp only [isRelease, Bool.and_eq_true, beq_iff_eq] at hrel
        obtain ⟨⟨hcall, hbp⟩, hok⟩ := hrel
        have he := ok_has_effect c (some d) s o hst
        simp only [okHasEffect, hok, if_true, hcall, hwl, hbp, Bool.not_true, Bool.false_or, Bool.and_eq_true] at he
        exact he.2
      · rfl

/-- **C01 (walk bound)** — for every workload of a fixed size `r ≤ MaxInt16`, every plan and every finite walk of
    controller calls (any faults) and user updates that neither scale nor re-submit the update strategy: after every
    step the pods that may move are at most the larger of what could move before (`bound`) and what the steps so far
    allow — the planned size of the batches `UpgradeBatch` was called for; everything after a complete `Finalize`. -/
theorem walk_exposure_bound (c : Cfg) (r : Int) (hs : sizeOK r = true) (hnn : nnOK r c.rel.noNeedUpdate = true)
    (steps : List Step) :
    ∀ (d : Wl) (bound : Int), replicasOf d = some r → quiet steps = true → exposureW d ≤ bound →
      walkBounded c.rel r bound steps (runV c (some d) steps) = true := by
  induction steps with
  | nil => intro d bound _ _ _; rfl
  | cons s ss ih =>
    intro d bound hrep hq hb
    simp only [quiet, List.all_cons, Bool.and_eq_true] at hq
    obtain ⟨⟨hq1, hq2⟩, hqs⟩ := hq
    have hq1' : s.edit.replicas = none := by cases hh : s.edit.replicas <;> simp_all
    have hq2' : s.edit.us = none := by cases hh : s.edit.us <;> simp_all
    simp only [runV]
    cases hst : step c (some d) s with
    | panic => rfl
    | val o =>
      simp only
      obtain ⟨d', hwl, hr', hle⟩ := step_exposure c d r s o hrep hs hnn hq1' hq2' hst
      have hle' : exposureW d' ≤ max bound (stepAllow c.rel r s) := by omega
      simp only [walkBounded, hwl, hle', decide_true, Bool.true_and]
      exact ih d' _ hr' (by simpa [quiet] using hqs) hle'

/-- **C01 (initialize, then only what the batches allow)** — once a BatchRelease has successfully initialised a
    workload it did not yet control, whatever partition the workload carried before: every later state of every walk
    lets move at most what the steps since allow — nothing before the first `UpgradeBatch`. -/
theorem initialize_then_within_steps (c : Cfg) (r : Int) (d : Wl) (s0 : Step) (o0 : StepOut) (rest : List Step)
    (hrep : replicasOf d = some r) (hs : sizeOK r = true) (hnn : nnOK r c.rel.noNeedUpdate = true)
    (hnc : d.control ≠ .this) (hcall : s0.call = .initialize) (h0 : step c (some d) s0 = .val o0) (hok : o0.res = .ok)
    (hq : quiet rest = true) :
    walkBounded c.rel r 0 rest (runV c o0.wl rest) = true := by
  have h1 := initialize_exposes_nothing c (some d) s0 o0 hcall h0
  simp only [initExposesNothing, hok, if_true] at h1
  cases hwl : o0.wl with
  | none => rw [hwl] at h1; simp at h1
  | some d1 =>
    rw [hwl] at h1
    simp only [hnc, if_false, hrep, hs, if_true, Bool.and_eq_true, beq_iff_eq, decide_eq_true_eq] at h1
    obtain ⟨⟨⟨⟨⟨_, hsk⟩, _⟩, ⟨_, hex⟩⟩, _⟩, _⟩ := h1
    have hr1 : replicasOf d1 = some r := by
      simp only [sameButKnobs, beq_iff_eq] at hsk
      rw [← hrep, ← hsk]
      exact replicasOf_congr rfl rfl
    exact walk_exposure_bound c r hs hnn rest d1 0 hr1 hq hex

/-! ## where `MaxInt16` is not enough (an explicit hypothesis of the theorems above, not hidden) -/

def exCfg : Cfg :=
  { rel := { batches := [pct 20, pct 50, pct 100], rollbackAnno := false, updated := 0, noNeedUpdate := none },
    world := { matched := true } }

def mk (c : Call) (b : Int := 0) (bp : Bool := false) (e : Edit := Edit.none) : Step :=
  { call := c, fault := .none, batch := b, bpNil := bp, edit := e }

/-- a native StatefulSet with 40000 replicas as its user configured it -/
def exHuge : Wl :=
  { kind := .native, replicas := some 40000, us := .present "RollingUpdate" .absent, control := .none,
    inProgress := false, tmpl := 1, tmplPresent := true, updatedReady := 0, rest := 0 }

/-- **`sizeOK` is necessary** — the hold value `MaxInt16` of the webhook and of `Initialize` leaves the pods with ordinal
    ≥ 32767 of a StatefulSet with 40000 replicas free to move: the statements "no pod can move" of `submit_holds_back`
    and `initialize_exposes_nothing` are FALSE without the hypothesis `r ≤ MaxInt16` (props/C08.json lists it as an
    assumption about the workloads). -/
theorem hold_beyond_maxInt16_FALSE :
    sizeOK 40000 = false ∧
    (match step exCfg (some exHuge) (mk .submit 0 false { Edit.none with tmpl := some 2 }) with
     | .val o => (match o.wl with
                  | some d' => held d' && d'.inProgress && exposureW d' == 7233
                  | none => false)
     | .panic => false) = true ∧
    (match step exCfg (some exHuge) (mk .initialize) with
     | .val o => (match o.wl with
                  | some d' => d'.control == .this && exposureW d' == 7233
                  | none => false)
     | .panic => false) = true := by
  decide +kernel

/-! ## no crash (attached to C07 and C09; finding `dsNoRollingUpdate` is repaired in the code) -/

/-- **no crash** — for every workload an API server can hold (`spec.replicas` set) and every plan whose current batch
    exists, no call of the control planes — `Initialize`, `UpgradeBatch`, `Finalize`, with any fault — and no admission
    panics (a panicking admission handler only rejects).  This includes `UpgradeBatch` of an Advanced DaemonSet without
    `updateStrategy.rollingUpdate`, which dereferenced nil before the repair. -/
theorem no_crash (c : Cfg) (d : Option Wl) (s : Step) :
    noCrash c.rel s d (isPanic (step c d s)) = true := by
  unfold noCrash
  cases hst : step c d s with
  | val o => simp [isPanic]
  | panic =>
    simp only [isPanic, Bool.not_true]
    rcases step_panic_cases c d s hst with ⟨w, hd, hr⟩ | ⟨hc, w, r, hd, hr, hr0, he⟩
    · subst hd; simp [callInputOK, hr]
    · subst hd; simp [callInputOK, hr, hc, hr0, he]

/-- a claimed DaemonSet whose user switched to `OnDelete` and dropped the `rollingUpdate` block during the rollout
    (the template is unchanged: the webhook admits the update as it is) -/
def exDSNoRU : Wl :=
  { kind := .daemonSet, replicas := some 4, us := .present "OnDelete" .absent, control := .this,
    inProgress := true, tmpl := 2, tmplPresent := true, updatedReady := 0, rest := 0 }

/-- regression test (former witness of finding `dsNoRollingUpdate`): the state is reached through the webhook, and
    `UpgradeBatch` now returns ok without a write (current partition 0 ≤ desired) instead of panicking -/
example :
    step exCfg (some { exDSNoRU with us := .present "RollingUpdate" (.present (.int 4) (some false) false) })
        (mk .submit 0 false { Edit.none with us := some (.present "OnDelete" .absent) }) =
      .val { res := .ok, wl := some exDSNoRU, writes := 0, obs := none } ∧
    step exCfg (some exDSNoRU) (mk .upgradeBatch 0) = .val { res := .ok, wl := some exDSNoRU, writes := 0, obs := none } ∧
    callInputOK exCfg.rel (mk .upgradeBatch 0) (some exDSNoRU) = true := by
  decide +kernel

/-! ## non-vacuity (tests on literals, not the ∀ claims) -/

/-- an unstructured StatefulSet-like workload without any `updateStrategy`, 10 replicas -/
def exU : Wl :=
  { kind := .unstructured, replicas := some 10, us := .absent, control := .none,
    inProgress := false, tmpl := 1, tmplPresent := true, updatedReady := 0, rest := 0 }

/-- a complete life cycle on the real shapes: new template admitted (held at 32767, strategy block created), claimed,
    batches 20 % and 50 % (partitions 8 and 5), complete finalize: partition gone, control-info gone, the user's view
    intact (`round_trip`), every step within its bound (`walk_exposure_bound`) -/
example :
    (let steps := [mk .submit 0 false { Edit.none with tmpl := some 2 }, mk .initialize, mk .upgradeBatch 0,
                   mk .upgradeBatch 1, mk .finalize 1 true];
     let outs := runV exCfg (some exU) steps;
     outs.length == 5 &&
     (outs.map fun o => (o.wl.map fun w => currentPartition w.us)) == [some 32767, some 32767, some 8, some 5, some 0] &&
     (outs.map fun o => (o.wl.map exposureW)) == [some 0, some 0, some 2, some 5, some 10] &&
     hasRelease steps outs && roundTrip exU steps outs && walkBounded exCfg.rel 10 (exposureW exU) steps outs &&
     (match outs.getLast? with
      | some o => (match o.wl with
                   | some w => released w && w.us == .present "RollingUpdate" (.present .absent (some false) false)
                   | none => false)
      | none => false)) = true := by
  decide +kernel

/-- every representation of the update strategy is held by the webhook (`submit_holds_back` is not vacuous):
    absent, not an object, without / with a malformed `rollingUpdate` block, non-integer partition, user partition 3 -/
example :
    ([US.absent, .present "" .absent, .present "RollingUpdate" .malformed,
      .present "RollingUpdate" (.present .malformed none true), .present "" (.present (.int 3) (some true) false)].all fun us =>
       match step exCfg (some { exU with us := us }) (mk .submit 0 false { Edit.none with tmpl := some 2 }) with
       | .val o => relevant exCfg.world { exU with us := us } { exU with us := us, tmpl := 2 } &&
                   submitHoldsBack exCfg.world (some { exU with us := us }) (mk .submit 0 false { Edit.none with tmpl := some 2 }) o &&
                   (match o.wl with
                    | some d' => currentPartition d'.us == 32767 && d'.inProgress && exposureW d' == 0
                    | none => false)
       | .panic => false) = true := by
  decide +kernel

/-- a DaemonSet that still carries another release's control-info and partition 2 of 6: `initialize_exposes_nothing` is
    not vacuous — the stale partition (4 pods free) is reset to the size by one write -/
def exDS : Wl :=
  { kind := .daemonSet, replicas := some 6, us := .present "RollingUpdate" (.present (.int 2) none false), control := .other,
    inProgress := true, tmpl := 2, tmplPresent := true, updatedReady := 0, rest := 0 }

example :
    exposureW exDS = 4 ∧
    (match step exCfg (some exDS) (mk .initialize) with
     | .val o => (match o.wl with
                  | some d' => exposureW d' == 0 && o.writes == 1 && currentPartition d'.us == 6 && d'.control == .this
                  | none => false)
     | .panic => false) = true := by
  decide +kernel

/-- the hypotheses of `walk_exposure_bound` / `upgradeBatch_suffices` are satisfiable -/
example : sizeOK 10 = true ∧ nnOK 10 (some 3) = true ∧ quiet [mk .initialize, mk .upgradeBatch 1] = true := by decide

/-! ## C11 / C07 — the pods behind `updatedReadyReplicas` and the readiness verdict

`realController.BuildController` (StatefulSet-like and DaemonSet controls) computes `UpdatedReadyReplicas` by listing the
workload's pods (`util.ListOwnedPods`) and counting those that are not terminating, consistent with the update revision
and ready; `EnsureBatchPodsReadyAndLabeled` feeds that number to `BatchContext.IsBatchReady`.  Every statement below
quantifies over **every** list of pods. -/

/-- **`updatedReady_counts_live_ready_updated`** — for every update revision and every list of pods in the cluster:
    (1) the counter the code computes (`ListOwnedPods`, then the `WrappedPodCount` loop) is exactly the number of pods that
        are the workload's own (in its namespace, selected, owned directly or through an owner it controls, not
        completed), **live** (no deletion timestamp), **of the update revision** (`IsConsistentWithRevision`) and
        **ready** (`IsPodReady`);
    (2) adding, anywhere in the list, a pod that is terminating, of another revision, not ready, not the workload's,
        completed, not selected or in another namespace never changes it;
    (3) adding a live ready pod of the update revision raises it by exactly one;
    (4) it never exceeds the number of live pods of the workload. -/
theorem updatedReady_counts_live_ready_updated (revision : String) (pods : List Pod) :
    updatedReadyOf revision pods = ((pods.filter (liveReadyUpdated revision)).length : Nat) ∧
    (∀ xs ys p, pods = xs ++ ys →
       (p.terminating = true ∨ isConsistent p revision = false ∨ isPodReady p = false ∨
        isOwned p.owner = false ∨ isCompleted p = true ∨ p.selMatch = false ∨ p.inNamespace = false) →
       updatedReadyOf revision (xs ++ p :: ys) = updatedReadyOf revision pods) ∧
    (∀ xs ys p, pods = xs ++ ys → liveReadyUpdated revision p = true →
       updatedReadyOf revision (xs ++ p :: ys) = updatedReadyOf revision pods + 1) ∧
    updatedReadyOf revision pods ≤ liveCount pods := by
  refine ⟨updatedReadyOf_eq revision pods, ?_, ?_, ?_⟩
  · intro xs ys p hp hbad
    have hn : liveReadyUpdated revision p = false := by
      unfold liveReadyUpdated livePod
      rcases hbad with h | h | h | h | h | h | h <;> simp [h]
    subst hp
    simp only [updatedReadyOf_eq, lruCount_append, lruCount_cons, hn, Bool.false_eq_true, if_false]
    omega
  · intro xs ys p hp hgood
    subst hp
    simp only [updatedReadyOf_eq, lruCount_append, lruCount_cons, hgood, if_true]
    omega
  · rw [updatedReadyOf_eq]
    unfold liveReadyUpdatedCount liveCount
    have : (pods.filter (liveReadyUpdated revision)).length ≤ (pods.filter livePod).length := by
      have hsub : pods.filter (liveReadyUpdated revision) =
          (pods.filter livePod).filter (fun p => isConsistent p revision && isPodReady p) := by
        rw [List.filter_filter]
        apply List.filter_congr
        intro p _
        unfold liveReadyUpdated
        cases livePod p <;> cases isConsistent p revision <;> cases isPodReady p <;> rfl
      rw [hsub]
      exact List.length_filter_le _ _
    omega

/-- **a counted pod that stops counting** — replace, anywhere in the list, an updated ready pod by any pod that is not
    one (or by nothing: the pod is gone): the counter drops by exactly one. -/
theorem updatedReady_drops_by_one (revision : String) (xs ys : List Pod) (p : Pod) (q : Option Pod)
    (hp : liveReadyUpdated revision p = true) (hq : ∀ q', q = some q' → liveReadyUpdated revision q' = false) :
    updatedReadyOf revision (xs ++ q.toList ++ ys) = updatedReadyOf revision (xs ++ p :: ys) - 1 := by
  simp only [updatedReadyOf_eq, lruCount_append, lruCount_cons, hp, if_true]
  cases q with
  | none => simp only [Option.toList, lruCount_append]; unfold liveReadyUpdatedCount; simp; omega
  | some q' =>
    have := hq q' rfl
    simp only [Option.toList, lruCount_cons, this, Bool.false_eq_true, if_false]
    unfold liveReadyUpdatedCount; simp; omega

/-- **C11 `sts_updated_ready_exact` (what the driver evaluates)** — whatever `EnsureBatchPodsReadyAndLabeled` answers (any
    workload, any pods, any plan, any fault): the counters `BuildController` left are exact (`countersExact`: the size,
    the workload controller's `updatedReplicas`, and — wherever the pods are listed — exactly the number of live ready
    pods of the update revision); it has none only when it answers with an error. -/
theorem counters_exact (rel : Rel) (batch : Int) (d : Option Wl) (cl : Cluster) (f : Fault) (o : VerdictOut)
    (h : planeVerdict rel batch d cl f = .val o) :
    countersSound d cl o = true := by
  obtain ⟨_, hcases⟩ := planeVerdict_cases rel batch d cl f o h
  unfold countersSound
  rcases hcases with ⟨hc, _, hv, _⟩ | ⟨w, r, hd, hr, _, hc, _⟩
  · cases d <;> simp [hc, hv]
  · subst hd
    simp only [hc, countersOf_exact w r cl hr]

/-- **C11 (what the driver evaluates)** — whatever the check answers: it issued no write, and if the answer is `Ready`
    the pods say so (`readyMeansPods`). -/
theorem verdict_sound (rel : Rel) (batch : Int) (d : Option Wl) (cl : Cluster) (f : Fault) (o : VerdictOut)
    (h : planeVerdict rel batch d cl f = .val o) :
    verdictSound rel batch d cl o = true := by
  obtain ⟨hw, hcases⟩ := planeVerdict_cases rel batch d cl f o h
  unfold verdictSound
  rcases hcases with ⟨_, _, hv, _⟩ | ⟨w, r, hd, hr, _, _, hrest⟩
  · simp [hw, isReady, hv]
  · subst hd
    simp only [hw, beq_self_eq_true, Bool.true_and]
    split
    · rename_i hready
      rcases hrest with ⟨hr0, _, _⟩ | ⟨hr0, e, he, _, hv⟩
      · simp [readyMeansPods, hr, hr0]
      · simp only [isReady, hv, beq_iff_eq, Verdict.is.injEq] at hready
        have hs := RV.Props.C11.ready_sound _ none
          (by rw [batchCtxOf]; simp only [countersOf_updatedReady]; exact readyPods_nonneg w cl) hready
        simp only [readyMeans, batchCtxOf, countersOf_updatedReady, Bool.and_true] at hs
        simp only [readyMeansPods, hr, hr0, if_false, he]
        simpa [countersOf] using hs
    · rfl

/-- the number the verdict relies on is **the pods** wherever the code lists them: every typed kind (native / Advanced
    StatefulSet, Advanced DaemonSet) and every unstructured workload whose status reports no positive
    `updatedReadyReplicas` -/
theorem readyPods_listed (w : Wl) (cl : Cluster) (hl : needsList w = true) :
    readyPods w cl = ((cl.pods.filter (liveReadyUpdated cl.status.updateRevision)).length : Nat) := by
  simp [readyPods, hl, liveReadyUpdatedCount]

theorem needsList_typed (w : Wl) (h : w.kind ≠ .unstructured) : needsList w = true := by
  unfold needsList
  cases hk : w.kind <;> first | rfl | exact absurd hk h

/-- **C11 `verdict_ready_means_pods`** — for every workload, every cluster, every plan, batch index and fault: if the
    control plane reports the batch **Ready**, then the workload exists and either is empty (size 0: the batch calls for
    nothing) or, for the plan entry of the batch and `desired := DesiredUpdatedReplicas` of that entry,
    * the workload's controller reports at least `desired` updated pods,
    * the **live ready pods of the update revision** (`readyPods`: counted on the pods of the cluster, `readyPods_listed`)
      plus the failure threshold reach `desired`, and
    * at least one such pod exists when any is called for. -/
theorem verdict_ready_means_pods (rel : Rel) (batch : Int) (d : Option Wl) (cl : Cluster) (f : Fault) (o : VerdictOut)
    (h : planeVerdict rel batch d cl f = .val o) (hok : o.verdict = .is .ok) :
    ∃ w r, d = some w ∧ replicasOf w = some r ∧
      (r = 0 ∨ ∃ e, entryOf rel batch = some e ∧
        cl.status.updated ≥ desiredOf (bkind w) r e rel.noNeedUpdate ∧
        allowedUnavailable rel.failureThreshold cl.status.updated + readyPods w cl ≥ desiredOf (bkind w) r e rel.noNeedUpdate ∧
        (desiredOf (bkind w) r e rel.noNeedUpdate > 0 → readyPods w cl ≥ 1)) := by
  have hs := verdict_sound rel batch d cl f o h
  simp only [verdictSound, isReady, hok, beq_self_eq_true, if_true, Bool.and_eq_true] at hs
  obtain ⟨_, hm⟩ := hs
  cases d with
  | none => cases hm
  | some w =>
    simp only [readyMeansPods] at hm
    cases hr : replicasOf w with
    | none => simp [hr] at hm
    | some r =>
      refine ⟨w, r, rfl, hr, ?_⟩
      simp only [hr] at hm
      by_cases hr0 : r = 0
      · exact Or.inl hr0
      · right
        simp only [hr0, if_false] at hm
        cases he : entryOf rel batch with
        | none => simp [he] at hm
        | some e =>
          simp only [he, Bool.and_eq_true, decide_eq_true_eq] at hm
          obtain ⟨⟨h1, h2⟩, h3⟩ := hm
          exact ⟨e, rfl, h1, h2, fun hd => by have := h3 hd; omega⟩

/-- one pod degrading (`degradePod`: not ready / terminating / relabelled to no revision / deleted / failed / disowned)
    takes exactly itself out of the count -/
theorem readyPods_degraded (w : Wl) (cl : Cluster) (h : Degrade) (i : Nat) (p : Pod) (hl : needsList w = true)
    (hp : cl.pods[i]? = some p) :
    readyPods w (degraded cl h i) =
      readyPods w cl - (if liveReadyUpdated cl.status.updateRevision p = true then 1 else 0) := by
  simp only [readyPods, hl, if_true, degraded]
  exact lruCount_degradeAt _ h i cl.pods p hp

/-- **C11 `verdict_falls_back`** — for every cluster and every one of its updated ready pods: when that pod turns not
    ready, starts terminating, loses its revision label, is deleted, fails or loses its owner, the number the next check
    relies on is one lower, and if what is left no longer satisfies the batch (`readyMeansPods` false: ready pods below
    the failure threshold, or none left while some are called for) the next check does **not** answer `Ready` — the
    state falls back. -/
theorem verdict_falls_back (rel : Rel) (batch : Int) (w : Wl) (cl : Cluster) (f : Fault) (h : Degrade) (i : Nat) (p : Pod)
    (hl : needsList w = true) (hp : cl.pods[i]? = some p) (hc : liveReadyUpdated cl.status.updateRevision p = true) :
    readyPods w (degraded cl h i) = readyPods w cl - 1 ∧
    ∀ o2, planeVerdict rel batch (some w) (degraded cl h i) f = .val o2 →
      readyMeansPods rel batch w (degraded cl h i) = false → o2.verdict ≠ .is .ok := by
  refine ⟨by rw [readyPods_degraded w cl h i p hl hp]; simp [hc], ?_⟩
  intro o2 h2 hm hok
  have hs := verdict_sound rel batch (some w) (degraded cl h i) f o2 h2
  simp only [verdictSound, isReady, hok, beq_self_eq_true, if_true, Bool.and_eq_true] at hs
  rw [hm] at hs
  exact absurd hs.2 (by decide)

/-- **C11 (what the driver evaluates on two consecutive checks)** — `fallsBack`: the counter moves by exactly the pod that
    degraded, and the second verdict is `Ready` only if the pods that are left say so. -/
theorem verdict_falls_back_oracle (rel : Rel) (batch : Int) (w : Wl) (cl : Cluster) (f : Fault) (h : Degrade) (i : Nat)
    (o1 o2 : VerdictOut) (h1 : planeVerdict rel batch (some w) cl f = .val o1)
    (h2 : planeVerdict rel batch (some w) (degraded cl h i) f = .val o2) :
    fallsBack rel batch w cl h i o1 o2 = true := by
  unfold fallsBack
  have hs := verdict_sound rel batch (some w) (degraded cl h i) f o2 h2
  simp only [verdictSound, Bool.and_eq_true] at hs
  have hsecond : (if isReady o2 = true then readyMeansPods rel batch w (degraded cl h i) else true) = true := hs.2
  rw [hsecond, Bool.and_true]
  cases hp : cl.pods[i]? with
  | none => rfl
  | some p =>
    obtain ⟨_, c1⟩ := planeVerdict_cases rel batch (some w) cl f o1 h1
    obtain ⟨_, c2⟩ := planeVerdict_cases rel batch (some w) (degraded cl h i) f o2 h2
    rcases c1 with ⟨hc1, _⟩ | ⟨w1, r1, hd1, hr1, _, hc1, _⟩
    · simp [hc1]
    · rcases c2 with ⟨hc2, _⟩ | ⟨w2, r2, hd2, hr2, _, hc2, _⟩
      · simp [hc1, hc2]
      · cases hd1; cases hd2
        simp only [hc1, hc2, countersOf_updatedReady]
        cases hl : needsList w
        · simp [readyPods, hl]
        · simp only [if_true, beq_iff_eq]
          exact readyPods_degraded w cl h i p hl hp

/-- **C07 (what the driver evaluates)** — completeness: whenever the reads succeed and the pods satisfy the batch, the
    answer is `Ready`. -/
theorem verdict_complete (rel : Rel) (batch : Int) (d : Option Wl) (cl : Cluster) (f : Fault) (o : VerdictOut)
    (h : planeVerdict rel batch d cl f = .val o) :
    verdictComplete rel batch d cl f o = true := by
  obtain ⟨_, hcases⟩ := planeVerdict_cases rel batch d cl f o h
  unfold verdictComplete
  cases d with
  | none => rfl
  | some w =>
    simp only
    split
    · rename_i hcond
      simp only [Bool.and_eq_true] at hcond
      obtain ⟨hro, hm⟩ := hcond
      rcases hcases with ⟨_, _, _, hd | ⟨w', hd, hro'⟩⟩ | ⟨w', r, hd, hr, _, _, hrest⟩
      · cases hd
      · cases hd; rw [hro] at hro'; cases hro'
      · cases hd
        rcases hrest with ⟨_, _, hv⟩ | ⟨hr0, e, he, _, hv⟩
        · simp [isReady, hv]
        · simp only [readyMeansPods, hr, hr0, if_false, he] at hm
          have : readyMeans (batchCtxOf rel w (countersOf w r cl) e) none = true := by
            simp only [readyMeans, batchCtxOf, countersOf_updatedReady, Bool.and_true]
            simpa [countersOf] using hm
          simp [isReady, hv, RV.Props.C11.ready_complete _ none this]
    · rfl

/-- **C07 `verdict_ready_when_pods_ready`** — for every workload, cluster and plan: when the Get of the workload and (where
    the pods are listed) the List succeed and the pods satisfy the batch (`readyMeansPods`: the workload is empty, or
    enough updated pods, live ready ones within the failure threshold, at least one when any is called for), the check
    neither panics nor errs: it answers **Ready** — a batch whose pods are ready is never kept waiting. -/
theorem verdict_ready_when_pods_ready (rel : Rel) (batch : Int) (w : Wl) (cl : Cluster) (f : Fault)
    (hro : readsOK f w = true) (hm : readyMeansPods rel batch w cl = true) :
    ∃ o, planeVerdict rel batch (some w) cl f = .val o ∧ o.verdict = .is .ok := by
  cases hp : planeVerdict rel batch (some w) cl f with
  | val o =>
    have hc := verdict_complete rel batch (some w) cl f o hp
    simp only [verdictComplete, hro, hm, Bool.and_self, if_true, isReady, beq_iff_eq] at hc
    exact ⟨o, rfl, hc⟩
  | panic =>
    exfalso
    simp only [readsOK, Bool.and_eq_true, bne_iff_ne, ne_eq, Bool.not_eq_true', Bool.and_eq_false_iff,
      beq_eq_false_iff_ne] at hro
    obtain ⟨hg, hl⟩ := hro
    have hl' : ¬ (needsList w = true ∧ f = .list) := by
      intro ⟨a, b⟩
      rcases hl with h | h
      · exact h b
      · rw [a] at h; cases h
    simp only [readyMeansPods] at hm
    unfold planeVerdict at hp
    cases hr : replicasOf w with
    | none => simp [hr] at hm
    | some r =>
      simp only [build, hg, if_false, hr, hl'] at hp
      simp only [hr] at hm
      by_cases hr0 : r = 0
      · simp [hr0] at hp
      · simp only [hr0, if_false] at hp hm
        by_cases hb : batch < 0
        · simp [entryOf, hb] at hm
        · simp only [hb, if_false] at hp
          cases he : rel.batches[batch.toNat]? with
          | none => simp [entryOf, hb, he] at hm
          | some e => simp [he] at hp

/-- **no crash (the readiness check)** — like `no_crash` for the three calls: for every workload an API server can hold and
    every plan whose current batch exists (`callInputOK` of the `UpgradeBatch` call, which reads the same plan entry) the
    check does not panic, whatever the pods and whatever the fault. -/
theorem verdict_no_crash (rel : Rel) (batch : Int) (d : Option Wl) (cl : Cluster) (f : Fault) :
    noCrash rel { call := .upgradeBatch, fault := f, batch := batch, bpNil := false, edit := Edit.none } d
      (isPanic (planeVerdict rel batch d cl f)) = true := by
  unfold noCrash
  cases hp : planeVerdict rel batch d cl f with
  | val o => simp [isPanic]
  | panic =>
    simp only [isPanic, Bool.not_true]
    unfold planeVerdict at hp
    by_cases hg : f = .get
    · simp [build, hg] at hp
    · cases d with
      | none => simp [build, hg] at hp
      | some w =>
        cases hr : replicasOf w with
        | none => simp [callInputOK, hr]
        | some r =>
          by_cases hl : needsList w = true ∧ f = .list
          · simp [build, hg, hr, hl] at hp
          · simp only [build, hg, if_false, hr, hl] at hp
            by_cases hr0 : r = 0
            · simp [hr0] at hp
            · simp only [hr0, if_false] at hp
              by_cases hb : batch < 0
              · simp [callInputOK, hr, hr0, entryOf, hb]
              · simp only [hb, if_false] at hp
                cases he : rel.batches[batch.toNat]? with
                | none => simp [callInputOK, hr, hr0, entryOf, hb, he]
                | some e => simp [he] at hp

/-! ### non-vacuity of the section (tests on literals) -/

/-- a ready pod of the update revision `wl-6d8f9c7b5`, owned by the workload -/
def exPod : Pod :=
  { inNamespace := true, selMatch := true, phase := "Running", owner := .this, terminating := false,
    hashLabel := "", revLabel := "wl-6d8f9c7b5", conds := [("PodScheduled", "True"), ("Ready", "True")] }

/-- four updated ready pods (one labelled with the hash only, one owned through an intermediate owner) among pods of
    all seven other combinations of (terminating, revision, ready) and pods `ListOwnedPods` drops -/
def exPods : List Pod :=
  [exPod, { exPod with terminating := true }, { exPod with revLabel := "6d8f9c7b5" },
   { exPod with revLabel := "wl-5c9d7f6b8" }, { exPod with conds := [("Ready", "False"), ("Ready", "True")] },
   { exPod with terminating := true, conds := [] }, { exPod with terminating := true, revLabel := "" },
   { exPod with revLabel := "xwl-6d8f9c7b5", conds := [("Ready", "Unknown")] },
   { exPod with terminating := true, revLabel := "rev-old", conds := [("ContainersReady", "True")] },
   { exPod with owner := .other true, revLabel := "", hashLabel := "6d8f9c7b5" },
   { exPod with owner := .other false }, { exPod with owner := .none }, { exPod with phase := "Succeeded" },
   { exPod with selMatch := false }, { exPod with inNamespace := false }, exPod]

/-- a native StatefulSet of 10 replicas in the middle of its rollout -/
def exSts : Wl :=
  { kind := .native, replicas := some 10, us := .present "RollingUpdate" (.present (.int 6) none false), control := .this,
    inProgress := true, tmpl := 2, tmplPresent := true, updatedReady := 0, rest := 0 }

def exCluster : Cluster := { status := { updateRevision := "wl-6d8f9c7b5", updated := 4, ready := 9 }, pods := exPods }

def exRel : Rel := { batches := [pct 20, pct 40, pct 100], rollbackAnno := false, updated := 0, noNeedUpdate := none }

/-- the count is 4 of 16 pods (7 of them live pods of the workload); batch 1 (40 % of 10 = 4) is `Ready`; when pod 2 starts terminating
    3 are left and the verdict falls back to `notReady`; with a failure threshold of 1 it would still be `Ready`
    (`verdict_ready_means_pods`, `verdict_falls_back` and `verdict_ready_when_pods_ready` are not vacuous) -/
example :
    updatedReadyOf "wl-6d8f9c7b5" exPods = 4 ∧ liveCount exPods = 7 ∧
    needsList exSts = true ∧ exPods[2]?.map (liveReadyUpdated "wl-6d8f9c7b5") = some true ∧
    (match planeVerdict exRel 1 (some exSts) exCluster .none with
     | .val o => o.verdict == .is .ok && o.counters == some { replicas := 10, updated := 4, updatedReady := 4 }
     | .panic => false) = true ∧
    readyMeansPods exRel 1 exSts exCluster = true ∧ readsOK .none exSts = true ∧
    readyMeansPods exRel 1 exSts (degraded exCluster .terminating 2) = false ∧
    (match planeVerdict exRel 1 (some exSts) (degraded exCluster .terminating 2) .none with
     | .val o => o.verdict == .is .notReady && o.counters == some { replicas := 10, updated := 4, updatedReady := 3 }
     | .panic => false) = true ∧
    (match planeVerdict { exRel with failureThreshold := some (int 1) } 1 (some exSts) (degraded exCluster .terminating 2) .none with
     | .val o => o.verdict == .is .ok
     | .panic => false) = true := by
  decide +kernel

/-- the same pods behind an unstructured workload whose status reports `updatedReadyReplicas: 7`: the pods are not
    listed, the reported number is what the verdict relies on (`readyPods`), a failing List does not matter -/
example :
    needsList { exSts with kind := .unstructured, updatedReady := 7 } = false ∧
    (match planeVerdict exRel 1 (some { exSts with kind := .unstructured, updatedReady := 7 }) exCluster .list with
     | .val o => o.verdict == .is .ok && o.counters == some { replicas := 10, updated := 4, updatedReady := 7 }
     | .panic => false) = true ∧
    (match planeVerdict exRel 1 (some exSts) exCluster .list with
     | .val o => o.verdict == .err
     | .panic => false) = true := by
  decide +kernel

end RV.Props.CtlSts
