import RV.Lemmas.CtlCanary
/-!
# Theorems about the canary-style Deployment control plane (attached to C06, C01, C05, C18)

`call br op c w exp` is one call of the real plane (`Initialize` / `UpgradeBatch` /
`EnsureBatchPodsReadyAndLabeled` / `Finalize`, a fresh plane object per call) from the world `w`
(any list of Deployments: the stable one, any number of canary candidates, foreign ones) with the
in-memory creation expectation `exp`, under the fault configuration `c` (the `k`-th counted API call
and every later one fail, for **every** `k`; reads counted or not).  `run` chains calls, with an
environment event before each.  All statements quantify over every world, BatchRelease, fault
configuration and run; the only hypothesis on worlds is the API-server fact that object names are
unique (`namesNodup`), and only where a statement needs it.
-/
namespace RV.Props.CtlCanary
open RV.Arith RV.CtlCanary RV.Oracle.CtlCanary

/-! ## C06 — faults are reported, `Finalize` returning nil means nothing is leaked -/

/-- **C06 errors are never swallowed** — if any API call made by a call of the plane failed (the fault
    index was reached), the call returns an error; for every operation, fault index and world. -/
theorem fault_reported (br : BR) (op : Op) (c : Cfg) (w : World) (exp : Exp) :
    faultReported c (call br op c w exp) = true := by
  unfold faultReported
  cases hk : c.failAt with
  | none => rfl
  | some k =>
    simp only
    split
    · rename_i hlt
      have h0 : ¬ faulted c (S0 w exp).n := by rintro ⟨k', _, h⟩; simp [S0] at h
      cases op
      · exact decide_eq_true (planeInitialize_fault c br (S0 w exp) h0 ⟨k, hk, hlt⟩)
      · exact decide_eq_true (planeUpgradeBatch_fault c br (S0 w exp) h0 ⟨k, hk, hlt⟩)
      · exact decide_eq_true (planeEnsureReady_fault c br (S0 w exp) h0 ⟨k, hk, hlt⟩)
      · exact decide_eq_true (planeFinalize_fault c br (S0 w exp) h0 ⟨k, hk, hlt⟩)
    · rfl

/-- **C06 `finalize_ok_means_gone`** — whenever `Finalize` returns no error, no Deployment owned by this
    BatchRelease still carries the batch-release finalizer: every failed finalizer removal is reported,
    whatever the number of canary Deployments and wherever the fault hits. -/
theorem finalize_ok_means_gone (br : BR) (op : Op) (c : Cfg) (w : World) (exp : Exp)
    (hnd : namesNodup w = true) :
    finalizeOkMeansGone op (call br op c w exp) = true := by
  unfold finalizeOkMeansGone
  split
  · rename_i h
    obtain ⟨hop, hres⟩ := h
    subst hop
    obtain ⟨w1, ids, hw1, _, _, _, hok⟩ := planeFinalize_spec c br w exp
    have hcall : planeFinalize c br (S0 w exp) = ((planeFinalize c br (S0 w exp)).1, .ok) := by
      have : (planeFinalize c br (S0 w exp)).2 = .ok := hres
      rw [← this]
    obtain ⟨s3, hs3, hloop⟩ := hok _ hcall
    have hnd1 : (names s3.w).Nodup := by
      rw [hs3]
      rcases hw1 with ⟨h, _⟩ | ⟨_, h⟩
      · rw [h]; exact (namesNodup_iff w).mp hnd
      · rw [h, names_modify _ _ _ (by intro d; rfl)]; exact (namesNodup_iff w).mp hnd
    have hgone := deleteLoop_ok_gone c (ownedDeps w1) s3 _ hnd1 hloop
    apply List.all_eq_true.mpr
    intro x hx
    show (!(owned x && x.finalizer)) = true
    cases hxf : x.finalizer
    · simp
    · cases hxo : owned x
      · simp
      · exfalso
        obtain ⟨hx1, hx2⟩ := hgone x hx hxf
        have hmem : x ∈ ownedDeps w1 := by
          rw [hs3] at hx1
          unfold ownedDeps
          exact List.mem_filter.mpr ⟨hx1, by simpa [owned] using hxo⟩
        exact hx2 x hmem hxf rfl
  · rfl

/-- **C06 `initialize_single_canary`, one call** — a Deployment appears only in `Initialize`, at most one per
    call, only when no active Deployment owned by this BatchRelease has the stable Deployment's current pod
    template (re-discovery by owner + template, not by a remembered name), and what is created is a
    well-formed canary: owned, finalizer set, 0 replicas, un-paused, and itself matching the template — so
    the next `Initialize` finds it.  For every fault index and expectation state. -/
theorem create_guarded (br : BR) (op : Op) (c : Cfg) (w : World) (exp : Exp)
    (hnd : namesNodup w = true) :
    createGuarded br op w (call br op c w exp) = true := by
  unfold createGuarded
  have hndw := (namesNodup_iff w).mp hnd
  obtain ⟨id, f, ids, hf, hwhich, hids, hworld⟩ := call_shape br op c w exp
  have hp : Pres f := which_pres hwhich
  rcases hworld with h | ⟨hop, hids0, st, cd, hst, hnew, hnone, h, hres⟩
  · have hnil : newDeps w (call br op c w exp).w = [] := by
      unfold newDeps
      rw [List.filter_eq_nil_iff]
      intro d' hd'
      rcases mem_after (P := fun _ => False) hf hndw (Or.inl h) hd' with ⟨d, _, _, hfind⟩ | ⟨_, hF, _⟩
      · simp [hfind]
      · exact hF.elim
    rw [hnil]
  · subst hop
    obtain ⟨tp, htp, hcd⟩ := newCanary_some hnew
    have hcdname : cd.name = w.maxName + 1 := by rw [hcd]; simp [maxName_modify _ _ _ hf]
    have hone : newDeps w (call br .init c w exp).w = [cd] := by
      unfold newDeps
      rw [h]
      unfold World.add
      rw [List.filter_append]
      have h1 : List.filter (fun d => (w.find d.name).isNone) (w.modify id f).deps = [] := by
        rw [List.filter_eq_nil_iff]
        intro x hx
        unfold World.modify at hx
        obtain ⟨d, hd, rfl⟩ := List.mem_map.mp hx
        have : (if d.name = id then f d else d).name = d.name := by split <;> simp [hf]
        rw [this, find_of_mem hndw hd]; simp
      have h2 : List.filter (fun d => (w.find d.name).isNone) [cd] = [cd] := by
        simp [hcdname, find_fresh w]
      rw [h1, h2]; rfl
    rw [hone]
    dsimp only
    have hmc := matchCount_zero_of_none hf hp hst hnone
    have hkey : st.name = br.key := (find_some hst).2
    have hfindkey : (call br .init c w exp).w.find br.key = some st := by
      rw [h, find_add, hst]
    have hmatch : matching br (call br .init c w exp).w cd = true := by
      unfold matching
      rw [hfindkey, hcd]
      simp [owned, eqIgnore_patched htp]
    have hwf : wellFormedCanary br (call br .init c w exp).w cd = true := by
      unfold wellFormedCanary
      rw [hmatch, hcd]
      simp [hkey]
    simp [hmc, hwf]

/-- **C06**, one call — the number of active canary Deployments for the current template never grows beyond
    one (if there were several to begin with, it does not grow at all). -/
theorem single_canary (br : BR) (op : Op) (c : Cfg) (w : World) (exp : Exp)
    (hnd : namesNodup w = true) :
    singleCanary br w (call br op c w exp) = true := by
  unfold singleCanary
  apply decide_eq_true
  have hndw := (namesNodup_iff w).mp hnd
  obtain ⟨id, f, ids, hf, hwhich, hids, hworld⟩ := call_shape br op c w exp
  have hp : Pres f := which_pres hwhich
  let P : Dep → Prop := fun cd => op = .init ∧ (call br op c w exp).res = .err ∧
      ∃ st, (w.modify id f).find br.key = some st ∧ newCanary br st (w.modify id f) = some cd ∧
        filterCanary br (filterActive (ownedDeps (w.modify id f))) (some st.template) = none
  have hafter : After w id f ids P (call br op c w exp).w := shape_after hf hworld
  have hstable : ∀ cd, P cd → (w.find br.key).isSome := by
    rintro cd ⟨_, _, st, hst, _⟩
    rw [find_modify _ _ _ _ hf] at hst
    cases hw : w.find br.key with
    | none => rw [hw] at hst; cases hst
    | some _ => rfl
  have hold : ∀ ids', After w id f ids' P (call br op c w exp).w →
      ((w.deps.filterMap (eff id f ids')).filter (matching br (call br op c w exp).w)).length ≤ matchCount br w := by
    intro ids' ha
    unfold matchCount
    apply filter_filterMap_length_le
    intro d _ d' he hm
    exact matching_after hf hp hndw ha hstable he hm
  rcases hworld with h | ⟨hop, hids0, st, cd, hst, hnew, hnone, h, hres⟩
  · have := hold ids hafter
    have hd : (call br op c w exp).w.deps = w.deps.filterMap (eff id f ids) := by rw [h, effW_deps]
    unfold matchCount at this ⊢
    rw [hd]
    omega
  · subst hids0
    have := hold [] hafter
    have hmc := matchCount_zero_of_none hf hp hst hnone
    have hd : (call br op c w exp).w.deps = w.deps.filterMap (eff id f []) ++ [cd] := by
      rw [h]; unfold World.add; rw [modify_deps_eff]
    have hle : (List.filter (matching br (call br op c w exp).w) [cd]).length ≤ 1 := by
      simp only [List.filter_cons]; split <;> simp
    unfold matchCount at ⊢
    rw [hd, List.filter_append, List.length_append]
    unfold matchCount at this hmc
    omega

/-- **C06** — the creation expectation guards `create`: while an expectation is pending and has not timed
    out, no call creates anything; and whenever a call creates a Deployment the expectation is pending
    afterwards (so the next reconcile waits for the informer instead of creating a second canary). -/
theorem expectation_guards_create (br : BR) (op : Op) (c : Cfg) (w : World) (exp : Exp) :
    expectationGuardsCreate c w exp (call br op c w exp) = true := by
  have hlen : ((call br op c w exp).w.deps.length ≤ w.deps.length) ∨
      (¬ (exp = .pending ∧ c.timedOut = false) ∧ (call br op c w exp).exp = .pending) := by
    cases op
    case init =>
      rcases planeInitialize_len c br w exp with h | h
      · left; exact Nat.le_of_eq h
      · right; exact h
    all_goals
      left
      obtain ⟨id, f, ids, hf, _, _, hworld⟩ := call_shape br _ c w exp
      rcases hworld with h | ⟨hop, _⟩
      · rw [h, effW_deps]
        exact List.length_filterMap_le _ _
      · cases hop
  unfold expectationGuardsCreate
  rcases hlen with h | ⟨h1, h2⟩
  · have h' : ¬ (call br op c w exp).w.deps.length > w.deps.length := by omega
    simp [h, h']
  · simp only [h1, if_false, h2, Bool.true_and]
    split <;> simp

/-! ## C05 — `Finalize` releases the stable Deployment -/

/-- **C05 `finalize_releases_stable`** — after a successful `Finalize` the stable Deployment, if it
    exists, carries no control-info and `paused = (batchPartition ≠ nil)`: un-paused when the release
    is promoted (`batchPartition = nil`), kept paused otherwise. -/
theorem finalize_releases_stable (br : BR) (op : Op) (c : Cfg) (w : World) (exp : Exp)
    (hnd : namesNodup w = true) :
    finalizeReleasesStable br op (call br op c w exp) = true := by
  unfold finalizeReleasesStable
  split
  · rename_i h
    obtain ⟨hop, hres⟩ := h
    subst hop
    obtain ⟨w1, ids, hw1, hw', _, _, _⟩ := planeFinalize_spec c br w exp
    have hres' : (planeFinalize c br (S0 w exp)).2 = .ok := hres
    have hwc : (call br .fin c w exp).w = dropAll w1 ids := hw'
    rw [hwc]
    have hndw : (names w).Nodup := (namesNodup_iff w).mp hnd
    rcases hw1 with ⟨h1, h2⟩ | ⟨h1, h2⟩
    · -- the stable Deployment does not exist
      subst h1
      rw [find_dropAll ids br.key hndw, h2 hres']
      rfl
    · subst h2
      have hnd1 : (names (w.modify br.key (releaseStable br.partition.isSome))).Nodup := by
        rw [names_modify _ _ _ (by intro d; rfl)]; exact hndw
      rw [find_dropAll ids br.key hnd1, find_modify _ _ _ _ (by intro d; rfl)]
      cases hf : w.find br.key with
      | none => rfl
      | some st =>
        have hname := (find_some hf).2
        simp only [Option.map_some, hname, if_true, Option.bind_some]
        cases hdf : dropFn ids (releaseStable br.partition.isSome st) with
        | none => rfl
        | some st' =>
          rcases dropFn_some hdf with h | ⟨_, h⟩ <;> subst h <;> simp [releaseStable]
  · rfl

/-- **C11 / C05 `finalize_done_means_resumed`** — whenever `Finalize` under finalizing policy WaitResume
    returns no error — the only way the BatchRelease reaches `Completed` — the stable Deployment *as stored
    after the call* is really promoted: not paused, `status.replicas = status.updatedReplicas`, availability
    within maxUnavailable (or the Deployment does not exist).  For every world — in particular the world a
    failed earlier attempt left behind: already released, already resumed, pods not yet updated — and every
    fault index. -/
theorem finalize_done_means_resumed (br : BR) (op : Op) (c : Cfg) (w : World) (exp : Exp)
    (hnd : namesNodup w = true) :
    finalizeDoneMeansResumed br op (call br op c w exp) = true := by
  unfold finalizeDoneMeansResumed
  split
  · rename_i h
    obtain ⟨hop, hres, hwr⟩ := h
    subst hop
    have hndw : (names w).Nodup := (namesNodup_iff w).mp hnd
    have hres' : (planeFinalize c br (S0 w exp)).2 = .ok := hres
    obtain ⟨w1, ids, hw1, hw', _, _, _⟩ := planeFinalize_spec c br w exp
    have hwc : (call br .fin c w exp).w = dropAll w1 ids := hw'
    rw [hwc]
    rcases hw1 with ⟨h1, h2⟩ | ⟨h1, h2⟩
    · subst h1
      rw [find_dropAll ids br.key hndw, h2 hres']
      rfl
    · subst h2
      have hnd1 : (names (w.modify br.key (releaseStable br.partition.isSome))).Nodup := by
        rw [names_modify _ _ _ (by intro d; rfl)]; exact hndw
      rw [find_dropAll ids br.key hnd1]
      rcases planeFinalize_wait c br w exp hres' hwr with hnone | ⟨d, hd, hwd⟩
      · rw [hnone] at h1; cases h1
      · rw [hd]
        simp only [Option.bind_some]
        cases hdf : dropFn ids d with
        | none => rfl
        | some d' => simp [wait_dropFn hdf, hwd]
  · rfl

/-- **C05** — no call changes anything of the stable Deployment except its control-info annotation and
    `spec.paused` (and the generation the API server bumps with it): template, replicas, strategy, owner,
    finalizers stay as the user configured them; `paused` changes only in `Finalize`, control-info only in
    `Initialize` / `Finalize`.  (A stable Deployment that is itself owned by the BatchRelease is outside.) -/
theorem stable_frame (br : BR) (op : Op) (c : Cfg) (w : World) (exp : Exp)
    (hnd : namesNodup w = true) :
    stableFrame br op w (call br op c w exp) = true := by
  unfold stableFrame
  cases hst : w.find br.key with
  | none => rfl
  | some st =>
    dsimp only
    have hndw := (namesNodup_iff w).mp hnd
    obtain ⟨hmem, hname⟩ := find_some hst
    obtain ⟨id, f, ids, hf, hwhich, hids, hworld⟩ := call_shape br op c w exp
    have hafter := shape_after hf hworld
    have hfind := find_after hf hndw hafter hmem
    rw [hname] at hfind
    rw [hfind]
    by_cases hown : st.owner = .this
    · cases eff id f ids st <;> simp [hown]
    · -- an un-owned Deployment is not among the finalizer removals, nor the selected canary
      have howner : (if st.name = id then f st else st).owner = st.owner := by
        rcases hwhich with rfl | ⟨_, _, rfl⟩ | ⟨_, _, rfl⟩ | ⟨_, cd, t, cur, st', _, rfl, _⟩ <;> split <;> rfl
      have hnin : (if st.name = id then f st else st).name ∉ ids := by
        rcases hids with rfl | ⟨_, hids⟩
        · simp
        · intro hin
          have hn : (if st.name = id then f st else st).name = st.name := by split <;> simp [hf]
          rw [hn] at hin
          have := (ids_owned hf hndw hids hmem hin).1
          rw [howner] at this
          exact hown this
      have heff : eff id f ids st = some (if st.name = id then f st else st) := by
        unfold eff dropFn; simp [hnin]
      rw [heff]
      dsimp only
      rcases hwhich with rfl | ⟨hop, rfl, rfl⟩ | ⟨hop, rfl, rfl⟩ | ⟨hop, cd, t, cur, st', rfl, rfl, _, _, hsel, _⟩
      · simp
      · rw [if_pos hname]; simp [setCtrl, hop]
      · rw [if_pos hname]; simp [releaseStable, hop]
      · obtain ⟨hcd, hcdo, _⟩ := selectCanary_mem hsel
        have hne : st.name ≠ cd.name := by
          intro he
          have h1 := find_of_mem hndw hmem
          have h2 := find_of_mem hndw hcd
          rw [he, h2] at h1
          cases h1
          exact hown hcdo
        simp [hne]

/-! ## C18 — the finalizer on canary Deployments is removed only by `Finalize` -/

/-- **C18** — outside `Finalize` no Deployment loses the batch-release finalizer (or any finalizer), none
    is put into deletion and none disappears: `Initialize`, `UpgradeBatch` and
    `EnsureBatchPodsReadyAndLabeled` never tear anything down, under any fault. -/
theorem finalizer_only_by_finalize (br : BR) (op : Op) (c : Cfg) (w : World) (exp : Exp)
    (hnd : namesNodup w = true) :
    finalizerOnlyByFinalize op w (call br op c w exp) = true := by
  unfold finalizerOnlyByFinalize
  split
  · rfl
  · rename_i hop
    have hndw := (namesNodup_iff w).mp hnd
    obtain ⟨id, f, ids, hf, hwhich, hids, hworld⟩ := call_shape br op c w exp
    have hids' : ids = [] := by
      rcases hids with h | ⟨h, _⟩
      · exact h
      · exact absurd h hop
    subst hids'
    have hfields : ∀ d, (f d).finalizer = d.finalizer ∧ (f d).otherFinalizer = d.otherFinalizer ∧
        (f d).deleting = d.deleting := by
      intro d
      rcases hwhich with rfl | ⟨_, _, rfl⟩ | ⟨h, _⟩ | ⟨_, cd, t, cur, st, _, rfl, _⟩
      · exact ⟨rfl, rfl, rfl⟩
      · exact ⟨rfl, rfl, rfl⟩
      · exact absurd h hop
      · exact ⟨rfl, rfl, rfl⟩
    apply List.all_eq_true.mpr
    intro d hd
    rw [find_after hf hndw (shape_after hf hworld) hd, eff_nil]
    dsimp only
    split <;> simp [hfields]

/-- **C18 / isolation** — a Deployment that is neither owned by this BatchRelease nor its workload is never
    touched by any call, under any fault. -/
theorem foreign_untouched (br : BR) (op : Op) (c : Cfg) (w : World) (exp : Exp)
    (hnd : namesNodup w = true) :
    foreignUntouched br w (call br op c w exp) = true := by
  unfold foreignUntouched
  have hndw := (namesNodup_iff w).mp hnd
  obtain ⟨id, f, ids, hf, hwhich, hids, hworld⟩ := call_shape br op c w exp
  have hafter := shape_after hf hworld
  apply List.all_eq_true.mpr
  intro d hd
  cases ho : owned d
  case true => simp
  case false =>
    by_cases hk : d.name = br.key
    · simp [hk]
    · have hown : d.owner ≠ .this := by simpa [owned] using ho
      -- the single write does not hit `d`
      have hx : (if d.name = id then f d else d) = d := by
        rcases hwhich with rfl | ⟨_, rfl, _⟩ | ⟨_, rfl, _⟩ | ⟨_, cd, t, cur, st, rfl, _, _, _, hsel, _⟩
        · simp
        · simp [hk]
        · simp [hk]
        · obtain ⟨hcd, hcdo, _⟩ := selectCanary_mem hsel
          have : d.name ≠ cd.name := by
            intro he
            have h1 := find_of_mem hndw hd
            have h2 := find_of_mem hndw hcd
            rw [he, h2] at h1
            cases h1
            exact hown hcdo
          simp [this]
      -- nor do the finalizer removals
      have hnin : d.name ∉ ids := by
        rcases hids with rfl | ⟨_, hids⟩
        · simp
        · intro hin
          have := (ids_owned hf hndw hids hd hin).1
          rw [hx] at this
          exact hown this
      have : eff id f ids d = some d := by
        unfold eff dropFn
        rw [hx]; simp [hnin]
      rw [find_after hf hndw hafter hd, this]
      simp

/-- **C18** — `Finalize` takes nothing from the Deployments but the batch-release finalizer, and only from
    Deployments this BatchRelease owns; an owned Deployment disappears only if it was already in deletion
    and that finalizer was its last one. -/
theorem finalize_only_drops_finalizer (br : BR) (op : Op) (c : Cfg) (w : World) (exp : Exp)
    (hnd : namesNodup w = true) :
    finalizeOnlyDropsFinalizer br op w (call br op c w exp) = true := by
  unfold finalizeOnlyDropsFinalizer
  split
  · rename_i hop
    subst hop
    have hndw := (namesNodup_iff w).mp hnd
    obtain ⟨id, f, ids, hf, hwhich, hids, hworld⟩ := call_shape br .fin c w exp
    have hafter := shape_after hf hworld
    apply List.all_eq_true.mpr
    intro d hd
    by_cases hk : d.name = br.key
    · simp [hk]
    · have hx : (if d.name = id then f d else d) = d := by
        rcases hwhich with rfl | ⟨h, _⟩ | ⟨_, rfl, _⟩ | ⟨h, _⟩
        · simp
        · cases h
        · simp [hk]
        · cases h
      have hown : d.name ∈ ids → owned d = true ∧ d.finalizer = true := by
        intro hin
        rcases hids with rfl | ⟨_, hids⟩
        · simp at hin
        · have := ids_owned hf hndw hids hd hin
          rw [hx] at this
          exact ⟨by simp [owned, this.1], this.2⟩
      rw [find_after hf hndw hafter hd]
      unfold eff
      rw [hx]
      cases hdf : dropFn ids d with
      | none =>
        obtain ⟨h1, h2, h3⟩ := dropFn_none hdf
        obtain ⟨h4, h5⟩ := hown h1
        simp [hk, h2, h3, h4, h5]
      | some d' =>
        rcases dropFn_some hdf with h | ⟨h1, h⟩
        · subst h; simp
        · obtain ⟨h4, h5⟩ := hown h1
          subst h
          simp [hk, h4, h5]
  · rfl

/-! ## C01 — the canary Deployment's replicas follow the current step -/

/-- **C01 `canary_replicas_within_step`** — on every path of every call (any fault index, retries
    included) `spec.replicas` of every Deployment is left as it was, except that `UpgradeBatch` may raise
    the replicas of a Deployment owned by this BatchRelease to **exactly**
    `CalculateBatchReplicas(stable replicas, batches[currentBatch])`, and only from a smaller value;
    a Deployment the plane creates starts with 0 replicas. -/
theorem canary_replicas_within_step (br : BR) (op : Op) (c : Cfg) (w : World) (exp : Exp)
    (hnd : namesNodup w = true) :
    replicasWithinStep br op w (call br op c w exp) = true := by
  unfold replicasWithinStep
  have hndw := (namesNodup_iff w).mp hnd
  obtain ⟨id, f, ids, hf, hwhich, hids, hworld⟩ := call_shape br op c w exp
  have hafter := shape_after hf hworld
  apply List.all_eq_true.mpr
  intro d' hd'
  rcases mem_after hf hndw hafter hd' with ⟨d, hd, heff, hfind⟩ | ⟨_, ⟨_, _, st, _, hnew, _⟩, _, hnone, _⟩
  · rw [hfind]
    dsimp only
    have hrep : d'.replicas = (if d.name = id then f d else d).replicas := by
      rcases eff_some heff with h | ⟨_, h⟩ <;> rw [h]
    rcases hwhich with rfl | ⟨_, _, rfl⟩ | ⟨_, _, rfl⟩ | ⟨hop, cd, t, cur, st, rfl, rfl, _, _, hsel, htgt, hcur, hlt, _⟩
    · have : d'.replicas = d.replicas := by rw [hrep]; simp
      simp [this]
    · have : d'.replicas = d.replicas := by rw [hrep]; split <;> rfl
      simp [this]
    · have : d'.replicas = d.replicas := by rw [hrep]; split <;> rfl
      simp [this]
    · by_cases hn : d.name = cd.name
      · obtain ⟨hcd, hcdo, _⟩ := selectCanary_mem hsel
        have hdcd : d = cd := by
          have h1 := find_of_mem hndw hd
          have h2 := find_of_mem hndw hcd
          rw [hn, h2] at h1
          cases h1; rfl
        subst hdcd
        have : d'.replicas = some t := by rw [hrep]; simp [setReplicas]
        simp [this, hop, owned, hcdo, htgt, hcur, hlt]
      · have : d'.replicas = d.replicas := by rw [hrep]; simp [hn]
        simp [this]
  · rw [hnone]
    obtain ⟨tp, _, rfl⟩ := newCanary_some hnew
    simp

/-- **C01** — a successful `UpgradeBatch` leaves the selected canary Deployment at
    `max(current, CalculateBatchReplicas(stable replicas, batches[currentBatch]))`: exactly the step's
    target unless the canary was already larger (the plane never scales a canary down). -/
theorem upgrade_reaches_target (br : BR) (op : Op) (c : Cfg) (w : World) (exp : Exp)
    (hnd : namesNodup w = true) :
    upgradeReachesTarget br op w (call br op c w exp) = true := by
  unfold upgradeReachesTarget
  split
  · rename_i h
    obtain ⟨hop, hres⟩ := h
    subst hop
    have hndw := (namesNodup_iff w).mp hnd
    have hres' : (planeUpgradeBatch c br (S0 w exp)).2 = .ok := hres
    obtain ⟨_, hspec⟩ := planeUpgradeBatch_spec c br w exp
    rcases hspec with ⟨hw, hok⟩ | ⟨cd, t, cur, st, hst, hne, hsel, htgt, hcur, hlt, _, hw⟩
    · obtain ⟨st, hst, hcase⟩ := hok hres'
      rw [hst]
      dsimp only
      rcases hcase with h0 | ⟨cd, t, cur, hsel, htgt, hcur, hle⟩
      · simp [h0]
      · split
        · rfl
        · rw [hsel, htgt]
          dsimp only
          have hwc : (call br .upgrade c w exp).w = w := hw
          rw [hwc, hcur, find_of_mem hndw (selectCanary_mem hsel).1]
          simp [hcur, Int.max_eq_left hle]
    · rw [hst]
      dsimp only
      rw [if_neg (by simpa using hne), hsel, htgt]
      dsimp only
      have hwc : (call br .upgrade c w exp).w = w.modify cd.name (setReplicas t) := hw
      rw [hwc, hcur, find_modify _ _ _ _ (by intro d; rfl), find_of_mem hndw (selectCanary_mem hsel).1]
      simp [setReplicas, Int.max_eq_right (Int.le_of_lt hlt)]
  · rfl

/-! ## runs: any number of retries, any fault index at every call, events in between -/

/-- **C06 `initialize_single_canary`** — in every run (any sequence of `Initialize` / `UpgradeBatch` /
    `EnsureBatchPodsReadyAndLabeled` / `Finalize` calls, each with its own fault index, any number of
    retries, the creation expectation lost / timed out / observed at any point, the Deployment controller
    catching up in between), as long as the user does not change the stable pod template, at no point
    are there more active canary Deployments for the current template than one — or than there were at
    the start.  With `create_guarded`: the plane creates at most one, and only when there is none. -/
theorem initialize_single_canary (br : BR) (steps : List Step) (w : World) (exp : Exp)
    (hnd : namesNodup w = true) (hev : ∀ st ∈ steps, st.ev ≠ .newTemplate) :
    ∀ o ∈ run br w exp steps, matchCount br o.w ≤ max 1 (matchCount br w) := by
  induction steps generalizing w exp with
  | nil => intro o ho; cases ho
  | cons st rest ih =>
    intro o ho
    have hndw := (namesNodup_iff w).mp hnd
    have hnde := applyEvent_nodup br st.ev w exp hndw
    have hmce := applyEvent_matchCount br st.ev w exp (hev st List.mem_cons_self)
    have hhead := single_canary { br with currentBatch := st.currentBatch } st.op st.cfg
      (applyEvent br st.ev w exp).1 (applyEvent br st.ev w exp).2 ((namesNodup_iff _).mpr hnde)
    unfold singleCanary at hhead
    have hhead' : matchCount br (step br w exp st).w ≤ max 1 (matchCount br w) := by
      have := of_decide_eq_true hhead
      simp only [matchCount_batch] at this
      rw [hmce] at this
      exact this
    simp only [run, List.mem_cons] at ho
    rcases ho with rfl | ho
    · exact hhead'
    · have hndo : namesNodup (step br w exp st).w = true :=
        (namesNodup_iff _).mpr (call_nodup _ _ _ _ _ hnde)
      have := ih (step br w exp st).w (step br w exp st).exp hndo
        (fun s hs => hev s (List.mem_cons_of_mem _ hs)) o ho
      omega

/-- **C11 `finalize_done_means_resumed`, over runs** — along every run (any retry history: earlier `Finalize`
    attempts that failed in the wait or at any fault index, events in between), every `Finalize` call that
    returns no error under WaitResume leaves the stored stable Deployment resumed and fully updated. -/
theorem finalize_done_means_resumed_run (br : BR) (steps : List Step) (w : World) (exp : Exp)
    (hnd : namesNodup w = true) :
    ∀ p ∈ List.zip steps (run br w exp steps),
      finalizeDoneMeansResumed { br with currentBatch := p.1.currentBatch } p.1.op p.2 = true := by
  induction steps generalizing w exp with
  | nil => intro p hp; cases hp
  | cons st rest ih =>
    intro p hp
    have hnde := applyEvent_nodup br st.ev w exp ((namesNodup_iff w).mp hnd)
    simp only [run, List.zip_cons_cons, List.mem_cons] at hp
    rcases hp with rfl | hp
    · exact finalize_done_means_resumed { br with currentBatch := st.currentBatch } st.op st.cfg
        (applyEvent br st.ev w exp).1 (applyEvent br st.ev w exp).2 ((namesNodup_iff _).mpr hnde)
    · exact ih (step br w exp st).w (step br w exp st).exp
        ((namesNodup_iff _).mpr (call_nodup _ _ _ _ _ hnde)) p hp

/-- **C01 `canary_replicas_within_step`, over runs** — let `R` be the replicas of the (un-owned) stable
    Deployment and `B ≥ 0` a bound on `CalculateBatchReplicas(R, batches[i])` for every batch index `i` the
    run upgrades.  If no Deployment owned by the BatchRelease starts above `B`, none is ever above `B`, at
    any point of any run — whatever the faults, retries and events.  (The plane writes nothing but the
    step's target into `spec.replicas`, see `canary_replicas_within_step`.) -/
theorem canary_replicas_bounded (br : BR) (steps : List Step) (w : World) (exp : Exp) (R B : Int)
    (hnd : namesNodup w = true) (hB0 : 0 ≤ B)
    (hst : ∃ st, w.find br.key = some st ∧ st.owner ≠ .this ∧ st.replicas = some R)
    (hB : ∀ st ∈ steps, ∀ e, batchEntry { br with currentBatch := st.currentBatch } = some e →
        calcBatchReplicas R e ≤ B)
    (h0 : ∀ d ∈ w.deps, d.owner = .this → ∀ r, d.replicas = some r → r ≤ B) :
    ∀ o ∈ run br w exp steps, ∀ d ∈ o.w.deps, d.owner = .this → ∀ r, d.replicas = some r → r ≤ B := by
  induction steps generalizing w exp with
  | nil => intro o ho; cases ho
  | cons s rest ih =>
    intro o ho
    have hndw := (namesNodup_iff w).mp hnd
    obtain ⟨st, hfind, hsto, hstr⟩ := hst
    -- the world after the event
    have hnde := applyEvent_nodup br s.ev w exp hndw
    have hste : ∃ st', (applyEvent br s.ev w exp).1.find br.key = some st' ∧ st'.owner ≠ .this ∧ st'.replicas = some R := by
      cases s.ev
      · exact ⟨st, hfind, hsto, hstr⟩
      · exact ⟨st, hfind, hsto, hstr⟩
      · refine ⟨observed st, ?_, hsto, hstr⟩
        show ({ deps := w.deps.map observed } : World).find br.key = _
        have := find_map_aux w.deps observed br.key (fun _ => rfl)
        unfold World.find at hfind ⊢
        rw [this, hfind]; rfl
      · show ∃ st', (w.modify br.key _).find br.key = some st' ∧ _
        rw [find_modify _ _ _ _ (by intro d; rfl), hfind]
        simp only [Option.map_some, (find_some hfind).2, if_true]
        exact ⟨_, rfl, hsto, hstr⟩
    have h0e : ∀ d ∈ (applyEvent br s.ev w exp).1.deps, d.owner = .this → ∀ r, d.replicas = some r → r ≤ B := by
      cases s.ev
      · exact h0
      · exact h0
      · intro d hd
        obtain ⟨d0, hd0, rfl⟩ := List.mem_map.mp hd
        exact h0 d0 hd0
      · intro d hd
        obtain ⟨d0, hd0, rfl⟩ := List.mem_map.mp hd
        intro ho r hr
        split at ho <;> split at hr <;> exact h0 d0 hd0 ho r hr
    obtain ⟨st', hfind', hsto', hstr'⟩ := hste
    have htgt : ∀ t, target { br with currentBatch := s.currentBatch } (applyEvent br s.ev w exp).1 = some t → t ≤ B := by
      intro t ht
      unfold target at ht
      simp only [] at ht
      rw [hfind'] at ht
      simp only [hstr'] at ht
      cases he : batchEntry { br with currentBatch := s.currentBatch } with
      | none => rw [he] at ht; cases ht
      | some e =>
        rw [he] at ht
        simp only [Option.some.injEq] at ht
        rw [← ht]
        exact hB s List.mem_cons_self e he
    have hhead := call_replicas_bound { br with currentBatch := s.currentBatch } s.op s.cfg
      (applyEvent br s.ev w exp).1 (applyEvent br s.ev w exp).2 B ((namesNodup_iff _).mpr hnde) hB0 htgt h0e
    simp only [run, List.mem_cons] at ho
    rcases ho with rfl | ho
    · exact hhead
    · have hndo : namesNodup (step br w exp s).w = true :=
        (namesNodup_iff _).mpr (call_nodup _ _ _ _ _ hnde)
      -- the stable Deployment is still there, un-owned, with the same replicas
      have hframe := stable_frame { br with currentBatch := s.currentBatch } s.op s.cfg
        (applyEvent br s.ev w exp).1 (applyEvent br s.ev w exp).2 ((namesNodup_iff _).mpr hnde)
      have hsto : ∃ st2, (step br w exp s).w.find br.key = some st2 ∧ st2.owner ≠ .this ∧ st2.replicas = some R := by
        unfold stableFrame at hframe
        simp only [] at hframe
        rw [hfind'] at hframe
        dsimp only at hframe
        cases hf2 : (step br w exp s).w.find br.key with
        | none =>
          have hf2' : (call { br with currentBatch := s.currentBatch } s.op s.cfg
              (applyEvent br s.ev w exp).1 (applyEvent br s.ev w exp).2).w.find br.key = none := hf2
          rw [hf2'] at hframe
          simp at hframe
          exact absurd hframe hsto'
        | some st2 =>
          have hf2' : (call { br with currentBatch := s.currentBatch } s.op s.cfg
              (applyEvent br s.ev w exp).1 (applyEvent br s.ev w exp).2).w.find br.key = some st2 := hf2
          rw [hf2'] at hframe
          simp only [Bool.or_eq_true, Bool.and_eq_true, decide_eq_true_eq] at hframe
          rcases hframe with h | ⟨⟨h, _⟩, _⟩
          · exact absurd h hsto'
          · refine ⟨st2, rfl, ?_, ?_⟩
            · have : st2.owner = st'.owner := by rw [← h]
              rw [this]; exact hsto'
            · have : st2.replicas = st'.replicas := by rw [← h]
              rw [this]; exact hstr'
      exact ih (step br w exp s).w (step br w exp s).exp hndo hsto
        (fun x hx => hB x (List.mem_cons_of_mem _ hx)) hhead o ho

/-- **C01** corollary — canary Deployments never have more replicas than the stable Deployment. -/
theorem canary_never_above_stable (br : BR) (steps : List Step) (w : World) (exp : Exp) (R : Int)
    (hnd : namesNodup w = true) (hR : 0 ≤ R)
    (hst : ∃ st, w.find br.key = some st ∧ st.owner ≠ .this ∧ st.replicas = some R)
    (h0 : ∀ d ∈ w.deps, d.owner = .this → ∀ r, d.replicas = some r → r ≤ R) :
    ∀ o ∈ run br w exp steps, ∀ d ∈ o.w.deps, d.owner = .this → ∀ r, d.replicas = some r → r ≤ R :=
  canary_replicas_bounded br steps w exp R R hnd hR hst (fun _ _ e _ => calcBatch_le R e hR) h0

/-- **C06 — stale canaries are not reused**: the canary Deployment the plane works on (scales, reports in
    the status) is owned by this BatchRelease, active, and — when the stable Deployment exists — has the
    stable Deployment's *current* pod template; a canary of an older template is never picked up again
    (it is released with the others in `Finalize` and collected with the BatchRelease). -/
theorem selected_canary_is_current (br : BR) (w : World) (cd st : Dep)
    (hst : w.find br.key = some st) (hsel : selectCanary br w = some cd) :
    cd ∈ w.deps ∧ cd.owner = .this ∧ cd.deleting = false ∧ eqIgnore br st.template cd.template = true := by
  obtain ⟨h1, h2, h3⟩ := selectCanary_mem hsel
  refine ⟨h1, h2, h3, ?_⟩
  rw [selectCanary_eq, hst] at hsel
  simp only [Option.map_some] at hsel
  unfold filterCanary at hsel
  split at hsel
  · cases hsel
  · dsimp only at hsel
    have := List.find?_some hsel
    simpa using this

/-! ## non-vacuity: concrete worlds on which the hypotheses hold and the calls do something
    (these are *tests* by kernel evaluation, not the ∀ claims) -/

namespace Demo

def tpl (rev : Nat) : Template := { rev := rev, labels := [("app", "demo")], annos := [] }
def strat : Strategy := { type := .rolling, rolling := some (some (.pct 25), some (.pct 25)) }

def stable : Dep :=
  { name := 0, owner := .none, ctrl := .this, canaryOf := none, template := tpl 2, replicas := some 10, paused := true,
    finalizer := false, otherFinalizer := false, deleting := false, created := 1, generation := 3, observedGeneration := 3,
    statusReplicas := 10, updatedReplicas := 10, availableReplicas := 10, strategy := strat }

/-- a canary as the plane creates it (template patched with the label `canary=yes`), scaled to 2 -/
def canary : Dep :=
  { name := 1, owner := .this, ctrl := .this, canaryOf := some 0,
    template := { rev := 2, labels := [("app", "demo"), ("canary", "yes")], annos := [] }, replicas := some 2,
    paused := false, finalizer := true, otherFinalizer := false, deleting := false, created := 5, generation := 2,
    observedGeneration := 2, statusReplicas := 2, updatedReplicas := 2, availableReplicas := 2, strategy := strat }

/-- a canary of the previous template, newer by creation time, in deletion -/
def stale : Dep := { canary with name := 2, template := tpl 1, created := 7, replicas := some 4, deleting := true }

/-- somebody else's Deployment -/
def foreign : Dep := { canary with name := 3, owner := .other, ctrl := .other, created := 3 }

def w : World := { deps := [canary, stale, foreign, stable] }
def wNoCanary : World := { deps := [foreign, stable] }

def br : BR :=
  { key := 0, batches := [.pct 20, .pct 50, .pct 100], currentBatch := 1, partition := none, rolloutID := false,
    failureThreshold := none, waitResume := false, patch := some ([("canary", "yes")], []) }

def noFault : Cfg := { failAt := none, reads := false, timedOut := false }
def failAt (k : Nat) (reads : Bool) : Cfg := { failAt := some k, reads := reads, timedOut := false }

example : namesNodup w = true ∧ namesNodup wNoCanary = true := by decide
example : matchCount br w = 1 ∧ matchCount br wNoCanary = 0 := by decide
example : selectCanary br w = some canary := by decide

/-- `Finalize` without faults: ok, stable released and un-paused, both owned Deployments lose the finalizer
    (the one in deletion disappears), the foreign one keeps it -/
example : (call br .fin noFault w .none).res = .ok ∧
    (call br .fin noFault w .none).w.deps =
      [{ canary with finalizer := false }, foreign, { stable with ctrl := .none, paused := false, generation := 4 }] := by
  decide

/-- the second finalizer removal fails (write 2 = third write): an error is reported, and it has to be —
    `stale` still carries the finalizer -/
example : (call br .fin (failAt 2 false) w .none).res = .err ∧
    (call br .fin (failAt 2 false) w .none).w.find 2 = some stale ∧
    (call br .fin (failAt 2 false) w .none).w.find 1 = some { canary with finalizer := false } := by
  decide

/-- `UpgradeBatch` for batch 1 (50 % of 10): the selected canary goes from 2 to exactly 5; batch 0 (20 %) leaves it -/
example : (call br .upgrade noFault w .none).res = .ok ∧
    ((call br .upgrade noFault w .none).w.find 1).map (·.replicas) = some (some 5) ∧
    (call { br with currentBatch := 0 } .upgrade noFault w .none).w = w := by
  decide

/-- `Initialize` retried three times, the second attempt failing at its first write: exactly one canary appears -/
example :
    ((run br wNoCanary .none
        [{ ev := .none, op := .init, cfg := failAt 0 false, currentBatch := 0 },
         { ev := .none, op := .init, cfg := noFault, currentBatch := 0 },
         { ev := .clearExp, op := .init, cfg := noFault, currentBatch := 0 },
         { ev := .none, op := .init, cfg := noFault, currentBatch := 0 }]).map
      (fun o => (o.res, o.w.deps.length, matchCount br o.w))) =
    [(.err, 2, 0), (.err, 3, 1), (.ok, 3, 1), (.ok, 3, 1)] := by
  decide

/-- the hypotheses of `canary_never_above_stable` / `canary_replicas_bounded` on this world (R = B = 10) -/
example : (∃ st, w.find br.key = some st ∧ st.owner ≠ .this ∧ st.replicas = some 10) ∧
    (∀ d ∈ w.deps, d.owner = .this → ∀ r, d.replicas = some r → r ≤ 10) := by
  refine ⟨⟨stable, by decide, by decide, rfl⟩, ?_⟩
  intro d hd ho r hr
  simp only [w, List.mem_cons, List.mem_nil_iff, or_false] at hd
  rcases hd with rfl | rfl | rfl | rfl <;> simp [canary, stale, foreign, stable] at hr ho <;> omega

end Demo

end RV.Props.CtlCanary
